(** C26 — model of FatTreeZone (src/kernel/routing/FatTreeZone.cpp): the construction of the node vector and of the
    links (add_processing_node, generate_switches, generate_labels, get_level_position, are_related,
    connect_node_to_parents, add_internal_link) and FatTreeZone::get_local_route walking over the tables they fill.
    Model only: no proofs here.

    Parameters: [ft_cs] = num_children_per_node_ (down), [ft_ps] = num_parents_per_node_ (up), [ft_ns] =
    num_port_lower_level_ (link count); levels_ = their common length.  The C++ keeps these in [unsigned int]/[int];
    the model is over unbounded [Z] — assumption: all products are < 2^31.  A node is designated by its index in the
    vector [nodes_] (a [nat]); vector cells [parents[q]] / [children[i]] are looked up as "the last link assigned to
    that port" in the list of links kept latest first. *)
From SGV Require Import Base.Tactics Routing.Torus.
Local Open Scope Z_scope.

Record ftp := mkftp { ft_cs : list Z; ft_ps : list Z; ft_ns : list Z }.
Definition ft_levels (p : ftp) : nat := length (ft_cs p).
Definition nthz (l : list Z) (i : nat) : Z := nth i l 0.

Record fnode := mkfn { fn_id : Z; fn_level : nat; fn_pos : Z; fn_label : list Z }.
Definition fdummy : fnode := mkfn (-1) 0 (-1) [].

(** FatTreeLink + the two ports it was stored at by add_internal_link; [fl_uid] is the static counter [uniqueId] *)
Record flink := mkfl { fl_uid : Z; fl_child : nat; fl_parent : nat; fl_pport : Z; fl_cport : Z }.

Record fttab := mktab { tb_nodes : list fnode; tb_links : list flink }.
Definition node (tb : fttab) (x : nat) : fnode := nth x (tb_nodes tb) fdummy.

(* ------------------------------------------------------------------------------------------ construction *)

(** generate_switches: nodes_by_level_[0] = prod c; nodes_by_level_[i+1] = prod_{j<=i} p[j] * prod_{j>i} c[j] *)
Definition nodes_by_level (p : ftp) (i : nat) : Z :=
  match i with
  | O => prodz (ft_cs p)
  | S _ => prodz (firstn i (ft_ps p)) * prodz (skipn i (ft_cs p))
  end.

(** generate_labels: maxLabel[j] = j + 1 > i ? num_children_per_node_[j] : num_parents_per_node_[j] *)
Definition max_label (p : ftp) (i : nat) : list Z :=
  map (fun j => if (i <? j + 1)%nat then nthz (ft_cs p) j else nthz (ft_ps p) j) (seq 0 (ft_levels p)).

(** the [while (remainder && pos < levels_)] odometer step *)
Fixpoint odo_inc (maxl cur : list Z) : list Z :=
  match cur, maxl with
  | c :: cr, m :: mr => if c + 1 >=? m then 0 :: odo_inc mr cr else (c + 1) :: cr
  | _, _ => cur
  end.

Fixpoint level_labels (n : nat) (maxl cur : list Z) : list (list Z) :=
  match n with
  | O => []
  | S n' => cur :: level_labels n' maxl (odo_inc maxl cur)
  end.

(** the nodes of one level, in position order.  Level 0 (add_processing_node): id = position = rank.
    Level i+1 (generate_switches): ids count down from [first_id]. *)
Definition level_nodes (p : ftp) (i : nat) (first_id : Z) : list fnode :=
  let n := Z.to_nat (nodes_by_level p i) in
  map (fun jl => mkfn (match i with O => fst jl | S _ => first_id - fst jl end) i (fst jl) (snd jl))
      (combine (map Z.of_nat (seq 0 n)) (level_labels n (max_label p i) (repeat 0 (ft_levels p)))).

Fixpoint nodes_from (p : ftp) (i cnt : nat) (first_id : Z) : list fnode :=
  match cnt with
  | O => []
  | S c => level_nodes p i first_id ++
           nodes_from p (S i) c (match i with O => 2 * prodz (ft_cs p) - 1 | S _ => first_id - nodes_by_level p i end)
  end.

(** the vector [nodes_] after do_seal: compute nodes, then the switches level by level *)
Definition ft_nodes (p : ftp) : list fnode := nodes_from p 0 (S (ft_levels p)) 0.

(** get_level_position *)
Definition level_position (p : ftp) (level : nat) : Z := sumz (map (nodes_by_level p) (seq 0 level)).

Definition are_related (L : nat) (parent child : fnode) : bool :=
  if negb (fn_level parent =? fn_level child + 1)%nat then false
  else forallb (fun i => negb (negb (nthz (fn_label parent) i =? nthz (fn_label child) i) &&
                               negb (i + 1 =? fn_level parent)%nat)) (seq 0 L).

Definition zrange (n : Z) : list Z := map Z.of_nat (seq 0 (Z.to_nat n)).

(** connect_node_to_parents(nodes_[k]); links are consed (latest first); returns the new [uniqueId] too *)
Definition connect_node (p : ftp) (nodes : list fnode) (k : nat) (acc : list flink * Z) : list flink * Z :=
  let nd := nth k nodes fdummy in
  let level := fn_level nd in
  let base := Z.to_nat (level_position p (S level)) in
  fold_left (fun (a : list flink * Z) (i : nat) =>
               let pi := (base + i)%nat in
               let par := nth pi nodes fdummy in
               if are_related (ft_levels p) par nd then
                 fold_left (fun (a2 : list flink * Z) (j : Z) =>
                              (mkfl (snd a2) k pi
                                    (nthz (fn_label nd) level + j * nthz (ft_cs p) level)
                                    (nthz (fn_label par) level + j * nthz (ft_ps p) level) :: fst a2, snd a2 + 1))
                           (zrange (nthz (ft_ns p) level)) a
               else a)
            (seq 0 (Z.to_nat (nodes_by_level p (S level)))) acc.

(** build_upper_levels: every node of the levels 0 .. levels_-1, in vector order *)
Definition ft_links (p : ftp) (nodes : list fnode) : list flink :=
  fst (fold_left (fun a k => connect_node p nodes k a) (seq 0 (Z.to_nat (level_position p (ft_levels p)))) ([], 0)).

Definition ft_build (p : ftp) : fttab := let ns := ft_nodes p in mktab ns (ft_links p ns).

(** vector cells: node->parents[q] and node->children[i] *)
Definition parent_link (tb : fttab) (x : nat) (q : Z) : option flink :=
  find (fun l => (fl_child l =? x)%nat && (fl_cport l =? q)) (tb_links tb).
Definition child_link (tb : fttab) (x : nat) (i : Z) : option flink :=
  find (fun l => (fl_parent l =? x)%nat && (fl_pport l =? i)) (tb_links tb).

(* ------------------------------------------------------------------------------------------ get_local_route *)

Definition in_sub_tree (L : nat) (root nd : fnode) : bool :=
  if (fn_level root <=? fn_level nd)%nat then false
  else forallb (fun i => nthz (fn_label root) i =? nthz (fn_label nd) i) (seq 0 (fn_level nd)) &&
       forallb (fun i => nthz (fn_label root) i =? nthz (fn_label nd) i) (seq (fn_level root) (L - fn_level root)).

Record fhop := mkfh { fh_up : bool; fh_from : nat; fh_to : nat; fh_link : flink }.

(** "d-mod-k": d = destination->position; for (i < currentNode->level) d /= num_parents_per_node_[i]; d = d % k *)
Definition up_port (p : ftp) (level : nat) (dstpos : Z) : Z :=
  fold_left (fun d i => d / nthz (ft_ps p) i) (seq 0 level) dstpos
  mod (nthz (ft_ps p) level * nthz (ft_ns p) level).

(** the [while (not is_in_sub_tree(currentNode, destination))] loop; returns the hops and the final currentNode *)
Fixpoint up_walk (fuel : nat) (p : ftp) (tb : fttab) (cur : nat) (dst : fnode) : list fhop * nat :=
  match fuel with
  | O => ([], cur)
  | S f =>
      let cn := node tb cur in
      if in_sub_tree (ft_levels p) cn dst then ([], cur)
      else match parent_link tb cur (up_port p (fn_level cn) (fn_pos dst)) with
           | Some lk => let r := up_walk f p tb (fl_parent lk) dst in
                        (mkfh true cur (fl_parent lk) lk :: fst r, snd r)
           | None => ([], cur)          (* null cell: not reachable on a sealed zone *)
           end
  end.

(** first i' >= i with i' % c == lab (the [for (i ...)] scan with its [if (i % c == label)] test) *)
Definition next_match (c lab i : Z) : Z := i + (lab - i) mod c.

(** the [for (unsigned i = ...; i < currentNode->children.size(); i++)] loop of the down part.  NB: the C++ keeps
    running this loop after currentNode moved down (bound and test are re-evaluated with the new currentNode), so one
    [for] can take several hops; a compute node has no children, which ends it. *)
Fixpoint down_for (fuel : nat) (p : ftp) (tb : fttab) (cur : nat) (i : Z) (dst : fnode) : list fhop * nat :=
  match fuel with
  | O => ([], cur)
  | S f =>
      match fn_level (node tb cur) with
      | O => ([], cur)
      | S l1 =>
          let c := nthz (ft_cs p) l1 in
          let i' := next_match c (nthz (fn_label dst) l1) i in
          if i' <? c * nthz (ft_ns p) l1 then
            match child_link tb cur i' with
            | Some lk => let r := down_for f p tb (fl_child lk) (i' + 1) dst in
                         (mkfh false cur (fl_child lk) lk :: fst r, snd r)
            | None => ([], cur)
            end
          else ([], cur)
      end
  end.

(** the [while (currentNode != destination)] loop *)
Fixpoint down_walk (fuel : nat) (p : ftp) (tb : fttab) (srcpos : Z) (cur dsti : nat) (dst : fnode) : list fhop :=
  match fuel with
  | O => []
  | S f =>
      if (cur =? dsti)%nat then []
      else match fn_level (node tb cur) with
           | O => []                    (* level - 1 underflows in the C++: not reachable *)
           | S l1 =>
               let d := srcpos mod nthz (ft_ns p) l1 in
               let r := down_for (S (ft_levels p)) p tb cur (d * nthz (ft_cs p) l1) dst in
               fst r ++ down_walk f p tb srcpos (snd r) dsti dst
           end
  end.

Definition ft_hops (p : ftp) (tb : fttab) (s t : nat) : list fhop :=
  let u := up_walk (S (ft_levels p)) p tb s (node tb t) in
  fst u ++ down_walk (S (ft_levels p)) p tb (fn_pos (node tb s)) (snd u) t (node tb t).

Inductive flk := FUp (l : flink) | FDown (l : flink) | FLoop (n : nat) | FLim (n : nat).

Definition hop_links (lim : bool) (h : fhop) : list flk :=
  if fh_up h then (if lim then [FLim (fh_from h)] else []) ++ [FUp (fh_link h)]
  else FDown (fh_link h) :: (if lim then [FLim (fh_from h)] else []).

Definition ft_route (p : ftp) (tb : fttab) (lb lim : bool) (s t : nat) : list flk :=
  if (s =? t)%nat && lb then [FLoop s]
  else let hs := ft_hops p tb s t in
       flat_map (hop_links lim) hs ++ (if lim then [FLim (last (map fh_to hs) s)] else []).

(* ------------------------------------------------------------------------------------------ specification side *)

(** labels agree on the indices l .. L-1 *)
Definition agree_from (L l : nat) (a b : list Z) : bool :=
  forallb (fun i => nthz a i =? nthz b i) (seq l (L - l)).

(** level of the nearest common ancestors: the least l >= 1 such that the labels agree from l on *)
Definition nca_level (L : nat) (a b : list Z) : nat :=
  match find (fun l => agree_from L l a b) (seq 1 L) with Some l => l | None => L end.

Fixpoint set_nth (j : nat) (v : Z) (l : list Z) : list Z :=
  match l, j with
  | [], _ => []
  | _ :: r, O => v :: r
  | x :: r, S j' => x :: set_nth j' v r
  end.

Fixpoint leqb (a b : list Z) : bool :=
  match a, b with
  | [], [] => true
  | x :: r, y :: s => (x =? y) && leqb r s
  | _, _ => false
  end.

(** what get_local_route relies on, as a decidable property of the tables (checked on every tied instance):
    every port of every node leads to the node whose label differs only at the level's index, by the port's residue;
    compute nodes (level 0) are exactly the first prod(c) cells, id = position = rank, labels within bounds and pairwise
    different *)
Definition tab_ok (p : ftp) (tb : fttab) : bool :=
  let L := ft_levels p in
  let N := length (tb_nodes tb) in
  let N0 := Z.to_nat (prodz (ft_cs p)) in
  forallb (fun x =>
    let nx := node tb x in
    let l := fn_level nx in
    ((0 <? l)%nat || (x <? N0)%nat) && (l <=? L)%nat &&
    (if (l <? L)%nat then
       forallb (fun q => match parent_link tb x q with
                         | Some lk => (fl_child lk =? x)%nat && (fl_parent lk <? N)%nat &&
                                      (fn_level (node tb (fl_parent lk)) =? S l)%nat &&
                                      leqb (fn_label (node tb (fl_parent lk)))
                                           (set_nth l (q mod nthz (ft_ps p) l) (fn_label nx))
                         | None => false
                         end) (zrange (nthz (ft_ps p) l * nthz (ft_ns p) l))
     else true) &&
    match l with
    | O => true
    | S l1 => forallb (fun i => match child_link tb x i with
                                | Some lk => (fl_parent lk =? x)%nat && (fl_child lk <? N)%nat &&
                                             (fn_level (node tb (fl_child lk)) =? l1)%nat &&
                                             leqb (fn_label (node tb (fl_child lk)))
                                                  (set_nth l1 (i mod nthz (ft_cs p) l1) (fn_label nx))
                                | None => false
                                end) (zrange (nthz (ft_cs p) l1 * nthz (ft_ns p) l1))
    end) (seq 0 N) &&
  (N0 <=? N)%nat &&
  forallb (fun x =>
    let nx := node tb x in
    (fn_level nx =? 0)%nat && (fn_pos nx =? Z.of_nat x) && (fn_id nx =? Z.of_nat x) &&
    (length (fn_label nx) =? L)%nat &&
    forallb (fun j => (0 <=? nthz (fn_label nx) j) && (nthz (fn_label nx) j <? nthz (ft_cs p) j)) (seq 0 L) &&
    forallb (fun y => negb (leqb (fn_label nx) (fn_label (node tb y))) || (x =? y)%nat) (seq 0 N0)) (seq 0 N0).

(** check_topology *)
Definition ft_valid (p : ftp) : bool :=
  negb (ft_levels p =? 0)%nat && (length (ft_ps p) =? ft_levels p)%nat && (length (ft_ns p) =? ft_levels p)%nat &&
  forallb (fun x => 0 <? x) (ft_cs p) && forallb (fun x => 0 <? x) (ft_ps p) && forallb (fun x => 0 <? x) (ft_ns p).

(* ------------------------------------------------------------------------------------------ driver *)

Definition enc_flk (tb : fttab) (l : flk) : list Z :=
  match l with
  | FUp k => [0; fn_id (node tb (fl_child k)); fn_id (node tb (fl_parent k)); fl_uid k]
  | FDown k => [1; fn_id (node tb (fl_child k)); fn_id (node tb (fl_parent k)); fl_uid k]
  | FLoop n => [2; fn_id (node tb n); 0; 0]
  | FLim n => [3; fn_id (node tb n); 0; 0]
  end.

(** input: lb lim L c_0..c_{L-1} p_0.. n_0.. ; output: tab_ok flag, number of compute nodes, then for every ordered
    pair (s, t) in row order: number of route elements, then quadruples (kind, a, b, c):
    0 = link_from_a_b_c (up), 1 = the same (down), 2 = loopback of node a, 3 = limiter of node a *)
Definition run_fattree (inp : list Z) : list Z :=
  match inp with
  | lb :: lim :: L :: rest =>
      let '(cs, rest) := take_n (Z.to_nat L) rest in
      let '(ps, rest) := take_n (Z.to_nat L) rest in
      let ns := fst (take_n (Z.to_nat L) rest) in
      let p := mkftp cs ps ns in
      if ft_valid p then
        let tb := ft_build p in
        let n0 := Z.to_nat (prodz cs) in
        (if tab_ok p tb then 1 else 0) :: Z.of_nat n0 ::
        flat_map (fun s => flat_map (fun t =>
                    let r := ft_route p tb (negb (lb =? 0)) (negb (lim =? 0)) s t in
                    Z.of_nat (length r) :: flat_map (enc_flk tb) r) (seq 0 n0)) (seq 0 n0)
      else [-1]
  | _ => [-1]
  end.
