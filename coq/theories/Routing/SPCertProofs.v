(** C25 — soundness of the chain checker and of the shortest-distance certificate checker of Routing/SPCert.v. *)
From SGV Require Import Base.Tactics Routing.SPCert.
Local Open Scope Z_scope.

(* ------------------------------------------------------------------------------------------ lists *)

Lemma list_eqb_eq a : forall b, list_eqb a b = true <-> a = b.
Proof.
  induction a as [|x a IH]; intros [|y b]; simpl; split; intros H; try reflexivity; try discriminate.
  - apply andb_true_iff in H. destruct H as [H1 H2]. apply Z.eqb_eq in H1. apply IH in H2. now subst.
  - inv H. rewrite Z.eqb_refl. simpl. now apply IH.
Qed.

Lemma is_prefix_app a : forall l, is_prefix a l = true -> l = a ++ skipn (length a) l.
Proof.
  induction a as [|x a IH]; intros l H; simpl in *; [reflexivity|].
  destruct l as [|y l]; [discriminate|]. apply andb_true_iff in H. destruct H as [H1 H2].
  apply Z.eqb_eq in H1. subst. simpl. f_equal. now apply IH.
Qed.

(* ------------------------------------------------------------------------------------------ chains *)

Lemma chain_from_sound g t : forall fuel cur L, chain_from fuel g cur t L = true ->
  exists p, p <> [] /\ is_path g cur p t /\ links_of p = L.
Proof.
  induction fuel as [|f IH]; intros cur L H; simpl in H; [discriminate|].
  apply existsb_exists in H. destruct H as (e & Hin & H).
  repeat (apply andb_true_iff in H; destruct H as [H ?]).
  rename H0 into Hrest, H1 into Hpre. apply Z.eqb_eq in H.
  apply is_prefix_app in Hpre.
  destruct (skipn (length (el e)) L) as [|y rest] eqn:Es.
  - apply Z.eqb_eq in Hrest. exists [e]. repeat split; try assumption; try discriminate.
    unfold links_of. simpl. rewrite app_nil_r in *. now rewrite Hpre.
  - apply IH in Hrest. destruct Hrest as (p & Hne & Hp & Hl).
    exists (e :: p). repeat split; try assumption; try discriminate.
    unfold links_of in *. simpl. rewrite Hl. symmetry. exact Hpre.
Qed.

Theorem chain_check_sound g s t L : chain_check g s t L = true -> is_route g s t L.
Proof. unfold chain_check, is_route. apply chain_from_sound. Qed.

Lemma links_of_length p : Z.of_nat (length (links_of p)) = cost_of p.
Proof.
  induction p as [|e p IH]; simpl; [reflexivity|]. unfold links_of in *. simpl. rewrite app_length.
  unfold elen. lia.
Qed.

(* ------------------------------------------------------------------------------------------ certificate *)

Lemma range_In n x : In x (range n) <-> 0 <= x < Z.of_nat n.
Proof.
  unfold range. rewrite in_map_iff. split.
  - intros (k & <- & Hk). apply in_seq in Hk. lia.
  - intros H. exists (Z.to_nat x). split; [lia | apply in_seq; lia].
Qed.

Section Cert.
  Variable g : list redge.
  Variable n : nat.
  Variable rows : list (list Z).
  Hypothesis Hok : cert_ok g n rows = true.

  Let d := dget rows.
  Let d0 := dist0 rows.

  Lemma cert_parts :
    (forall e, In e g -> 0 <= eu e < Z.of_nat n /\ 0 <= ev e < Z.of_nat n /\ 1 <= elen e) /\
    (forall s t, In s (range n) -> In t (range n) -> s <> t -> d s t = -1 \/ 1 <= d s t) /\
    (forall s e, In s (range n) -> In e g -> ev e <> s -> d0 s (eu e) <> -1 ->
        d s (ev e) <> -1 /\ d s (ev e) <= d0 s (eu e) + elen e) /\
    (forall s t, In s (range n) -> In t (range n) -> s <> t -> d s t <> -1 ->
        exists e, In e g /\ ev e = t /\ d0 s (eu e) <> -1 /\ d s t = d0 s (eu e) + elen e).
  Proof.
    pose proof Hok as K. unfold cert_ok in K.
    apply andb_true_iff in K. destruct K as [K HB]. apply andb_true_iff in K. destruct K as [K HA].
    apply andb_true_iff in K. destruct K as [HE HR].
    rewrite forallb_forall in HE, HR, HA, HB.
    repeat split.
    - specialize (HE e H). lia.
    - specialize (HE e H). lia.
    - specialize (HE e H). lia.
    - specialize (HE e H). lia.
    - specialize (HE e H). lia.
    - intros s t Hs Ht Hne. specialize (HR s Hs). rewrite forallb_forall in HR. specialize (HR t Ht).
      unfold d. lia.
    - specialize (HA s H). rewrite forallb_forall in HA. specialize (HA e H0). unfold d, d0 in *. lia.
    - specialize (HA s H). rewrite forallb_forall in HA. specialize (HA e H0). unfold d, d0 in *. lia.
    - intros s t Hs Ht Hne Hd. specialize (HB s Hs). rewrite forallb_forall in HB. specialize (HB t Ht).
      assert (X : existsb (fun e => (ev e =? t) && negb (dist0 rows s (eu e) =? -1) &&
                                    (dget rows s t =? dist0 rows s (eu e) + elen e)) g = true).
      { unfold d in Hd. destruct (s =? t) eqn:E1; [lia|]. destruct (dget rows s t =? -1) eqn:E2; [lia|].
        simpl in HB. exact HB. }
      apply existsb_exists in X. destruct X as (e & He & X). exists e. unfold d, d0. repeat split; try assumption; lia.
  Qed.

  Lemma d0_nonneg s x : In s (range n) -> In x (range n) -> d0 s x <> -1 -> 0 <= d0 s x.
  Proof.
    intros Hs Hx H. destruct cert_parts as (_ & R & _). unfold d0, dist0 in *.
    destruct (x =? s) eqn:E; [lia|]. specialize (R s x Hs Hx). fold d. unfold d in *. lia.
  Qed.

  Lemma lower_bound s : In s (range n) -> forall p x t K, In x (range n) -> d0 s x <> -1 -> d0 s x <= K ->
    is_path g x p t -> d0 s t <> -1 /\ d0 s t <= K + cost_of p.
  Proof.
    intros Hs. destruct cert_parts as (E & _ & A & _).
    induction p as [|e p IH]; intros x t K Hx Hfin HK Hp; simpl in *.
    - subst. split; [assumption | lia].
    - destruct Hp as (He & Hu & Hp). subst x.
      destruct (E e He) as (_ & Hv & Hc).
      assert (Hvr : In (ev e) (range n)) by (apply range_In; lia).
      destruct (Z.eq_dec (ev e) s) as [Es|Ns].
      + assert (Z0 : d0 s (ev e) = 0) by (unfold d0, dist0; rewrite Es, Z.eqb_refl; reflexivity).
        pose proof (d0_nonneg s (eu e) Hs Hx Hfin) as Hnn.
        destruct (IH (ev e) t (K + elen e) Hvr ltac:(lia) ltac:(lia) Hp) as [F1 F2]. split; [assumption | lia].
      + destruct (A s e Hs He Ns Hfin) as [F1 F2].
        assert (Dv : d0 s (ev e) = d s (ev e)).
        { unfold d0, dist0, d. destruct (ev e =? s) eqn:X; [lia | reflexivity]. }
        destruct (IH (ev e) t (K + elen e) Hvr ltac:(lia) ltac:(lia) Hp) as [G1 G2]. split; [assumption | lia].
  Qed.

  Lemma is_path_snoc : forall p s u e t, is_path g s p u -> In e g -> eu e = u -> ev e = t -> is_path g s (p ++ [e]) t.
  Proof.
    induction p as [|a p IH]; intros s u e t Hp He Hu Hv; simpl in *.
    - subst. repeat split; auto.
    - destruct Hp as (Ha & Hs & Hp). repeat split; auto. eapply IH; eauto.
  Qed.

  Lemma cost_snoc p e : cost_of (p ++ [e]) = cost_of p + elen e.
  Proof. induction p; simpl; lia. Qed.

  (** achievability: a finite entry is the cost of some chain of declared routes *)
  Lemma achievable s : In s (range n) -> forall k t, In t (range n) -> s <> t -> d s t <> -1 -> d s t <= Z.of_nat k ->
    exists p, p <> [] /\ is_path g s p t /\ cost_of p = d s t.
  Proof.
    intros Hs. destruct cert_parts as (E & R & _ & B).
    induction k as [|k IH]; intros t Ht Hne Hfin Hk.
    - specialize (R s t Hs Ht Hne). lia.
    - destruct (B s t Hs Ht Hne Hfin) as (e & He & Hv & Hf & Hd).
      destruct (E e He) as (Hu & _ & Hc).
      destruct (Z.eq_dec (eu e) s) as [Es|Ns].
      + exists [e]. repeat split; try discriminate; try assumption. simpl.
        unfold d0, dist0 in Hd. fold d0 in Hd. rewrite Es, Z.eqb_refl in Hd. lia.
      + assert (Du : d0 s (eu e) = d s (eu e)).
        { unfold d0, dist0, d. destruct (eu e =? s) eqn:X; [lia | reflexivity]. }
        assert (Hur : In (eu e) (range n)) by (apply range_In; lia).
        destruct (IH (eu e) Hur ltac:(congruence) ltac:(congruence) ltac:(lia)) as (p & Hp0 & Hp & Hcp).
        exists (p ++ [e]). repeat split.
        * destruct p; discriminate.
        * eapply is_path_snoc; eauto.
        * rewrite cost_snoc. lia.
  Qed.

  (** the certificate theorem: accepted tables are exactly the minimal link counts over chains of declared routes *)
  Theorem cert_sound s t : In s (range n) -> In t (range n) -> s <> t ->
    (d s t <> -1 -> (exists p, p <> [] /\ is_path g s p t /\ cost_of p = d s t) /\
                    (forall p, p <> [] -> is_path g s p t -> d s t <= cost_of p)) /\
    (d s t = -1 -> forall p, p <> [] -> ~ is_path g s p t).
  Proof.
    intros Hs Ht Hne.
    assert (LB : forall p, is_path g s p t -> d s t <> -1 /\ d s t <= cost_of p).
    { intros p Hp.
      assert (Z0 : d0 s s = 0) by (unfold d0, dist0; rewrite Z.eqb_refl; reflexivity).
      destruct (lower_bound s Hs p s t 0 Hs ltac:(lia) ltac:(lia) Hp) as [F1 F2].
      assert (Dt : d0 s t = d s t) by (unfold d0, dist0, d; destruct (t =? s) eqn:X; [lia | reflexivity]).
      rewrite Dt in *. split; [assumption | lia]. }
    split.
    - intros Hfin. split.
      + destruct cert_parts as (_ & R & _). specialize (R s t Hs Ht Hne).
        apply (achievable s Hs (Z.to_nat (d s t)) t Ht Hne Hfin). lia.
      + intros p _ Hp. now apply LB.
    - intros Hinf p _ Hp. destruct (LB p Hp). contradiction.
  Qed.
End Cert.

(** what the check uses: a route accepted by the chain checker whose length is the certified table entry is a
    minimal chain of declared routes *)
Theorem certified_minimal g n rows s t L :
  cert_ok g n rows = true -> 0 <= s < Z.of_nat n -> 0 <= t < Z.of_nat n -> s <> t ->
  chain_check g s t L = true -> Z.of_nat (length L) = dget rows s t ->
  minimal_route g s t L.
Proof.
  intros Hc Hs Ht Hne Hch Hlen. apply range_In in Hs. apply range_In in Ht.
  split; [now apply chain_check_sound|].
  intros L' (p & Hp0 & Hp & Hl).
  destruct (cert_sound g n rows Hc s t Hs Ht Hne) as [F I].
  assert (Hfin : dget rows s t <> -1) by lia.
  destruct (F Hfin) as [_ LB]. specialize (LB p Hp0 Hp).
  rewrite <- Hl. pose proof (links_of_length p). lia.
Qed.

(** and when the table says "no route", no chain of declared routes exists *)
Theorem certified_unreachable g n rows s t :
  cert_ok g n rows = true -> 0 <= s < Z.of_nat n -> 0 <= t < Z.of_nat n -> s <> t ->
  dget rows s t = -1 -> forall L, ~ is_route g s t L.
Proof.
  intros Hc Hs Ht Hne Hd L (p & Hp0 & Hp & _). apply range_In in Hs. apply range_In in Ht.
  destruct (cert_sound g n rows Hc s t Hs Ht Hne) as [_ I]. exact (I Hd p Hp0 Hp).
Qed.

(** two accepted tables agree: Floyd, Dijkstra and DijkstraCache return routes of equal link count *)
Theorem certified_agree g n r1 r2 s t :
  cert_ok g n r1 = true -> cert_ok g n r2 = true -> 0 <= s < Z.of_nat n -> 0 <= t < Z.of_nat n -> s <> t ->
  dget r1 s t = dget r2 s t.
Proof.
  intros H1 H2 Hs Ht Hne. apply range_In in Hs. apply range_In in Ht.
  destruct (cert_sound g n r1 H1 s t Hs Ht Hne) as [F1 I1].
  destruct (cert_sound g n r2 H2 s t Hs Ht Hne) as [F2 I2].
  destruct (Z.eq_dec (dget r1 s t) (-1)) as [E1|N1]; destruct (Z.eq_dec (dget r2 s t) (-1)) as [E2|N2].
  - congruence.
  - exfalso. destruct (F2 N2) as [(p & P0 & Pp & _) _]. exact (I1 E1 p P0 Pp).
  - exfalso. destruct (F1 N1) as [(p & P0 & Pp & _) _]. exact (I2 E2 p P0 Pp).
  - destruct (F1 N1) as [(p1 & P01 & Pp1 & C1) L1]. destruct (F2 N2) as [(p2 & P02 & Pp2 & C2) L2].
    specialize (L1 p2 P02 Pp2). specialize (L2 p1 P01 Pp1). lia.
Qed.

(** the Dijkstra loop as pinned (ULONG_MAX wrap, predecessor 0 by default) loses a declared route; the repaired
    loop finds it.  Graph: 0 -> 1 and 2 -> 1 one-way, loopback edges as do_seal adds them. *)
Lemma dijkstra_pinned_refuted :
  let g := [mkedge 0 1 [10]; mkedge 2 1 [11]; mkedge 0 0 [99]; mkedge 1 1 [99]; mkedge 2 2 [99]] in
  is_route g 0 1 [10] /\ dijkstra_route_len false g 3 0 1 = -1 /\ dijkstra_route_len true g 3 0 1 = 1 /\
  snd (dijkstra false g 3 0) = [0; 2; 2].
Proof.
  cbv zeta. split; [|vm_compute; repeat split; reflexivity].
  exists [mkedge 0 1 [10]]. repeat split; try discriminate; simpl; auto.
Qed.

(** Full zone *)
Theorem full_route_exact g s t L : full_route g s t = Some L -> exists e, In e g /\ eu e = s /\ ev e = t /\ el e = L.
Proof.
  unfold full_route. destruct (find _ g) as [e|] eqn:F; [|discriminate]. intros H. inv H.
  apply find_some in F. destruct F as [I F]. exists e. repeat split; try assumption; lia.
Qed.
Theorem full_route_declared g e : In e g -> (forall e', In e' g -> eu e' = eu e -> ev e' = ev e -> e' = e) ->
  full_route g (eu e) (ev e) = Some (el e).
Proof.
  intros I U. unfold full_route. destruct (find _ g) as [e'|] eqn:F.
  - apply find_some in F. destruct F as [I' F]. rewrite (U e' I') by lia. reflexivity.
  - exfalso. apply (find_none _ _ F e) in I. rewrite !Z.eqb_refl in I. discriminate.
Qed.
