(** C26 — proofs about the fat-tree model of Routing/FatTree.v.

    [TabOK] is what get_local_route relies on about the tables; [tab_ok] (a boolean function, run on every tied
    instance by the extracted model) decides it: [tab_ok_sound].  Under [TabOK], for ALL parameter vectors accepted by
    check_topology and all pairs of compute nodes, the walk of get_local_route goes up exactly to the level of the
    nearest common ancestors and then down to the destination: [ft_up_down]. *)
From SGV Require Import Base.Tactics Routing.Torus Routing.FatTree.
Local Open Scope Z_scope.

(* ------------------------------------------------------------------------------------------ small helpers *)

Lemma leqb_eq a : forall b, leqb a b = true <-> a = b.
Proof.
  induction a as [|x r IH]; intros [|y s]; simpl; split; intros H; try congruence; try discriminate.
  - apply andb_true_iff in H. destruct H as [H1 H2]. apply Z.eqb_eq in H1. apply IH in H2. congruence.
  - inv H. rewrite Z.eqb_refl. simpl. now apply IH.
Qed.

Lemma in_zrange n q : In q (zrange n) <-> 0 <= q < n.
Proof.
  unfold zrange. rewrite in_map_iff. split.
  - intros [k [E H]]. apply in_seq in H. lia.
  - intros H. exists (Z.to_nat q). split; [lia|]. apply in_seq. lia.
Qed.

Lemma set_nth_length j v : forall l, length (set_nth j v l) = length l.
Proof. induction j; intros [|x r]; simpl; auto. Qed.

Lemma nthz_set_nth_other j v : forall l i, i <> j -> nthz (set_nth j v l) i = nthz l i.
Proof.
  unfold nthz. induction j; intros [|x r] i Hi; simpl; auto.
  - destruct i; [congruence|reflexivity].
  - destruct i; [reflexivity|]. apply IHj. congruence.
Qed.

Lemma nthz_set_nth_same j v : forall l, (j < length l)%nat -> nthz (set_nth j v l) j = v.
Proof.
  unfold nthz. induction j; intros [|x r] H; simpl in *; try lia; auto. apply IHj. lia.
Qed.

Lemma nthz_ext (a : list Z) : forall b, length a = length b ->
  (forall i, (i < length a)%nat -> nthz a i = nthz b i) -> a = b.
Proof.
  unfold nthz. induction a as [|x r IH]; intros [|y s] Hl H; simpl in *; try discriminate; auto.
  f_equal.
  - apply (H 0%nat). lia.
  - apply IH; [lia|]. intros i Hi. apply (H (S i)). lia.
Qed.

Lemma agree_from_spec L l a b :
  agree_from L l a b = true <-> (forall i, (l <= i < L)%nat -> nthz a i = nthz b i).
Proof.
  unfold agree_from. rewrite forallb_forall. split.
  - intros H i Hi. apply Z.eqb_eq. apply H. apply in_seq. lia.
  - intros H i Hi. apply in_seq in Hi. apply Z.eqb_eq. apply H. lia.
Qed.

Lemma nthz_pos l : Forall (fun d => 0 < d) l -> forall i, (i < length l)%nat -> 0 < nthz l i.
Proof.
  intros F i Hi. unfold nthz. rewrite Forall_forall in F. apply F. apply nth_In. exact Hi.
Qed.

Lemma forallb_pos l : forallb (fun x => 0 <? x) l = true -> Forall (fun d => 0 < d) l.
Proof.
  intros H. apply Forall_forall. intros x Hx. rewrite forallb_forall in H. specialize (H x Hx). lia.
Qed.

(** the level of the nearest common ancestors *)
Lemma nca_level_spec L a b : (1 <= L)%nat ->
  let k := nca_level L a b in
  (1 <= k <= L)%nat /\ agree_from L k a b = true /\ (forall l, (1 <= l < k)%nat -> agree_from L l a b = false).
Proof.
  intros HL. unfold nca_level.
  assert (G : forall n st, match find (fun l => agree_from L l a b) (seq st n) with
                           | Some l => (st <= l < st + n)%nat /\ agree_from L l a b = true /\
                                       (forall l', (st <= l' < l)%nat -> agree_from L l' a b = false)
                           | None => forall l', (st <= l' < st + n)%nat -> agree_from L l' a b = false
                           end).
  { induction n as [|n IH]; intros st; simpl.
    - intros; lia.
    - destruct (agree_from L st a b) eqn:E.
      + split; [lia|]. split; [exact E|]. intros; lia.
      + specialize (IH (S st)). destruct (find _ (seq (S st) n)) as [l|].
        * destruct IH as [A [B C]]. split; [lia|]. split; [exact B|].
          intros l' Hl'. destruct (Nat.eq_dec l' st); [subst; exact E | apply C; lia].
        * intros l' Hl'. destruct (Nat.eq_dec l' st); [subst; exact E | apply IH; lia]. }
  specialize (G L 1%nat). destruct (find _ (seq 1 L)) as [l|].
  - destruct G as [A [B C]]. split; [lia|]. split; assumption.
  - split; [lia|]. split.
    + apply agree_from_spec. intros; lia.
    + intros l Hl. apply G. lia.
Qed.

Lemma next_match_mod c lab i : 0 < c -> 0 <= lab < c -> next_match c lab i mod c = lab.
Proof.
  intros Hc Hl. unfold next_match. rewrite Zplus_mod_idemp_r.
  replace (i + (lab - i)) with lab by ring. apply Z.mod_small. exact Hl.
Qed.

Lemma next_match_bounds c lab i : 0 < c -> i <= next_match c lab i < i + c.
Proof. intros Hc. unfold next_match. pose proof (Z.mod_pos_bound (lab - i) c Hc). lia. Qed.

(* ------------------------------------------------------------------------------------------ the table property *)

Section Tables.
Variable p : ftp.
Variable tb : fttab.
Let L := ft_levels p.
Let N := length (tb_nodes tb).
Let N0 := Z.to_nat (prodz (ft_cs p)).
Let lvl (x : nat) := fn_level (node tb x).
Let lab (x : nat) := fn_label (node tb x).

Record TabOK : Prop := {
  ok_level : forall x, (x < N)%nat -> (lvl x <= L)%nat /\ (lvl x = 0%nat -> (x < N0)%nat);
  ok_parent : forall x, (x < N)%nat -> (lvl x < L)%nat ->
    forall q, 0 <= q < nthz (ft_ps p) (lvl x) * nthz (ft_ns p) (lvl x) ->
    exists lk, parent_link tb x q = Some lk /\ fl_child lk = x /\ (fl_parent lk < N)%nat /\
               lvl (fl_parent lk) = S (lvl x) /\
               lab (fl_parent lk) = set_nth (lvl x) (q mod nthz (ft_ps p) (lvl x)) (lab x);
  ok_child : forall x, (x < N)%nat -> forall l1, lvl x = S l1 ->
    forall i, 0 <= i < nthz (ft_cs p) l1 * nthz (ft_ns p) l1 ->
    exists lk, child_link tb x i = Some lk /\ fl_parent lk = x /\ (fl_child lk < N)%nat /\
               lvl (fl_child lk) = l1 /\
               lab (fl_child lk) = set_nth l1 (i mod nthz (ft_cs p) l1) (lab x);
  ok_n0 : (N0 <= N)%nat;
  ok_leaf : forall x, (x < N0)%nat ->
    lvl x = 0%nat /\ fn_pos (node tb x) = Z.of_nat x /\ fn_id (node tb x) = Z.of_nat x /\ length (lab x) = L /\
    (forall j, (j < L)%nat -> 0 <= nthz (lab x) j < nthz (ft_cs p) j);
  ok_inj : forall x y, (x < N0)%nat -> (y < N0)%nat -> lab x = lab y -> x = y
}.

Lemma tab_ok_sound : tab_ok p tb = true -> TabOK.
Proof.
  unfold tab_ok. fold L N N0. intros H.
  apply andb_true_iff in H. destruct H as [H H3]. apply andb_true_iff in H. destruct H as [H1 H2].
  rewrite forallb_forall in H1, H3. apply Nat.leb_le in H2.
  assert (P1 : forall x, (x < N)%nat -> In x (seq 0 N)) by (intros; apply in_seq; lia).
  assert (P0 : forall x, (x < N0)%nat -> In x (seq 0 N0)) by (intros; apply in_seq; lia).
  constructor.
  - intros x Hx. specialize (H1 x (P1 x Hx)). fold (lvl x) in H1.
    apply andb_true_iff in H1. destruct H1 as [H1 _]. apply andb_true_iff in H1. destruct H1 as [H1 _].
    apply andb_true_iff in H1. destruct H1 as [A B]. split; [lia|]. intros E. rewrite E in A. simpl in A. lia.
  - intros x Hx Hl q Hq. specialize (H1 x (P1 x Hx)). fold (lvl x) (lab x) in H1.
    apply andb_true_iff in H1. destruct H1 as [H1 _]. apply andb_true_iff in H1. destruct H1 as [_ H1].
    destruct (lvl x <? L)%nat eqn:E; [|lia]. rewrite forallb_forall in H1.
    specialize (H1 q (proj2 (in_zrange _ q) Hq)).
    destruct (parent_link tb x q) as [lk|]; [|discriminate]. exists lk. split; [reflexivity|].
    apply andb_true_iff in H1. destruct H1 as [H1 D]. apply andb_true_iff in H1. destruct H1 as [H1 C].
    apply andb_true_iff in H1. destruct H1 as [A B]. apply leqb_eq in D.
    unfold lvl, lab in *. repeat split; try lia; try assumption.
  - intros x Hx l1 Hl i Hi. specialize (H1 x (P1 x Hx)). fold (lvl x) (lab x) in H1.
    apply andb_true_iff in H1. destruct H1 as [_ H1]. rewrite Hl in H1. rewrite forallb_forall in H1.
    specialize (H1 i (proj2 (in_zrange _ i) Hi)).
    destruct (child_link tb x i) as [lk|]; [|discriminate]. exists lk. split; [reflexivity|].
    apply andb_true_iff in H1. destruct H1 as [H1 D]. apply andb_true_iff in H1. destruct H1 as [H1 C].
    apply andb_true_iff in H1. destruct H1 as [A B]. apply leqb_eq in D.
    unfold lvl, lab in *. repeat split; try lia; try assumption.
  - exact H2.
  - intros x Hx. specialize (H3 x (P0 x Hx)). fold (lvl x) (lab x) in H3.
    apply andb_true_iff in H3. destruct H3 as [H3 _]. apply andb_true_iff in H3. destruct H3 as [H3 F].
    apply andb_true_iff in H3. destruct H3 as [H3 E]. apply andb_true_iff in H3. destruct H3 as [H3 C].
    apply andb_true_iff in H3. destruct H3 as [A B]. rewrite forallb_forall in F.
    repeat split; try lia; try (unfold lvl; lia).
    + specialize (F j (proj2 (in_seq _ _ _) (conj (Nat.le_0_l j) H))). lia.
    + specialize (F j (proj2 (in_seq _ _ _) (conj (Nat.le_0_l j) H))). lia.
  - intros x y Hx Hy E. specialize (H3 x (P0 x Hx)). fold (lab x) in H3.
    apply andb_true_iff in H3. destruct H3 as [_ H3]. rewrite forallb_forall in H3.
    specialize (H3 y (P0 y Hy)). fold (lab y) in H3. rewrite E in H3.
    rewrite (proj2 (leqb_eq (lab y) (lab y)) eq_refl) in H3. simpl in H3. lia.
Qed.

(* ------------------------------------------------------------------------------------------ chains *)

(** a sequence of hops from [a] to [b], all up (resp. all down): each hop leaves the node the previous one reached,
    changes the level by exactly one, and uses a link whose lower end is the lower node and upper end the upper node *)
Fixpoint ft_chain (up : bool) (a : nat) (hs : list fhop) (b : nat) : Prop :=
  match hs with
  | [] => a = b
  | h :: r => fh_up h = up /\ fh_from h = a /\
              (if up then fl_child (fh_link h) = a /\ fl_parent (fh_link h) = fh_to h /\ lvl (fh_to h) = S (lvl a)
               else fl_parent (fh_link h) = a /\ fl_child (fh_link h) = fh_to h /\ S (lvl (fh_to h)) = lvl a) /\
              ft_chain up (fh_to h) r b
  end.

Lemma ft_chain_app up : forall hs1 a m hs2 b,
  ft_chain up a hs1 m -> ft_chain up m hs2 b -> ft_chain up a (hs1 ++ hs2) b.
Proof.
  induction hs1 as [|h r IH]; simpl; intros a m hs2 b H1 H2.
  - subst. exact H2.
  - destruct H1 as [A [B [C D]]]. repeat split; try assumption. eapply IH; eassumption.
Qed.

Hypothesis V : ft_valid p = true.
Hypothesis OK : TabOK.

Lemma valid_facts : (1 <= L)%nat /\ length (ft_ps p) = L /\ length (ft_ns p) = L /\
  Forall (fun d => 0 < d) (ft_cs p) /\ Forall (fun d => 0 < d) (ft_ps p) /\ Forall (fun d => 0 < d) (ft_ns p).
Proof.
  pose proof V as W. unfold ft_valid in W. fold L in W.
  apply andb_true_iff in W. destruct W as [W X6]. apply andb_true_iff in W. destruct W as [W X5].
  apply andb_true_iff in W. destruct W as [W X4]. apply andb_true_iff in W. destruct W as [W X3].
  apply andb_true_iff in W. destruct W as [X1 X2].
  repeat split; try (apply forallb_pos; assumption); try lia.
Qed.

Lemma len_cs : length (ft_cs p) = L.
Proof. reflexivity. Qed.

Variable s t : nat.
Hypothesis Hs : (s < N0)%nat.
Hypothesis Ht : (t < N0)%nat.
Let ls := lab s.
Let lt := lab t.
Let k := nca_level L ls lt.

(** the up part *)
Lemma up_walk_spec : forall fuel cur,
  (k - lvl cur < fuel)%nat -> (lvl cur <= k)%nat -> (cur < N)%nat -> length (lab cur) = L ->
  (forall i, (lvl cur <= i < L)%nat -> nthz (lab cur) i = nthz ls i) ->
  exists ups top, up_walk fuel p tb cur (node tb t) = (ups, top) /\ ft_chain true cur ups top /\
                  lvl top = k /\ (length ups = k - lvl cur)%nat /\ (top < N)%nat /\ length (lab top) = L /\
                  (forall i, (k <= i < L)%nat -> nthz (lab top) i = nthz ls i).
Proof.
  destruct valid_facts as [HL [Lp [Ln [Pc [Pp Pn]]]]].
  destruct (nca_level_spec L ls lt HL) as [Kb [Kag Kmin]]. fold k in Kb, Kag, Kmin.
  destruct (ok_leaf OK t Ht) as [Tl _]. fold (lvl t) in Tl.
  induction fuel as [|f IH]; intros cur Hf Hk Hc Hlen Hag; [lia|].
  cbn [up_walk].
  assert (SUB : in_sub_tree (ft_levels p) (node tb cur) (node tb t) = if (lvl cur =? k)%nat then true else false).
  { unfold in_sub_tree. fold L (lvl cur) (lvl t) (lab cur) (lab t) lt. rewrite Tl. simpl seq. cbn [forallb andb].
    destruct (lvl cur <=? 0)%nat eqn:E0.
    - destruct (lvl cur =? k)%nat eqn:E; [lia|reflexivity].
    - fold (agree_from L (lvl cur) (lab cur) lt).
      destruct (lvl cur =? k)%nat eqn:E.
      + apply Nat.eqb_eq in E. apply agree_from_spec. intros i Hi. rewrite Hag by lia.
        apply (proj1 (agree_from_spec L k ls lt) Kag). lia.
      + apply Nat.eqb_neq in E. apply not_true_is_false. intros A.
        assert (B : agree_from L (lvl cur) ls lt = true).
        { apply agree_from_spec. intros i Hi. rewrite <- Hag by lia.
          apply (proj1 (agree_from_spec L _ _ lt) A). lia. }
        rewrite Kmin in B by lia. discriminate. }
  rewrite SUB. destruct (lvl cur =? k)%nat eqn:E.
  - apply Nat.eqb_eq in E. exists [], cur. repeat split; simpl; try assumption; try lia.
    intros i Hi. apply Hag. lia.
  - apply Nat.eqb_neq in E. assert (Hl : (lvl cur < L)%nat) by lia.
    fold (lvl cur).
    assert (Hq : 0 <= up_port p (lvl cur) (fn_pos (node tb t)) < nthz (ft_ps p) (lvl cur) * nthz (ft_ns p) (lvl cur)).
    { unfold up_port. apply Z.mod_pos_bound. apply Z.mul_pos_pos; apply nthz_pos; try assumption; lia. }
    destruct (ok_parent OK cur Hc Hl _ Hq) as [lk [E1 [E2 [E3 [E4 E5]]]]].
    rewrite E1.
    assert (Hag' : forall i, (lvl (fl_parent lk) <= i < L)%nat -> nthz (lab (fl_parent lk)) i = nthz ls i).
    { intros i Hi. rewrite E5, nthz_set_nth_other by lia. apply Hag. lia. }
    assert (Hlen' : length (lab (fl_parent lk)) = L) by (rewrite E5, set_nth_length; exact Hlen).
    destruct (IH (fl_parent lk)) as [ups [top [W [C [T1 [T2 [T3 [T4 T5]]]]]]]]; try assumption; try lia.
    exists (mkfh true cur (fl_parent lk) lk :: ups), top. rewrite W. simpl.
    repeat split; try assumption; try lia.
Qed.

(** what holds of currentNode all along the down part *)
Definition down_inv (cur : nat) : Prop :=
  (cur < N)%nat /\ (lvl cur <= L)%nat /\ length (lab cur) = L /\
  (forall i, (lvl cur <= i < L)%nat -> nthz (lab cur) i = nthz lt i).

Lemma down_for_spec : forall fuel cur i, 0 <= i -> down_inv cur ->
  exists hs fin, down_for fuel p tb cur i (node tb t) = (hs, fin) /\ ft_chain false cur hs fin /\ down_inv fin /\
                 (lvl fin + length hs = lvl cur)%nat /\
                 (forall l1, lvl cur = S l1 -> fuel <> 0%nat ->
                    next_match (nthz (ft_cs p) l1) (nthz lt l1) i < nthz (ft_cs p) l1 * nthz (ft_ns p) l1 ->
                    (1 <= length hs)%nat).
Proof.
  destruct valid_facts as [HL [Lp [Ln [Pc [Pp Pn]]]]].
  destruct (ok_leaf OK t Ht) as [_ [_ [_ [_ Tb]]]]. fold (lab t) lt in Tb.
  induction fuel as [|f IH]; intros cur i Hi Inv.
  - exists [], cur. simpl. repeat split; try apply Inv; try lia; try (intros; congruence).
  - cbn [down_for]. fold (lvl cur). destruct (lvl cur) as [|l1] eqn:El.
    + exists [], cur. simpl. repeat split; try apply Inv; try lia; try (intros; discriminate).
    + fold (lab t) lt. destruct Inv as [I1 [I2 [I3 I4]]].
      assert (Hc : 0 < nthz (ft_cs p) l1) by (apply nthz_pos; [assumption | pose proof len_cs; lia]).
      pose proof (next_match_bounds (nthz (ft_cs p) l1) (nthz lt l1) i Hc) as NB.
      destruct (next_match (nthz (ft_cs p) l1) (nthz lt l1) i <? nthz (ft_cs p) l1 * nthz (ft_ns p) l1) eqn:E.
      * assert (Hr : 0 <= next_match (nthz (ft_cs p) l1) (nthz lt l1) i < nthz (ft_cs p) l1 * nthz (ft_ns p) l1) by lia.
        destruct (ok_child OK cur I1 l1 El _ Hr) as [lk [E1 [E2 [E3 [E4 E5]]]]].
        rewrite E1. rewrite next_match_mod in E5 by (try assumption; apply Tb; lia).
        assert (Inv' : down_inv (fl_child lk)).
        { split; [assumption|]. split; [lia|]. split; [rewrite E5, set_nth_length; exact I3|].
          intros j Hj. rewrite E5. destruct (Nat.eq_dec j l1) as [->|Hne].
          - apply nthz_set_nth_same. lia.
          - rewrite nthz_set_nth_other by assumption. apply I4. lia. }
        destruct (IH (fl_child lk) (next_match (nthz (ft_cs p) l1) (nthz lt l1) i + 1)) as [hs [fin [W [C [F1 [F2 _]]]]]];
          [lia | exact Inv' |].
        exists (mkfh false cur (fl_child lk) lk :: hs), fin. rewrite W. simpl.
        repeat split; try assumption; try apply F1; try lia.
      * exists [], cur. simpl. repeat split; try assumption; try lia.
        intros l1' El' _ Hlt. inv El'. lia.
Qed.

Lemma down_walk_spec : forall fuel cur, (lvl cur < fuel)%nat -> down_inv cur ->
  exists downs, down_walk fuel p tb (fn_pos (node tb s)) cur t (node tb t) = downs /\
                ft_chain false cur downs t /\ length downs = lvl cur.
Proof.
  destruct valid_facts as [HL [Lp [Ln [Pc [Pp Pn]]]]].
  destruct (ok_leaf OK t Ht) as [Tl [_ [_ [Tlen Tb]]]]. fold (lvl t) in Tl. fold (lab t) lt in Tlen, Tb.
  induction fuel as [|f IH]; intros cur Hf Inv; [lia|].
  cbn [down_walk]. destruct (cur =? t)%nat eqn:E.
  - apply Nat.eqb_eq in E. subst cur. exists []. simpl. repeat split. lia.
  - apply Nat.eqb_neq in E. fold (lvl cur). destruct (lvl cur) as [|l1] eqn:El.
    + exfalso. apply E. destruct Inv as [I1 [I2 [I3 I4]]].
      destruct (ok_level OK cur I1) as [_ Z0]. fold (lvl cur) in Z0. specialize (Z0 El).
      apply (ok_inj OK cur t Z0 Ht). fold (lab cur) (lab t) lt.
      apply nthz_ext; [congruence|]. intros i Hi. apply I4. lia.
    + destruct Inv as [I1 [I2 [I3 I4]]].
      assert (Hc : 0 < nthz (ft_cs p) l1) by (apply nthz_pos; [assumption | pose proof len_cs; lia]).
      assert (Hn : 0 < nthz (ft_ns p) l1) by (apply nthz_pos; [assumption | lia]).
      set (d := fn_pos (node tb s) mod nthz (ft_ns p) l1).
      assert (Hd : 0 <= d < nthz (ft_ns p) l1) by (apply Z.mod_pos_bound; exact Hn).
      assert (Hi : 0 <= d * nthz (ft_cs p) l1) by (apply Z.mul_nonneg_nonneg; lia).
      destruct (down_for_spec (S (ft_levels p)) cur (d * nthz (ft_cs p) l1) Hi) as [hs [fin [W [C [F1 [F2 F3]]]]]].
      { repeat split; assumption. }
      rewrite W. simpl fst. simpl snd.
      assert (Hp : (1 <= length hs)%nat).
      { apply (F3 l1 El); [lia|].
        pose proof (next_match_bounds (nthz (ft_cs p) l1) (nthz lt l1) (d * nthz (ft_cs p) l1) Hc) as NB.
        assert ((d + 1) * nthz (ft_cs p) l1 <= nthz (ft_ns p) l1 * nthz (ft_cs p) l1)
          by (apply Z.mul_le_mono_nonneg_r; lia).
        lia. }
      destruct (IH fin) as [downs [W2 [C2 Ln2]]]; [lia | exact F1 |].
      exists (hs ++ downs). rewrite W2. split; [reflexivity|]. split.
      * eapply ft_chain_app; eassumption.
      * rewrite app_length. lia.
Qed.

(** the whole walk *)
Theorem ft_up_down :
  exists ups top downs,
    ft_hops p tb s t = ups ++ downs /\ ft_chain true s ups top /\ ft_chain false top downs t /\
    length ups = k /\ length downs = k /\ lvl top = k /\ (1 <= k <= L)%nat /\
    in_sub_tree L (node tb top) (node tb s) = true /\ in_sub_tree L (node tb top) (node tb t) = true.
Proof.
  destruct valid_facts as [HL _].
  destruct (nca_level_spec L ls lt HL) as [Kb [Kag Kmin]]. fold k in Kb, Kag, Kmin.
  destruct (ok_leaf OK s Hs) as [Sl [_ [_ [Slen _]]]]. fold (lvl s) in Sl. fold (lab s) in Slen.
  destruct (ok_leaf OK t Ht) as [Tl _]. fold (lvl t) in Tl.
  pose proof (ok_n0 OK) as Hn0.
  destruct (up_walk_spec (S (ft_levels p)) s) as [ups [top [W [C [T1 [T2 [T3 [T4 T5]]]]]]]];
    try (fold L; lia); try assumption. { reflexivity. }
  assert (Inv : down_inv top).
  { repeat split; try assumption; try lia. intros i Hi. rewrite T5 by lia.
    apply (proj1 (agree_from_spec L k ls lt) Kag). lia. }
  destruct (down_walk_spec (S (ft_levels p)) top) as [downs [W2 [C2 Ln2]]]; [fold L; lia | exact Inv |].
  exists ups, top, downs. unfold ft_hops. rewrite W. simpl fst. simpl snd. rewrite W2.
  repeat split; try assumption; try lia.
  - unfold in_sub_tree. fold (lvl top) (lvl s) (lab top) (lab s) ls. rewrite Sl. simpl seq. cbn [forallb andb].
    destruct (lvl top <=? 0)%nat eqn:E0; [lia|]. fold (agree_from L (lvl top) (lab top) ls).
    apply agree_from_spec. intros i Hi. apply T5. lia.
  - unfold in_sub_tree. fold (lvl top) (lvl t) (lab top) (lab t) lt. rewrite Tl. simpl seq. cbn [forallb andb].
    destruct (lvl top <=? 0)%nat eqn:E0; [lia|]. fold (agree_from L (lvl top) (lab top) lt).
    apply agree_from_spec. intros i Hi. rewrite T5 by lia.
    apply (proj1 (agree_from_spec L k ls lt) Kag). lia.
Qed.

(** [k] is the level of the NEAREST common ancestors: whatever has both ends in its sub-tree is at level >= k *)
Theorem ft_nca_nearest : forall w : fnode,
  in_sub_tree L w (node tb s) = true -> in_sub_tree L w (node tb t) = true -> (k <= fn_level w)%nat.
Proof.
  destruct valid_facts as [HL _].
  destruct (nca_level_spec L ls lt HL) as [Kb [Kag Kmin]]. fold k in Kb, Kag, Kmin.
  destruct (ok_leaf OK s Hs) as [Sl _]. destruct (ok_leaf OK t Ht) as [Tl _].
  intros w A B. unfold in_sub_tree in A, B. fold (lvl s) in Sl. fold (lvl t) in Tl.
  fold (lvl s) (lab s) ls in A. fold (lvl t) (lab t) lt in B. rewrite Sl in A. rewrite Tl in B.
  simpl seq in A, B. cbn [forallb andb] in A, B.
  destruct (fn_level w <=? 0)%nat eqn:E0; [discriminate|].
  fold (agree_from L (fn_level w) (fn_label w) ls) in A. fold (agree_from L (fn_level w) (fn_label w) lt) in B.
  destruct (le_lt_dec k (fn_level w)) as [|Hlt]; [assumption|]. exfalso.
  assert (G : agree_from L (fn_level w) ls lt = true).
  { apply agree_from_spec. intros i Hi.
    rewrite <- (proj1 (agree_from_spec _ _ _ _) A i Hi). apply (proj1 (agree_from_spec _ _ _ _) B i Hi). }
  rewrite Kmin in G by lia. discriminate.
Qed.

End Tables.

(* ------------------------------------------------------------------------------------------ loopback, limiters *)

Definition is_flim (l : flk) : bool := match l with FLim _ => true | _ => false end.
Definition hop_flk (h : fhop) : flk := if fh_up h then FUp (fh_link h) else FDown (fh_link h).

Lemma ft_route_loopback p tb lim s : ft_route p tb true lim s s = [FLoop s].
Proof. unfold ft_route. rewrite Nat.eqb_refl. reflexivity. Qed.

Lemma ft_route_no_limiter p tb lb s t : (s =? t)%nat && lb = false ->
  ft_route p tb lb false s t = map hop_flk (ft_hops p tb s t).
Proof.
  intros H. unfold ft_route. rewrite H. rewrite app_nil_r.
  induction (ft_hops p tb s t) as [|h r IH]; simpl; [reflexivity|].
  rewrite IH. unfold hop_links, hop_flk. destruct (fh_up h); reflexivity.
Qed.

Lemma ft_route_limiters p tb lb s t : (s =? t)%nat && lb = false ->
  let hs := ft_hops p tb s t in
  filter is_flim (ft_route p tb lb true s t) = map FLim (map fh_from hs ++ [last (map fh_to hs) s]) /\
  filter (fun l => negb (is_flim l)) (ft_route p tb lb true s t) = ft_route p tb lb false s t.
Proof.
  intros H hs. rewrite (ft_route_no_limiter _ _ _ _ _ H). unfold ft_route. rewrite H. fold hs.
  generalize (last (map fh_to hs) s). intros z.
  induction hs as [|h r IH]; simpl; [split; reflexivity|].
  destruct IH as [IH1 IH2]. unfold hop_links at 1 3, hop_flk at 1. split.
  - destruct (fh_up h); simpl; rewrite IH1; reflexivity.
  - destruct (fh_up h); simpl; rewrite IH2; reflexivity.
Qed.
