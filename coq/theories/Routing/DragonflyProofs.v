(** C26 — proofs about the dragonfly model of Routing/Dragonfly.v. *)
From SGV Require Import Base.Tactics Routing.Dragonfly.
Local Open Scope Z_scope.

(* ------------------------------------------------------------------------------------------ mixed radix *)

Lemma divmod_pair a b m : 0 <= b < m -> (a * m + b) / m = a /\ (a * m + b) mod m = b.
Proof.
  intros H. split.
  - symmetry. apply Z.div_unique with b; [left; exact H | ring].
  - symmetry. apply Z.mod_unique with a; [left; exact H | ring].
Qed.

Lemma div_range r a m : 0 < m -> 0 <= r < a * m -> 0 <= r / m < a.
Proof.
  intros Hm H. split; [apply Z.div_pos; lia|]. apply Z.div_lt_upper_bound; [lia|]. rewrite Z.mul_comm. lia.
Qed.

Lemma valid_pos p : df_valid p = true -> 0 < df_g p /\ 0 < df_c p /\ 0 < df_b p /\ 0 < df_n p.
Proof. unfold df_valid. intros H. lia. Qed.

(** rank -> (group, chassis, blade, node) -> rank *)
Lemma df_rank_coords p : df_valid p = true -> forall r, 0 <= r < df_g p * df_c p * df_b p * df_n p ->
  coords_in_range p (rank_to_coords p r) /\ coords_to_rank p (rank_to_coords p r) = r.
Proof.
  intros V r Hr. destruct (valid_pos p V) as [HG [HC [HB Hn]]].
  unfold rank_to_coords, coords_to_rank, coords_in_range. cbn [dc_group dc_chassis dc_blade dc_node].
  set (M3 := df_c p * df_b p * df_n p). set (M2 := df_b p * df_n p).
  assert (P3 : 0 < M3) by (unfold M3; repeat apply Z.mul_pos_pos; assumption).
  assert (P2 : 0 < M2) by (unfold M2; repeat apply Z.mul_pos_pos; assumption).
  pose proof (Z.div_mod r M3 ltac:(lia)) as D3. pose proof (Z.mod_pos_bound r M3 P3) as B3.
  set (r1 := r mod M3) in *.
  pose proof (Z.div_mod r1 M2 ltac:(lia)) as D2. pose proof (Z.mod_pos_bound r1 M2 P2) as B2.
  set (r2 := r1 mod M2) in *.
  pose proof (Z.div_mod r2 (df_n p) ltac:(lia)) as D1. pose proof (Z.mod_pos_bound r2 (df_n p) Hn) as B1.
  assert (R3 : 0 <= r / M3 < df_g p).
  { apply div_range; [assumption|]. unfold M3. replace (df_g p * (df_c p * df_b p * df_n p)) with (df_g p * df_c p * df_b p * df_n p) by ring. exact Hr. }
  assert (R2 : 0 <= r1 / M2 < df_c p).
  { apply div_range; [assumption|]. unfold M2. replace (df_c p * (df_b p * df_n p)) with M3 by (unfold M3; ring). exact B3. }
  assert (R1 : 0 <= r2 / df_n p < df_b p).
  { apply div_range; [assumption|]. exact B2. }
  split; [repeat split; lia|].
  set (g := r / M3) in *. set (c := r1 / M2) in *. set (b := r2 / df_n p) in *. set (nd := r2 mod df_n p) in *.
  replace (((g * df_c p + c) * df_b p + b) * df_n p + nd) with (M3 * g + (M2 * c + (df_n p * b + nd)))
    by (unfold M3, M2; ring).
  lia.
Qed.

(** (group, chassis, blade, node) -> rank -> the same coordinates *)
Lemma df_coords_rank p : df_valid p = true -> forall c, coords_in_range p c ->
  0 <= coords_to_rank p c < df_g p * df_c p * df_b p * df_n p /\ rank_to_coords p (coords_to_rank p c) = c.
Proof.
  intros V [g c b nd] [Hg [Hc [Hb Hnd]]]. destruct (valid_pos p V) as [HG [HC [HB Hn]]].
  cbn [dc_group dc_chassis dc_blade dc_node] in *.
  unfold coords_to_rank, rank_to_coords. cbn [dc_group dc_chassis dc_blade dc_node].
  set (M3 := df_c p * df_b p * df_n p). set (M2 := df_b p * df_n p).
  assert (E2 : 0 <= b * df_n p + nd < M2) by (unfold M2; nia).
  assert (E3 : 0 <= c * M2 + (b * df_n p + nd) < M3).
  { unfold M3. replace (df_c p * df_b p * df_n p) with (df_c p * M2) by (unfold M2; ring). nia. }
  replace (((g * df_c p + c) * df_b p + b) * df_n p + nd) with (g * M3 + (c * M2 + (b * df_n p + nd)))
    by (unfold M3, M2; ring).
  split.
  - replace (df_g p * df_c p * df_b p * df_n p) with (df_g p * M3) by (unfold M3; ring). nia.
  - destruct (divmod_pair g _ M3 E3) as [A1 A2]. rewrite A1, A2.
    destruct (divmod_pair c _ M2 E2) as [B1 B2]. rewrite B1, B2.
    destruct (divmod_pair b nd (df_n p) Hnd) as [C1 C2]. rewrite C1, C2. reflexivity.
Qed.

(** the router stored at routers_[router_flat r] is r *)
Lemma df_router_flat p : df_valid p = true -> forall r,
  0 <= dr_chassis r < df_c p -> 0 <= dr_blade r < df_b p -> router_unflat p (router_flat p r) = r.
Proof.
  intros V [g c b] Hc Hb. destruct (valid_pos p V) as [HG [HC [HB Hn]]]. cbn [dr_group dr_chassis dr_blade] in *.
  unfold router_flat, router_unflat. cbn [dr_group dr_chassis dr_blade].
  assert (E : 0 <= c * df_b p + b < df_c p * df_b p) by nia.
  replace (g * (df_c p * df_b p) + c * df_b p + b) with (g * (df_c p * df_b p) + (c * df_b p + b)) by ring.
  destruct (divmod_pair g _ _ E) as [A1 A2]. rewrite A1, A2.
  destruct (divmod_pair c b (df_b p) Hb) as [B1 B2]. rewrite B1.
  replace ((g * (df_c p * df_b p) + (c * df_b p + b)) mod df_b p) with b; [reflexivity|].
  replace (g * (df_c p * df_b p) + (c * df_b p + b)) with ((g * df_c p + c) * df_b p + b) by ring.
  symmetry. apply (divmod_pair _ b (df_b p) Hb).
Qed.

(* ------------------------------------------------------------------------------------------ hops *)

Lemma dr_eqb_refl r : dr_eqb r r = true.
Proof. unfold dr_eqb. rewrite !Z.eqb_refl. reflexivity. Qed.

Lemma dr_eqb_eq x y : dr_eqb x y = true -> x = y.
Proof. destruct x as [g c b], y as [g' c' b']. unfold dr_eqb. cbn [dr_group dr_chassis dr_blade]. intros H. f_equal; lia. Qed.

Lemma green_hop p r k : dr_blade r <> k ->
  hop_dest p (r, green_cell r k) = Some (mkdr (dr_group r) (dr_chassis r) k).
Proof.
  destruct r as [g c b]. cbn [dr_group dr_chassis dr_blade]. intros H. unfold hop_dest, green_cell.
  cbn [fst snd dr_group dr_chassis dr_blade].
  destruct (b <? k) eqn:E1; [|destruct (k <? b) eqn:E2; [|lia]]; cbn [link_ends link_up]; rewrite dr_eqb_refl; reflexivity.
Qed.

Lemma black_hop p r k : dr_chassis r <> k ->
  hop_dest p (r, black_cell r k) = Some (mkdr (dr_group r) k (dr_blade r)).
Proof.
  destruct r as [g c b]. cbn [dr_group dr_chassis dr_blade]. intros H. unfold hop_dest, black_cell.
  cbn [fst snd dr_group dr_chassis dr_blade].
  destruct (c <? k) eqn:E1; [|destruct (k <? c) eqn:E2; [|lia]]; cbn [link_ends link_up]; rewrite dr_eqb_refl; reflexivity.
Qed.

(** the router number m (chassis 0, blade m < B) of group g holds the blue link to group m *)
Lemma blue_hop p g m : 0 < df_b p -> 0 <= g < df_b p -> 0 <= m < df_b p -> m < df_g p -> g <> m ->
  hop_dest p (mkdr g 0 m, blue_cell p (mkdr g 0 m)) = Some (mkdr m 0 g).
Proof.
  intros HB Hg Hm HG Hne. unfold hop_dest, blue_cell. cbn [fst snd dr_group dr_chassis dr_blade].
  replace (0 * df_b p + m) with m by ring.
  destruct (g <? m) eqn:E1.
  - destruct (m <? df_g p) eqn:E2; [|lia]. cbn [link_ends link_up].
    rewrite (Z.div_small m), (Z.mod_small m), (Z.div_small g), (Z.mod_small g) by lia.
    rewrite dr_eqb_refl. reflexivity.
  - destruct (m <? g) eqn:E2; [|lia]. cbn [link_ends link_up].
    rewrite (Z.div_small m), (Z.mod_small m), (Z.div_small g), (Z.mod_small g) by lia.
    rewrite dr_eqb_refl. reflexivity.
Qed.

Lemma walk_app p : forall hs1 a m hs2,
  df_walk_end p a hs1 = Some m -> df_walk_end p a (hs1 ++ hs2) = df_walk_end p m hs2.
Proof.
  induction hs1 as [|h r IH]; simpl; intros a m hs2 H.
  - inv H. reflexivity.
  - destruct (dr_eqb (fst h) a); [|discriminate]. destruct (hop_dest p h) as [x|]; [|discriminate].
    apply IH. exact H.
Qed.

Lemma walk_one p a l b : hop_dest p (a, l) = Some b -> df_walk_end p a [(a, l)] = Some b.
Proof. intros H. simpl. rewrite dr_eqb_refl, H. reflexivity. Qed.

(** stage A: from my router to the router number [group of my node] of the destination group *)
Lemma stage_a_walk p ms tc : df_valid p = true -> df_g p <= df_b p ->
  coords_in_range p ms -> coords_in_range p tc -> dc_group ms <> dc_group tc ->
  df_walk_end p (router_of ms) (fst (df_stage_a p ms tc (router_of ms))) = Some (snd (df_stage_a p ms tc (router_of ms))).
Proof.
  intros V GB [Hg [Hc [Hb _]]] [Tg [Tc [Tb _]]] Hne. destruct (valid_pos p V) as [HG [HC [HB Hn]]].
  destruct ms as [gs cs bs ns], tc as [gt ct bt nt]. cbn [dc_group dc_chassis dc_blade dc_node] in *.
  unfold df_stage_a, router_of. cbn [dc_group dc_chassis dc_blade dr_group dr_chassis dr_blade fst snd].
  (* a1 *)
  assert (A1 : exists h1, (if negb (bs =? gt)
                then ([(mkdr gs cs bs, green_cell (mkdr gs cs bs) gt)], mkdr gs cs gt)
                else ([], mkdr gs cs bs)) = (h1, mkdr gs cs gt) /\ df_walk_end p (mkdr gs cs bs) h1 = Some (mkdr gs cs gt)).
  { destruct (bs =? gt) eqn:E; cbn [negb].
    - apply Z.eqb_eq in E. subst. eexists. split; reflexivity.
    - apply Z.eqb_neq in E. eexists. split; [reflexivity|]. apply walk_one.
      rewrite green_hop by (cbn; exact E). reflexivity. }
  destruct A1 as [h1 [E1 W1]]. rewrite E1. cbn [fst snd dr_chassis].
  assert (A2 : exists h2, (if negb (cs =? 0)
                then ([(mkdr gs cs gt, black_cell (mkdr gs cs gt) 0)], mkdr gs 0 gt)
                else ([], mkdr gs cs gt)) = (h2, mkdr gs 0 gt) /\ df_walk_end p (mkdr gs cs gt) h2 = Some (mkdr gs 0 gt)).
  { destruct (cs =? 0) eqn:E; cbn [negb].
    - apply Z.eqb_eq in E. subst. eexists. split; reflexivity.
    - apply Z.eqb_neq in E. eexists. split; [reflexivity|]. apply walk_one.
      rewrite black_hop by (cbn; exact E). reflexivity. }
  destruct A2 as [h2 [E2 W2]]. rewrite E2. cbn [fst snd].
  rewrite (walk_app p h1 _ _ _ W1). rewrite (walk_app p h2 _ _ _ W2).
  apply walk_one. apply blue_hop; lia.
Qed.

(** the routers' part of the route is a walk from the source's router to the destination's router: every hop leaves
    the router reached so far through a link that this router holds, and the walk ends at the destination's router *)
Theorem df_hops_walk_c p ms tc : df_valid p = true -> df_g p <= df_b p ->
  coords_in_range p ms -> coords_in_range p tc ->
  df_walk_end p (router_of ms) (df_hops_c true p ms tc) = Some (router_of tc).
Proof.
  intros V GB Hs Ht. unfold df_hops_c.
  destruct (dr_eqb (router_of ms) (router_of tc)) eqn:E0.
  - apply dr_eqb_eq in E0. rewrite E0. reflexivity.
  - cbn [router_of dr_group].
    assert (A : exists ha cur, (if negb (dc_group tc =? dc_group ms) then df_stage_a p ms tc (router_of ms) else ([], router_of ms)) = (ha, cur)
               /\ df_walk_end p (router_of ms) ha = Some cur /\ dr_group cur = dc_group tc /\
               (dc_group tc = dc_group ms -> cur = router_of ms)).
    { destruct (dc_group tc =? dc_group ms) eqn:E; cbn [negb].
      - apply Z.eqb_eq in E. exists [], (router_of ms). repeat split; auto.
      - apply Z.eqb_neq in E. eexists _, _. split; [apply surjective_pairing|]. split; [|split].
        + apply stage_a_walk; auto.
        + reflexivity.
        + intros; congruence. }
    destruct A as [ha [cur [EA [WA [GA _]]]]]. fold (router_of ms). rewrite EA. cbn [fst snd].
    rewrite (walk_app p ha _ _ _ WA).
    (* stage b *)
    assert (Bw : exists hb cur2, df_stage_b true tc cur = (hb, cur2) /\ df_walk_end p cur hb = Some cur2 /\
                 dr_group cur2 = dc_group tc /\ dr_blade cur2 = dc_blade tc).
    { unfold df_stage_b. destruct (dc_blade tc =? dr_blade cur) eqn:E; cbn [negb].
      - apply Z.eqb_eq in E. exists [], cur. repeat split; auto.
      - apply Z.eqb_neq in E. eexists _, _. split; [reflexivity|]. split; [|split; reflexivity].
        apply walk_one. rewrite green_hop by congruence. rewrite GA. reflexivity. }
    destruct Bw as [hb [cur2 [EB [WB [GB2 BB]]]]]. rewrite EB. cbn [fst snd].
    rewrite (walk_app p hb _ _ _ WB).
    unfold df_stage_c. destruct (dc_chassis tc =? dr_chassis cur2) eqn:E; cbn [negb].
    + apply Z.eqb_eq in E. simpl. f_equal. destruct cur2 as [g2 c2 b2], tc as [gt ct bt nt]. unfold router_of.
      cbn [dr_group dr_chassis dr_blade dc_group dc_chassis dc_blade] in *. congruence.
    + apply Z.eqb_neq in E. apply walk_one. rewrite black_hop by congruence. f_equal.
      destruct cur2 as [g2 c2 b2], tc as [gt ct bt nt]. unfold router_of.
      cbn [dr_group dr_chassis dr_blade dc_group dc_chassis dc_blade] in *. congruence.
Qed.

Theorem df_hops_walk p s t : df_valid p = true -> df_g p <= df_b p ->
  0 <= s < df_g p * df_c p * df_b p * df_n p -> 0 <= t < df_g p * df_c p * df_b p * df_n p ->
  df_walk_end p (router_of (rank_to_coords p s)) (df_hops true p s t) = Some (router_of (rank_to_coords p t)).
Proof.
  intros V GB Hs Ht. unfold df_hops. apply df_hops_walk_c; auto; apply df_rank_coords; auto.
Qed.

(** hierarchy: at most one green and one black hop inside a group, exactly one blue hop iff the groups differ *)
Definition link_kind (l : dlink) : Z :=
  match l with DGreen _ _ _ _ _ => 1 | DBlack _ _ _ _ _ => 2 | DBlue _ _ _ => 3 | _ => 0 end.

Lemma kind_green r k : dr_blade r <> k -> link_kind (green_cell r k) = 1.
Proof.
  destruct r as [g c b]. unfold green_cell. cbn [dr_group dr_chassis dr_blade]. intros H.
  destruct (b <? k) eqn:E1; [reflexivity|]. destruct (k <? b) eqn:E2; [reflexivity|lia].
Qed.

Lemma kind_black r k : dr_chassis r <> k -> link_kind (black_cell r k) = 2.
Proof.
  destruct r as [g c b]. unfold black_cell. cbn [dr_group dr_chassis dr_blade]. intros H.
  destruct (c <? k) eqn:E1; [reflexivity|]. destruct (k <? c) eqn:E2; [reflexivity|lia].
Qed.

Lemma kind_blue p g m : g <> m -> m < df_g p -> link_kind (blue_cell p (mkdr g 0 m)) = 3.
Proof.
  intros H1 H2. unfold blue_cell. cbn [dr_group dr_chassis dr_blade]. replace (0 * df_b p + m) with m by ring.
  destruct (g <? m) eqn:E1; [destruct (m <? df_g p) eqn:E3; [reflexivity|lia]|]. destruct (m <? g) eqn:E2; [reflexivity|lia].
Qed.

Definition hop_kinds (hs : list (drouter * dlink)) : list Z := map (fun h => link_kind (snd h)) hs.

Lemma hop_kinds_app a b : hop_kinds (a ++ b) = hop_kinds a ++ hop_kinds b.
Proof. apply map_app. Qed.

Lemma stage_b_kinds tc cur :
  hop_kinds (fst (df_stage_b true tc cur)) = (if dc_blade tc =? dr_blade cur then [] else [1]) /\
  dr_chassis (snd (df_stage_b true tc cur)) = dr_chassis cur.
Proof.
  unfold df_stage_b, hop_kinds. destruct (dc_blade tc =? dr_blade cur) eqn:E; cbn [negb fst snd map dr_chassis].
  - split; reflexivity.
  - apply Z.eqb_neq in E. rewrite kind_green by congruence. split; reflexivity.
Qed.

Lemma stage_c_kinds tc cur :
  hop_kinds (df_stage_c tc cur) = (if dc_chassis tc =? dr_chassis cur then [] else [2]).
Proof.
  unfold df_stage_c, hop_kinds. destruct (dc_chassis tc =? dr_chassis cur) eqn:E; cbn [negb fst snd map].
  - reflexivity.
  - apply Z.eqb_neq in E. rewrite kind_black by congruence. reflexivity.
Qed.

Lemma stage_a_kinds p ms tc : dc_group ms <> dc_group tc -> dc_group tc < df_g p ->
  hop_kinds (fst (df_stage_a p ms tc (router_of ms))) =
    (if dc_blade ms =? dc_group tc then [] else [1]) ++ (if dc_chassis ms =? 0 then [] else [2]) ++ [3].
Proof.
  destruct ms as [gs cs bs ns], tc as [gt ct bt nt]. cbn [dc_group dc_chassis dc_blade]. intros Hne HG.
  unfold df_stage_a, router_of, hop_kinds. cbn [dc_group dc_chassis dc_blade dr_blade].
  destruct (bs =? gt) eqn:E1; cbn [negb fst snd dr_chassis].
  - apply Z.eqb_eq in E1. subst bs.
    destruct (cs =? 0) eqn:E2; cbn [negb fst snd app map].
    + apply Z.eqb_eq in E2. subst cs. rewrite kind_blue by assumption. reflexivity.
    + apply Z.eqb_neq in E2. rewrite kind_black by (cbn; exact E2). rewrite kind_blue by assumption. reflexivity.
  - apply Z.eqb_neq in E1.
    destruct (cs =? 0) eqn:E2; cbn [negb fst snd app map].
    + apply Z.eqb_eq in E2. subst cs. rewrite kind_green by (cbn; exact E1). rewrite kind_blue by assumption. reflexivity.
    + apply Z.eqb_neq in E2. rewrite kind_green by (cbn; exact E1). rewrite kind_black by (cbn; exact E2).
      rewrite kind_blue by assumption. reflexivity.
Qed.

(** green = 1, black = 2, blue = 3: inside a group at most one green then at most one black hop, exactly those needed
    (minimal: one hop per coordinate that differs); between groups: to the router holding the blue link to the
    destination group (at most green, black), the blue link, then inside the destination group as above *)
Theorem df_hops_kinds p ms tc : df_valid p = true -> df_g p <= df_b p ->
  coords_in_range p ms -> coords_in_range p tc ->
  hop_kinds (df_hops_c true p ms tc) =
  if dr_eqb (router_of ms) (router_of tc) then []
  else if dc_group tc =? dc_group ms
       then (if dc_blade tc =? dc_blade ms then [] else [1]) ++ (if dc_chassis tc =? dc_chassis ms then [] else [2])
       else (if dc_blade ms =? dc_group tc then [] else [1]) ++ (if dc_chassis ms =? 0 then [] else [2]) ++ [3] ++
            (if dc_blade tc =? dc_group ms then [] else [1]) ++ (if dc_chassis tc =? 0 then [] else [2]).
Proof.
  intros V GB [Hg [Hc [Hb _]]] [Tg [Tc [Tb _]]]. unfold df_hops_c.
  destruct (dr_eqb (router_of ms) (router_of tc)) eqn:E0; [reflexivity|].
  change (dr_group (router_of tc)) with (dc_group tc). change (dr_group (router_of ms)) with (dc_group ms).
  destruct (dc_group tc =? dc_group ms) eqn:Eg; cbn [negb].
  - cbn [fst snd app]. rewrite hop_kinds_app.
    destruct (stage_b_kinds tc (router_of ms)) as [K1 K2]. rewrite K1, stage_c_kinds, K2. reflexivity.
  - apply Z.eqb_neq in Eg. rewrite !hop_kinds_app. rewrite stage_a_kinds by lia.
    change (snd (df_stage_a p ms tc (router_of ms))) with (mkdr (dc_group tc) 0 (dc_group ms)).
    destruct (stage_b_kinds tc (mkdr (dc_group tc) 0 (dc_group ms))) as [K1 K2]. rewrite K1, stage_c_kinds, K2.
    cbn [dr_blade dr_chassis]. rewrite <- !app_assoc. reflexivity.
Qed.

(** what the links join: a green link two blades of one chassis, a black link two chassis of one group at the same
    blade, a blue link two different groups *)
Lemma link_ends_hierarchy p l a b : link_ends p l = Some (a, b) ->
  match l with
  | DGreen _ _ j k _ => dr_group a = dr_group b /\ dr_chassis a = dr_chassis b /\ dr_blade a = j /\ dr_blade b = k
  | DBlack _ j k _ _ => dr_group a = dr_group b /\ dr_blade a = dr_blade b /\ dr_chassis a = j /\ dr_chassis b = k
  | DBlue i j _ => dr_group a = i /\ dr_group b = j
  | _ => False
  end.
Proof. destruct l; simpl; intros H; inv H; cbn; auto. Qed.

(** the pinned code (before the repair): a route that is not a walk — 1 group, 3 chassis, 2 blades, 1 node per blade,
    from chassis 1 blade 0 (rank 2) to chassis 1 blade 1 (rank 3): green link, then a black link of a router of chassis 0 *)
Lemma df_pinned_refuted : exists p s t, df_valid p = true /\ df_g p <= df_b p /\
  0 <= s < df_g p * df_c p * df_b p * df_n p /\ 0 <= t < df_g p * df_c p * df_b p * df_n p /\
  df_walk_end p (router_of (rank_to_coords p s)) (df_hops false p s t) = None /\ length (df_hops false p s t) = 2%nat /\
  length (df_hops true p s t) = 1%nat.
Proof. exists (mkdfp 1 3 2 1), 2, 3. vm_compute. repeat split; congruence. Qed.

(* ------------------------------------------------------------------------------------------ loopback, limiters *)

Definition is_dlim (l : dlink) : bool := match l with DLimNode _ | DLimRouter _ => true | _ => false end.

Lemma df_route_loopback keep p lim s : df_route keep p true lim s s = [DLoop s].
Proof. unfold df_route. rewrite Z.eqb_refl. reflexivity. Qed.

Lemma df_route_no_limiter keep p lb s t : (s =? t) && lb = false ->
  df_route keep p lb false s t =
  DLocal (router_of (rank_to_coords p s)) (dc_node (rank_to_coords p s)) true :: map snd (df_hops keep p s t) ++
  [DLocal (router_of (rank_to_coords p t)) (dc_node (rank_to_coords p t)) false].
Proof.
  intros H. unfold df_route. rewrite H. cbn [app]. f_equal. f_equal.
  induction (df_hops keep p s t) as [|h r IH]; simpl; [reflexivity|]. rewrite IH.
  unfold df_hop_links. destruct (is_blue (snd h)); reflexivity.
Qed.

Lemma filter_flat_map {A B} (f : B -> bool) (g : A -> list B) l :
  filter f (flat_map g l) = flat_map (fun x => filter f (g x)) l.
Proof. induction l; simpl; [reflexivity|]. rewrite filter_app, IHl. reflexivity. Qed.

Lemma df_route_limiters keep p lb s t : (s =? t) && lb = false ->
  Forall (fun h => is_dlim (snd h) = false) (df_hops keep p s t) ->
  filter is_dlim (df_route keep p lb true s t) =
    DLimNode s :: map (fun h => DLimRouter (fst h)) (df_hops keep p s t) ++
    [DLimRouter (router_of (rank_to_coords p t)); DLimNode t] /\
  filter (fun l => negb (is_dlim l)) (df_route keep p lb true s t) = df_route keep p lb false s t.
Proof.
  intros H F. rewrite (df_route_no_limiter keep p lb s t H). unfold df_route. rewrite H.
  assert (A : flat_map (fun x => filter is_dlim (df_hop_links true x)) (df_hops keep p s t) =
              map (fun h => DLimRouter (fst h)) (df_hops keep p s t) /\
              flat_map (fun x => filter (fun l => negb (is_dlim l)) (df_hop_links true x)) (df_hops keep p s t) =
              map snd (df_hops keep p s t)).
  { induction F as [|h r Hh F IH]; [split; reflexivity|]. destruct IH as [I1 I2]. cbn [flat_map map].
    rewrite I1, I2. unfold df_hop_links.
    destruct (is_blue (snd h)) eqn:Eb; cbn [filter app is_dlim negb]; rewrite Hh; cbn [negb app]; split; reflexivity. }
  destruct A as [A1 A2].
  rewrite !filter_app, !filter_flat_map, A1, A2. cbn [filter is_dlim negb app]. split; reflexivity.
Qed.

Lemma green_cell_not_lim r k : is_dlim (green_cell r k) = false.
Proof. unfold green_cell. destruct (dr_blade r <? k); [reflexivity|]. destruct (k <? dr_blade r); reflexivity. Qed.
Lemma black_cell_not_lim r k : is_dlim (black_cell r k) = false.
Proof. unfold black_cell. destruct (dr_chassis r <? k); [reflexivity|]. destruct (k <? dr_chassis r); reflexivity. Qed.
Lemma blue_cell_not_lim p r : is_dlim (blue_cell p r) = false.
Proof.
  unfold blue_cell. destruct (dr_group r <? _); [destruct (_ <? df_g p); reflexivity|]. destruct (_ <? dr_group r); reflexivity.
Qed.

Lemma df_hops_not_lim keep p s t : Forall (fun h => is_dlim (snd h) = false) (df_hops keep p s t).
Proof.
  unfold df_hops, df_hops_c, df_stage_a, df_stage_b, df_stage_c.
  repeat match goal with |- context [if ?b then _ else _] => destruct b end; cbn [fst snd app];
    repeat constructor; cbn [snd]; auto using green_cell_not_lim, black_cell_not_lim, blue_cell_not_lim.
Qed.
