(** C26 — proofs about the torus and star models of Routing/Torus.v. *)
From SGV Require Import Base.Tactics Routing.Torus.
Local Open Scope Z_scope.

(* ------------------------------------------------------------------------------------------ arithmetic *)

Lemma mod_cases d a : 0 < d -> - d <= a < 2 * d ->
  a mod d = if a <? 0 then a + d else if a <? d then a else a - d.
Proof.
  intros Hd Ha. destruct (a <? 0) eqn:E1; [|destruct (a <? d) eqn:E2].
  - symmetry. apply Z.mod_unique with (q := -1); lia.
  - apply Z.mod_small; lia.
  - symmetry. apply Z.mod_unique with (q := 1); lia.
Qed.

Definition dist_up (m t d : Z) := (t - m) mod d.
Definition dist_down (m t d : Z) := (m - t) mod d.

(** the direction test of the C++ picks a shorter way round (ties: either) *)
Lemma right_way_shorter m t d : 0 < d -> 0 <= m < d -> 0 <= t < d -> m <> t ->
  (right_way m t d = true -> dist_up m t d <= dist_down m t d) /\
  (right_way m t d = false -> dist_down m t d <= dist_up m t d).
Proof.
  intros Hd Hm Ht Hne. unfold right_way, dist_up, dist_down.
  assert (H2 : 0 <= d / 2 <= d) by lia.
  rewrite (mod_cases d (m + d / 2)) by lia.
  rewrite (mod_cases d (t - m)) by lia.
  rewrite (mod_cases d (m - t)) by lia.
  destruct (m + d / 2 <? 0) eqn:A; [lia|].
  destruct (m + d / 2 <? d) eqn:B; destruct (t - m <? 0) eqn:C; destruct (m - t <? 0) eqn:D;
    destruct (t - m <? d) eqn:E; destruct (m - t <? d) eqn:F; lia.
Qed.

Lemma dist_sum m t d : 0 < d -> 0 <= m < d -> 0 <= t < d -> m <> t -> dist_up m t d + dist_down m t d = d.
Proof.
  intros. unfold dist_up, dist_down. rewrite (mod_cases d (t - m)), (mod_cases d (m - t)) by lia.
  destruct (t - m <? 0) eqn:C; destruct (m - t <? 0) eqn:D; destruct (t - m <? d) eqn:E; destruct (m - t <? d) eqn:F; lia.
Qed.

(* ------------------------------------------------------------------------------------------ coordinates *)

Definition posl (dims : list Z) := Forall (fun d => 0 < d) dims.

Lemma prodz_pos dims : posl dims -> 0 < prodz dims.
Proof. induction 1; simpl; [lia | nia]. Qed.

Lemma coord_range dp d x : 0 < d -> 0 <= coord dp d x < d.
Proof. intros. unfold coord. apply Z.mod_pos_bound; lia. Qed.

Lemma coord_move_head dp d x c' : 0 < dp -> 0 < d -> 0 <= c' < d ->
  let x' := x + dp * (c' - coord dp d x) in
  coord dp d x' = c' /\ x' / (dp * d) = x / (dp * d) /\ x' mod dp = x mod dp.
Proof.
  intros Hdp Hd Hc x'. unfold coord in *.
  set (a := x / dp). set (r := x mod dp).
  assert (Hx : x = dp * a + r) by (apply Z.div_mod; lia).
  assert (Hr : 0 <= r < dp) by (apply Z.mod_pos_bound; lia).
  set (q := a / d). set (c := a mod d).
  assert (Ha : a = d * q + c) by (apply Z.div_mod; lia).
  assert (Hcc : 0 <= c < d) by (apply Z.mod_pos_bound; lia).
  assert (Hx' : x' = dp * (d * q + c') + r) by (unfold x'; fold a; fold c; nia).
  assert (D1 : x' / dp = d * q + c') by (symmetry; apply Z.div_unique with (r := r); lia).
  assert (M1 : x' mod dp = r) by (symmetry; apply Z.mod_unique with (q := d * q + c'); lia).
  repeat split.
  - rewrite D1. symmetry. apply Z.mod_unique with (q := q); lia.
  - rewrite <- !Z.div_div by lia. rewrite D1. fold a. rewrite Ha.
    transitivity q; [symmetry; apply Z.div_unique with (r := c'); lia | apply Z.div_unique with (r := c); lia].
  - exact M1.
Qed.

Lemma coord_add_mult dp d x k : 0 < dp -> 0 < d -> coord dp d (x + dp * d * k) = coord dp d x.
Proof.
  intros. unfold coord. replace (x + dp * d * k) with (x + (d * k) * dp) by ring.
  rewrite Z.div_add by lia. replace (x / dp + d * k) with (x / dp + k * d) by ring. apply Z_mod_plus_full.
Qed.

Lemma coords_ext r : forall D x y, 0 < D -> posl r -> x / D = y / D -> coords r D x = coords r D y.
Proof.
  induction r as [|a r IH]; intros D x y HD Hp E; simpl; [reflexivity|].
  inv Hp. f_equal.
  - unfold coord. now rewrite E.
  - apply IH; [nia | assumption |]. rewrite <- !Z.div_div by lia. now rewrite E.
Qed.

Fixpoint upd (j : nat) (v : Z) (l : list Z) : list Z :=
  match l, j with
  | [], _ => []
  | _ :: r, O => v :: r
  | a :: r, S j' => a :: upd j' v r
  end.

Lemma stride_pos dims : posl dims -> forall j, 0 < fst (stride dims j) /\ 0 < snd (stride dims j).
Proof.
  induction 1 as [|d r Hd Hr IH]; intros j; simpl.
  - destruct j; simpl; lia.
  - destruct j; simpl; [lia|]. specialize (IH j). destruct (stride r j) as [dp dj]; simpl in *. nia.
Qed.

(** moving along dimension j (to coordinate c') changes that coordinate only, stays in the same "block" of the
    whole torus and keeps the part below [dp] *)
Lemma move_coords dims : posl dims -> forall j dp x c' sdp d, 0 < dp -> (j < length dims)%nat ->
  stride dims j = (sdp, d) -> 0 <= c' < d ->
  let x' := x + dp * sdp * (c' - coord (dp * sdp) d x) in
  coords dims dp x' = upd j c' (coords dims dp x) /\
  x' / (dp * prodz dims) = x / (dp * prodz dims) /\ x' mod dp = x mod dp.
Proof.
  induction 1 as [|d0 r Hd Hr IH]; intros j dp x c' sdp d Hdp Hj Es; [simpl in Hj; lia|].
  destruct j as [|j].
  - simpl in Es. inv Es. intros Hc. rewrite Z.mul_1_r. cbv zeta.
    destruct (coord_move_head dp d x c' Hdp Hd Hc) as (A & B & C).
    repeat split.
    + simpl. f_equal; [exact A|]. apply coords_ext; [nia | assumption | exact B].
    + simpl prodz. rewrite Z.mul_assoc. rewrite <- !(Z.div_div _ (dp * d)) by (try nia; apply prodz_pos; assumption).
      now rewrite B.
    + exact C.
  - simpl in Hj. assert (Hj' : (j < length r)%nat) by lia.
    pose proof (stride_pos r Hr j) as [Hs1 Hs2].
    simpl in Es. destruct (stride r j) as [sdp' dj] eqn:Es'. inv Es. simpl fst in *. simpl snd in *.
    intros Hc x'.
    assert (Hdp' : 0 < dp * d0) by nia.
    pose proof (IH j (dp * d0) x c' sdp' d Hdp' Hj' Es' Hc) as IH'. cbv zeta in IH'.
    replace (dp * d0 * sdp') with (dp * (d0 * sdp')) in IH' by ring.
    fold x' in IH'. destruct IH' as (A & B & C).
    repeat split.
    + simpl. f_equal; [|exact A].
      unfold x'. replace (dp * (d0 * sdp') * (c' - coord (dp * (d0 * sdp')) d x))
        with (dp * d0 * (sdp' * (c' - coord (dp * (d0 * sdp')) d x))) by ring.
      apply coord_add_mult; lia.
    + simpl prodz. rewrite Z.mul_assoc. exact B.
    + unfold x'. replace (dp * (d0 * sdp') * (c' - coord (dp * (d0 * sdp')) d x))
        with ((d0 * sdp' * (c' - coord (dp * (d0 * sdp')) d x)) * dp) by ring.
      apply Z_mod_plus_full.
Qed.

Lemma nth_coords dims : posl dims -> forall j dp x, 0 < dp -> (j < length dims)%nat ->
  nth j (coords dims dp x) 0 = coord (dp * fst (stride dims j)) (snd (stride dims j)) x.
Proof.
  induction 1 as [|d0 r Hd Hr IH]; intros j dp x Hdp Hj; [simpl in Hj; lia|].
  destruct j as [|j]; simpl.
  - now rewrite Z.mul_1_r.
  - simpl in Hj. rewrite IH by (try nia; lia). destruct (stride r j) as [sdp dj]. simpl. now rewrite Z.mul_assoc.
Qed.

Lemma coords_length dims : forall dp x, length (coords dims dp x) = length dims.
Proof. induction dims; simpl; intros; [reflexivity | now rewrite IHdims]. Qed.

Lemma coords_inj dims : posl dims -> forall dp x y, 0 < dp ->
  coords dims dp x = coords dims dp y -> x / (dp * prodz dims) = y / (dp * prodz dims) -> x mod dp = y mod dp -> x = y.
Proof.
  induction 1 as [|d0 r Hd Hr IH]; intros dp x y Hdp E Q M.
  - simpl in Q. rewrite Z.mul_1_r in Q. rewrite (Z.div_mod x dp), (Z.div_mod y dp) by lia. now rewrite Q, M.
  - simpl in E. injection E as E0 E1. simpl prodz in Q. rewrite Z.mul_assoc in Q.
    apply (IH (dp * d0)); [nia | assumption | assumption |].
    rewrite !Z.rem_mul_r by lia. unfold coord in E0. now rewrite M, E0.
Qed.

Lemma nth_upd_same : forall l k v, (k < length l)%nat -> nth k (upd k v l) 0 = v.
Proof. induction l; intros k v H; simpl in *; [lia|]. destruct k; simpl; [reflexivity | apply IHl; lia]. Qed.

Lemma nth_upd_other : forall l k i v, i <> k -> nth i (upd k v l) 0 = nth i l 0.
Proof.
  induction l; intros k i v H; [destruct k; destruct i; reflexivity|].
  destruct k; destruct i; simpl; try reflexivity; try lia. apply IHl; lia.
Qed.

Lemma nth_eq_all (a b : list Z) : length a = length b -> (forall i, (i < length a)%nat -> nth i a 0 = nth i b 0) -> a = b.
Proof.
  revert b. induction a as [|x a IH]; intros [|y b] L H; simpl in *; try lia; [reflexivity|].
  f_equal; [apply (H O); lia | apply IH; [lia | intros i Hi; apply (H (S i)); lia]].
Qed.

(* ------------------------------------------------------------------------------------------ the walk *)

Definition move_up (dp d cur : Z) := if coord dp d cur =? d - 1 then cur + dp - dp * d else cur + dp.
Definition move_down (dp d cur : Z) := if coord dp d cur =? 0 then cur - dp + dp * d else cur - dp.
Definition move (up : bool) := if up then move_up else move_down.
Definition succ_coord (up : bool) (d c : Z) := if up then (c + 1) mod d else (c - 1) mod d.
Definition dist (up : bool) (c t d : Z) := if up then dist_up c t d else dist_down c t d.

Lemma move_eq up dp d cur : 0 < dp -> 0 < d ->
  move up dp d cur = cur + dp * (succ_coord up d (coord dp d cur) - coord dp d cur).
Proof.
  intros Hdp Hd. pose proof (coord_range dp d cur Hd) as Hc.
  destruct up; unfold move, move_up, move_down, succ_coord.
  - rewrite (mod_cases d (coord dp d cur + 1)) by lia.
    destruct (coord dp d cur =? d - 1) eqn:E; destruct (coord dp d cur + 1 <? 0) eqn:E1;
      destruct (coord dp d cur + 1 <? d) eqn:E2; try lia; nia.
  - rewrite (mod_cases d (coord dp d cur - 1)) by lia.
    destruct (coord dp d cur =? 0) eqn:E; destruct (coord dp d cur - 1 <? 0) eqn:E1;
      destruct (coord dp d cur - 1 <? d) eqn:E2; try lia; nia.
Qed.

Lemma succ_range up d c : 0 < d -> 0 <= succ_coord up d c < d.
Proof. intros. destruct up; unfold succ_coord; apply Z.mod_pos_bound; lia. Qed.

Lemma dist_zero up c t d : 0 < d -> 0 <= c < d -> 0 <= t < d -> dist up c t d = 0 -> c = t.
Proof.
  intros Hd Hc Ht. destruct up; unfold dist, dist_up, dist_down.
  - rewrite (mod_cases d (t - c)) by lia. destruct (t - c <? 0) eqn:A; destruct (t - c <? d) eqn:B; lia.
  - rewrite (mod_cases d (c - t)) by lia. destruct (c - t <? 0) eqn:A; destruct (c - t <? d) eqn:B; lia.
Qed.

Lemma dist_range up c t d : 0 < d -> 0 <= dist up c t d < d.
Proof. intros. destruct up; unfold dist, dist_up, dist_down; apply Z.mod_pos_bound; lia. Qed.

Lemma dist_succ up c t d : 0 < d -> 0 <= c < d -> 0 <= t < d -> c <> t ->
  dist up (succ_coord up d c) t d = dist up c t d - 1.
Proof.
  intros Hd Hc Ht Hne. destruct up; unfold dist, dist_up, dist_down, succ_coord.
  - rewrite (mod_cases d (c + 1)) by lia.
    destruct (c + 1 <? 0) eqn:A; [lia|]. destruct (c + 1 <? d) eqn:B.
    + rewrite (mod_cases d (t - (c + 1))), (mod_cases d (t - c)) by lia.
      destruct (t - (c + 1) <? 0) eqn:C; destruct (t - c <? 0) eqn:D; destruct (t - (c + 1) <? d) eqn:E;
        destruct (t - c <? d) eqn:F; lia.
    + rewrite (mod_cases d (t - (c + 1 - d))), (mod_cases d (t - c)) by lia.
      destruct (t - (c + 1 - d) <? 0) eqn:C; destruct (t - c <? 0) eqn:D; destruct (t - (c + 1 - d) <? d) eqn:E;
        destruct (t - c <? d) eqn:F; lia.
  - rewrite (mod_cases d (c - 1)) by lia.
    destruct (c - 1 <? 0) eqn:A.
    + rewrite (mod_cases d (c - 1 + d - t)), (mod_cases d (c - t)) by lia.
      destruct (c - 1 + d - t <? 0) eqn:C; destruct (c - t <? 0) eqn:D; destruct (c - 1 + d - t <? d) eqn:E;
        destruct (c - t <? d) eqn:F; lia.
    + destruct (c - 1 <? d) eqn:B; [|lia].
      rewrite (mod_cases d (c - 1 - t)), (mod_cases d (c - t)) by lia.
      destruct (c - 1 - t <? 0) eqn:C; destruct (c - t <? 0) eqn:D; destruct (c - 1 - t <? d) eqn:E;
        destruct (c - t <? d) eqn:F; lia.
Qed.

Fixpoint walk (n : nat) (j : nat) (up : bool) (dp d cur : Z) : list thop :=
  match n with
  | O => []
  | S n' => let next := move up dp d cur in mkhop j up cur next :: walk n' j up dp d next
  end.
Fixpoint walk_end (n : nat) (up : bool) (dp d cur : Z) : Z :=
  match n with O => cur | S n' => walk_end n' up dp d (move up dp d cur) end.

(** the specification: dimension after dimension, in dimension j exactly dist (shorter way) hops in one direction *)
Fixpoint spec_from (n : nat) (dims : list Z) (j : nat) (src cur dst : Z) : list thop :=
  match n with
  | O => []
  | S n' =>
      let dp := fst (stride dims j) in let d := snd (stride dims j) in
      let up := right_way (coord dp d src) (coord dp d dst) d in
      let k := Z.to_nat (dist up (coord dp d src) (coord dp d dst) d) in
      walk k j up dp d cur ++ spec_from n' dims (S j) src (walk_end k up dp d cur) dst
  end.
Definition torus_spec (dims : list Z) (src dst : Z) := spec_from (length dims) dims 0 src src dst.

Lemma walk_length_eq n j up dp d cur : length (walk n j up dp d cur) = n.
Proof. revert cur. induction n; simpl; intros; [reflexivity | now rewrite IHn]. Qed.

Definition inrange (dims : list Z) (x : Z) := x / prodz dims = 0.
Definition cs (dims : list Z) (x : Z) := coords dims 1 x.

Lemma find_dim_spec dims : posl dims -> forall k j0 dp cur dst, 0 < dp -> (k < length dims)%nat ->
  (forall i, (i < k)%nat -> nth i (coords dims dp cur) 0 = nth i (coords dims dp dst) 0) ->
  nth k (coords dims dp cur) 0 <> nth k (coords dims dp dst) 0 ->
  find_dim dims j0 dp cur dst = Some ((j0 + k)%nat, dp * fst (stride dims k), snd (stride dims k)).
Proof.
  induction 1 as [|d0 r Hd Hr IH]; intros k j0 dp cur dst Hdp Hk Hlt Hne; [simpl in Hk; lia|].
  destruct k as [|k]; simpl in *.
  - destruct (coord dp d0 cur =? coord dp d0 dst) eqn:E; [lia|]. simpl. now rewrite Nat.add_0_r, Z.mul_1_r.
  - pose proof (Hlt O ltac:(lia)) as H0. simpl in H0.
    destruct (coord dp d0 cur =? coord dp d0 dst) eqn:E; [|lia]. simpl.
    rewrite (IH k (S j0) (dp * d0) cur dst) by (try nia; try lia; try assumption; intros i Hi; apply (Hlt (S i)); lia).
    destruct (stride r k) as [sdp dj]; simpl. replace (S j0 + k)%nat with (j0 + S k)%nat by lia.
    now rewrite Z.mul_assoc.
Qed.

Lemma hops_at_dst f dims src dst : hops f dims src dst dst = [].
Proof. destruct f; simpl; [reflexivity | now rewrite Z.eqb_refl]. Qed.

Section Torus.
  Variable dims : list Z.
  Hypothesis Hpos : posl dims.
  Variables src dst : Z.

  Let DP k := fst (stride dims k).
  Let DD k := snd (stride dims k).
  Let C k x := coord (DP k) (DD k) x.

  Lemma C_nth k x : (k < length dims)%nat -> nth k (cs dims x) 0 = C k x.
  Proof. intros. unfold cs, C, DP, DD. rewrite nth_coords by (try lia; assumption). now rewrite Z.mul_1_l. Qed.

  Lemma move_props up k cur : (k < length dims)%nat -> inrange dims cur ->
    let nx := move up (DP k) (DD k) cur in
    inrange dims nx /\ C k nx = succ_coord up (DD k) (C k cur) /\
    (forall i, i <> k -> nth i (cs dims nx) 0 = nth i (cs dims cur) 0).
  Proof.
    intros Hk Hin nx.
    pose proof (stride_pos dims Hpos k) as [P1 P2]. fold (DP k) in P1. fold (DD k) in P2.
    assert (Es : stride dims k = (DP k, DD k)) by (unfold DP, DD; destruct (stride dims k); reflexivity).
    pose proof (move_coords dims Hpos k 1 cur (succ_coord up (DD k) (C k cur)) (DP k) (DD k) ltac:(lia) Hk Es
                  (succ_range up (DD k) (C k cur) P2)) as M.
    cbv zeta in M. rewrite !Z.mul_1_l in M. fold (C k cur) in M.
    assert (En : nx = cur + DP k * (succ_coord up (DD k) (C k cur) - C k cur))
      by (unfold nx, C; apply move_eq; assumption).
    rewrite <- En in M. destruct M as (A & B & _).
    repeat split.
    - unfold inrange in *. now rewrite B.
    - rewrite <- !C_nth by assumption. unfold cs. rewrite A. apply nth_upd_same. now rewrite coords_length.
    - intros i Hi. unfold cs. rewrite A. now apply nth_upd_other.
  Qed.

  Lemma cs_inj x y : inrange dims x -> inrange dims y -> cs dims x = cs dims y -> x = y.
  Proof.
    intros Hx Hy E. apply (coords_inj dims Hpos 1 x y); [lia | exact E | |].
    - rewrite !Z.mul_1_l. unfold inrange in *. congruence.
    - now rewrite !Z.mod_1_r.
  Qed.

  (** Lemma A: inside dimension k *)
  Lemma walk_dim k up : (k < length dims)%nat -> up = right_way (C k src) (C k dst) (DD k) ->
    forall n cur f, inrange dims cur -> inrange dims dst ->
      (forall i, (i < k)%nat -> nth i (cs dims cur) 0 = nth i (cs dims dst) 0) ->
      n = Z.to_nat (dist up (C k cur) (C k dst) (DD k)) ->
      hops (n + f) dims src cur dst
        = walk n k up (DP k) (DD k) cur ++ hops f dims src (walk_end n up (DP k) (DD k) cur) dst /\
      let e := walk_end n up (DP k) (DD k) cur in
      inrange dims e /\ C k e = C k dst /\
      (forall i, i <> k -> nth i (cs dims e) 0 = nth i (cs dims cur) 0).
  Proof.
    intros Hk Hup.
    pose proof (stride_pos dims Hpos k) as [P1 P2]. fold (DP k) in P1. fold (DD k) in P2.
    induction n as [|n IH]; intros cur f Hin Hdst Hlt Hn.
    - simpl. repeat split; try assumption; try reflexivity.
      apply (dist_zero up _ _ (DD k)); try assumption; try (apply coord_range; assumption).
      pose proof (dist_range up (C k cur) (C k dst) (DD k) P2). lia.
    - assert (Hd : dist up (C k cur) (C k dst) (DD k) = Z.of_nat (S n)) by lia.
      assert (Hne : C k cur <> C k dst).
      { intro E. rewrite E in Hd. destruct up; unfold dist, dist_up, dist_down in Hd;
          rewrite Z.sub_diag, Z.mod_0_l in Hd; lia. }
      assert (Hcd : cur <> dst) by (intro E; apply Hne; now rewrite E).
      destruct (move_props up k cur Hk Hin) as (I1 & I2 & I3).
      set (nx := move up (DP k) (DD k) cur) in *.
      assert (Hst : step dims src cur dst = Some (mkhop k up cur nx)).
      { unfold step. rewrite (find_dim_spec dims Hpos k 0 1 cur dst) by
          (try lia; try assumption; rewrite ?(C_nth k) by assumption; fold (cs dims cur); fold (cs dims dst);
           rewrite ?C_nth by assumption; assumption).
        rewrite Z.mul_1_l. fold (DP k). fold (DD k). fold (C k src). fold (C k dst). rewrite <- Hup.
        destruct up; reflexivity. }
      assert (Hn' : n = Z.to_nat (dist up (C k nx) (C k dst) (DD k))).
      { rewrite I2. rewrite dist_succ; try assumption; try (apply coord_range; assumption). lia. }
      assert (Hlt' : forall i, (i < k)%nat -> nth i (cs dims nx) 0 = nth i (cs dims dst) 0)
        by (intros i Hi; rewrite I3 by lia; now apply Hlt).
      destruct (IH nx f I1 Hdst Hlt' Hn') as (E1 & E2 & E3 & E4).
      split.
      + simpl. destruct (cur =? dst) eqn:Ecd; [lia|]. rewrite Hst. simpl h_to. fold nx. now rewrite E1.
      + simpl. fold nx. repeat split; try assumption. intros i Hi. rewrite E4 by assumption. now apply I3.
  Qed.

  (** Lemma B: dimension after dimension *)
  Lemma walk_all : inrange dims dst -> forall n k cur f, (k + n = length dims)%nat -> inrange dims cur ->
    (forall i, (i < k)%nat -> nth i (cs dims cur) 0 = nth i (cs dims dst) 0) ->
    (forall i, (k <= i)%nat -> nth i (cs dims cur) 0 = nth i (cs dims src) 0) ->
    hops (length (spec_from n dims k src cur dst) + f) dims src cur dst = spec_from n dims k src cur dst.
  Proof.
    intros Hdst. induction n as [|n IH]; intros k cur f Hkn Hin Hlt Hge.
    - simpl. assert (cur = dst).
      { apply cs_inj; try assumption. apply nth_eq_all; [unfold cs; now rewrite !coords_length|].
        intros i Hi. apply Hlt. unfold cs in Hi. rewrite coords_length in Hi. lia. }
      subst. apply hops_at_dst.
    - assert (Hk : (k < length dims)%nat) by lia.
      simpl. fold (DP k). fold (DD k). fold (C k src). fold (C k dst).
      set (up := right_way (C k src) (C k dst) (DD k)).
      set (kk := Z.to_nat (dist up (C k src) (C k dst) (DD k))).
      rewrite app_length, <- Nat.add_assoc.
      assert (Hc : C k cur = C k src) by (rewrite <- !C_nth by assumption; apply Hge; lia).
      assert (Hkk : kk = Z.to_nat (dist up (C k cur) (C k dst) (DD k))) by (now rewrite Hc).
      destruct (walk_dim k up Hk eq_refl kk cur
                  (length (spec_from n dims (S k) src (walk_end kk up (DP k) (DD k) cur) dst) + f)
                  Hin Hdst Hlt Hkk) as (E1 & E2 & E3 & E4).
      rewrite walk_length_eq in *.
      rewrite E1. f_equal. apply IH; [lia | assumption | |].
      + intros i Hi. destruct (Nat.eq_dec i k) as [->|Hik].
        * rewrite !C_nth by assumption. exact E3.
        * rewrite E4 by assumption. apply Hlt. lia.
      + intros i Hi. rewrite E4 by lia. apply Hge. lia.
  Qed.
End Torus.
