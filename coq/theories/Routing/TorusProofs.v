(** C26 — proofs about the torus and star models of Routing/Torus.v. *)
From SGV Require Import Base.Tactics Routing.Torus.
From Coq Require Import Sorted.
Local Open Scope Z_scope.

(* ------------------------------------------------------------------------------------------ arithmetic *)

Lemma mod_cases d a : 0 < d -> - d <= a < 2 * d ->
  a mod d = if a <? 0 then a + d else if a <? d then a else a - d.
Proof.
  intros Hd Ha. destruct (a <? 0) eqn:E1; [|destruct (a <? d) eqn:E2].
  - symmetry. apply Z.mod_unique with (q := -1); lia.
  - apply Z.mod_small; lia.
  - symmetry. apply Z.mod_unique with (q := 1); lia.
Qed.

Definition dist_up (m t d : Z) := (t - m) mod d.
Definition dist_down (m t d : Z) := (m - t) mod d.

(** the direction test of the C++ picks a shorter way round (ties: either) *)
Lemma right_way_shorter m t d : 0 < d -> 0 <= m < d -> 0 <= t < d -> m <> t ->
  (right_way m t d = true -> dist_up m t d <= dist_down m t d) /\
  (right_way m t d = false -> dist_down m t d <= dist_up m t d).
Proof.
  intros Hd Hm Ht Hne. unfold right_way, dist_up, dist_down.
  assert (H2 : 0 <= d / 2 <= d) by lia.
  rewrite (mod_cases d (m + d / 2)) by lia.
  rewrite (mod_cases d (t - m)) by lia.
  rewrite (mod_cases d (m - t)) by lia.
  destruct (m + d / 2 <? 0) eqn:A; [lia|].
  destruct (m + d / 2 <? d) eqn:B; destruct (t - m <? 0) eqn:C; destruct (m - t <? 0) eqn:D;
    destruct (t - m <? d) eqn:E; destruct (m - t <? d) eqn:F; lia.
Qed.

Lemma dist_sum m t d : 0 < d -> 0 <= m < d -> 0 <= t < d -> m <> t -> dist_up m t d + dist_down m t d = d.
Proof.
  intros. unfold dist_up, dist_down. rewrite (mod_cases d (t - m)), (mod_cases d (m - t)) by lia.
  destruct (t - m <? 0) eqn:C; destruct (m - t <? 0) eqn:D; destruct (t - m <? d) eqn:E; destruct (m - t <? d) eqn:F; lia.
Qed.

(* ------------------------------------------------------------------------------------------ coordinates *)

Definition posl (dims : list Z) := Forall (fun d => 0 < d) dims.

Lemma prodz_pos dims : posl dims -> 0 < prodz dims.
Proof. induction 1; simpl; [lia | nia]. Qed.

Lemma coord_range dp d x : 0 < d -> 0 <= coord dp d x < d.
Proof. intros. unfold coord. apply Z.mod_pos_bound; lia. Qed.

Lemma coord_move_head dp d x c' : 0 < dp -> 0 < d -> 0 <= c' < d ->
  let x' := x + dp * (c' - coord dp d x) in
  coord dp d x' = c' /\ x' / (dp * d) = x / (dp * d) /\ x' mod dp = x mod dp.
Proof.
  intros Hdp Hd Hc x'. unfold coord in *.
  set (a := x / dp). set (r := x mod dp).
  assert (Hx : x = dp * a + r) by (apply Z.div_mod; lia).
  assert (Hr : 0 <= r < dp) by (apply Z.mod_pos_bound; lia).
  set (q := a / d). set (c := a mod d).
  assert (Ha : a = d * q + c) by (apply Z.div_mod; lia).
  assert (Hcc : 0 <= c < d) by (apply Z.mod_pos_bound; lia).
  assert (Hx' : x' = dp * (d * q + c') + r) by (unfold x'; fold a; fold c; nia).
  assert (D1 : x' / dp = d * q + c') by (symmetry; apply Z.div_unique with (r := r); lia).
  assert (M1 : x' mod dp = r) by (symmetry; apply Z.mod_unique with (q := d * q + c'); lia).
  repeat split.
  - rewrite D1. symmetry. apply Z.mod_unique with (q := q); lia.
  - rewrite <- !Z.div_div by lia. rewrite D1. fold a. rewrite Ha.
    transitivity q; [symmetry; apply Z.div_unique with (r := c'); lia | apply Z.div_unique with (r := c); lia].
  - exact M1.
Qed.

Lemma coord_add_mult dp d x k : 0 < dp -> 0 < d -> coord dp d (x + dp * d * k) = coord dp d x.
Proof.
  intros. unfold coord. replace (x + dp * d * k) with (x + (d * k) * dp) by ring.
  rewrite Z.div_add by lia. replace (x / dp + d * k) with (x / dp + k * d) by ring. apply Z_mod_plus_full.
Qed.

Lemma coords_ext r : forall D x y, 0 < D -> posl r -> x / D = y / D -> coords r D x = coords r D y.
Proof.
  induction r as [|a r IH]; intros D x y HD Hp E; simpl; [reflexivity|].
  inv Hp. f_equal.
  - unfold coord. now rewrite E.
  - apply IH; [nia | assumption |]. rewrite <- !Z.div_div by lia. now rewrite E.
Qed.

Fixpoint upd (j : nat) (v : Z) (l : list Z) : list Z :=
  match l, j with
  | [], _ => []
  | _ :: r, O => v :: r
  | a :: r, S j' => a :: upd j' v r
  end.

Lemma stride_pos dims : posl dims -> forall j, 0 < fst (stride dims j) /\ 0 < snd (stride dims j).
Proof.
  induction 1 as [|d r Hd Hr IH]; intros j; simpl.
  - destruct j; simpl; lia.
  - destruct j; simpl; [lia|]. specialize (IH j). destruct (stride r j) as [dp dj]; simpl in *. nia.
Qed.

(** moving along dimension j (to coordinate c') changes that coordinate only, stays in the same "block" of the
    whole torus and keeps the part below [dp] *)
Lemma move_coords dims : posl dims -> forall j dp x c' sdp d, 0 < dp -> (j < length dims)%nat ->
  stride dims j = (sdp, d) -> 0 <= c' < d ->
  let x' := x + dp * sdp * (c' - coord (dp * sdp) d x) in
  coords dims dp x' = upd j c' (coords dims dp x) /\
  x' / (dp * prodz dims) = x / (dp * prodz dims) /\ x' mod dp = x mod dp.
Proof.
  induction 1 as [|d0 r Hd Hr IH]; intros j dp x c' sdp d Hdp Hj Es; [simpl in Hj; lia|].
  destruct j as [|j].
  - simpl in Es. inv Es. intros Hc. rewrite Z.mul_1_r. cbv zeta.
    destruct (coord_move_head dp d x c' Hdp Hd Hc) as (A & B & C).
    repeat split.
    + simpl. f_equal; [exact A|]. apply coords_ext; [nia | assumption | exact B].
    + simpl prodz. rewrite Z.mul_assoc. rewrite <- !(Z.div_div _ (dp * d)) by (try nia; apply prodz_pos; assumption).
      now rewrite B.
    + exact C.
  - simpl in Hj. assert (Hj' : (j < length r)%nat) by lia.
    pose proof (stride_pos r Hr j) as [Hs1 Hs2].
    simpl in Es. destruct (stride r j) as [sdp' dj] eqn:Es'. inv Es. simpl fst in *. simpl snd in *.
    intros Hc x'.
    assert (Hdp' : 0 < dp * d0) by nia.
    pose proof (IH j (dp * d0) x c' sdp' d Hdp' Hj' Es' Hc) as IH'. cbv zeta in IH'.
    replace (dp * d0 * sdp') with (dp * (d0 * sdp')) in IH' by ring.
    fold x' in IH'. destruct IH' as (A & B & C).
    repeat split.
    + simpl. f_equal; [|exact A].
      unfold x'. replace (dp * (d0 * sdp') * (c' - coord (dp * (d0 * sdp')) d x))
        with (dp * d0 * (sdp' * (c' - coord (dp * (d0 * sdp')) d x))) by ring.
      apply coord_add_mult; lia.
    + simpl prodz. rewrite Z.mul_assoc. exact B.
    + unfold x'. replace (dp * (d0 * sdp') * (c' - coord (dp * (d0 * sdp')) d x))
        with ((d0 * sdp' * (c' - coord (dp * (d0 * sdp')) d x)) * dp) by ring.
      apply Z_mod_plus_full.
Qed.

Lemma nth_coords dims : posl dims -> forall j dp x, 0 < dp -> (j < length dims)%nat ->
  nth j (coords dims dp x) 0 = coord (dp * fst (stride dims j)) (snd (stride dims j)) x.
Proof.
  induction 1 as [|d0 r Hd Hr IH]; intros j dp x Hdp Hj; [simpl in Hj; lia|].
  destruct j as [|j]; simpl.
  - now rewrite Z.mul_1_r.
  - simpl in Hj. rewrite IH by (try nia; lia). destruct (stride r j) as [sdp dj]. simpl. now rewrite Z.mul_assoc.
Qed.

Lemma coords_length dims : forall dp x, length (coords dims dp x) = length dims.
Proof. induction dims; simpl; intros; [reflexivity | now rewrite IHdims]. Qed.

Lemma coords_inj dims : posl dims -> forall dp x y, 0 < dp ->
  coords dims dp x = coords dims dp y -> x / (dp * prodz dims) = y / (dp * prodz dims) -> x mod dp = y mod dp -> x = y.
Proof.
  induction 1 as [|d0 r Hd Hr IH]; intros dp x y Hdp E Q M.
  - simpl in Q. rewrite Z.mul_1_r in Q. rewrite (Z.div_mod x dp), (Z.div_mod y dp) by lia. now rewrite Q, M.
  - simpl in E. injection E as E0 E1. simpl prodz in Q. rewrite Z.mul_assoc in Q.
    apply (IH (dp * d0)); [nia | assumption | assumption |].
    rewrite !Z.rem_mul_r by lia. unfold coord in E0. now rewrite M, E0.
Qed.

Lemma nth_upd_same : forall l k v, (k < length l)%nat -> nth k (upd k v l) 0 = v.
Proof. induction l; intros k v H; simpl in *; [lia|]. destruct k; simpl; [reflexivity | apply IHl; lia]. Qed.

Lemma nth_upd_other : forall l k i v, i <> k -> nth i (upd k v l) 0 = nth i l 0.
Proof.
  induction l; intros k i v H; [destruct k; destruct i; reflexivity|].
  destruct k; destruct i; simpl; try reflexivity; try lia. apply IHl; lia.
Qed.

Lemma nth_eq_all (a b : list Z) : length a = length b -> (forall i, (i < length a)%nat -> nth i a 0 = nth i b 0) -> a = b.
Proof.
  revert b. induction a as [|x a IH]; intros [|y b] L H; simpl in *; try lia; [reflexivity|].
  f_equal; [apply (H O); lia | apply IH; [lia | intros i Hi; apply (H (S i)); lia]].
Qed.

(* ------------------------------------------------------------------------------------------ the walk *)

Definition move_up (dp d cur : Z) := if coord dp d cur =? d - 1 then cur + dp - dp * d else cur + dp.
Definition move_down (dp d cur : Z) := if coord dp d cur =? 0 then cur - dp + dp * d else cur - dp.
Definition move (up : bool) := if up then move_up else move_down.
Definition succ_coord (up : bool) (d c : Z) := if up then (c + 1) mod d else (c - 1) mod d.
Definition dist (up : bool) (c t d : Z) := if up then dist_up c t d else dist_down c t d.

Lemma move_eq up dp d cur : 0 < dp -> 0 < d ->
  move up dp d cur = cur + dp * (succ_coord up d (coord dp d cur) - coord dp d cur).
Proof.
  intros Hdp Hd. pose proof (coord_range dp d cur Hd) as Hc.
  destruct up; unfold move, move_up, move_down, succ_coord.
  - rewrite (mod_cases d (coord dp d cur + 1)) by lia.
    destruct (coord dp d cur =? d - 1) eqn:E; destruct (coord dp d cur + 1 <? 0) eqn:E1;
      destruct (coord dp d cur + 1 <? d) eqn:E2; try lia; nia.
  - rewrite (mod_cases d (coord dp d cur - 1)) by lia.
    destruct (coord dp d cur =? 0) eqn:E; destruct (coord dp d cur - 1 <? 0) eqn:E1;
      destruct (coord dp d cur - 1 <? d) eqn:E2; try lia; nia.
Qed.

Lemma succ_range up d c : 0 < d -> 0 <= succ_coord up d c < d.
Proof. intros. destruct up; unfold succ_coord; apply Z.mod_pos_bound; lia. Qed.

Lemma dist_zero up c t d : 0 < d -> 0 <= c < d -> 0 <= t < d -> dist up c t d = 0 -> c = t.
Proof.
  intros Hd Hc Ht. destruct up; unfold dist, dist_up, dist_down.
  - rewrite (mod_cases d (t - c)) by lia. destruct (t - c <? 0) eqn:A; destruct (t - c <? d) eqn:B; lia.
  - rewrite (mod_cases d (c - t)) by lia. destruct (c - t <? 0) eqn:A; destruct (c - t <? d) eqn:B; lia.
Qed.

Lemma dist_range up c t d : 0 < d -> 0 <= dist up c t d < d.
Proof. intros. destruct up; unfold dist, dist_up, dist_down; apply Z.mod_pos_bound; lia. Qed.

Lemma dist_succ up c t d : 0 < d -> 0 <= c < d -> 0 <= t < d -> c <> t ->
  dist up (succ_coord up d c) t d = dist up c t d - 1.
Proof.
  intros Hd Hc Ht Hne. destruct up; unfold dist, dist_up, dist_down, succ_coord.
  - rewrite (mod_cases d (c + 1)) by lia.
    destruct (c + 1 <? 0) eqn:A; [lia|]. destruct (c + 1 <? d) eqn:B.
    + rewrite (mod_cases d (t - (c + 1))), (mod_cases d (t - c)) by lia.
      destruct (t - (c + 1) <? 0) eqn:C; destruct (t - c <? 0) eqn:D; destruct (t - (c + 1) <? d) eqn:E;
        destruct (t - c <? d) eqn:F; lia.
    + rewrite (mod_cases d (t - (c + 1 - d))), (mod_cases d (t - c)) by lia.
      destruct (t - (c + 1 - d) <? 0) eqn:C; destruct (t - c <? 0) eqn:D; destruct (t - (c + 1 - d) <? d) eqn:E;
        destruct (t - c <? d) eqn:F; lia.
  - rewrite (mod_cases d (c - 1)) by lia.
    destruct (c - 1 <? 0) eqn:A.
    + rewrite (mod_cases d (c - 1 + d - t)), (mod_cases d (c - t)) by lia.
      destruct (c - 1 + d - t <? 0) eqn:C; destruct (c - t <? 0) eqn:D; destruct (c - 1 + d - t <? d) eqn:E;
        destruct (c - t <? d) eqn:F; lia.
    + destruct (c - 1 <? d) eqn:B; [|lia].
      rewrite (mod_cases d (c - 1 - t)), (mod_cases d (c - t)) by lia.
      destruct (c - 1 - t <? 0) eqn:C; destruct (c - t <? 0) eqn:D; destruct (c - 1 - t <? d) eqn:E;
        destruct (c - t <? d) eqn:F; lia.
Qed.

Fixpoint walk (n : nat) (j : nat) (up : bool) (dp d cur : Z) : list thop :=
  match n with
  | O => []
  | S n' => let next := move up dp d cur in mkhop j up cur next :: walk n' j up dp d next
  end.
Fixpoint walk_end (n : nat) (up : bool) (dp d cur : Z) : Z :=
  match n with O => cur | S n' => walk_end n' up dp d (move up dp d cur) end.

(** the specification: dimension after dimension, in dimension j exactly dist (shorter way) hops in one direction *)
Fixpoint spec_from (n : nat) (dims : list Z) (j : nat) (src cur dst : Z) : list thop :=
  match n with
  | O => []
  | S n' =>
      let dp := fst (stride dims j) in let d := snd (stride dims j) in
      let up := right_way (coord dp d src) (coord dp d dst) d in
      let k := Z.to_nat (dist up (coord dp d src) (coord dp d dst) d) in
      walk k j up dp d cur ++ spec_from n' dims (S j) src (walk_end k up dp d cur) dst
  end.
Definition torus_spec (dims : list Z) (src dst : Z) := spec_from (length dims) dims 0 src src dst.

Lemma walk_length_eq n j up dp d cur : length (walk n j up dp d cur) = n.
Proof. revert cur. induction n; simpl; intros; [reflexivity | now rewrite IHn]. Qed.

Definition inrange (dims : list Z) (x : Z) := x / prodz dims = 0.
Definition cs (dims : list Z) (x : Z) := coords dims 1 x.

Lemma find_dim_spec dims : posl dims -> forall k j0 dp cur dst, 0 < dp -> (k < length dims)%nat ->
  (forall i, (i < k)%nat -> nth i (coords dims dp cur) 0 = nth i (coords dims dp dst) 0) ->
  nth k (coords dims dp cur) 0 <> nth k (coords dims dp dst) 0 ->
  find_dim dims j0 dp cur dst = Some ((j0 + k)%nat, dp * fst (stride dims k), snd (stride dims k)).
Proof.
  induction 1 as [|d0 r Hd Hr IH]; intros k j0 dp cur dst Hdp Hk Hlt Hne; [simpl in Hk; lia|].
  destruct k as [|k]; simpl in *.
  - destruct (coord dp d0 cur =? coord dp d0 dst) eqn:E; [lia|]. simpl. now rewrite Nat.add_0_r, Z.mul_1_r.
  - pose proof (Hlt O ltac:(lia)) as H0. simpl in H0.
    destruct (coord dp d0 cur =? coord dp d0 dst) eqn:E; [|lia]. simpl.
    rewrite (IH k (S j0) (dp * d0) cur dst) by (try nia; try lia; try assumption; intros i Hi; apply (Hlt (S i)); lia).
    destruct (stride r k) as [sdp dj]; simpl. replace (j0 + S k)%nat with (S (j0 + k)) by lia.
    now rewrite Z.mul_assoc.
Qed.

Lemma hops_at_dst f dims src dst : hops f dims src dst dst = [].
Proof. destruct f; simpl; [reflexivity | now rewrite Z.eqb_refl]. Qed.

Section Torus.
  Variable dims : list Z.
  Hypothesis Hpos : posl dims.
  Variables src dst : Z.

  Let DP k := fst (stride dims k).
  Let DD k := snd (stride dims k).
  Let C k x := coord (DP k) (DD k) x.

  Lemma C_nth k x : (k < length dims)%nat -> nth k (cs dims x) 0 = C k x.
  Proof. intros. unfold cs, C, DP, DD. rewrite nth_coords by (try lia; assumption). now rewrite Z.mul_1_l. Qed.

  Lemma move_props up k cur : (k < length dims)%nat ->
    let nx := move up (DP k) (DD k) cur in
    nx / prodz dims = cur / prodz dims /\ C k nx = succ_coord up (DD k) (C k cur) /\
    (forall i, i <> k -> nth i (cs dims nx) 0 = nth i (cs dims cur) 0).
  Proof.
    intros Hk nx.
    pose proof (stride_pos dims Hpos k) as [P1 P2]. fold (DP k) in P1. fold (DD k) in P2.
    assert (Es : stride dims k = (DP k, DD k)) by (unfold DP, DD; destruct (stride dims k); reflexivity).
    pose proof (move_coords dims Hpos k 1 cur (succ_coord up (DD k) (C k cur)) (DP k) (DD k) ltac:(lia) Hk Es
                  (succ_range up (DD k) (C k cur) P2)) as M.
    cbv zeta in M. rewrite !Z.mul_1_l in M. fold (C k cur) in M.
    assert (En : nx = cur + DP k * (succ_coord up (DD k) (C k cur) - C k cur))
      by (unfold nx, C; apply move_eq; assumption).
    rewrite <- En in M. destruct M as (A & B & _).
    repeat split.
    - exact B.
    - rewrite <- (C_nth k nx) by assumption. unfold cs. rewrite A. apply nth_upd_same. now rewrite coords_length.
    - intros i Hi. unfold cs. rewrite A. now apply nth_upd_other.
  Qed.

  Lemma cs_inj x y : inrange dims x -> inrange dims y -> cs dims x = cs dims y -> x = y.
  Proof.
    intros Hx Hy E. apply (coords_inj dims Hpos 1 x y); [lia | exact E | |].
    - rewrite !Z.mul_1_l. unfold inrange in *. congruence.
    - now rewrite !Z.mod_1_r.
  Qed.

  (** Lemma A: inside dimension k *)
  Lemma walk_dim k up : (k < length dims)%nat -> up = right_way (C k src) (C k dst) (DD k) ->
    forall n cur f, inrange dims cur -> inrange dims dst ->
      (forall i, (i < k)%nat -> nth i (cs dims cur) 0 = nth i (cs dims dst) 0) ->
      n = Z.to_nat (dist up (C k cur) (C k dst) (DD k)) ->
      hops (n + f) dims src cur dst
        = walk n k up (DP k) (DD k) cur ++ hops f dims src (walk_end n up (DP k) (DD k) cur) dst /\
      let e := walk_end n up (DP k) (DD k) cur in
      inrange dims e /\ C k e = C k dst /\
      (forall i, i <> k -> nth i (cs dims e) 0 = nth i (cs dims cur) 0).
  Proof.
    intros Hk Hup.
    pose proof (stride_pos dims Hpos k) as [P1 P2]. fold (DP k) in P1. fold (DD k) in P2.
    induction n as [|n IH]; intros cur f Hin Hdst Hlt Hn.
    - simpl. repeat split; try assumption; try reflexivity.
      apply (dist_zero up _ _ (DD k)); try assumption; try (apply coord_range; assumption).
      pose proof (dist_range up (C k cur) (C k dst) (DD k) P2). lia.
    - assert (Hd : dist up (C k cur) (C k dst) (DD k) = Z.of_nat (S n)) by lia.
      assert (Hne : C k cur <> C k dst).
      { intro E. rewrite E in Hd. destruct up; unfold dist, dist_up, dist_down in Hd;
          rewrite Z.sub_diag, Z.mod_0_l in Hd; lia. }
      assert (Hcd : cur <> dst) by (intro E; apply Hne; now rewrite E).
      destruct (move_props up k cur Hk) as (I1' & I2 & I3).
      set (nx := move up (DP k) (DD k) cur) in *.
      assert (I1 : inrange dims nx) by (unfold inrange in *; now rewrite I1').
      assert (Hst : step dims src cur dst = Some (mkhop k up cur nx)).
      { unfold step. rewrite (find_dim_spec dims Hpos k 0 1 cur dst) by
          (try lia; try assumption; rewrite ?(C_nth k) by assumption; fold (cs dims cur); fold (cs dims dst);
           rewrite ?C_nth by assumption; assumption).
        rewrite Z.mul_1_l. fold (DP k). fold (DD k). fold (C k src). fold (C k dst). rewrite <- Hup.
        destruct up; reflexivity. }
      assert (Hn' : n = Z.to_nat (dist up (C k nx) (C k dst) (DD k))).
      { rewrite I2. rewrite dist_succ; try assumption; try (apply coord_range; assumption). lia. }
      assert (Hlt' : forall i, (i < k)%nat -> nth i (cs dims nx) 0 = nth i (cs dims dst) 0)
        by (intros i Hi; rewrite I3 by lia; now apply Hlt).
      destruct (IH nx f I1 Hdst Hlt' Hn') as (E1 & E2 & E3 & E4).
      split.
      + simpl. destruct (cur =? dst) eqn:Ecd; [lia|]. rewrite Hst. simpl h_to. fold nx. now rewrite E1.
      + simpl. fold nx. repeat split; try assumption. intros i Hi. rewrite E4 by assumption. now apply I3.
  Qed.

  (** Lemma B: dimension after dimension *)
  Lemma walk_all : inrange dims dst -> forall n k cur f, (k + n = length dims)%nat -> inrange dims cur ->
    (forall i, (i < k)%nat -> nth i (cs dims cur) 0 = nth i (cs dims dst) 0) ->
    (forall i, (k <= i)%nat -> nth i (cs dims cur) 0 = nth i (cs dims src) 0) ->
    hops (length (spec_from n dims k src cur dst) + f) dims src cur dst = spec_from n dims k src cur dst.
  Proof.
    intros Hdst. induction n as [|n IH]; intros k cur f Hkn Hin Hlt Hge.
    - simpl. assert (cur = dst).
      { apply cs_inj; try assumption. apply nth_eq_all; [unfold cs; now rewrite !coords_length|].
        intros i Hi. apply Hlt. unfold cs in Hi. rewrite coords_length in Hi. lia. }
      subst. apply hops_at_dst.
    - assert (Hk : (k < length dims)%nat) by lia.
      simpl. fold (DP k). fold (DD k). fold (C k src). fold (C k dst).
      set (up := right_way (C k src) (C k dst) (DD k)).
      set (kk := Z.to_nat (dist up (C k src) (C k dst) (DD k))).
      rewrite app_length, <- Nat.add_assoc.
      assert (Hc : C k cur = C k src) by (rewrite <- !C_nth by assumption; apply Hge; lia).
      assert (Hkk : kk = Z.to_nat (dist up (C k cur) (C k dst) (DD k))) by (now rewrite Hc).
      destruct (walk_dim k up Hk eq_refl kk cur
                  (length (spec_from n dims (S k) src (walk_end kk up (DP k) (DD k) cur) dst) + f)
                  Hin Hdst Hlt Hkk) as (E1 & E2 & E3 & E4).
      rewrite walk_length_eq in *.
      rewrite E1. f_equal. apply IH; [lia | assumption | |].
      + intros i Hi. destruct (Nat.eq_dec i k) as [->|Hik].
        * rewrite !C_nth by assumption. exact E3.
        * rewrite E4 by assumption. apply Hlt. lia.
      + intros i Hi. rewrite E4 by lia. apply Hge. lia.
  Qed.

  (* ---------------------------------------------------------------------------------- consequences *)

  Fixpoint is_walk (cur : Z) (l : list thop) (fin : Z) : Prop :=
    match l with
    | [] => cur = fin
    | h :: r => h_from h = cur /\ is_walk (h_to h) r fin
    end.

  Lemma is_walk_app a l1 b l2 c : is_walk a l1 b -> is_walk b l2 c -> is_walk a (l1 ++ l2) c.
  Proof. revert a. induction l1 as [|h r IH]; simpl; intros a H1 H2; [now subst | destruct H1; split; auto]. Qed.

  Lemma walk_is_walk n j up dp d : forall cur, is_walk cur (walk n j up dp d cur) (walk_end n up dp d cur).
  Proof. induction n; simpl; intros; [reflexivity | split; [reflexivity | apply IHn]]. Qed.

  (** a hop of dimension j moves one step along dimension j *)
  Definition hop_ok (h : thop) : Prop :=
    (h_dim h < length dims)%nat /\ h_to h = move (h_up h) (DP (h_dim h)) (DD (h_dim h)) (h_from h).

  Lemma walk_hop_ok n j up : (j < length dims)%nat -> forall cur, Forall hop_ok (walk n j up (DP j) (DD j) cur).
  Proof. intros Hj. induction n; simpl; intros; constructor; [split; simpl; auto | apply IHn]. Qed.

  Lemma walk_all_walk : inrange dims dst -> forall n k cur, (k + n = length dims)%nat -> inrange dims cur ->
    (forall i, (i < k)%nat -> nth i (cs dims cur) 0 = nth i (cs dims dst) 0) ->
    (forall i, (k <= i)%nat -> nth i (cs dims cur) 0 = nth i (cs dims src) 0) ->
    is_walk cur (spec_from n dims k src cur dst) dst.
  Proof.
    intros Hdst. induction n as [|n IH]; intros k cur Hkn Hin Hlt Hge.
    - simpl. apply cs_inj; try assumption. apply nth_eq_all; [unfold cs; now rewrite !coords_length|].
      intros i Hi. apply Hlt. unfold cs in Hi. rewrite coords_length in Hi. lia.
    - assert (Hk : (k < length dims)%nat) by lia.
      simpl. fold (DP k). fold (DD k). fold (C k src). fold (C k dst).
      set (up := right_way (C k src) (C k dst) (DD k)).
      set (kk := Z.to_nat (dist up (C k src) (C k dst) (DD k))).
      assert (Hc : C k cur = C k src) by (rewrite <- !C_nth by assumption; apply Hge; lia).
      assert (Hkk : kk = Z.to_nat (dist up (C k cur) (C k dst) (DD k))) by (now rewrite Hc).
      destruct (walk_dim k up Hk eq_refl kk cur 0%nat Hin Hdst Hlt Hkk) as (_ & E2 & E3 & E4).
      eapply is_walk_app; [apply walk_is_walk|]. apply IH; [lia | assumption | |].
      + intros i Hi. destruct (Nat.eq_dec i k) as [->|Hik].
        * rewrite !C_nth by assumption. exact E3.
        * rewrite E4 by assumption. apply Hlt. lia.
      + intros i Hi. rewrite E4 by lia. apply Hge. lia.
  Qed.

  Lemma spec_hop_ok : forall n k cur, (k + n = length dims)%nat -> Forall hop_ok (spec_from n dims k src cur dst).
  Proof.
    induction n as [|n IH]; intros k cur Hkn; simpl; [constructor|].
    apply Forall_app. split; [apply walk_hop_ok; lia | apply IH; lia].
  Qed.

  Lemma walk_dims n j up dp d : forall cur, Forall (fun h => h_dim h = j /\ h_up h = up) (walk n j up dp d cur).
  Proof. induction n; simpl; intros; constructor; [split; reflexivity | apply IHn]. Qed.

  Lemma spec_dims_ge : forall n k cur, Forall (fun h => (k <= h_dim h)%nat) (spec_from n dims k src cur dst).
  Proof.
    induction n as [|n IH]; intros k cur; simpl; [constructor|].
    apply Forall_app. split.
    - eapply Forall_impl; [|apply walk_dims]. simpl. intros h [E _]. lia.
    - eapply Forall_impl; [|apply IH]. simpl. intros h E. lia.
  Qed.

  Lemma spec_sorted : forall n k cur, StronglySorted le (map h_dim (spec_from n dims k src cur dst)).
  Proof.
    induction n as [|n IH]; intros k cur; simpl; [constructor|].
    rewrite map_app.
    set (dp := fst (stride dims k)). set (d := snd (stride dims k)).
    set (up := right_way (coord dp d src) (coord dp d dst) d).
    set (kk := Z.to_nat (dist up (coord dp d src) (coord dp d dst) d)).
    set (rest := spec_from n dims (S k) src (walk_end kk up dp d cur) dst).
    assert (Hrest : Forall (fun x => (k <= x)%nat) (map h_dim rest)).
    { apply Forall_map. eapply Forall_impl; [|apply (spec_dims_ge n (S k))]. simpl. intros; lia. }
    assert (Hs : StronglySorted le (map h_dim rest)) by apply IH.
    clearbody rest. generalize cur. induction kk as [|m IHm]; intros c; simpl; [exact Hs|].
    constructor; [apply IHm|]. apply Forall_app. split; [|exact Hrest].
    apply Forall_map. eapply Forall_impl; [|apply walk_dims]. simpl. intros h [E _]. lia.
  Qed.

  Definition in_dim (j : nat) (h : thop) : bool := (h_dim h =? j)%nat.

  Lemma filter_none (l : list thop) j : Forall (fun h => h_dim h <> j) l -> filter (in_dim j) l = [].
  Proof.
    induction 1 as [|h r H _ IH]; simpl; [reflexivity|]. unfold in_dim at 1.
    destruct (h_dim h =? j)%nat eqn:E; [apply Nat.eqb_eq in E; contradiction | exact IH].
  Qed.
  Lemma filter_all (l : list thop) j : Forall (fun h => h_dim h = j) l -> filter (in_dim j) l = l.
  Proof.
    induction 1 as [|h r H _ IH]; simpl; [reflexivity|]. unfold in_dim at 1.
    rewrite (proj2 (Nat.eqb_eq _ _) H). now rewrite IH.
  Qed.

  Lemma spec_filter : forall n k cur j, (k + n = length dims)%nat -> (k <= j < length dims)%nat ->
    exists c, filter (in_dim j) (spec_from n dims k src cur dst) =
      walk (Z.to_nat (dist (right_way (C j src) (C j dst) (DD j)) (C j src) (C j dst) (DD j))) j
           (right_way (C j src) (C j dst) (DD j)) (DP j) (DD j) c.
  Proof.
    induction n as [|n IH]; intros k cur j Hkn Hj; [lia|].
    simpl. rewrite filter_app. destruct (Nat.eq_dec j k) as [->|Hne].
    - exists cur. fold (DP k). fold (DD k). fold (C k src). fold (C k dst).
      rewrite filter_all by (eapply Forall_impl; [|apply walk_dims]; simpl; intros h [E _]; exact E).
      rewrite filter_none; [apply app_nil_r|].
      eapply Forall_impl; [|apply (spec_dims_ge n (S k))]. simpl. intros; lia.
    - rewrite filter_none by (eapply Forall_impl; [|apply walk_dims]; simpl; intros h [E _]; lia).
      simpl. apply IH; lia.
  Qed.

  Lemma nth_stride : forall l k, (k < length l)%nat -> snd (stride l k) = nth k l 1.
  Proof.
    induction l as [|d r IH]; intros k Hk; simpl in *; [lia|]. destruct k; [reflexivity|].
    specialize (IH k ltac:(lia)). destruct (stride r k); simpl in *. exact IH.
  Qed.

  Lemma sumz_skipn : forall l k, (k < length l)%nat -> sumz (skipn k l) = nth k l 1 + sumz (skipn (S k) l).
  Proof.
    induction l as [|d r IH]; intros k Hk; [simpl in Hk; lia|]. destruct k; [reflexivity|].
    change (skipn (S k) (d :: r)) with (skipn k r). change (nth (S k) (d :: r) 1) with (nth k r 1).
    change (skipn (S (S k)) (d :: r)) with (skipn (S k) r). apply IH. simpl in Hk. lia.
  Qed.

  Lemma sumz_nonneg l : posl l -> 0 <= sumz l.
  Proof. induction 1; simpl; lia. Qed.

  Lemma spec_len : forall n k cur, (k + n = length dims)%nat ->
    Z.of_nat (length (spec_from n dims k src cur dst)) <= sumz (skipn k dims).
  Proof.
    induction n as [|n IH]; intros k cur Hkn; simpl.
    - apply sumz_nonneg. clear -Hpos. revert k. induction Hpos; intros [|k]; simpl; try constructor; auto.
    - rewrite app_length, walk_length_eq. rewrite sumz_skipn by lia.
      specialize (IH (S k) (walk_end
         (Z.to_nat (dist (right_way (coord (fst (stride dims k)) (snd (stride dims k)) src)
            (coord (fst (stride dims k)) (snd (stride dims k)) dst) (snd (stride dims k)))
            (coord (fst (stride dims k)) (snd (stride dims k)) src)
            (coord (fst (stride dims k)) (snd (stride dims k)) dst) (snd (stride dims k))))
         (right_way (coord (fst (stride dims k)) (snd (stride dims k)) src)
            (coord (fst (stride dims k)) (snd (stride dims k)) dst) (snd (stride dims k)))
         (fst (stride dims k)) (snd (stride dims k)) cur) ltac:(lia)).
      pose proof (stride_pos dims Hpos k) as [_ P2].
      pose proof (dist_range (right_way (coord (fst (stride dims k)) (snd (stride dims k)) src)
            (coord (fst (stride dims k)) (snd (stride dims k)) dst) (snd (stride dims k)))
            (coord (fst (stride dims k)) (snd (stride dims k)) src)
            (coord (fst (stride dims k)) (snd (stride dims k)) dst) (snd (stride dims k)) P2) as R.
      rewrite <- (nth_stride dims k) by lia. lia.
  Qed.

  Hypothesis Hsrc : 0 <= src < prodz dims.
  Hypothesis Hdst : 0 <= dst < prodz dims.

  Theorem torus_hops_spec : torus_hops dims src dst = torus_spec dims src dst.
  Proof.
    unfold torus_hops, torus_spec.
    pose proof (spec_len (length dims) 0 src ltac:(lia)) as L. simpl skipn in L.
    set (sp := spec_from (length dims) dims 0 src src dst) in *.
    replace (Z.to_nat (sumz dims)) with (length sp + (Z.to_nat (sumz dims) - length sp))%nat by lia.
    apply walk_all; try (unfold inrange; apply Z.div_small; lia); try lia; try reflexivity.
  Qed.

  Theorem torus_is_walk : is_walk src (torus_hops dims src dst) dst /\ Forall hop_ok (torus_hops dims src dst).
  Proof.
    rewrite torus_hops_spec. unfold torus_spec. split.
    - apply walk_all_walk; try (unfold inrange; apply Z.div_small; lia); try lia; try reflexivity.
    - apply spec_hop_ok. lia.
  Qed.

  Theorem torus_dim_order : StronglySorted le (map h_dim (torus_hops dims src dst)).
  Proof. rewrite torus_hops_spec. apply spec_sorted. Qed.

  Theorem torus_hops_per_dim j : (j < length dims)%nat ->
    let m := C j src in let t := C j dst in let d := DD j in
    let hs := filter (in_dim j) (torus_hops dims src dst) in
    Z.of_nat (length hs) = Z.min (dist_up m t d) (dist_down m t d) /\
    Forall (fun h => h_up h = right_way m t d /\
                     (if h_up h then dist_up m t d <= dist_down m t d else dist_down m t d <= dist_up m t d)) hs.
  Proof.
    intros Hj m t d hs. unfold hs. rewrite torus_hops_spec. unfold torus_spec.
    destruct (spec_filter (length dims) 0 src j ltac:(lia) ltac:(lia)) as [c ->].
    fold m t d. rewrite walk_length_eq.
    pose proof (stride_pos dims Hpos j) as [_ P2]. fold (DD j) in P2. fold d in P2.
    pose proof (coord_range (DP j) d src P2) as Rm. pose proof (coord_range (DP j) d dst P2) as Rt.
    fold (C j src) in Rm. fold (C j dst) in Rt. fold m in Rm. fold t in Rt.
    pose proof (dist_range (right_way m t d) m t d P2) as Rd.
    destruct (Z.eq_dec m t) as [E|Hne].
    - rewrite E. unfold dist, dist_up, dist_down. rewrite Z.sub_diag, Z.mod_0_l by lia.
      destruct (right_way t t d); simpl; split; try constructor; lia.
    - destruct (right_way_shorter m t d P2 Rm Rt Hne) as [S1 S2].
      split.
      + rewrite Z2Nat.id by lia. unfold dist. destruct (right_way m t d); [specialize (S1 eq_refl) | specialize (S2 eq_refl)]; lia.
      + eapply Forall_impl; [|apply walk_dims]. simpl. intros h [_ ->]. split; [reflexivity|].
        destruct (right_way m t d); auto.
  Qed.

  (** the hop uses the link created between its two ends by create_torus_links *)
  Lemma hop_ok_neighbor h : hop_ok h ->
    let dp := DP (h_dim h) in let d := DD (h_dim h) in
    if h_up h then neighbor dp d (h_from h) = h_to h else neighbor dp d (h_to h) = h_from h.
  Proof.
    intros [Hj Hm] dp d.
    pose proof (stride_pos dims Hpos (h_dim h)) as [P1 P2]. fold (DP (h_dim h)) in P1. fold (DD (h_dim h)) in P2.
    fold dp in P1, Hm. fold d in P2, Hm.
    destruct (h_up h) eqn:U; unfold move in Hm.
    - rewrite Hm. unfold neighbor, move_up. destruct (coord dp d (h_from h) =? d - 1); ring.
    - destruct (move_props false (h_dim h) (h_from h) Hj) as (_ & I2 & _).
      fold dp d in I2. unfold move in I2. rewrite <- Hm in I2. unfold C in I2. fold dp d in I2.
      unfold neighbor. rewrite I2. unfold succ_coord.
      pose proof (coord_range dp d (h_from h) P2) as R.
      rewrite (mod_cases d (coord dp d (h_from h) - 1)) by lia.
      rewrite Hm. unfold move_down.
      destruct (coord dp d (h_from h) =? 0) eqn:E0; destruct (coord dp d (h_from h) - 1 <? 0) eqn:E1;
        destruct (coord dp d (h_from h) - 1 <? d) eqn:E2; try lia.
      + destruct (coord dp d (h_from h) - 1 + d =? d - 1) eqn:E3; [ring | lia].
      + destruct (coord dp d (h_from h) - 1 =? d - 1) eqn:E3; [lia | ring].
  Qed.
End Torus.

(* ------------------------------------------------------------------------------------------ limiter / loopback *)

Definition is_lim (l : tlink) : bool := match l with TLim _ => true | _ => false end.

Lemma route_loopback dims lim src : torus_route dims true lim src src = [TLoop src].
Proof. unfold torus_route. now rewrite Z.eqb_refl. Qed.

Lemma route_no_limiter dims lb src dst : (src =? dst) && lb = false ->
  torus_route dims lb false src dst = map hop_link (torus_hops dims src dst).
Proof.
  intros H. unfold torus_route. rewrite H, app_nil_r.
  induction (torus_hops dims src dst) as [|h r IH]; simpl; [reflexivity | f_equal; exact IH].
Qed.

Lemma hop_link_not_lim h : is_lim (hop_link h) = false.
Proof. unfold hop_link. destruct (h_up h); reflexivity. Qed.

Lemma route_limiters dims lb src dst : (src =? dst) && lb = false ->
  filter is_lim (torus_route dims lb true src dst) = map TLim (map h_from (torus_hops dims src dst) ++ [dst]) /\
  filter (fun l => negb (is_lim l)) (torus_route dims lb true src dst) = torus_route dims lb false src dst.
Proof.
  intros H. unfold torus_route. rewrite H, app_nil_r, !filter_app. simpl.
  induction (torus_hops dims src dst) as [|h r IH]; simpl; [split; reflexivity|].
  destruct IH as [IH1 IH2]. rewrite !hop_link_not_lim. simpl. split; f_equal; assumption.
Qed.

(* ------------------------------------------------------------------------------------------ star *)

Fixpoint dedup (seen l : list Z) : list Z :=
  match l with
  | [] => []
  | x :: r => if existsb (Z.eqb x) seen then dedup seen r else x :: dedup (x :: seen) r
  end.

Lemma add_links_dedup : forall l seen acc, snd (add_links l seen acc) = acc ++ dedup seen l /\
  (forall x, In x (fst (add_links l seen acc)) <-> In x seen \/ In x (dedup seen l)).
Proof.
  induction l as [|a r IH]; intros seen acc; simpl.
  - rewrite app_nil_r. split; [reflexivity | intros; tauto].
  - destruct (existsb (Z.eqb a) seen) eqn:E.
    + apply IH.
    + destruct (IH (a :: seen) (acc ++ [a])) as [A B]. split.
      * rewrite A, <- app_assoc. reflexivity.
      * intros x. rewrite B. simpl. tauto.
Qed.

Lemma existsb_In a l : existsb (Z.eqb a) l = true <-> In a l.
Proof.
  rewrite existsb_exists. split; [intros (x & I & E); apply Z.eqb_eq in E; now subst | intros I; exists a; split; [assumption | apply Z.eqb_refl]].
Qed.

Lemma dedup_spec : forall l seen,
  NoDup (dedup seen l) /\ (forall x, In x (dedup seen l) <-> In x l /\ ~ In x seen).
Proof.
  induction l as [|a r IH]; intros seen; simpl; [split; [constructor | intros; tauto]|].
  destruct (existsb (Z.eqb a) seen) eqn:E.
  - destruct (IH seen) as [A B]. split; [exact A|]. intros x. rewrite B. apply existsb_In in E.
    split; [tauto|]. intros [[->|I] N]; [contradiction | tauto].
  - destruct (IH (a :: seen)) as [A B].
    assert (Na : ~ In a seen) by (intro I; apply existsb_In in I; congruence).
    split.
    + constructor; [|exact A]. rewrite B. simpl. tauto.
    + intros x. simpl. rewrite B. simpl. split.
      * intros [<-|(I & N)]; [tauto | tauto].
      * intros [[<-|I] N]; [tauto|]. destruct (Z.eq_dec a x); [tauto | right; tauto].
Qed.

Lemma dedup_nodup : forall l seen, NoDup l -> (forall x, In x l -> ~ In x seen) -> dedup seen l = l.
Proof.
  induction l as [|a r IH]; intros seen N D; simpl; [reflexivity|]. inv N.
  destruct (existsb (Z.eqb a) seen) eqn:E.
  - apply existsb_In in E. exfalso. apply (D a); simpl; auto.
  - f_equal. apply IH; [assumption|]. intros x I [<-|S]; [contradiction | apply (D x); simpl; auto].
Qed.

Lemma NoDup_app_iff_local (a b : list Z) : NoDup a -> NoDup b -> (forall x, In x a -> In x b -> False) -> NoDup (a ++ b).
Proof.
  induction 1 as [|x a Hx Ha IH]; intros Nb D; simpl; [assumption|].
  constructor.
  - intro I. apply in_app_or in I. destruct I as [I|I]; [contradiction | apply (D x); simpl; auto].
  - apply IH; [assumption|]. intros y I1 I2. apply (D y); simpl; auto.
Qed.

Lemma NoDup_app_parts (a b : list Z) : NoDup (a ++ b) -> NoDup a /\ NoDup b /\ (forall x, In x a -> In x b -> False).
Proof.
  induction a as [|x a IH]; simpl; intros N.
  - repeat split; [constructor | assumption | intros x []].
  - inv N. destruct (IH H2) as (Na & Nb & D). repeat split; [|assumption|].
    + constructor; [|assumption]. intro I. apply H1. apply in_or_app. auto.
    + intros y [<-|I] Ib; [apply H1; apply in_or_app; auto | apply (D y); assumption].
Qed.

Theorem star_route_spec same loop up down :
  let r := star_route same loop up down in
  let decl := if same then match loop with [] => up ++ down | _ => loop end else up ++ down in
  NoDup r /\ (forall x, In x r <-> In x decl) /\ (NoDup decl -> r = decl).
Proof.
  intros r decl.
  assert (G : forall u d, let '(seen, acc) := add_links u [] [] in
            let r' := snd (add_links d seen acc) in
            NoDup r' /\ (forall x, In x r' <-> In x (u ++ d)) /\ (NoDup (u ++ d) -> r' = u ++ d)).
  { intros u d. destruct (add_links u [] []) as [seen acc] eqn:E.
    destruct (add_links_dedup u [] []) as [A B]. rewrite E in A, B. simpl in A, B.
    destruct (add_links_dedup d seen acc) as [A' _]. cbv zeta. rewrite A'. subst acc.
    destruct (dedup_spec u []) as [N1 M1]. destruct (dedup_spec d seen) as [N2 M2].
    repeat split.
    - apply NoDup_app_iff_local; assumption || (intros x I1 I2; apply M2 in I2; destruct I2 as [_ NS]; apply NS; apply B; auto).
    - intros I. apply in_app_or in I. apply in_or_app. destruct I as [I|I]; [left; now apply M1 in I | right; now apply M2 in I].
    - intros I. apply in_app_or in I. apply in_or_app. destruct I as [I|I].
      + left. apply M1. split; [assumption | tauto].
      + destruct (in_dec Z.eq_dec x (dedup [] u)) as [Y|Nn]; [left; assumption|]. right. apply M2. split; [assumption|].
        intro S. apply B in S. destruct S as [[]|S]; contradiction.
    - intros ND. apply NoDup_app_parts in ND. destruct ND as (Nu & Nd & Dj).
      rewrite (dedup_nodup u []) by (auto; intros x _ []). f_equal. apply dedup_nodup; [assumption|].
      intros x Ix S. apply B in S. destruct S as [[]|S]. apply M1 in S. destruct S as [S _]. apply (Dj x); assumption. }
  unfold r, decl, star_route.
  assert (G' : let r' := (let '(seen, acc) := add_links up [] [] in snd (add_links down seen acc)) in
               NoDup r' /\ (forall x, In x r' <-> In x (up ++ down)) /\ (NoDup (up ++ down) -> r' = up ++ down)).
  { pose proof (G up down) as G0. destruct (add_links up [] []) as [seen acc]. exact G0. }
  destruct same; [destruct loop as [|l0 lr]|]; [exact G' | | exact G'].
  unfold r, decl, star_route. clear r decl. set (L := l0 :: lr).
  destruct (add_links_dedup L [] []) as [A _]. rewrite A.
  change ([] ++ dedup [] L) with (dedup [] L).
  destruct (dedup_spec L []) as [N M]. repeat split; try assumption.
  - intros I. now apply M in I.
  - intros I. apply M. split; [assumption | tauto].
  - intros ND. apply dedup_nodup; [assumption | intros x _ []].
Qed.

(** a hop changes the coordinate of its dimension by one step (mod the dimension size) and nothing else *)
Lemma hop_ok_coords dims : posl dims -> forall h, hop_ok dims h ->
  let dp := fst (stride dims (h_dim h)) in let d := snd (stride dims (h_dim h)) in
  coords dims 1 (h_to h) =
  upd (h_dim h) (succ_coord (h_up h) d (coord dp d (h_from h))) (coords dims 1 (h_from h)).
Proof.
  intros Hpos h [Hj Hm] dp d.
  pose proof (stride_pos dims Hpos (h_dim h)) as [P1 P2]. fold dp in P1. fold d in P2.
  assert (Es : stride dims (h_dim h) = (dp, d)) by (unfold dp, d; destruct (stride dims (h_dim h)); reflexivity).
  pose proof (move_coords dims Hpos (h_dim h) 1 (h_from h) (succ_coord (h_up h) d (coord dp d (h_from h))) dp d
                ltac:(lia) Hj Es (succ_range (h_up h) d _ P2)) as M.
  cbv zeta in M. rewrite !Z.mul_1_l in M. destruct M as (A & _ & _).
  rewrite <- A. f_equal. cbv zeta in Hm. fold dp d in Hm. rewrite Hm. apply move_eq; assumption.
Qed.
