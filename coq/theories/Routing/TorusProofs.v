(** C26 — proofs about the torus and star models of Routing/Torus.v. *)
From SGV Require Import Base.Tactics Routing.Torus.
Local Open Scope Z_scope.

(* ------------------------------------------------------------------------------------------ arithmetic *)

Lemma mod_cases d a : 0 < d -> - d <= a < 2 * d ->
  a mod d = if a <? 0 then a + d else if a <? d then a else a - d.
Proof.
  intros Hd Ha. destruct (a <? 0) eqn:E1; [|destruct (a <? d) eqn:E2].
  - symmetry. apply Z.mod_unique with (q := -1); lia.
  - apply Z.mod_small; lia.
  - symmetry. apply Z.mod_unique with (q := 1); lia.
Qed.

Definition dist_up (m t d : Z) := (t - m) mod d.
Definition dist_down (m t d : Z) := (m - t) mod d.

(** the direction test of the C++ picks a shorter way round (ties: either) *)
Lemma right_way_shorter m t d : 0 < d -> 0 <= m < d -> 0 <= t < d -> m <> t ->
  (right_way m t d = true -> dist_up m t d <= dist_down m t d) /\
  (right_way m t d = false -> dist_down m t d <= dist_up m t d).
Proof.
  intros Hd Hm Ht Hne. unfold right_way, dist_up, dist_down.
  assert (H2 : 0 <= d / 2 <= d) by lia.
  rewrite (mod_cases d (m + d / 2)) by lia.
  rewrite (mod_cases d (t - m)) by lia.
  rewrite (mod_cases d (m - t)) by lia.
  destruct (m + d / 2 <? 0) eqn:A; [lia|].
  destruct (m + d / 2 <? d) eqn:B; destruct (t - m <? 0) eqn:C; destruct (m - t <? 0) eqn:D;
    destruct (t - m <? d) eqn:E; destruct (m - t <? d) eqn:F; lia.
Qed.

Lemma dist_sum m t d : 0 < d -> 0 <= m < d -> 0 <= t < d -> m <> t -> dist_up m t d + dist_down m t d = d.
Proof.
  intros. unfold dist_up, dist_down. rewrite (mod_cases d (t - m)), (mod_cases d (m - t)) by lia.
  destruct (t - m <? 0) eqn:C; destruct (m - t <? 0) eqn:D; destruct (t - m <? d) eqn:E; destruct (m - t <? d) eqn:F; lia.
Qed.

(* ------------------------------------------------------------------------------------------ coordinates *)

Definition posl (dims : list Z) := Forall (fun d => 0 < d) dims.

Lemma prodz_pos dims : posl dims -> 0 < prodz dims.
Proof. induction 1; simpl; [lia | nia]. Qed.

Lemma coord_range dp d x : 0 < d -> 0 <= coord dp d x < d.
Proof. intros. unfold coord. apply Z.mod_pos_bound; lia. Qed.

Lemma coord_move_head dp d x c' : 0 < dp -> 0 < d -> 0 <= c' < d ->
  let x' := x + dp * (c' - coord dp d x) in
  coord dp d x' = c' /\ x' / (dp * d) = x / (dp * d) /\ x' mod dp = x mod dp.
Proof.
  intros Hdp Hd Hc x'. unfold coord in *.
  set (a := x / dp). set (r := x mod dp).
  assert (Hx : x = dp * a + r) by (apply Z.div_mod; lia).
  assert (Hr : 0 <= r < dp) by (apply Z.mod_pos_bound; lia).
  set (q := a / d). set (c := a mod d).
  assert (Ha : a = d * q + c) by (apply Z.div_mod; lia).
  assert (Hcc : 0 <= c < d) by (apply Z.mod_pos_bound; lia).
  assert (Hx' : x' = dp * (d * q + c') + r) by (unfold x'; fold a; fold c; nia).
  assert (D1 : x' / dp = d * q + c') by (symmetry; apply Z.div_unique with (r := r); lia).
  assert (M1 : x' mod dp = r) by (symmetry; apply Z.mod_unique with (q := d * q + c'); lia).
  repeat split.
  - rewrite D1. symmetry. apply Z.mod_unique with (q := q); lia.
  - rewrite <- !Z.div_div by lia. rewrite D1. fold a. rewrite Ha.
    transitivity q; [symmetry; apply Z.div_unique with (r := c'); lia | apply Z.div_unique with (r := c); lia].
  - exact M1.
Qed.

Lemma coord_add_mult dp d x k : 0 < dp -> 0 < d -> coord dp d (x + dp * d * k) = coord dp d x.
Proof.
  intros. unfold coord. replace (x + dp * d * k) with (x + (d * k) * dp) by ring.
  rewrite Z.div_add by lia. replace (x / dp + d * k) with (x / dp + k * d) by ring. apply Z_mod_plus_full.
Qed.

Lemma coords_ext r : forall D x y, 0 < D -> posl r -> x / D = y / D -> coords r D x = coords r D y.
Proof.
  induction r as [|a r IH]; intros D x y HD Hp E; simpl; [reflexivity|].
  inv Hp. f_equal.
  - unfold coord. now rewrite E.
  - apply IH; [nia | assumption |]. rewrite <- !Z.div_div by lia. now rewrite E.
Qed.

Fixpoint upd (j : nat) (v : Z) (l : list Z) : list Z :=
  match l, j with
  | [], _ => []
  | _ :: r, O => v :: r
  | a :: r, S j' => a :: upd j' v r
  end.

Lemma stride_pos dims : posl dims -> forall j, 0 < fst (stride dims j) /\ 0 < snd (stride dims j).
Proof.
  induction 1 as [|d r Hd Hr IH]; intros j; simpl.
  - destruct j; simpl; lia.
  - destruct j; simpl; [lia|]. specialize (IH j). destruct (stride r j) as [dp dj]; simpl in *. nia.
Qed.

(** moving along dimension j (to coordinate c') changes that coordinate only, stays in the same "block" of the
    whole torus and keeps the part below [dp] *)
Lemma move_coords dims : posl dims -> forall j dp x c' sdp d, 0 < dp -> (j < length dims)%nat ->
  stride dims j = (sdp, d) -> 0 <= c' < d ->
  let x' := x + dp * sdp * (c' - coord (dp * sdp) d x) in
  coords dims dp x' = upd j c' (coords dims dp x) /\
  x' / (dp * prodz dims) = x / (dp * prodz dims) /\ x' mod dp = x mod dp.
Proof.
  induction 1 as [|d0 r Hd Hr IH]; intros j dp x c' sdp d Hdp Hj Es; [simpl in Hj; lia|].
  destruct j as [|j].
  - simpl in Es. inv Es. intros Hc. rewrite Z.mul_1_r. cbv zeta.
    destruct (coord_move_head dp d x c' Hdp Hd Hc) as (A & B & C).
    repeat split.
    + simpl. f_equal; [exact A|]. apply coords_ext; [nia | assumption | exact B].
    + simpl prodz. rewrite Z.mul_assoc. rewrite <- !(Z.div_div _ (dp * d)) by (try nia; apply prodz_pos; assumption).
      now rewrite B.
    + exact C.
  - simpl in Hj. assert (Hj' : (j < length r)%nat) by lia.
    pose proof (stride_pos r Hr j) as [Hs1 Hs2].
    simpl in Es. destruct (stride r j) as [sdp' dj] eqn:Es'. inv Es. simpl fst in *. simpl snd in *.
    intros Hc x'.
    assert (Hdp' : 0 < dp * d0) by nia.
    pose proof (IH j (dp * d0) x c' sdp' d Hdp' Hj' Es' Hc) as IH'. cbv zeta in IH'.
    replace (dp * d0 * sdp') with (dp * (d0 * sdp')) in IH' by ring.
    fold x' in IH'. destruct IH' as (A & B & C).
    repeat split.
    + simpl. f_equal; [|exact A].
      unfold x'. replace (dp * (d0 * sdp') * (c' - coord (dp * (d0 * sdp')) d x))
        with (dp * d0 * (sdp' * (c' - coord (dp * (d0 * sdp')) d x))) by ring.
      apply coord_add_mult; lia.
    + simpl prodz. rewrite Z.mul_assoc. exact B.
    + unfold x'. replace (dp * (d0 * sdp') * (c' - coord (dp * (d0 * sdp')) d x))
        with ((d0 * sdp' * (c' - coord (dp * (d0 * sdp')) d x)) * dp) by ring.
      apply Z_mod_plus_full.
Qed.

Lemma nth_coords dims : posl dims -> forall j dp x, 0 < dp -> (j < length dims)%nat ->
  nth j (coords dims dp x) 0 = coord (dp * fst (stride dims j)) (snd (stride dims j)) x.
Proof.
  induction 1 as [|d0 r Hd Hr IH]; intros j dp x Hdp Hj; [simpl in Hj; lia|].
  destruct j as [|j]; simpl.
  - now rewrite Z.mul_1_r.
  - simpl in Hj. rewrite IH by (try nia; lia). destruct (stride r j) as [sdp dj]. simpl. now rewrite Z.mul_assoc.
Qed.

Lemma coords_length dims : forall dp x, length (coords dims dp x) = length dims.
Proof. induction dims; simpl; intros; [reflexivity | now rewrite IHdims]. Qed.

Lemma coords_inj dims : posl dims -> forall dp x y, 0 < dp ->
  coords dims dp x = coords dims dp y -> x / (dp * prodz dims) = y / (dp * prodz dims) -> x mod dp = y mod dp -> x = y.
Proof.
  induction 1 as [|d0 r Hd Hr IH]; intros dp x y Hdp E Q M.
  - simpl in Q. rewrite Z.mul_1_r in Q. rewrite (Z.div_mod x dp), (Z.div_mod y dp) by lia. now rewrite Q, M.
  - simpl in E. injection E as E0 E1. simpl prodz in Q. rewrite Z.mul_assoc in Q.
    apply (IH (dp * d0)); [nia | assumption | assumption |].
    rewrite !Z.rem_mul_r by lia. unfold coord in E0. now rewrite M, E0.
Qed.
