(** C24 — proofs about the bypass-route model of Routing/Bypass.v. *)
From SGV Require Import Base.Tactics Routing.Global Routing.GlobalProofs Routing.Bypass.
From Coq Require Import Sorted.
Local Open Scope Z_scope.

(* ------------------------------------------------------------------------------------------ first_hit *)

Lemma first_hit_some {A B} (f : A -> option B) l y :
  first_hit f l = Some y ->
  exists l1 x l2, l = l1 ++ x :: l2 /\ f x = Some y /\ forall x', In x' l1 -> f x' = None.
Proof.
  induction l as [|a l IH]; simpl; [discriminate|].
  destruct (f a) as [b|] eqn:E.
  - intros H; inv H. exists [], a, l. repeat split; auto. intros x' [].
  - intros H. destruct (IH H) as (l1 & x & l2 & -> & Hx & Hn). exists (a :: l1), x, l2. repeat split; auto.
    intros x' [<-|Hi]; auto.
Qed.

Lemma first_hit_none {A B} (f : A -> option B) l : first_hit f l = None <-> forall x, In x l -> f x = None.
Proof.
  induction l as [|a l IH]; simpl.
  - split; [intros _ x [] | reflexivity].
  - destruct (f a) eqn:E.
    + split; [discriminate|]. intros H. specialize (H a (or_introl eq_refl)). congruence.
    + rewrite IH. split; [intros H x [<-|Hi]; auto | intros H x Hi; apply H; auto].
Qed.

(* ------------------------------------------------------------------------------------------ the search order *)

(** position of an index pair in the search: first by max(i, j); inside one step (i, m) before (m, i) before
    (i+1, m) ..., and (m, m) last *)
Definition rank (p : nat * nat) : nat * nat :=
  (Nat.max (fst p) (snd p),
   if (fst p <? snd p)%nat then (2 * fst p)%nat
   else if (snd p <? fst p)%nat then (2 * snd p + 1)%nat else (2 * fst p)%nat).
Definition rank_lt (p q : nat * nat) : Prop :=
  (fst (rank p) < fst (rank q))%nat \/ (fst (rank p) = fst (rank q) /\ (snd (rank p) < snd (rank q))%nat).

Lemma ss_app {A} (R : A -> A -> Prop) l1 l2 :
  StronglySorted R l1 -> StronglySorted R l2 -> (forall x y, In x l1 -> In y l2 -> R x y) ->
  StronglySorted R (l1 ++ l2).
Proof.
  induction l1 as [|a l1 IH]; simpl; intros H1 H2 H; [exact H2|].
  apply StronglySorted_inv in H1 as [Hs Hf]. constructor.
  - apply IH; auto.
  - apply Forall_forall. intros y Hy. apply in_app_or in Hy as [Hy|Hy].
    + rewrite Forall_forall in Hf. auto.
    + apply H; auto.
Qed.

Lemma ss_split {A} (R : A -> A -> Prop) l1 x l2 :
  StronglySorted R (l1 ++ x :: l2) -> forall y, In y l2 -> R x y.
Proof.
  induction l1 as [|a l1 IH]; simpl; intros H y Hy.
  - apply StronglySorted_inv in H as [Hs Hf]. rewrite Forall_forall in Hf. auto.
  - apply StronglySorted_inv in H as [Hs Hf]. eapply IH; eauto.
Qed.

Definition inner (m k : nat) : list (nat * nat) := flat_map (fun i => [(i, m); (m, i)]) (seq 0 k).

Lemma inner_S m k : inner m (S k) = inner m k ++ [(k, m); (m, k)].
Proof. unfold inner. rewrite seq_S, flat_map_app. simpl. reflexivity. Qed.

Lemma in_inner m k p : In p (inner m k) <-> exists i, (i < k)%nat /\ (p = (i, m) \/ p = (m, i)).
Proof.
  unfold inner. rewrite in_flat_map. split.
  - intros (i & Hi & Hp). apply in_seq in Hi. exists i. split; [lia|]. simpl in Hp. intuition.
  - intros (i & Hi & Hp). exists i. split; [apply in_seq; lia|]. simpl. intuition.
Qed.

Lemma rank_im i m : (i < m)%nat -> rank (i, m) = (m, (2 * i)%nat).
Proof. intros H. unfold rank; simpl fst; simpl snd. destruct (i <? m)%nat eqn:E; [f_equal; lia | apply Nat.ltb_ge in E; lia]. Qed.
Lemma rank_mi i m : (i < m)%nat -> rank (m, i) = (m, (2 * i + 1)%nat).
Proof.
  intros H. unfold rank; simpl fst; simpl snd. destruct (m <? i)%nat eqn:E; [apply Nat.ltb_lt in E; lia|].
  destruct (i <? m)%nat eqn:E'; [f_equal; lia | apply Nat.ltb_ge in E'; lia].
Qed.
Lemma rank_mm m : rank (m, m) = (m, (2 * m)%nat).
Proof. unfold rank; simpl fst; simpl snd. rewrite Nat.ltb_irrefl. f_equal. lia. Qed.

Lemma inner_rank m k p : (k <= m)%nat -> In p (inner m k) -> fst (rank p) = m /\ (snd (rank p) < 2 * k)%nat.
Proof.
  intros Hk Hp. apply in_inner in Hp as (i & Hi & [->| ->]).
  - rewrite rank_im by lia. cbn [fst snd]. lia.
  - rewrite rank_mi by lia. cbn [fst snd]. lia.
Qed.

Lemma inner_sorted m k : (k <= m)%nat -> StronglySorted rank_lt (inner m k).
Proof.
  induction k as [|k IH]; intros Hk; [constructor|].
  rewrite inner_S. apply ss_app; [apply IH; lia | |].
  - constructor; [constructor; [constructor|constructor] |].
    constructor; [|constructor]. right. rewrite rank_im, rank_mi by lia. cbn [fst snd]. lia.
  - intros x y Hx Hy. destruct (inner_rank m k x ltac:(lia) Hx) as [Hf Hs].
    right. destruct Hy as [<-|[<-|[]]].
    + rewrite rank_im by lia. cbn [fst snd]. lia.
    + rewrite rank_mi by lia. cbn [fst snd]. lia.
Qed.

Lemma pairs_at_inner m : pairs_at m = inner m m ++ [(m, m)].
Proof. reflexivity. Qed.

Lemma pairs_at_rank m p : In p (pairs_at m) -> fst (rank p) = m.
Proof.
  rewrite pairs_at_inner. intros H. apply in_app_or in H as [H|[<-|[]]].
  - apply (inner_rank m m p (le_n _) H).
  - rewrite rank_mm. reflexivity.
Qed.

Lemma pairs_at_sorted m : StronglySorted rank_lt (pairs_at m).
Proof.
  rewrite pairs_at_inner. apply ss_app; [apply inner_sorted; lia | constructor; constructor |].
  intros x y Hx [<-|[]]. destruct (inner_rank m m x (le_n _) Hx) as [Hf Hs].
  right. rewrite rank_mm. cbn [fst snd]. lia.
Qed.

Lemma in_pairs_at m i j : In (i, j) (pairs_at m) <-> Nat.max i j = m.
Proof.
  rewrite pairs_at_inner, in_app_iff, in_inner. split.
  - intros [(k & Hk & [H|H]) | [H|[]]]; inv H; lia.
  - intros H. destruct (Nat.lt_trichotomy i j) as [L|[E|L]].
    + left. exists i. split; [lia|]. left. f_equal. lia.
    + right. left. f_equal; lia.
    + left. exists j. split; [lia|]. right. f_equal. lia.
Qed.

Lemma search_order_S n : search_order (S n) = search_order n ++ pairs_at n.
Proof. unfold search_order. rewrite seq_S, flat_map_app. simpl. rewrite app_nil_r. reflexivity. Qed.

(** the search visits exactly the index pairs below the bound ... *)
Lemma in_search_order n i j : In (i, j) (search_order n) <-> (i < n /\ j < n)%nat.
Proof.
  unfold search_order. rewrite in_flat_map. split.
  - intros (m & Hm & Hp). apply in_seq in Hm. apply in_pairs_at in Hp. lia.
  - intros H. exists (Nat.max i j). split; [apply in_seq; lia | apply in_pairs_at; reflexivity].
Qed.

(** ... in increasing rank *)
Lemma search_order_sorted n : StronglySorted rank_lt (search_order n).
Proof.
  induction n as [|n IH]; [constructor|].
  rewrite search_order_S. apply ss_app; [exact IH | apply pairs_at_sorted |].
  intros [i j] y Hx Hy. left. apply in_search_order in Hx. rewrite (pairs_at_rank n y Hy).
  unfold rank. simpl. lia.
Qed.

(* ------------------------------------------------------------------------------------------ the model *)

Definition nilseg : seg := ([], 0).

Section BypassP.
  Variable parent znp zgw enz : Z -> Z.
  Variable is_zone : Z -> bool.
  Variable local : Z -> Z -> Z -> lroute.
  Variable depth : nat.
  Variable bp : Z -> Z -> Z -> lroute.
  Variable prepends : Z -> bool.

  Notation bp_lookup := (bp_lookup znp bp).
  Notation bp_search := (bp_search znp bp).
  Notation find_bypass := (find_bypass parent znp enz depth bp).
  Notation common_of := (common_of parent enz depth).
  Notation direct_acc := (direct_acc parent znp zgw enz is_zone local depth prepends).
  Notation groute := (groute parent znp zgw enz is_zone local depth bp prepends).
  Notation global_spec := (global_spec parent znp zgw enz is_zone local depth).
  Notation global_route := (global_route parent znp zgw enz is_zone local depth).

  (** a bypass is [declared] for the index pair (i, j) of the two paths *)
  Definition declared (this : Z) (ps pd : list Z) (i j : nat) : Prop :=
    (i < length ps)%nat /\ (j < length pd)%nat /\
    lr_ok (bp this (znp (nth i ps (-1))) (znp (nth j pd (-1)))) = true.

  Lemma bp_lookup_some this ps pd i j r :
    bp_lookup this ps pd (i, j) = Some r <->
    declared this ps pd i j /\
    r = (znp (nth i ps (-1)), znp (nth j pd (-1)), bp this (znp (nth i ps (-1))) (znp (nth j pd (-1)))).
  Proof. clear parent zgw enz is_zone local prepends depth.
    unfold Bypass.bp_lookup, declared. simpl fst; simpl snd.
    destruct (Nat.ltb_spec i (length ps)) as [L1|L1]; destruct (Nat.ltb_spec j (length pd)) as [L2|L2]; simpl.
    - destruct (lr_ok _) eqn:E.
      + split; [intros H; inv H; auto | intros [_ ->]; reflexivity].
      + split; [discriminate | intros [(_ & _ & H) _]; discriminate].
    - split; [discriminate | intros [(_ & H & _) _]; lia].
    - split; [discriminate | intros [(H & _ & _) _]; lia].
    - split; [discriminate | intros [(H & _ & _) _]; lia].
  Qed.

  (** which bypass wins: the declared pair of least rank *)
  Theorem bp_search_winner this ps pd k1 k2 b :
    bp_search this ps pd = Some (k1, k2, b) ->
    exists i j, declared this ps pd i j /\
      k1 = znp (nth i ps (-1)) /\ k2 = znp (nth j pd (-1)) /\ b = bp this k1 k2 /\
      forall i' j', declared this ps pd i' j' -> (i', j') = (i, j) \/ rank_lt (i, j) (i', j').
  Proof. clear parent zgw enz is_zone local prepends depth.
    unfold Bypass.bp_search. intros H.
    apply first_hit_some in H as (l1 & [i j] & l2 & Hl & Hx & Hn).
    apply bp_lookup_some in Hx as [Hd Hr]. inv Hr.
    exists i, j. split; [exact Hd|]. split; [reflexivity|]. split; [reflexivity|]. split; [reflexivity|].
    intros i' j' Hd'.
    assert (Hin : In (i', j') (l1 ++ (i, j) :: l2)).
    { rewrite <- Hl. apply in_search_order. destruct Hd' as (A & B & _). lia. }
    apply in_app_or in Hin as [Hin|[Hin|Hin]].
    - apply Hn in Hin. pose proof (proj2 (bp_lookup_some this ps pd i' j' _) (conj Hd' eq_refl)) as Hs.
      rewrite Hin in Hs. discriminate.
    - left. congruence.
    - right. pose proof (search_order_sorted (Nat.max (length ps) (length pd))) as S. rewrite Hl in S.
      eapply ss_split; eauto.
  Qed.

  (** a declared bypass between two zones of the paths is never missed (whatever the two depths) *)
  Theorem bp_search_none this ps pd :
    bp_search this ps pd = None <-> forall i j, ~ declared this ps pd i j.
  Proof. clear parent zgw enz is_zone local prepends depth.
    unfold Bypass.bp_search. rewrite first_hit_none. split.
    - intros H i j Hd. specialize (H (i, j)).
      rewrite (proj2 (bp_lookup_some this ps pd i j _) (conj Hd eq_refl)) in H.
      assert (In (i, j) (search_order (Nat.max (length ps) (length pd)))) as Hin
          by (apply in_search_order; destruct Hd as (A & B & _); lia).
      specialize (H Hin). discriminate.
    - intros H [i j] _. destruct (bp_lookup this ps pd (i, j)) as [r|] eqn:E; [|reflexivity].
      apply bp_lookup_some in E as [Hd _]. destruct (H i j Hd).
  Qed.

  Lemma find_bypass_entry c src dst k1 k2 b :
    find_bypass c src dst = Some (k1, k2, b) -> b = bp c k1 k2 /\ lr_ok b = true.
  Proof.
    unfold Bypass.find_bypass. destruct (_ && _).
    - destruct (lr_ok (bp c src dst)) eqn:E; intros H; inv H; auto.
    - destruct (pop_common _ _) as [a b']. intros H.
      apply bp_search_winner in H as (i & j & (_ & _ & Hd) & -> & -> & -> & _). auto.
  Qed.

  Lemma find_bypass_none_if c src dst : (forall a b, lr_ok (bp c a b) = false) -> find_bypass c src dst = None.
  Proof.
    intros H. unfold Bypass.find_bypass. destruct (_ && _).
    - rewrite H. reflexivity.
    - destruct (pop_common _ _) as [a b']. apply bp_search_none. intros i j (_ & _ & Hd). rewrite H in Hd. discriminate.
  Qed.

  (* ---------------------------------------------------------------------------------------- specification *)

  (** one end of a bypass: nothing when the endpoint is the key itself, else the (recursive) route to/from the gateway *)
  Definition leg (rec : Z -> Z -> option seg) (x k gw a b : Z) : option seg :=
    if x =? k then Some nilseg else if gw =? -1 then None else rec a b.

  (** the route in composition form (no accumulator) *)
  Fixpoint gspec_f (fuel : nat) (src dst : Z) : option seg :=
    match fuel with
    | O => None
    | S f =>
        match common_of src dst with
        | None => None
        | Some c =>
            match find_bypass c src dst with
            | Some (k1, k2, b) =>
                match leg (gspec_f f) src k1 (lr_gws b) src (lr_gws b),
                      leg (gspec_f f) dst k2 (lr_gwd b) (lr_gwd b) dst with
                | Some u, Some d => Some (seg_app (seg_app u (lr_links b, lr_lat b)) d)
                | _, _ => None
                end
            | None => global_spec src dst
            end
        end
    end.

  Lemma gspec_f_S f src dst :
    gspec_f (S f) src dst =
    match common_of src dst with
    | None => None
    | Some c =>
        match find_bypass c src dst with
        | Some (k1, k2, b) =>
            match leg (gspec_f f) src k1 (lr_gws b) src (lr_gws b),
                  leg (gspec_f f) dst k2 (lr_gwd b) (lr_gwd b) dst with
            | Some u, Some d => Some (seg_app (seg_app u (lr_links b, lr_lat b)) d)
            | _, _ => None
            end
        | None => global_spec src dst
        end
    end.
  Proof. reflexivity. Qed.

  Lemma direct_acc_spec src dst acc :
    direct_acc false src dst acc = omap (fun s => seg_app acc s) (global_spec src dst).
  Proof.
    unfold Bypass.direct_acc. destruct (enz src =? enz dst) eqn:E.
    - unfold GlobalProofs.global_spec. rewrite E. cbn. destruct (lr_ok _); reflexivity.
    - rewrite global_route_composition. destruct (global_spec src dst); reflexivity.
  Qed.

  (** the accumulating code = appending the composed route to what the caller had *)
  Lemma groute_gspec : forall f src dst acc,
    groute false f src dst acc = omap (fun s => seg_app acc s) (gspec_f f src dst).
  Proof.
    induction f as [|f IH]; intros src dst acc; [reflexivity|].
    rewrite gspec_f_S. cbn [Bypass.groute].
    destruct (common_of src dst) as [c|]; [|reflexivity].
    destruct (find_bypass c src dst) as [[[k1 k2] b]|]; [|apply direct_acc_spec].
    unfold leg.
    assert (K : forall a : seg, (fst a ++ lr_links b, snd a + lr_lat b) = seg_app a (lr_links b, lr_lat b)) by reflexivity.
    destruct (src =? k1).
    - rewrite K. destruct (dst =? k2).
      + cbn [omap]. unfold nilseg. now rewrite seg_app_nil_l, seg_app_nil_r.
      + destruct (lr_gwd b =? -1); [reflexivity|]. rewrite IH.
        destruct (gspec_f f (lr_gwd b) dst) as [d|]; cbn [omap]; [|reflexivity].
        unfold nilseg. now rewrite seg_app_nil_l, seg_app_assoc.
    - destruct (lr_gws b =? -1); [reflexivity|]. rewrite IH.
      destruct (gspec_f f src (lr_gws b)) as [u|]; cbn [omap]; [|reflexivity].
      rewrite K. destruct (dst =? k2).
      + unfold nilseg. now rewrite seg_app_nil_r, seg_app_assoc.
      + destruct (lr_gwd b =? -1); [reflexivity|]. rewrite IH.
        destruct (gspec_f f (lr_gwd b) dst) as [d|]; cbn [omap]; [|reflexivity].
        now rewrite !seg_app_assoc.
  Qed.

  (** declarative, fuel-free: the route is either the plain composition of C24_composition (no bypass applies), or
      up to the gateway of the winning bypass ++ its links ++ down from its other gateway, both ends being routes in
      the same sense *)
  Inductive route_spec : Z -> Z -> seg -> Prop :=
  | RS_direct : forall src dst c s,
      common_of src dst = Some c -> find_bypass c src dst = None ->
      global_spec src dst = Some s -> route_spec src dst s
  | RS_bypass : forall src dst c k1 k2 b u d,
      common_of src dst = Some c -> find_bypass c src dst = Some (k1, k2, b) ->
      leg_spec src k1 (lr_gws b) src (lr_gws b) u ->
      leg_spec dst k2 (lr_gwd b) (lr_gwd b) dst d ->
      route_spec src dst (seg_app (seg_app u (lr_links b, lr_lat b)) d)
  with leg_spec : Z -> Z -> Z -> Z -> Z -> seg -> Prop :=
  | LS_none : forall x gw a b, leg_spec x x gw a b nilseg
  | LS_some : forall x k gw a b s, x <> k -> gw <> -1 -> route_spec a b s -> leg_spec x k gw a b s.

  Scheme route_spec_mut := Minimality for route_spec Sort Prop
    with leg_spec_mut := Minimality for leg_spec Sort Prop.

  Lemma leg_sound (rec : Z -> Z -> option seg) x k gw a b s :
    (forall a b s, rec a b = Some s -> route_spec a b s) ->
    leg rec x k gw a b = Some s -> leg_spec x k gw a b s.
  Proof.
    intros Hrec. unfold leg. destruct (x =? k) eqn:E1.
    - intros H; inv H. apply Z.eqb_eq in E1. subst. constructor.
    - destruct (gw =? -1) eqn:E2; [discriminate|]. intros H.
      apply Z.eqb_neq in E1. apply Z.eqb_neq in E2. apply LS_some; auto.
  Qed.

  Lemma gspec_sound : forall f src dst s, gspec_f f src dst = Some s -> route_spec src dst s.
  Proof.
    induction f as [|f IH]; intros src dst s H; [discriminate|].
    rewrite gspec_f_S in H.
    destruct (common_of src dst) as [c|] eqn:C; [|discriminate].
    destruct (find_bypass c src dst) as [[[k1 k2] b]|] eqn:F.
    - destruct (leg (gspec_f f) src k1 (lr_gws b) src (lr_gws b)) as [u|] eqn:U; [|discriminate].
      destruct (leg (gspec_f f) dst k2 (lr_gwd b) (lr_gwd b) dst) as [d|] eqn:D; [|discriminate].
      inv H. eapply RS_bypass; eauto using leg_sound.
    - eapply RS_direct; eauto.
  Qed.

  Lemma leg_mono (rec rec' : Z -> Z -> option seg) x k gw a b s :
    (forall a b s, rec a b = Some s -> rec' a b = Some s) ->
    leg rec x k gw a b = Some s -> leg rec' x k gw a b = Some s.
  Proof. intros H. unfold leg. destruct (x =? k); [auto|]. destruct (gw =? -1); auto. Qed.

  Lemma gspec_mono : forall f src dst s, gspec_f f src dst = Some s -> gspec_f (S f) src dst = Some s.
  Proof.
    induction f as [|f IH]; intros src dst s H; [discriminate|].
    rewrite gspec_f_S in H. rewrite gspec_f_S.
    destruct (common_of src dst) as [c|]; [|discriminate].
    destruct (find_bypass c src dst) as [[[k1 k2] b]|]; [|exact H].
    destruct (leg (gspec_f f) src k1 (lr_gws b) src (lr_gws b)) as [u|] eqn:U; [|discriminate].
    destruct (leg (gspec_f f) dst k2 (lr_gwd b) (lr_gwd b) dst) as [d|] eqn:D; [|discriminate].
    rewrite (leg_mono _ (gspec_f (S f)) _ _ _ _ _ _ IH U), (leg_mono _ (gspec_f (S f)) _ _ _ _ _ _ IH D). exact H.
  Qed.

  Lemma gspec_mono_le f f' src dst s : (f <= f')%nat -> gspec_f f src dst = Some s -> gspec_f f' src dst = Some s.
  Proof. induction 1; auto using gspec_mono. Qed.

  Lemma gspec_complete src dst s : route_spec src dst s -> exists f, gspec_f f src dst = Some s.
  Proof.
    revert src dst s.
    apply (route_spec_mut
             (fun src dst s => exists f, gspec_f f src dst = Some s)
             (fun x k gw a b s => exists f, leg (gspec_f f) x k gw a b = Some s)).
    - intros src dst c s C F G. exists 1%nat. rewrite gspec_f_S, C, F. exact G.
    - intros src dst c k1 k2 b u d C F _ [f1 U] _ [f2 D].
      exists (S (Nat.max f1 f2)). rewrite gspec_f_S, C, F.
      rewrite (leg_mono (gspec_f f1) (gspec_f (Nat.max f1 f2)) _ _ _ _ _ _
                        (fun a b s => gspec_mono_le f1 _ a b s (Nat.le_max_l _ _)) U).
      rewrite (leg_mono (gspec_f f2) (gspec_f (Nat.max f1 f2)) _ _ _ _ _ _
                        (fun a b s => gspec_mono_le f2 _ a b s (Nat.le_max_r _ _)) D).
      reflexivity.
    - intros x gw a b. exists 0%nat. unfold leg. rewrite Z.eqb_refl. reflexivity.
    - intros x k gw a b s N1 N2 _ [f H]. exists f. unfold leg.
      apply Z.eqb_neq in N1. apply Z.eqb_neq in N2. rewrite N1, N2. exact H.
  Qed.

  (** soundness: whatever the model of the code returns is a route in the declarative sense *)
  Theorem groute_sound fuel src dst s : groute false fuel src dst nilseg = Some s -> route_spec src dst s.
  Proof.
    rewrite groute_gspec. destruct (gspec_f fuel src dst) as [r|] eqn:E; [|discriminate].
    simpl. unfold nilseg. rewrite seg_app_nil_l. intros H; inv H. eapply gspec_sound; eauto.
  Qed.

  (** completeness: every declarative route is computed, for all sufficiently large fuel *)
  Theorem groute_complete src dst s :
    route_spec src dst s -> exists fuel, forall fuel', (fuel <= fuel')%nat -> groute false fuel' src dst nilseg = Some s.
  Proof.
    intros H. apply gspec_complete in H as [f H]. exists f. intros f' L.
    rewrite groute_gspec, (gspec_mono_le f f' _ _ _ L H). simpl. unfold nilseg. now rewrite seg_app_nil_l.
  Qed.

  (** without bypass routes the route is the one of C24_composition *)
  Theorem groute_no_bypass fuel src dst :
    (forall z a b, lr_ok (bp z a b) = false) ->
    groute false (S fuel) src dst nilseg = global_route false src dst.
  Proof.
    intros H. rewrite groute_gspec, gspec_f_S, global_route_composition.
    destruct (common_of src dst) as [c|] eqn:C.
    - rewrite find_bypass_none_if by (apply H). destruct (global_spec src dst) as [[ls l]|]; reflexivity.
    - simpl. unfold Bypass.common_of in C. unfold GlobalProofs.global_spec.
      destruct (enz src =? enz dst); [discriminate|].
      destruct (zones_of parent enz depth src) as [|rs ps]; [reflexivity|].
      destruct (zones_of parent enz depth dst) as [|rd pd]; [reflexivity|].
      destruct (negb (rs =? rd)); [reflexivity|].
      destruct (drop_common ps pd rs) as [[c' sp] dp]. discriminate.
  Qed.

  (* ---------------------------------------------------------------------------------------- latency *)
  Variable lat : Z -> Z.
  Hypothesis Hlat : forall z a b, lr_ok (local z a b) = true -> lr_lat (local z a b) = lat_sum lat (lr_links (local z a b)).
  Hypothesis Hblat : forall z a b, lr_ok (bp z a b) = true -> lr_lat (bp z a b) = lat_sum lat (lr_links (bp z a b)).

  Lemma seg_ok_app' a b : seg_ok lat a -> seg_ok lat b -> seg_ok lat (seg_app a b).
  Proof. unfold seg_ok, seg_app; simpl. intros -> ->. induction (fst a); simpl; lia. Qed.

  Lemma route_spec_lat src dst s : route_spec src dst s -> seg_ok lat s.
  Proof.
    revert src dst s.
    apply (route_spec_mut (fun _ _ s => seg_ok lat s) (fun _ _ _ _ _ s => seg_ok lat s)).
    - intros src dst c [ls l] _ _ G. rewrite <- global_route_composition in G.
      unfold seg_ok. simpl. exact (global_latency_sum parent znp zgw enz is_zone local depth lat Hlat src dst ls l G).
    - intros src dst c k1 k2 b u d _ F _ U _ D.
      apply find_bypass_entry in F as [-> Ok].
      apply seg_ok_app'; [apply seg_ok_app'|]; auto. unfold seg_ok. simpl. now apply Hblat.
    - intros. reflexivity.
    - intros. assumption.
  Qed.

  Theorem groute_latency_sum fuel src dst ls l :
    groute false fuel src dst nilseg = Some (ls, l) -> l = lat_sum lat ls.
  Proof. intros H. apply groute_sound in H. apply route_spec_lat in H. exact H. Qed.
End BypassP.

(* ------------------------------------------------------------------------------------------ witnesses *)

(** endpoints at unequal depths.  Zones T(0) > A(1, Star) > A1(2) and T > B(3, Dijkstra: builds its route backwards).
    Netpoints hA1(0) rA1(1) in A1, rA(2) in A, hB(3) rB(4) in B, A(5) and B(7) in T, A1(6) in A.
    T declares the route A -> B = [10] and the bypass A -> B = [20] through the gateways rA, rB: key = index pair (1, 0). *)
Definition bw_local : list lentry :=
  [ mkle 2 0 1 (mklr true [1] 1 (-1) (-1));         (* A1: hA1 -> rA1 *)
    mkle 1 6 2 (mklr true [2] 2 1 (-1));            (* A: A1 -> rA, gw_src = rA1 *)
    mkle 0 5 7 (mklr true [10] 10 2 4);             (* T: A -> B through rA, rB *)
    mkle 3 4 3 (mklr true [3] 3 (-1) (-1)) ].       (* B: rB -> hB *)
Definition bw_bypass : list lentry := [ mkle 0 5 7 (mklr true [20] 20 2 4) ].
Definition bw_parent (z : Z) : Z := if z =? 1 then 0 else if z =? 2 then 1 else if z =? 3 then 0 else -1.
Definition bw_znp (z : Z) : Z := if z =? 1 then 5 else if z =? 2 then 6 else if z =? 3 then 7 else 8.
Definition bw_enz (p : Z) : Z := if p <? 2 then 2 else if p =? 2 then 1 else if p <? 5 then 3 else if p =? 6 then 1 else 0.
Definition bw_route (table : list lentry) (pin : bool) :=
  groute bw_parent bw_znp (fun _ => -1) bw_enz (fun p => 5 <=? p) (lookup bw_local) 5 (lookup table)
         (fun z => z =? 3) pin 6 0 3 nilseg.

(** the bypass declared between the OUTER zone of the longer chain and the other chain is used; the code as pinned put
    the local route of the Dijkstra zone, which completes the bypass, in front of everything found before *)
Lemma bypass_witness :
  bw_route bw_bypass false = Some ([1; 2; 20; 3], 26) /\
  bw_route [] false = Some ([1; 2; 10; 3], 16) /\
  bw_route bw_bypass true = Some ([3; 1; 2; 20], 26).
Proof. vm_compute. repeat split; reflexivity. Qed.
