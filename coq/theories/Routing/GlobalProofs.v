(** C24 — proofs about the route-composition model of Routing/Global.v. *)
From SGV Require Import Base.Tactics Routing.Global.
Local Open Scope Z_scope.

Lemma seg_app_assoc a b c : seg_app (seg_app a b) c = seg_app a (seg_app b c).
Proof. unfold seg_app; simpl. now rewrite app_assoc, Z.add_assoc. Qed.
Lemma seg_app_nil_r a : seg_app a ([], 0) = a.
Proof. destruct a; unfold seg_app; simpl. now rewrite app_nil_r, Z.add_0_r. Qed.
Lemma seg_app_nil_l a : seg_app ([], 0) a = a.
Proof. destruct a; reflexivity. Qed.

Definition omap {A B} (f : A -> B) (o : option A) : option B := match o with Some x => Some (f x) | None => None end.

Section GlobalP.
  Variable parent znp zgw enz : Z -> Z.
  Variable is_zone : Z -> bool.
  Variable local : Z -> Z -> Z -> lroute.
  Variable depth : nat.

  Notation iz_up := (iz_up znp zgw enz is_zone local).
  Notation iz_down := (iz_down znp zgw enz is_zone local).
  Notation up_spec := (up_spec znp zgw enz is_zone local).
  Notation down_spec := (down_spec znp zgw enz is_zone local).

  (** the accumulating loop (insert in front of what was found so far) = the segments in travel order *)
  Lemma iz_up_spec : forall path np gw acc,
    iz_up false path np gw acc = omap (fun s => seg_app s acc) (up_spec path np gw).
  Proof.
    induction path as [|z rest IH]; intros np gw acc; simpl.
    - destruct (gw =? -1); [reflexivity|]. destruct (enz np =? enz gw); [|reflexivity].
      destruct (np =? gw); [destruct acc; unfold seg_app; simpl; rewrite ?app_nil_r, ?Z.add_0_r; reflexivity|].
      destruct (lr_ok (local (enz gw) np gw)); reflexivity.
    - destruct (gw =? -1); [reflexivity|]. destruct (enz np =? enz gw).
      + destruct (np =? gw); [destruct acc; unfold seg_app; simpl; rewrite ?app_nil_r, ?Z.add_0_r; reflexivity|].
        destruct (lr_ok (local (enz gw) np gw)); reflexivity.
      + destruct (lr_ok (local (enz gw) (znp z) gw)); [|reflexivity].
        rewrite IH. destruct (up_spec rest np _) as [s|]; simpl; [|reflexivity].
        now rewrite seg_app_assoc.
  Qed.

  Lemma iz_down_spec : forall path np gw acc,
    iz_down path np gw acc = omap (fun s => seg_app acc s) (down_spec path np gw).
  Proof.
    induction path as [|z rest IH]; intros np gw acc; simpl.
    - destruct (gw =? -1); [reflexivity|]. destruct (enz np =? enz gw); [|reflexivity].
      destruct (np =? gw); [destruct acc; unfold seg_app; simpl; rewrite ?app_nil_r, ?Z.add_0_r; reflexivity|].
      destruct (lr_ok (local (enz gw) gw np)); reflexivity.
    - destruct (gw =? -1); [reflexivity|]. destruct (enz np =? enz gw).
      + destruct (np =? gw); [destruct acc; unfold seg_app; simpl; rewrite ?app_nil_r, ?Z.add_0_r; reflexivity|].
        destruct (lr_ok (local (enz gw) gw np)); reflexivity.
      + destruct (lr_ok (local (enz gw) gw (znp z))); [|reflexivity].
        change (fst acc ++ lr_links (local (enz gw) gw (znp z)), snd acc + lr_lat (local (enz gw) gw (znp z)))
          with (seg_app acc (lr_links (local (enz gw) gw (znp z)), lr_lat (local (enz gw) gw (znp z)))).
        rewrite IH. destruct (down_spec rest np _) as [s|]; simpl; [|reflexivity].
        now rewrite seg_app_assoc.
  Qed.

  (** the declarative route: up ++ the route declared in the lowest common ancestor ++ down *)
  Definition global_spec (src dst : Z) : option seg :=
    if enz src =? enz dst then
      let r := local (enz src) src dst in if lr_ok r then Some (lr_links r, lr_lat r) else None
    else
      match zones_of parent enz depth src, zones_of parent enz depth dst with
      | rs :: ps, rd :: pd =>
          if negb (rs =? rd) then None
          else
            let '(common, sp, dp) := drop_common ps pd rs in
            let a := match sp with [] => src | z :: _ => znp z end in
            let b := match dp with [] => dst | z :: _ => znp z end in
            let r := local common a b in
            if negb (lr_ok r) then None
            else
              match (match sp with [] => Some ([], 0) | _ :: sp' => up_spec sp' src (lr_gws r) end),
                    (match dp with [] => Some ([], 0) | _ :: dp' => down_spec dp' dst (lr_gwd r) end) with
              | Some u, Some d => Some (seg_app (seg_app u (lr_links r, lr_lat r)) d)
              | _, _ => None
              end
      | _, _ => None
      end.

  Theorem global_route_composition src dst :
    global_route parent znp zgw enz is_zone local depth false src dst = global_spec src dst.
  Proof.
    unfold global_route, global_spec.
    destruct (enz src =? enz dst); [reflexivity|].
    destruct (zones_of parent enz depth src) as [|rs ps]; [reflexivity|].
    destruct (zones_of parent enz depth dst) as [|rd pd]; [reflexivity|].
    destruct (negb (rs =? rd)); [reflexivity|].
    destruct (drop_common ps pd rs) as [[common sp] dp].
    set (r := local common _ _). destruct (negb (lr_ok r)); [reflexivity|].
    assert (U : match sp with [] => Some ([], 0) | _ :: sp' => iz_up false sp' src (lr_gws r) ([], 0) end
              = match sp with [] => Some ([], 0) | _ :: sp' => up_spec sp' src (lr_gws r) end).
    { destruct sp; [reflexivity|]. rewrite iz_up_spec. destruct (up_spec _ _ _) as [s|]; simpl; [|reflexivity].
      now rewrite seg_app_nil_r. }
    assert (D : match dp with [] => Some ([], 0) | _ :: dp' => iz_down dp' dst (lr_gwd r) ([], 0) end
              = match dp with [] => Some ([], 0) | _ :: dp' => down_spec dp' dst (lr_gwd r) end).
    { destruct dp; [reflexivity|]. rewrite iz_down_spec. destruct (down_spec _ _ _) as [s|]; simpl; [|reflexivity].
      now rewrite seg_app_nil_l. }
    rewrite U, D. reflexivity.
  Qed.

  (* -------------------------------------------------------------------------------------- latency *)
  Variable lat : Z -> Z.
  Hypothesis Hlat : forall z a b, lr_ok (local z a b) = true -> lr_lat (local z a b) = lat_sum lat (lr_links (local z a b)).

  Lemma lat_sum_app a b : lat_sum lat (a ++ b) = lat_sum lat a + lat_sum lat b.
  Proof. induction a; simpl; lia. Qed.

  Definition seg_ok (s : seg) := snd s = lat_sum lat (fst s).
  Lemma seg_ok_app a b : seg_ok a -> seg_ok b -> seg_ok (seg_app a b).
  Proof. unfold seg_ok, seg_app; simpl. intros -> ->. now rewrite lat_sum_app. Qed.

  Lemma up_spec_lat : forall path np gw s, up_spec path np gw = Some s -> seg_ok s.
  Proof.
    induction path as [|z rest IH]; intros np gw s; simpl.
    - destruct (gw =? -1); [discriminate|]. destruct (enz np =? enz gw); [|discriminate].
      destruct (np =? gw); [intros H; inv H; reflexivity|].
      destruct (lr_ok (local (enz gw) np gw)) eqn:E; [|discriminate]. intros H; inv H. unfold seg_ok; simpl. now apply Hlat.
    - destruct (gw =? -1); [discriminate|]. destruct (enz np =? enz gw).
      + destruct (np =? gw); [intros H; inv H; reflexivity|].
        destruct (lr_ok (local (enz gw) np gw)) eqn:E; [|discriminate]. intros H; inv H. unfold seg_ok; simpl. now apply Hlat.
      + destruct (lr_ok (local (enz gw) (znp z) gw)) eqn:E; [|discriminate].
        destruct (up_spec rest np _) as [s'|] eqn:E'; [|discriminate]. intros H; inv H.
        apply seg_ok_app; [eapply IH; eassumption | unfold seg_ok; simpl; now apply Hlat].
  Qed.

  Lemma down_spec_lat : forall path np gw s, down_spec path np gw = Some s -> seg_ok s.
  Proof.
    induction path as [|z rest IH]; intros np gw s; simpl.
    - destruct (gw =? -1); [discriminate|]. destruct (enz np =? enz gw); [|discriminate].
      destruct (np =? gw); [intros H; inv H; reflexivity|].
      destruct (lr_ok (local (enz gw) gw np)) eqn:E; [|discriminate]. intros H; inv H. unfold seg_ok; simpl. now apply Hlat.
    - destruct (gw =? -1); [discriminate|]. destruct (enz np =? enz gw).
      + destruct (np =? gw); [intros H; inv H; reflexivity|].
        destruct (lr_ok (local (enz gw) gw np)) eqn:E; [|discriminate]. intros H; inv H. unfold seg_ok; simpl. now apply Hlat.
      + destruct (lr_ok (local (enz gw) gw (znp z))) eqn:E; [|discriminate].
        destruct (down_spec rest np _) as [s'|] eqn:E'; [|discriminate]. intros H; inv H.
        apply seg_ok_app; [unfold seg_ok; simpl; now apply Hlat | eapply IH; eassumption].
  Qed.

  Theorem global_latency_sum src dst ls l :
    global_route parent znp zgw enz is_zone local depth false src dst = Some (ls, l) -> l = lat_sum lat ls.
  Proof.
    rewrite global_route_composition. unfold global_spec.
    destruct (enz src =? enz dst).
    { destruct (lr_ok (local (enz src) src dst)) eqn:E; [|discriminate]. intros H; inv H. now apply Hlat. }
    destruct (zones_of parent enz depth src) as [|rs ps]; [discriminate|].
    destruct (zones_of parent enz depth dst) as [|rd pd]; [discriminate|].
    destruct (negb (rs =? rd)); [discriminate|].
    destruct (drop_common ps pd rs) as [[common sp] dp].
    set (r := local common _ _). destruct (lr_ok r) eqn:E; [|discriminate]. simpl negb. cbv iota.
    assert (Hr : seg_ok (lr_links r, lr_lat r)) by (unfold seg_ok; simpl; now apply Hlat).
    destruct (match sp with [] => Some ([], 0) | _ :: sp' => up_spec sp' src (lr_gws r) end) as [u|] eqn:EU; [|discriminate].
    destruct (match dp with [] => Some ([], 0) | _ :: dp' => down_spec dp' dst (lr_gwd r) end) as [d|] eqn:ED; [|discriminate].
    intros H. inv H.
    assert (Hu : seg_ok u) by (destruct sp; [inv EU; reflexivity | eapply up_spec_lat; eassumption]).
    assert (Hd : seg_ok d) by (destruct dp; [inv ED; reflexivity | eapply down_spec_lat; eassumption]).
    pose proof (seg_ok_app _ _ (seg_ok_app _ _ Hu Hr) Hd) as K. unfold seg_ok, seg_app in K. simpl in K. exact K.
  Qed.
End GlobalP.

(** a route declared symmetrical is used reversed in the opposite direction *)
Theorem declare_sym_reversed back u v links :
  In (u, v, links) (declare_sym back u v links) /\ In (v, u, rev (map back links)) (declare_sym back u v links) /\
  ((forall x, back (back x) = x) -> declare_sym back v u (rev (map back links)) = [(v, u, rev (map back links)); (u, v, links)]).
Proof.
  unfold declare_sym. repeat split; simpl; auto. intros Hb. repeat f_equal.
  rewrite map_rev, rev_involutive, map_map. rewrite <- (map_id links) at 2. apply map_ext. exact Hb.
Qed.

(** the code as pinned (rbegin()/rend() when going up) is refuted: host 0 in zone A(2) inside M(1) inside R(0), to
    host 3 in zone B(3) of R; the local route of M from A to its gateway has two links 10, 20 *)
Definition wit_local : list lentry :=
  [ mkle 2 0 1 (mklr true [1] 1 (-1) (-1));          (* A: a1 -> ga *)
    mkle 1 6 2 (mklr true [10; 20] 30 1 (-1));       (* M: A -> gm, gw_src = ga *)
    mkle 0 5 7 (mklr true [100; 200] 300 2 4);       (* R: M -> B, gateways gm, gb *)
    mkle 3 4 3 (mklr true [3] 3 (-1) (-1)) ].        (* B: gb -> b1 *)
Definition wit_parent (z : Z) : Z := if z =? 0 then -1 else if z =? 1 then 0 else if z =? 2 then 1 else if z =? 3 then 0 else -1.
Definition wit_znp (z : Z) : Z := if z =? 1 then 5 else if z =? 2 then 6 else if z =? 3 then 7 else 8.
Definition wit_enz (p : Z) : Z := if p <? 2 then 2 else if p =? 2 then 1 else if p <? 5 then 3 else if p =? 6 then 1 else 0.
Definition wit_route (rev_seg : bool) :=
  global_route wit_parent wit_znp (fun _ => -1) wit_enz (fun p => 5 <=? p) (lookup wit_local) 5 rev_seg 0 3.

Lemma pinned_refuted :
  wit_route true = Some ([1; 20; 10; 100; 200; 3], 334) /\ wit_route false = Some ([1; 10; 20; 100; 200; 3], 334).
Proof. vm_compute. split; reflexivity. Qed.
