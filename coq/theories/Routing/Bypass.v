(** C24 — model of bypass routes: NetZoneImpl::get_bypass_route and the part of get_global_route_with_netzones that
    calls it (src/kernel/routing/NetZoneImpl.cpp), on top of the composition model of Routing/Global.v.
    [bp z a b] stands for the entry {a, b} of zone z's bypass_routes_ (lr_ok = present; links, their latency, gw_src,
    gw_dst).  The early exit on an empty table is not modelled (with an empty table no lookup succeeds).
    Model only: no proofs here. *)
From SGV Require Import Base.Tactics Routing.Global.
Local Open Scope Z_scope.

(** first element of a list on which [f] answers *)
Fixpoint first_hit {A B : Type} (f : A -> option B) (l : list A) : option B :=
  match l with
  | [] => None
  | x :: r => match f x with Some y => Some y | None => first_hit f r end
  end.

(** the index pairs of step [max = m] of the search loop, in the order they are looked up:
      for (i = 0; i < m; i++) if (lookup(i, m) || lookup(m, i)) break;     then lookup(m, m) *)
Definition pairs_at (m : nat) : list (nat * nat) :=
  flat_map (fun i => [(i, m); (m, i)]) (seq 0 m) ++ [(m, m)].
(** for (max = 0; max < n; max++): the loops stop at the first successful lookup *)
Definition search_order (n : nat) : list (nat * nat) := flat_map pairs_at (seq 0 n).

Section Bypass.
  Variable parent : Z -> Z.
  Variable znp : Z -> Z.
  Variable zgw : Z -> Z.
  Variable enz : Z -> Z.
  Variable is_zone : Z -> bool.
  Variable local : Z -> Z -> Z -> lroute.
  Variable depth : nat.
  Variable bp : Z -> Z -> Z -> lroute.      (* zone, key.first, key.second -> that zone's bypass_routes_ entry *)
  Variable prepends : Z -> bool.            (* the zone's get_local_route inserts IN FRONT of the list it receives (DijkstraZone) *)

  Notation zones_of := (zones_of parent enz depth).

  (** "(2) find the common parent": pop the common back of the two paths while both have more than one element.
      The paths of the code are innermost first; here on the root-first lists of [zones_of] (= the reversed paths). *)
  Fixpoint pop_common (a b : list Z) : list Z * list Z :=
    match a, b with
    | x :: a', y :: b' =>
        match a', b' with
        | _ :: _, _ :: _ => if x =? y then pop_common a' b' else (a, b)
        | _, _ => (a, b)
        end
    | _, _ => (a, b)
    end.

  (** the lambda [lookup]: indices in range and the key {path_src[i]->netpoint_, path_dst[j]->netpoint_} present *)
  Definition bp_lookup (this : Z) (ps pd : list Z) (ij : nat * nat) : option (Z * Z * lroute) :=
    if (fst ij <? length ps)%nat && (snd ij <? length pd)%nat then
      let k1 := znp (nth (fst ij) ps (-1)) in
      let k2 := znp (nth (snd ij) pd (-1)) in
      let b := bp this k1 k2 in
      if lr_ok b then Some (k1, k2, b) else None
    else None.

  (** "(3) Search for a bypass making the path up to the ancestor useless" *)
  Definition bp_search (this : Z) (ps pd : list Z) : option (Z * Z * lroute) :=
    first_hit (bp_lookup this ps pd) (search_order (Nat.max (length ps) (length pd))).

  (** get_bypass_route up to step (3): the key found and its route.  [this] is the zone whose table is searched. *)
  Definition find_bypass (this src dst : Z) : option (Z * Z * lroute) :=
    if (enz dst =? this) && (enz src =? this) then
      let b := bp this src dst in if lr_ok b then Some (src, dst, b) else None
    else
      let '(a, b) := pop_common (zones_of src) (zones_of dst) in
      bp_search this (rev a) (rev b).

  (** find_common_ancestors: the zone get_bypass_route is called on *)
  Definition common_of (src dst : Z) : option Z :=
    if enz src =? enz dst then Some (enz src)
    else match zones_of src, zones_of dst with
         | rs :: ps, rd :: pd =>
             if negb (rs =? rd) then None else let '(c, _, _) := drop_common ps pd rs in Some c
         | _, _ => None
         end.

  (** get_global_route_with_netzones after the bypass test, appending to the links found so far.
      [pin] = true is the code as pinned: in the same-zone case the links found so far are handed to the zone's
      get_local_route, and a zone that builds its route from the destination backwards puts it in front of them. *)
  Definition direct_acc (pin : bool) (src dst : Z) (acc : seg) : option seg :=
    if enz src =? enz dst then
      let r := local (enz src) src dst in
      if lr_ok r then
        Some (if pin && prepends (enz src) then (lr_links r ++ fst acc, snd acc + lr_lat r)
              else (fst acc ++ lr_links r, snd acc + lr_lat r))
      else None
    else match global_route parent znp zgw enz is_zone local depth false src dst with
         | Some s => Some (seg_app acc s)
         | None => None
         end.

  (** get_global_route_with_netzones: [acc] = the caller's links/latency, which every step appends to.
      The recursion through get_bypass_route is bounded by [fuel] (None when it runs out). *)
  Fixpoint groute (pin : bool) (fuel : nat) (src dst : Z) (acc : seg) : option seg :=
    match fuel with
    | O => None
    | S f =>
        match common_of src dst with
        | None => None
        | Some c =>
            match find_bypass c src dst with
            | Some (k1, k2, b) =>
                match (if src =? k1 then Some acc
                       else if lr_gws b =? -1 then None else groute pin f src (lr_gws b) acc) with
                | None => None
                | Some a1 =>
                    let a2 := (fst a1 ++ lr_links b, snd a1 + lr_lat b) in
                    if dst =? k2 then Some a2
                    else if lr_gwd b =? -1 then None else groute pin f (lr_gwd b) dst a2
                end
            | None => direct_acc pin src dst acc
            end
        end
    end.
End Bypass.

(* ------------------------------------------------------------------------------------------ driver *)

(** input: pin nz (parent znp zgw prepends)*nz  nn (enz is_zone)*nn  nl lentries..  nb bypass entries (same layout)..
           np (src dst)*np
    output: per pair  1 lat k links..  |  0 *)
Definition run_global_bp (inp : list Z) : list Z :=
  match inp with
  | pin :: nz :: rest =>
      let '(zt, rest) := take_n (4 * Z.to_nat nz) rest in
      match rest with
      | nn :: rest =>
          let '(nt, rest) := take_n (2 * Z.to_nat nn) rest in
          match rest with
          | nl :: rest =>
              let '(lt, rest) := take_lentries (Z.to_nat nl) rest in
              match rest with
              | nb :: rest =>
                  let '(bt, rest) := take_lentries (Z.to_nat nb) rest in
                  match rest with
                  | npairs :: rest =>
                      let '(pairs, _) := take_pairs (Z.to_nat npairs) rest in
                      let zget i k := nth (4 * Z.to_nat i + k) zt (-1) in
                      let nget i k := nth (2 * Z.to_nat i + k) nt (-1) in
                      let parent z := if (z <? 0) then -1 else zget z 0%nat in
                      let znp z := if (z <? 0) then -3 else zget z 1%nat in
                      let zgw z := zget z 2%nat in
                      let prepends z := if (z <? 0) then false else zget z 3%nat =? 1 in
                      let enz p := if (p <? 0) then -2 else nget p 0%nat in
                      let is_zone p := nget p 1%nat =? 1 in
                      encode_routes (fun s d => groute parent znp zgw enz is_zone (lookup lt) (S (Z.to_nat nz))
                                                       (lookup bt) prepends (negb (pin =? 0))
                                                       (2 * Z.to_nat nz + 4) s d ([], 0))
                                    pairs
                  | _ => []
                  end
              | _ => []
              end
          | _ => []
          end
      | _ => []
      end
  | _ => []
  end.
