(** C26 — model of TorusZone::get_local_route / create_torus_links (src/kernel/routing/TorusZone.cpp) and of
    StarZone::get_local_route (src/kernel/routing/StarZone.cpp).  Model only: no proofs here.

    Ranks are [Z]; [dims] is [dimensions_].  The C++ keeps ranks in [unsigned long] (and one product in
    [unsigned int]); the model is over unbounded [Z] — assumption: the number of nodes is < 2^31 (it is an [int]
    in ClusterBase). *)
From SGV Require Import Base.Tactics.
Local Open Scope Z_scope.

(** identity of the links a torus route can contain.
    [TL owner j up]: the pair stored at private_links_[node_pos_with_loopback_limiter(owner) + j] by
    create_torus_links (the link joining [owner] to its +1 neighbour in dimension [j]); [up]=true selects .first
    (get_uplink_from), false .second (get_downlink_to). *)
Inductive tlink := TL (owner : Z) (j : nat) (up : bool) | TLoop (n : Z) | TLim (n : Z).

Record thop := mkhop { h_dim : nat; h_up : bool; h_from : Z; h_to : Z }.

Definition coord (dp d id : Z) : Z := (id / dp) mod d.

(** the test of get_local_route: "Is the target node on the right, without the wrap-around? ... Or do we need to use
    the wrap around to reach it?"  m = myCoords[j] (coordinate of the SOURCE), t = targetCoords[j] *)
Definition right_way (m t d : Z) : bool :=
  ((t >? m) && (t <=? m + d / 2)) || ((m >? d / 2) && ((m + d / 2) mod d >=? t)).

(** the inner [for j] loop: first dimension in which current_node and dst differ; returns (j, dim_product, cur_dim) *)
Fixpoint find_dim (dims : list Z) (j : nat) (dp cur dst : Z) : option (nat * Z * Z) :=
  match dims with
  | [] => None
  | d :: r => if negb (coord dp d cur =? coord dp d dst) then Some (j, dp, d)
              else find_dim r (S j) (dp * d) cur dst
  end.

(** one iteration of the [while (current_node != dst->id())] loop *)
Definition step (dims : list Z) (src cur dst : Z) : option thop :=
  match find_dim dims 0 1 cur dst with
  | None => None
  | Some (j, dp, d) =>
      if right_way (coord dp d src) (coord dp d dst) d then
        let next := if coord dp d cur =? d - 1 then cur + dp - dp * d else cur + dp in
        Some (mkhop j true cur next)
      else
        let next := if coord dp d cur =? 0 then cur - dp + dp * d else cur - dp in
        Some (mkhop j false cur next)
  end.

Fixpoint hops (fuel : nat) (dims : list Z) (src cur dst : Z) : list thop :=
  match fuel with
  | O => []
  | S f => if cur =? dst then []
           else match step dims src cur dst with
                | None => []
                | Some h => h :: hops f dims src (h_to h) dst
                end
  end.

Definition sumz (l : list Z) : Z := fold_right Z.add 0 l.
Definition prodz (l : list Z) : Z := fold_right Z.mul 1 l.

(** enough fuel: at most d/2 <= d hops per dimension *)
Definition torus_hops (dims : list Z) (src dst : Z) : list thop :=
  hops (Z.to_nat (sumz dims)) dims src src dst.

(** the link a hop uses: going right, the pair of the CURRENT node (.first); going left, the pair of the NEXT node
    (.second) *)
Definition hop_link (h : thop) : tlink :=
  if h_up h then TL (h_from h) (h_dim h) true else TL (h_to h) (h_dim h) false.

Definition torus_route (dims : list Z) (lb lim : bool) (src dst : Z) : list tlink :=
  if (src =? dst) && lb then [TLoop src]
  else flat_map (fun h => (if lim then [TLim (h_from h)] else []) ++ [hop_link h]) (torus_hops dims src dst)
       ++ (if lim then [TLim dst] else []).

(** create_torus_links: the other end of the link created by [rank] in the dimension of stride [dp], size [d] *)
Definition neighbor (dp d rank : Z) : Z :=
  if coord dp d rank =? d - 1 then rank - (d - 1) * dp else rank + dp.

Fixpoint stride (dims : list Z) (j : nat) : Z * Z :=     (* (dim_product, size) of dimension j *)
  match dims, j with
  | [], _ => (1, 1)
  | d :: _, O => (1, d)
  | d :: r, S j' => let '(dp, dj) := stride r j' in (d * dp, dj)
  end.

(** all coordinates of a rank, as the [myCoords]/[targetCoords] loop computes them *)
Fixpoint coords (dims : list Z) (dp x : Z) : list Z :=
  match dims with
  | [] => []
  | d :: r => coord dp d x :: coords r (dp * d) x
  end.

(* ------------------------------------------------------------------------------------------------ star *)

(** StarZone::add_links_to_route with the shared [added_links] set *)
Fixpoint add_links (links : list Z) (seen : list Z) (acc : list Z) : list Z * list Z :=
  match links with
  | [] => (seen, acc)
  | l :: r => if existsb (Z.eqb l) seen then add_links r seen acc
              else add_links r (l :: seen) (acc ++ [l])
  end.

(** StarZone::get_local_route; [up]/[down] are routes_[src].links_up / routes_[dst].links_down, [loop] is
    routes_[src].loopback *)
Definition star_route (same : bool) (loop up down : list Z) : list Z :=
  match same, loop with
  | true, _ :: _ => snd (add_links loop [] [])
  | _, _ => let '(seen, acc) := add_links up [] [] in snd (add_links down seen acc)
  end.

(* ------------------------------------------------------------------------------------------------ drivers *)

Definition enc_link (dims : list Z) (l : tlink) : list Z :=
  match l with
  | TL o j up => let '(dp, d) := stride dims j in [if up then 0 else 1; o; neighbor dp d o]
  | TLoop n => [2; n; n]
  | TLim n => [3; n; n]
  end.

(** input: lb lim src dst ndims d1..dn ;  output: triples (kind, a, b):
    0 = "link_from_a_to_b" up, 1 = same link down, 2 = loopback of a, 3 = limiter of a *)
Definition run_torus (inp : list Z) : list Z :=
  match inp with
  | lb :: lim :: src :: dst :: n :: rest =>
      let dims := fst (take_n (Z.to_nat n) rest) in
      flat_map (enc_link dims) (torus_route dims (negb (lb =? 0)) (negb (lim =? 0)) src dst)
  | _ => []
  end.

(** input: same nloop loop.. nup up.. ndown down.. ; output: link ids *)
Definition run_star (inp : list Z) : list Z :=
  match inp with
  | same :: nl :: rest =>
      let '(loop, rest) := take_n (Z.to_nat nl) rest in
      match rest with
      | nu :: rest =>
          let '(up, rest) := take_n (Z.to_nat nu) rest in
          match rest with
          | nd :: rest => star_route (negb (same =? 0)) loop up (fst (take_n (Z.to_nat nd) rest))
          | _ => []
          end
      | _ => []
      end
  | _ => []
  end.
