(** C24 — model of hierarchical route composition: NetZoneImpl::get_global_route_with_netzones,
    find_common_ancestors and get_interzone_route (src/kernel/routing/NetZoneImpl.cpp), over ABSTRACT local routes:
    [local z a b] stands for zone z's own get_local_route(a, b) (links, latency, gw_src, gw_dst).
    Bypass routes and the Vivaldi coordinate term are not modelled.  Model only: no proofs here.

    Zones and netpoints are numbered; -1 = none (nullptr). *)
From SGV Require Import Base.Tactics.
Local Open Scope Z_scope.

Record lroute := mklr { lr_ok : bool; lr_links : list Z; lr_lat : Z; lr_gws : Z; lr_gwd : Z }.

Section Global.
  Variable parent : Z -> Z.                 (* zone -> parent zone (-1 for the root) *)
  Variable znp : Z -> Z.                    (* zone -> the netpoint that represents it in its parent *)
  Variable zgw : Z -> Z.                    (* zone -> default gateway (-1 when get_gateway() would throw) *)
  Variable enz : Z -> Z.                    (* netpoint -> englobing zone *)
  Variable is_zone : Z -> bool.             (* netpoint is a netzone *)
  Variable local : Z -> Z -> Z -> lroute.   (* zone, src, dst -> that zone's local route *)
  Variable depth : nat.                     (* bound on the depth of the zone tree *)

  (** NetPoint::get_all_englobing_zones: root first *)
  Fixpoint up_path (fuel : nat) (z : Z) (acc : list Z) : list Z :=
    match fuel with
    | O => acc
    | S f => if z =? -1 then acc else up_path f (parent z) (z :: acc)
    end.
  Definition zones_of (np : Z) : list Z := up_path depth (enz np) [].

  (** the loop "(1) find the common ancestor": drop the common prefix, remembering its last element *)
  Fixpoint drop_common (a b : list Z) (last : Z) : Z * list Z * list Z :=
    match a, b with
    | x :: a', y :: b' => if x =? y then drop_common a' b' x else (last, a, b)
    | _, _ => (last, a, b)
    end.

  (** the three segments of a route, each with its latency *)
  Definition seg := (list Z * Z)%type.
  Definition seg_app (a b : seg) : seg := (fst a ++ fst b, snd a + snd b).

  (** get_interzone_route, gateway_to_netpoint = false (from the netpoint UP to the gateway).
      [rev_seg] = true is the code as pinned (rbegin()/rend()); false the repaired code. *)
  Fixpoint iz_up (rev_seg : bool) (path : list Z) (np gw : Z) (acc : seg) : option seg :=
    if gw =? -1 then None
    else if enz np =? enz gw then
      if np =? gw then Some acc
      else let r := local (enz gw) np gw in
           if lr_ok r then Some (lr_links r ++ fst acc, lr_lat r + snd acc) else None
    else match path with
         | [] => None                                          (* xbt_assert(it != zones_path->end()) *)
         | z :: rest =>
             let cur := znp z in
             let r := local (enz gw) cur gw in
             if lr_ok r then
               let gw' := if (lr_gws r =? -1) && is_zone cur then zgw z else lr_gws r in
               iz_up rev_seg rest np gw'
                     ((if rev_seg then rev (lr_links r) else lr_links r) ++ fst acc, lr_lat r + snd acc)
             else None
         end.

  (** gateway_to_netpoint = true (from the gateway DOWN to the netpoint) *)
  Fixpoint iz_down (path : list Z) (np gw : Z) (acc : seg) : option seg :=
    if gw =? -1 then None
    else if enz np =? enz gw then
      if np =? gw then Some acc
      else let r := local (enz gw) gw np in
           if lr_ok r then Some (fst acc ++ lr_links r, snd acc + lr_lat r) else None
    else match path with
         | [] => None
         | z :: rest =>
             let cur := znp z in
             let r := local (enz gw) gw cur in
             if lr_ok r then
               let gw' := if (lr_gwd r =? -1) && is_zone cur then zgw z else lr_gwd r in
               iz_down rest np gw' (fst acc ++ lr_links r, snd acc + lr_lat r)
             else None
         end.

  (** get_global_route_with_netzones without bypass routes *)
  Definition global_route (rev_seg : bool) (src dst : Z) : option seg :=
    if enz src =? enz dst then
      let r := local (enz src) src dst in if lr_ok r then Some (lr_links r, lr_lat r) else None
    else
      match zones_of src, zones_of dst with
      | rs :: ps, rd :: pd =>
          if negb (rs =? rd) then None                       (* no common root *)
          else
            let '(common, sp, dp) := drop_common ps pd rs in
            let a := match sp with [] => src | z :: _ => znp z end in
            let b := match dp with [] => dst | z :: _ => znp z end in
            let r := local common a b in
            if negb (lr_ok r) then None
            else
              let up := match sp with
                        | [] => Some ([], 0)
                        | _ :: sp' => iz_up rev_seg sp' src (lr_gws r) ([], 0)
                        end in
              let down := match dp with
                          | [] => Some ([], 0)
                          | _ :: dp' => iz_down dp' dst (lr_gwd r) ([], 0)
                          end in
              match up, down with
              | Some u, Some d => Some (seg_app (seg_app u (lr_links r, lr_lat r)) d)
              | _, _ => None
              end
      | _, _ => None
      end.

  (* ---------------------------------------------------------------------------------------- specification *)

  (** the route from [np] up to gateway [gw] of an ancestor: first (recursively) up to the gateway of the next zone
      on the way, then that zone's hop to [gw] — segments in travel order, each in its own order *)
  Fixpoint up_spec (path : list Z) (np gw : Z) : option seg :=
    if gw =? -1 then None
    else if enz np =? enz gw then
      if np =? gw then Some ([], 0)
      else let r := local (enz gw) np gw in if lr_ok r then Some (lr_links r, lr_lat r) else None
    else match path with
         | [] => None
         | z :: rest =>
             let r := local (enz gw) (znp z) gw in
             if lr_ok r then
               let gw' := if (lr_gws r =? -1) && is_zone (znp z) then zgw z else lr_gws r in
               match up_spec rest np gw' with
               | Some s => Some (seg_app s (lr_links r, lr_lat r))
               | None => None
               end
             else None
         end.

  Fixpoint down_spec (path : list Z) (np gw : Z) : option seg :=
    if gw =? -1 then None
    else if enz np =? enz gw then
      if np =? gw then Some ([], 0)
      else let r := local (enz gw) gw np in if lr_ok r then Some (lr_links r, lr_lat r) else None
    else match path with
         | [] => None
         | z :: rest =>
             let r := local (enz gw) gw (znp z) in
             if lr_ok r then
               let gw' := if (lr_gwd r =? -1) && is_zone (znp z) then zgw z else lr_gwd r in
               match down_spec rest np gw' with
               | Some s => Some (seg_app (lr_links r, lr_lat r) s)
               | None => None
               end
             else None
         end.
End Global.

(** latency of a list of links, given each link's latency *)
Definition lat_sum (lat : Z -> Z) (l : list Z) : Z := fold_right (fun x a => lat x + a) 0 l.

(** a route declared symmetrical: the table entries add_route creates (Full/Floyd/Dijkstra: new_extended_route with
    preserve_order = false for the way back; [back] maps a link to the one used in the opposite direction: identity
    for shared links, UP <-> DOWN for split-duplex ones) *)
Definition declare_sym (back : Z -> Z) (u v : Z) (links : list Z) : list (Z * Z * list Z) :=
  [(u, v, links); (v, u, rev (map back links))].

(* ------------------------------------------------------------------------------------------ driver *)

(** tables -> functions *)
Fixpoint assoc (k : Z) (l : list (Z * Z)) (dflt : Z) : Z :=
  match l with [] => dflt | (a, b) :: r => if a =? k then b else assoc k r dflt end.

Record lentry := mkle { le_z : Z; le_s : Z; le_d : Z; le_r : lroute }.
Fixpoint lookup (t : list lentry) (z s d : Z) : lroute :=
  match t with
  | [] => mklr false [] 0 (-1) (-1)
  | e :: r => if (le_z e =? z) && (le_s e =? s) && (le_d e =? d) then le_r e else lookup r z s d
  end.

Fixpoint take_lentries (n : nat) (l : list Z) : list lentry * list Z :=
  match n with
  | O => ([], l)
  | S n' => match l with
            | z :: s :: d :: lat :: gs :: gd :: k :: r =>
                let '(ls, r') := take_n (Z.to_nat k) r in
                let '(es, r'') := take_lentries n' r' in
                (mkle z s d (mklr true ls lat gs gd) :: es, r'')
            | _ => ([], l)
            end
  end.

Fixpoint encode_routes (f : Z -> Z -> option (list Z * Z)) (pairs : list (Z * Z)) : list Z :=
  match pairs with
  | [] => []
  | (s, d) :: r => match f s d with
                   | Some (ls, lat) => 1 :: lat :: Z.of_nat (length ls) :: ls ++ encode_routes f r
                   | None => 0 :: encode_routes f r
                   end
  end.

(** input: rev_seg nz (parent znp zgw)*nz  nn (enz is_zone)*nn  nl lentries..  np (src dst)*np
    output: per pair  1 lat k links..  |  0 *)
Definition run_global (inp : list Z) : list Z :=
  match inp with
  | rv :: nz :: rest =>
      let '(zt, rest) := take_n (3 * Z.to_nat nz) rest in
      match rest with
      | nn :: rest =>
          let '(nt, rest) := take_n (2 * Z.to_nat nn) rest in
          match rest with
          | nl :: rest =>
              let '(lt, rest) := take_lentries (Z.to_nat nl) rest in
              match rest with
              | npairs :: rest =>
                  let '(pairs, _) := take_pairs (Z.to_nat npairs) rest in
                  let zget i k := nth (3 * Z.to_nat i + k) zt (-1) in
                  let nget i k := nth (2 * Z.to_nat i + k) nt (-1) in
                  let parent z := if (z <? 0) then -1 else zget z 0%nat in
                  let znp z := zget z 1%nat in
                  let zgw z := zget z 2%nat in
                  let enz p := if (p <? 0) then -2 else nget p 0%nat in
                  let is_zone p := nget p 1%nat =? 1 in
                  encode_routes (global_route parent znp zgw enz is_zone (lookup lt) (S (Z.to_nat nz)) (negb (rv =? 0)))
                                pairs
              | _ => []
              end
          | _ => []
          end
      | _ => []
      end
  | _ => []
  end.
