(** C25 — shortest-path zones.  Executable definitions only (no proofs):
    - declared routes as a graph, chains of declared routes, the certificate checker for all-pairs link counts,
    - a line-by-line model of FloydZone::add_route/do_seal/get_local_route (cost/predecessor tables, in place),
    - a line-by-line model of the Dijkstra loop of DijkstraZone::get_local_route with [unsigned long] costs
      (ULONG_MAX initialisation, wrap of [cost_v_u + cost_arr[v]] written as mod 2^64). *)
From SGV Require Import Base.Tactics.
Local Open Scope Z_scope.

(** one declared one-hop route u -> v with its link list (ids) *)
Record redge := mkedge { eu : Z; ev : Z; el : list Z }.

Definition elen (e : redge) : Z := Z.of_nat (length (el e)).
Definition links_of (p : list redge) : list Z := concat (map el p).
Definition cost_of (p : list redge) : Z := fold_right (fun e a => elen e + a) 0 p.

Fixpoint is_path (g : list redge) (s : Z) (p : list redge) (t : Z) : Prop :=
  match p with
  | [] => s = t
  | e :: r => In e g /\ eu e = s /\ is_path g (ev e) r t
  end.

(** L is a route from s to t made of declared routes (at least one) *)
Definition is_route (g : list redge) (s t : Z) (L : list Z) : Prop :=
  exists p, p <> [] /\ is_path g s p t /\ links_of p = L.
Definition minimal_route (g : list redge) (s t : Z) (L : list Z) : Prop :=
  is_route g s t L /\ forall L', is_route g s t L' -> (length L <= length L')%nat.

(* ------------------------------------------------------------------------------------------ chain checker *)

Fixpoint list_eqb (a b : list Z) : bool :=
  match a, b with
  | [], [] => true
  | x :: a', y :: b' => (x =? y) && list_eqb a' b'
  | _, _ => false
  end.

Definition redge_eqb (a b : redge) : bool := (eu a =? eu b) && (ev a =? ev b) && list_eqb (el a) (el b).

Fixpoint is_prefix (a l : list Z) : bool :=
  match a, l with
  | [], _ => true
  | x :: a', y :: l' => (x =? y) && is_prefix a' l'
  | _ :: _, [] => false
  end.

(** does L parse as a non-empty chain of declared routes from [cur] to [t]?  (backtracking; every declared route
    has at least one link, so the fuel [length L] suffices) *)
Fixpoint chain_from (fuel : nat) (g : list redge) (cur t : Z) (L : list Z) : bool :=
  match fuel with
  | O => false
  | S f =>
      existsb (fun e =>
        (eu e =? cur) && negb (list_eqb (el e) []) && is_prefix (el e) L &&
        let rest := skipn (length (el e)) L in
        match rest with
        | [] => ev e =? t
        | _ => chain_from f g (ev e) t rest
        end) g
  end.
Definition chain_check (g : list redge) (s t : Z) (L : list Z) : bool := chain_from (length L) g s t L.

(* ------------------------------------------------------------------------------------------ certificate *)

(** all-pairs table: [nth t (nth s rows)] = number of links of the route s -> t, or -1 for "no route".
    Only s <> t entries are read. *)
Definition dget (rows : list (list Z)) (s t : Z) : Z := nth (Z.to_nat t) (nth (Z.to_nat s) rows []) (-1).
Definition dist0 (rows : list (list Z)) (s u : Z) : Z := if u =? s then 0 else dget rows s u.

Definition range (n : nat) : list Z := map Z.of_nat (seq 0 n).

Definition cert_ok (g : list redge) (n : nat) (rows : list (list Z)) : bool :=
  let ns := range n in
  (* declared routes join known nodes and are not empty *)
  forallb (fun e => (0 <=? eu e) && (eu e <? Z.of_nat n) && (0 <=? ev e) && (ev e <? Z.of_nat n) && (1 <=? elen e)) g &&
  (* entries are -1 or >= 1 *)
  forallb (fun s => forallb (fun t => (s =? t) || (dget rows s t =? -1) || (1 <=? dget rows s t)) ns) ns &&
  (* (A) no declared route improves an entry: d s v <= d s u + c whenever s reaches u *)
  forallb (fun s => forallb (fun e =>
     (ev e =? s) || (dist0 rows s (eu e) =? -1) ||
     (negb (dget rows s (ev e) =? -1) && (dget rows s (ev e) <=? dist0 rows s (eu e) + elen e))) g) ns &&
  (* (B) every finite entry is realised through some declared last hop *)
  forallb (fun s => forallb (fun t =>
     (s =? t) || (dget rows s t =? -1) ||
     existsb (fun e => (ev e =? t) && negb (dist0 rows s (eu e) =? -1) &&
                       (dget rows s t =? dist0 rows s (eu e) + elen e)) g) ns) ns.

(** Full zone: exactly the declared route *)
Definition full_route (g : list redge) (s t : Z) : option (list Z) :=
  match find (fun e => (eu e =? s) && (ev e =? t)) g with
  | Some e => Some (el e)
  | None => None
  end.

(* ------------------------------------------------------------------------------------------ Floyd model *)

Definition ULMAX : Z := 2 ^ 64 - 1.

(** tables as functions over (row, column); -1 is the "no predecessor" of predecessor_table_ *)
Definition tab := Z -> Z -> Z.
Definition tset (f : tab) (a b v : Z) : tab := fun x y => if (x =? a) && (y =? b) then v else f x y.

(** FloydZone::add_route for every declared route, in order: cost = number of links, predecessor = source *)
Fixpoint floyd_init (g : list redge) (cp : tab * tab) : tab * tab :=
  match g with
  | [] => cp
  | e :: r => floyd_init r (tset (fst cp) (eu e) (ev e) (elen e), tset (snd cp) (eu e) (ev e) (eu e))
  end.

(** do_seal: loopback on the diagonal when no route i -> i was declared *)
Fixpoint floyd_loop (ids : list Z) (link_declared : Z -> Z -> bool) (cp : tab * tab) : tab * tab :=
  match ids with
  | [] => cp
  | i :: r => floyd_loop r link_declared
                (if link_declared i i then cp else (tset (fst cp) i i 1, tset (snd cp) i i i))
  end.

(** the body of the triple loop, in place; additions of unsigned long written mod 2^64 *)
Definition floyd_relax (c a b : Z) (cp : tab * tab) : tab * tab :=
  let '(cost, pred) := cp in
  if (cost a c <? ULMAX) && (cost c b <? ULMAX) &&
     ((cost a b =? ULMAX) || ((cost a c + cost c b) mod 2 ^ 64 <? cost a b))
  then (tset cost a b ((cost a c + cost c b) mod 2 ^ 64), tset pred a b (pred c b))
  else cp.

Definition floyd_seal (n : nat) (cp : tab * tab) : tab * tab :=
  let ids := range n in
  fold_left (fun cp c => fold_left (fun cp a => fold_left (fun cp b => floyd_relax c a b cp) ids cp) ids cp) ids cp.

Definition floyd_tables (g : list redge) (n : nat) : tab * tab :=
  let declared a b := existsb (fun e => (eu e =? a) && (ev e =? b)) g in
  floyd_seal n (floyd_loop (range n) declared (floyd_init g (fun _ _ => ULMAX, fun _ _ => -1))).

(** get_local_route: follow predecessors from dst back to src (do ... while), collecting the one-hop routes;
    returns the list of (pred, cur) hops from src to dst, or None ("No route") *)
Fixpoint floyd_walk (fuel : nat) (pred : tab) (src cur : Z) (acc : list (Z * Z)) : option (list (Z * Z)) :=
  match fuel with
  | O => None
  | S f => let p := pred src cur in
           if p =? -1 then None
           else if p =? src then Some ((p, cur) :: acc)
           else floyd_walk f pred src p ((p, cur) :: acc)
  end.

Definition floyd_len_from (pred : tab) (g : list redge) (n : nat) (s t : Z) : Z :=
  match floyd_walk (S n) pred s t [] with
  | None => -1
  | Some hops => fold_right (fun h a =>
                   match find (fun e => (eu e =? fst h) && (ev e =? snd h)) g with
                   | Some e => elen e + a
                   | None => a
                   end) 0 hops
  end.
Definition floyd_route_len (g : list redge) (n : nat) (s t : Z) : Z :=
  floyd_len_from (snd (floyd_tables g n)) g n s t.

(* ------------------------------------------------------------------------------------------ Dijkstra model *)

(** priority queue of std::pair<double, unsigned long> with std::greater: pops the lexicographically smallest pair.
    Costs are small integers or ULONG_MAX, whose order is preserved by the conversion to double. *)
Definition pq_lt (a b : Z * Z) : bool := (fst a <? fst b) || ((fst a =? fst b) && (snd a <? snd b)).
Fixpoint pq_min (m : Z * Z) (l : list (Z * Z)) : Z * Z :=
  match l with [] => m | x :: r => pq_min (if pq_lt x m then x else m) r end.
Fixpoint pq_remove (m : Z * Z) (l : list (Z * Z)) : list (Z * Z) :=
  match l with
  | [] => []
  | x :: r => if (fst x =? fst m) && (snd x =? snd m) then r else x :: pq_remove m r
  end.

Definition vget (l : list Z) (i : Z) : Z := nth (Z.to_nat i) l 0.
Fixpoint vset (l : list Z) (i : nat) (v : Z) : list Z :=
  match l, i with
  | [], _ => []
  | _ :: r, O => v :: r
  | x :: r, S i' => x :: vset r i' v
  end.

(** the relaxation of the out-edges of v, in declaration order.  [guard] = true models the repaired code
    (an unreached node relaxes nothing); false = the pinned code, where cost_v_u + ULONG_MAX wraps *)
Fixpoint dij_relax (guard : bool) (out : list redge) (v : Z) (st : list Z * list Z * list (Z * Z)) :=
  match out with
  | [] => st
  | e :: r =>
      let '(cost, pred, pq) := st in
      let u := ev e in
      let nc := (elen e + vget cost v) mod 2 ^ 64 in
      if (negb guard || negb (vget cost v =? ULMAX)) && (nc <? vget cost u)
      then dij_relax guard r v (vset cost (Z.to_nat u) nc, vset pred (Z.to_nat u) v, (nc, u) :: pq)
      else dij_relax guard r v st
  end.

Fixpoint dij_loop (fuel : nat) (guard : bool) (g : list redge) (st : list Z * list Z * list (Z * Z)) :=
  match fuel with
  | O => st
  | S f =>
      let '(cost, pred, pq) := st in
      match pq with
      | [] => st
      | x :: r =>
          let m := pq_min x r in
          let v := snd m in
          dij_loop f guard g (dij_relax guard (filter (fun e => eu e =? v) g) v (cost, pred, pq_remove m pq))
      end
  end.

(** cost_arr / pred_arr after the loop, for source s in a graph of n nodes (graph ids = node ids) *)
Definition dijkstra (guard : bool) (g : list redge) (n : nat) (s : Z) : list Z * list Z :=
  let ids := range n in
  let cost0 := map (fun i => if i =? s then 0 else ULMAX) ids in
  let pred0 := map (fun _ => if guard then ULMAX else 0) ids in   (* repaired code: ULONG_MAX = no predecessor *)
  let pq0 := rev (map (fun i => (if i =? s then 0 else ULMAX, i)) ids) in
  let '(cost, pred, _) := dij_loop (n + n * n * (length g + 1)) guard g (cost0, pred0, pq0) in
  (cost, pred).

(** "compose route path with links": walk the predecessors from t back to s; -1 when an edge is missing *)
Fixpoint dij_walk (fuel : nat) (g : list redge) (pred : list Z) (s v : Z) (acc : Z) : Z :=
  match fuel with
  | O => -1
  | S f => if v =? s then acc
           else if vget pred v =? ULMAX then -1            (* repaired code: "No route" *)
           else match find (fun e => (eu e =? vget pred v) && (ev e =? v)) g with
                | None => -1
                | Some e => dij_walk f g pred s (vget pred v) (acc + elen e)
                end
  end.
Definition dijkstra_route_len (guard : bool) (g : list redge) (n : nat) (s t : Z) : Z :=
  dij_walk (S n) g (snd (dijkstra guard g n s)) s t 0.

(* ------------------------------------------------------------------------------------------ drivers *)

(** graph encoding: n m (u v k l1..lk)*m *)
Fixpoint take_edges (m : nat) (l : list Z) : list redge * list Z :=
  match m with
  | O => ([], l)
  | S m' => match l with
            | u :: v :: k :: r => let '(ls, r') := take_n (Z.to_nat k) r in
                                  let '(es, r'') := take_edges m' r' in (mkedge u v ls :: es, r'')
            | _ => ([], l)
            end
  end.
Fixpoint take_rows (n w : nat) (l : list Z) : list (list Z) * list Z :=
  match n with
  | O => ([], l)
  | S n' => let '(row, r) := take_n w l in let '(rows, r') := take_rows n' w r in (row :: rows, r')
  end.
Definition b2z (b : bool) : Z := if b then 1 else 0.

(** input: n m edges.. then n*n table ; output: [1] / [0] *)
Definition run_cert (inp : list Z) : list Z :=
  match inp with
  | n :: m :: rest => let '(g, r) := take_edges (Z.to_nat m) rest in
                      let '(rows, _) := take_rows (Z.to_nat n) (Z.to_nat n) r in
                      [b2z (cert_ok g (Z.to_nat n) rows)]
  | _ => []
  end.
(** input: n m edges.. s t k l1..lk ; output: [1]/[0] *)
Definition run_chain (inp : list Z) : list Z :=
  match inp with
  | n :: m :: rest => let '(g, r) := take_edges (Z.to_nat m) rest in
                      match r with
                      | s :: t :: k :: ls => [b2z (chain_check g s t (fst (take_n (Z.to_nat k) ls)))]
                      | _ => []
                      end
  | _ => []
  end.
(** input: n m edges.. s t ; output: [1; links..] / [0] *)
Definition run_full (inp : list Z) : list Z :=
  match inp with
  | n :: m :: rest => let '(g, r) := take_edges (Z.to_nat m) rest in
                      match r with
                      | s :: t :: _ => match full_route g s t with Some L => 1 :: L | None => [0] end
                      | _ => []
                      end
  | _ => []
  end.
(** input: n m edges.. ; output: the n*n table of Floyd route lengths (row-major; diagonal included) *)
Definition run_floyd (inp : list Z) : list Z :=
  match inp with
  | n :: m :: rest => let '(g, _) := take_edges (Z.to_nat m) rest in
                      let ids := range (Z.to_nat n) in
                      let pred := snd (floyd_tables g (Z.to_nat n)) in
                      flat_map (fun s => map (fun t => floyd_len_from pred g (Z.to_nat n) s t) ids) ids
  | _ => []
  end.
(** input: guard n m edges.. ; output: n*n table of Dijkstra route lengths *)
Definition run_dijkstra (inp : list Z) : list Z :=
  match inp with
  | gd :: n :: m :: rest => let '(g, _) := take_edges (Z.to_nat m) rest in
                            let ids := range (Z.to_nat n) in
                            flat_map (fun s => let pred := snd (dijkstra (negb (gd =? 0)) g (Z.to_nat n) s) in
                                               map (fun t => dij_walk (S (Z.to_nat n)) g pred s t 0) ids) ids
  | _ => []
  end.
