(** C26 — model of DragonflyZone (src/kernel/routing/DragonflyZone.cpp): rankId_to_coords, the cells of the router
    tables filled by generate_links (my_nodes_, green_links_, black_links_, blue_link_) and the minimal routing of
    get_local_route.  Model only: no proofs here.

    Parameters: [df_g] groups, [df_c] chassis per group, [df_b] blades (routers) per chassis, [df_n] nodes per blade.
    A router is the triple (group, chassis, blade) that generate_routers stored in routers_[group*(C*B) + chassis*B +
    blade] ([router_flat]).  get_local_route designates routers by such index expressions whose third component is
    sometimes a GROUP number (the router "number n of the group" holds the blue link to group n, and the code looks for
    it at chassis 0, blade n): the expression denotes the triple written here only when that number is < B, i.e. on the
    domain [df_g <= df_b] (outside it the C++ indexes green_links_ out of bounds: recorded finding).
    Machine integers: unbounded [Z]; assumption: the number of nodes is < 2^31. *)
From SGV Require Import Base.Tactics.
Local Open Scope Z_scope.

Record dfp := mkdfp { df_g : Z; df_c : Z; df_b : Z; df_n : Z }.
Record dcoord := mkdc { dc_group : Z; dc_chassis : Z; dc_blade : Z; dc_node : Z }.
Record drouter := mkdr { dr_group : Z; dr_chassis : Z; dr_blade : Z }.

(** rankId_to_coords *)
Definition rank_to_coords (p : dfp) (r : Z) : dcoord :=
  let g := r / (df_c p * df_b p * df_n p) in
  let r1 := r mod (df_c p * df_b p * df_n p) in
  let c := r1 / (df_b p * df_n p) in
  let r2 := r1 mod (df_b p * df_n p) in
  mkdc g c (r2 / df_n p) (r2 mod df_n p).

(** the rank of the node created for these coordinates (ClusterBase numbers the leaves in row-major order) *)
Definition coords_to_rank (p : dfp) (c : dcoord) : Z :=
  ((dc_group c * df_c p + dc_chassis c) * df_b p + dc_blade c) * df_n p + dc_node c.

Definition router_flat (p : dfp) (r : drouter) : Z :=
  dr_group r * (df_c p * df_b p) + dr_chassis r * df_b p + dr_blade r.
Definition router_unflat (p : dfp) (x : Z) : drouter :=
  mkdr (x / (df_c p * df_b p)) ((x mod (df_c p * df_b p)) / df_b p) (x mod df_b p).

(** identity of the links.  [up] = true: the half stored by generate_links in the table of the FIRST end (linkup),
    false: the half stored in the table of the second end (linkdown; the same link unless split-duplex) *)
Inductive dlink :=
| DLocal (r : drouter) (nd : Z) (up : bool)        (* my_nodes_[nd * num_links_per_link_ (+ 1)] of router r *)
| DGreen (g c j k : Z) (up : bool)                 (* chassis c of group g, blades j < k *)
| DBlack (g j k l : Z) (up : bool)                 (* group g, chassis j < k, blade l *)
| DBlue (i j : Z) (up : bool)                      (* groups i < j; held by router number j of group i and number i of group j *)
| DLoop (n : Z) | DLimNode (n : Z) | DLimRouter (r : drouter)
| DNull.                                           (* a cell generate_links never assigns *)

(** routers_[r].green_links_[k], black_links_[k], blue_link_ after generate_links *)
Definition green_cell (r : drouter) (k : Z) : dlink :=
  if dr_blade r <? k then DGreen (dr_group r) (dr_chassis r) (dr_blade r) k true
  else if k <? dr_blade r then DGreen (dr_group r) (dr_chassis r) k (dr_blade r) false
  else DNull.
Definition black_cell (r : drouter) (k : Z) : dlink :=
  if dr_chassis r <? k then DBlack (dr_group r) (dr_chassis r) k (dr_blade r) true
  else if k <? dr_chassis r then DBlack (dr_group r) k (dr_chassis r) (dr_blade r) false
  else DNull.
(** router number m = chassis*B + blade of group g: routernumi = i*B*C + j gets linkup, routernumj = j*B*C + i linkdown *)
Definition blue_cell (p : dfp) (r : drouter) : dlink :=
  let m := dr_chassis r * df_b p + dr_blade r in
  if dr_group r <? m then (if m <? df_g p then DBlue (dr_group r) m true else DNull)
  else if m <? dr_group r then DBlue m (dr_group r) false
  else DNull.

Definition router_of (c : dcoord) : drouter := mkdr (dc_group c) (dc_chassis c) (dc_blade c).
Definition dr_eqb (a b : drouter) : bool :=
  (dr_group a =? dr_group b) && (dr_chassis a =? dr_chassis b) && (dr_blade a =? dr_blade b).

(** the router-to-router part of get_local_route: (currentRouter, link taken from its table), in order; each stage
    returns its hops and the new currentRouter.
    [keep] = true: the code as repaired (the green hop inside the destination group keeps currentRouter's chassis);
    false: the pinned code (currentRouter := router of chassis 0). *)
(** "are we on a different group ?": to the router of our group connected to the destination group, then the blue link *)
Definition df_stage_a (p : dfp) (ms tc : dcoord) (my : drouter) : list (drouter * dlink) * drouter :=
  let a1 := if negb (dr_blade my =? dc_group tc)
            then ([(my, green_cell my (dc_group tc))], mkdr (dc_group ms) (dc_chassis ms) (dc_group tc))
            else ([], my) in
  let a2 := if negb (dr_chassis (snd a1) =? 0)
            then ([(snd a1, black_cell (snd a1) 0)], mkdr (dc_group ms) 0 (dc_group tc))
            else ([], snd a1) in
  (fst a1 ++ fst a2 ++ [(snd a2, blue_cell p (snd a2))], mkdr (dc_group tc) 0 (dc_group ms)).
(** "same group, but same blade ?" *)
Definition df_stage_b (keep : bool) (tc : dcoord) (cur : drouter) : list (drouter * dlink) * drouter :=
  if negb (dc_blade tc =? dr_blade cur)
  then ([(cur, green_cell cur (dc_blade tc))], mkdr (dc_group tc) (if keep then dr_chassis cur else 0) (dc_blade tc))
  else ([], cur).
(** "same blade, but same chassis ?" *)
Definition df_stage_c (tc : dcoord) (cur : drouter) : list (drouter * dlink) :=
  if negb (dc_chassis tc =? dr_chassis cur) then [(cur, black_cell cur (dc_chassis tc))] else [].

Definition df_hops_c (keep : bool) (p : dfp) (ms tc : dcoord) : list (drouter * dlink) :=
  let my := router_of ms in
  let target := router_of tc in
  if dr_eqb my target then []
  else
    let a := if negb (dr_group target =? dr_group my) then df_stage_a p ms tc my else ([], my) in
    let b := df_stage_b keep tc (snd a) in
    fst a ++ fst b ++ df_stage_c tc (snd b).

Definition df_hops (keep : bool) (p : dfp) (s t : Z) : list (drouter * dlink) :=
  df_hops_c keep p (rank_to_coords p s) (rank_to_coords p t).

Definition is_blue (l : dlink) : bool := match l with DBlue _ _ _ => true | _ => false end.

Definition df_hop_links (lim : bool) (h : drouter * dlink) : list dlink :=
  if is_blue (snd h) then snd h :: (if lim then [DLimRouter (fst h)] else [])
  else (if lim then [DLimRouter (fst h)] else []) ++ [snd h].

Definition df_route (keep : bool) (p : dfp) (lb lim : bool) (s t : Z) : list dlink :=
  if (s =? t) && lb then [DLoop s]
  else
    let ms := rank_to_coords p s in
    let tc := rank_to_coords p t in
    (if lim then [DLimNode s] else []) ++ [DLocal (router_of ms) (dc_node ms) true] ++
    flat_map (df_hop_links lim) (df_hops keep p s t) ++
    (if lim then [DLimRouter (router_of tc)] else []) ++ [DLocal (router_of tc) (dc_node tc) false] ++
    (if lim then [DLimNode t] else []).

(* ------------------------------------------------------------------------------------------ specification side *)

(** the two routers a link joins: (the end whose table holds the up half, the end holding the down half) *)
Definition link_ends (p : dfp) (l : dlink) : option (drouter * drouter) :=
  match l with
  | DGreen g c j k _ => Some (mkdr g c j, mkdr g c k)
  | DBlack g j k l _ => Some (mkdr g j l, mkdr g k l)
  | DBlue i j _ => Some (mkdr i (j / df_b p) (j mod df_b p), mkdr j (i / df_b p) (i mod df_b p))
  | _ => None
  end.
Definition link_up (l : dlink) : bool :=
  match l with DGreen _ _ _ _ u | DBlack _ _ _ _ u | DBlue _ _ u | DLocal _ _ u => u | _ => false end.

(** where a hop leads: the other end of its link, provided the link is held by the router the hop leaves *)
Definition hop_dest (p : dfp) (h : drouter * dlink) : option drouter :=
  match link_ends p (snd h) with
  | Some (a, b) => if link_up (snd h) then (if dr_eqb (fst h) a then Some b else None)
                   else (if dr_eqb (fst h) b then Some a else None)
  | None => None
  end.

(** the router reached by following the hops from [a] (None when a hop does not leave the router reached so far or
    uses a cell that holds no link) *)
Fixpoint df_walk_end (p : dfp) (a : drouter) (hs : list (drouter * dlink)) : option drouter :=
  match hs with
  | [] => Some a
  | h :: r => if dr_eqb (fst h) a then match hop_dest p h with Some m => df_walk_end p m r | None => None end
              else None
  end.

Definition coords_in_range (p : dfp) (c : dcoord) : Prop :=
  0 <= dc_group c < df_g p /\ 0 <= dc_chassis c < df_c p /\ 0 <= dc_blade c < df_b p /\ 0 <= dc_node c < df_n p.

Definition df_valid (p : dfp) : bool := (0 <? df_g p) && (0 <? df_c p) && (0 <? df_b p) && (0 <? df_n p).

(* ------------------------------------------------------------------------------------------ driver *)

Definition npairs_before (m j k : Z) : Z := j * (m - 1) - j * (j - 1) / 2 + (k - j - 1).   (* pairs (j',k') < (j,k), j' < k' < m *)

(** every link as (kind, a, b, c, d, uniqueId, up):
    0 local_link_from_router_a_to_node_b_<id>;  1 green_link_in_chassis_a_between_routers_b_and_c_<id>;
    2 black_link_in_group_a_between_chassis_b_and_c_blade_d_<id>;  3 blue_link_between_group_a_and_b_routers_c_and_d_<id>;
    4 loopback of node a;  5 limiter of node a;  6 limiter of router a (its callback id is 2*nodes - 1 - a);  7 null *)
Definition enc_dlink (p : dfp) (l : dlink) : list Z :=
  let G := df_g p in let C := df_c p in let B := df_b p in let n := df_n p in
  let nloc := G * C * B * n in
  let ngreen := G * C * (B * (B - 1) / 2) in
  let nblack := G * (C * (C - 1) / 2 * B) in
  let b2z (u : bool) := if u then 1 else 0 in
  match l with
  | DLocal r nd u => [0; router_flat p r; nd; 0; 0; router_flat p r * n + nd; b2z u]
  | DGreen g c j k u => [1; c; j; k; 0; nloc + (g * C + c) * (B * (B - 1) / 2) + npairs_before B j k; b2z u]
  | DBlack g j k l u => [2; g; j; k; l; nloc + ngreen + g * (C * (C - 1) / 2 * B) + npairs_before C j k * B + l; b2z u]
  | DBlue i j u => [3; i; j; i * (B * C) + j; j * (B * C) + i; nloc + ngreen + nblack + npairs_before G i j; b2z u]
  | DLoop x => [4; x; 0; 0; 0; 0; 0]
  | DLimNode x => [5; x; 0; 0; 0; 0; 0]
  | DLimRouter r => [6; router_flat p r; 0; 0; 0; 0; 0]
  | DNull => [7; 0; 0; 0; 0; 0; 0]
  end.

(** input: keep lb lim G C B n ; output: number of nodes, then for every ordered pair (s, t) in row order the number of
    route elements followed by their 7-tuples *)
Definition run_dragonfly (inp : list Z) : list Z :=
  match inp with
  | [keep; lb; lim; G; C; B; n] =>
      let p := mkdfp G C B n in
      if df_valid p then
        let tot := Z.to_nat (G * C * B * n) in
        Z.of_nat tot ::
        flat_map (fun s => flat_map (fun t =>
                    let r := df_route (negb (keep =? 0)) p (negb (lb =? 0)) (negb (lim =? 0)) (Z.of_nat s) (Z.of_nat t) in
                    Z.of_nat (length r) :: flat_map (enc_dlink p) r) (seq 0 tot)) (seq 0 tot)
      else [-1]
  | _ => [-1]
  end.
