Require Import ExtrOcamlBasic.
Require Import SGV.Routing.SPCert.
Extraction "c25_model.ml" run_cert run_chain run_full run_floyd run_dijkstra.
