Require Import ExtrOcamlBasic.
Require Import SGV.Res.Profile.
Extraction "c22_model.ml" run_c22.
