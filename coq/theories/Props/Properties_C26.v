(** C26 — Structured topologies follow their routing algorithms.
    Only statements; proofs live in SGV.Routing.TorusProofs.  Models: SGV.Routing.Torus (TorusZone::get_local_route,
    create_torus_links, StarZone::get_local_route).  Fat-tree and dragonfly: see checks/C26.py META (correspondence only). *)
From SGV Require Import Base.Tactics Routing.Torus Routing.TorusProofs.
From Coq Require Import Sorted.
Local Open Scope Z_scope.

(* for ALL dimension vectors (sizes >= 1) and all ranks: the hops the code produces are exactly "dimension after
   dimension, in dimension j walk dist(j) steps in one direction", dist/direction given by the next theorems *)
Theorem C26_torus_dimension_by_dimension : forall dims, posl dims -> forall src dst,
  0 <= src < prodz dims -> 0 <= dst < prodz dims ->
  torus_hops dims src dst = torus_spec dims src dst.
Proof. exact torus_hops_spec. Qed.
Print Assumptions C26_torus_dimension_by_dimension.

(* hops per dimension = min((t-m) mod d, (m-t) mod d); every hop of a dimension goes the same, shorter, way round *)
Theorem C26_torus_hops : forall dims, posl dims -> forall src dst,
  0 <= src < prodz dims -> 0 <= dst < prodz dims ->
  forall j, (j < length dims)%nat ->
  let m := coord (fst (stride dims j)) (snd (stride dims j)) src in
  let t := coord (fst (stride dims j)) (snd (stride dims j)) dst in
  let d := snd (stride dims j) in
  let hs := filter (in_dim j) (torus_hops dims src dst) in
  Z.of_nat (length hs) = Z.min ((t - m) mod d) ((m - t) mod d) /\
  Forall (fun h => h_up h = right_way m t d /\
                   (if h_up h then (t - m) mod d <= (m - t) mod d else (m - t) mod d <= (t - m) mod d)) hs.
Proof. exact torus_hops_per_dim. Qed.
Print Assumptions C26_torus_hops.

Theorem C26_torus_dim_order : forall dims, posl dims -> forall src dst,
  0 <= src < prodz dims -> 0 <= dst < prodz dims ->
  StronglySorted le (map h_dim (torus_hops dims src dst)).
Proof. exact torus_dim_order. Qed.
Print Assumptions C26_torus_dim_order.

(* the hops form a walk from src to dst; each hop is one step along its dimension *)
Theorem C26_torus_walk : forall dims, posl dims -> forall src dst,
  0 <= src < prodz dims -> 0 <= dst < prodz dims ->
  is_walk src (torus_hops dims src dst) dst /\ Forall (hop_ok dims) (torus_hops dims src dst).
Proof. exact torus_is_walk. Qed.
Print Assumptions C26_torus_walk.

(* one step along dimension j: only coordinate j changes, by +-1 modulo the size *)
Theorem C26_torus_hop_one_step : forall dims, posl dims -> forall h, hop_ok dims h ->
  let dp := fst (stride dims (h_dim h)) in let d := snd (stride dims (h_dim h)) in
  coords dims 1 (h_to h) =
  upd (h_dim h) (if h_up h then (coord dp d (h_from h) + 1) mod d else (coord dp d (h_from h) - 1) mod d)
      (coords dims 1 (h_from h)).
Proof. intros dims Hp h Hok. pose proof (hop_ok_coords dims Hp h Hok) as H. unfold succ_coord in H. destruct (h_up h); exact H. Qed.
Print Assumptions C26_torus_hop_one_step.

(* the link used by a hop (hop_link) is the one create_torus_links made between the two ends of the hop *)
Theorem C26_torus_link_joins_hop : forall dims, posl dims -> forall h, hop_ok dims h ->
  let dp := fst (stride dims (h_dim h)) in let d := snd (stride dims (h_dim h)) in
  if h_up h then neighbor dp d (h_from h) = h_to h else neighbor dp d (h_to h) = h_from h.
Proof. exact hop_ok_neighbor. Qed.
Print Assumptions C26_torus_link_joins_hop.

(* loopback and limiter links appear exactly as configured *)
Theorem C26_loopback_limiter : forall dims lb src dst,
  torus_route dims true false src src = [TLoop src] /\ torus_route dims true true src src = [TLoop src] /\
  ((src =? dst) && lb = false ->
     torus_route dims lb false src dst = map hop_link (torus_hops dims src dst) /\
     filter is_lim (torus_route dims lb true src dst) = map TLim (map h_from (torus_hops dims src dst) ++ [dst]) /\
     filter (fun l => negb (is_lim l)) (torus_route dims lb true src dst) = torus_route dims lb false src dst).
Proof.
  intros. split; [apply route_loopback | split; [apply route_loopback|]]. intros H.
  split; [now apply route_no_limiter | now apply route_limiters].
Qed.
Print Assumptions C26_loopback_limiter.

(* star: source's up links then destination's down links, no link twice; exactly up ++ down when that has no repeat;
   the loopback route when src = dst and one is configured *)
Theorem C26_star_up_down_no_repeat : forall same loop up down,
  let r := star_route same loop up down in
  let decl := if same then match loop with [] => up ++ down | _ => loop end else up ++ down in
  NoDup r /\ (forall x, In x r <-> In x decl) /\ (NoDup decl -> r = decl).
Proof. exact star_route_spec. Qed.
Print Assumptions C26_star_up_down_no_repeat.

(* the route is the first-occurrence subsequence of up ++ down (order preserved) *)
Theorem C26_star_first_occurrences : forall up down,
  star_route false [] up down = dedup [] up ++ dedup (fst (add_links up [] [])) down.
Proof.
  intros. unfold star_route. destruct (add_links up [] []) as [seen acc] eqn:E.
  destruct (add_links_dedup up [] []) as [A _]. rewrite E in A. simpl in A. subst acc.
  destruct (add_links_dedup down seen (dedup [] up)) as [B _]. exact B.
Qed.
Print Assumptions C26_star_first_occurrences.

Example C26_nonvacuous :
  posl [3; 2; 4] /\ 0 <= 1 < prodz [3; 2; 4] /\ 0 <= 21 < prodz [3; 2; 4] /\
  map (fun h => (h_dim h, h_up h)) (torus_hops [3; 2; 4] 1 21) = [(0%nat, false); (1%nat, true); (2%nat, false)] /\
  hop_ok [3; 2; 4] (mkhop 0 false 1 0) /\
  star_route false [] [1; 2] [2; 3] = [1; 2; 3].
Proof.
  split; [repeat constructor|]. split; [vm_compute; split; congruence|]. split; [vm_compute; split; congruence|].
  split; [vm_compute; reflexivity|]. split; [split; [simpl; lia | vm_compute; reflexivity] | vm_compute; reflexivity].
Qed.
