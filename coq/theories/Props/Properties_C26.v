(** C26 — Structured topologies follow their routing algorithms.
    Only statements; proofs live in SGV.Routing.TorusProofs.  Models: SGV.Routing.Torus (TorusZone::get_local_route,
    create_torus_links, StarZone::get_local_route); SGV.Routing.FatTree (FatTreeZone: construction of nodes/links and
    get_local_route), proofs in SGV.Routing.FatTreeProofs; SGV.Routing.Dragonfly (DragonflyZone: rankId_to_coords, the
    cells filled by generate_links, get_local_route), proofs in SGV.Routing.DragonflyProofs. *)
From SGV Require Import Base.Tactics Routing.Torus Routing.TorusProofs Routing.FatTree Routing.FatTreeProofs.
From SGV Require Import Routing.Dragonfly Routing.DragonflyProofs.
From Coq Require Import Sorted.
Local Open Scope Z_scope.

(* for ALL dimension vectors (sizes >= 1) and all ranks: the hops the code produces are exactly "dimension after
   dimension, in dimension j walk dist(j) steps in one direction", dist/direction given by the next theorems *)
Theorem C26_torus_dimension_by_dimension : forall dims, posl dims -> forall src dst,
  0 <= src < prodz dims -> 0 <= dst < prodz dims ->
  torus_hops dims src dst = torus_spec dims src dst.
Proof. exact torus_hops_spec. Qed.
Print Assumptions C26_torus_dimension_by_dimension.

(* hops per dimension = min((t-m) mod d, (m-t) mod d); every hop of a dimension goes the same, shorter, way round *)
Theorem C26_torus_hops : forall dims, posl dims -> forall src dst,
  0 <= src < prodz dims -> 0 <= dst < prodz dims ->
  forall j, (j < length dims)%nat ->
  let m := coord (fst (stride dims j)) (snd (stride dims j)) src in
  let t := coord (fst (stride dims j)) (snd (stride dims j)) dst in
  let d := snd (stride dims j) in
  let hs := filter (in_dim j) (torus_hops dims src dst) in
  Z.of_nat (length hs) = Z.min ((t - m) mod d) ((m - t) mod d) /\
  Forall (fun h => h_up h = right_way m t d /\
                   (if h_up h then (t - m) mod d <= (m - t) mod d else (m - t) mod d <= (t - m) mod d)) hs.
Proof. exact torus_hops_per_dim. Qed.
Print Assumptions C26_torus_hops.

Theorem C26_torus_dim_order : forall dims, posl dims -> forall src dst,
  0 <= src < prodz dims -> 0 <= dst < prodz dims ->
  StronglySorted le (map h_dim (torus_hops dims src dst)).
Proof. exact torus_dim_order. Qed.
Print Assumptions C26_torus_dim_order.

(* the hops form a walk from src to dst; each hop is one step along its dimension *)
Theorem C26_torus_walk : forall dims, posl dims -> forall src dst,
  0 <= src < prodz dims -> 0 <= dst < prodz dims ->
  is_walk src (torus_hops dims src dst) dst /\ Forall (hop_ok dims) (torus_hops dims src dst).
Proof. exact torus_is_walk. Qed.
Print Assumptions C26_torus_walk.

(* one step along dimension j: only coordinate j changes, by +-1 modulo the size *)
Theorem C26_torus_hop_one_step : forall dims, posl dims -> forall h, hop_ok dims h ->
  let dp := fst (stride dims (h_dim h)) in let d := snd (stride dims (h_dim h)) in
  coords dims 1 (h_to h) =
  upd (h_dim h) (if h_up h then (coord dp d (h_from h) + 1) mod d else (coord dp d (h_from h) - 1) mod d)
      (coords dims 1 (h_from h)).
Proof. intros dims Hp h Hok. pose proof (hop_ok_coords dims Hp h Hok) as H. unfold succ_coord in H. destruct (h_up h); exact H. Qed.
Print Assumptions C26_torus_hop_one_step.

(* the link used by a hop (hop_link) is the one create_torus_links made between the two ends of the hop *)
Theorem C26_torus_link_joins_hop : forall dims, posl dims -> forall h, hop_ok dims h ->
  let dp := fst (stride dims (h_dim h)) in let d := snd (stride dims (h_dim h)) in
  if h_up h then neighbor dp d (h_from h) = h_to h else neighbor dp d (h_to h) = h_from h.
Proof. exact hop_ok_neighbor. Qed.
Print Assumptions C26_torus_link_joins_hop.

(* loopback and limiter links appear exactly as configured *)
Theorem C26_loopback_limiter : forall dims lb src dst,
  torus_route dims true false src src = [TLoop src] /\ torus_route dims true true src src = [TLoop src] /\
  ((src =? dst) && lb = false ->
     torus_route dims lb false src dst = map hop_link (torus_hops dims src dst) /\
     filter is_lim (torus_route dims lb true src dst) = map TLim (map h_from (torus_hops dims src dst) ++ [dst]) /\
     filter (fun l => negb (is_lim l)) (torus_route dims lb true src dst) = torus_route dims lb false src dst).
Proof.
  intros. split; [apply route_loopback | split; [apply route_loopback|]]. intros H.
  split; [now apply route_no_limiter | now apply route_limiters].
Qed.
Print Assumptions C26_loopback_limiter.

(* star: source's up links then destination's down links, no link twice; exactly up ++ down when that has no repeat;
   the loopback route when src = dst and one is configured *)
Theorem C26_star_up_down_no_repeat : forall same loop up down,
  let r := star_route same loop up down in
  let decl := if same then match loop with [] => up ++ down | _ => loop end else up ++ down in
  NoDup r /\ (forall x, In x r <-> In x decl) /\ (NoDup decl -> r = decl).
Proof. exact star_route_spec. Qed.
Print Assumptions C26_star_up_down_no_repeat.

(* the route is the first-occurrence subsequence of up ++ down (order preserved) *)
Theorem C26_star_first_occurrences : forall up down,
  star_route false [] up down = dedup [] up ++ dedup (fst (add_links up [] [])) down.
Proof.
  intros. unfold star_route. destruct (add_links up [] []) as [seen acc] eqn:E.
  destruct (add_links_dedup up [] []) as [A _]. rewrite E in A. simpl in A. subst acc.
  destruct (add_links_dedup down seen (dedup [] up)) as [B _]. exact B.
Qed.
Print Assumptions C26_star_first_occurrences.

(* ------------------------------------------------------------------------------------------------ fat-tree *)

(* FatTreeZone::get_local_route, for ALL parameter vectors accepted by check_topology (any number of levels, any
   down/up/link counts >= 1) and all pairs of compute nodes, over ANY tables with the property TabOK (every port of a
   node leads, by a link whose two ends are these nodes, to the node one level up/down whose label differs only at that
   level's index, by the port's residue; compute nodes are the first prod(down) cells with pairwise different labels):
   the hops are k hops up followed by k hops down - never up after down -, k = the least level >= 1 from which the
   labels of source and destination agree; consecutive hops are chained, every hop changes the level by exactly one
   and its link joins its two ends; the walk starts at the source and ends at the destination; the turning node has
   both ends in its sub-tree (is_in_sub_tree). *)
Theorem C26_fattree_up_down : forall p tb, ft_valid p = true -> TabOK p tb ->
  forall s t, (s < Z.to_nat (prodz (ft_cs p)))%nat -> (t < Z.to_nat (prodz (ft_cs p)))%nat ->
  let k := nca_level (ft_levels p) (fn_label (node tb s)) (fn_label (node tb t)) in
  exists ups top downs,
    ft_hops p tb s t = ups ++ downs /\ ft_chain tb true s ups top /\ ft_chain tb false top downs t /\
    length ups = k /\ length downs = k /\ fn_level (node tb top) = k /\ (1 <= k <= ft_levels p)%nat /\
    in_sub_tree (ft_levels p) (node tb top) (node tb s) = true /\
    in_sub_tree (ft_levels p) (node tb top) (node tb t) = true.
Proof. exact ft_up_down. Qed.
Print Assumptions C26_fattree_up_down.

(* k is the level of the NEAREST common ancestors: nothing below level k has both ends in its sub-tree *)
Theorem C26_fattree_nca_nearest : forall p tb, ft_valid p = true -> TabOK p tb ->
  forall s t, (s < Z.to_nat (prodz (ft_cs p)))%nat -> (t < Z.to_nat (prodz (ft_cs p)))%nat ->
  forall w : fnode, in_sub_tree (ft_levels p) w (node tb s) = true -> in_sub_tree (ft_levels p) w (node tb t) = true ->
  (nca_level (ft_levels p) (fn_label (node tb s)) (fn_label (node tb t)) <= fn_level w)%nat.
Proof. exact ft_nca_nearest. Qed.
Print Assumptions C26_fattree_nca_nearest.

(* the boolean function tab_ok decides TabOK: it is run by the extracted model on the tables of every tied instance *)
Theorem C26_fattree_tables_checker_sound : forall p tb, tab_ok p tb = true -> TabOK p tb.
Proof. exact tab_ok_sound. Qed.
Print Assumptions C26_fattree_tables_checker_sound.

(* the same for the tables that the modelled construction (add_processing_node, generate_switches, generate_labels,
   connect_node_to_parents with are_related/get_level_position, add_internal_link) builds.  PARTIAL: the side condition
   [tab_ok p (ft_build p) = true] is computed (verified checker above) for every instance the check ties, and it is NOT
   proved for all parameter vectors (missing: the odometer of generate_labels enumerates the mixed-radix digit vectors,
   and the are_related scan finds exactly the nodes whose label differs at the level's index); the identity of the
   links (names, parallel cable chosen) is compared with the real code by the correspondence. *)
Theorem C26_fattree_up_down_built_partial : forall p, ft_valid p = true -> tab_ok p (ft_build p) = true ->
  forall s t, (s < Z.to_nat (prodz (ft_cs p)))%nat -> (t < Z.to_nat (prodz (ft_cs p)))%nat ->
  let tb := ft_build p in
  let k := nca_level (ft_levels p) (fn_label (node tb s)) (fn_label (node tb t)) in
  exists ups top downs,
    ft_hops p tb s t = ups ++ downs /\ ft_chain tb true s ups top /\ ft_chain tb false top downs t /\
    length ups = k /\ length downs = k /\ fn_level (node tb top) = k /\ (1 <= k <= ft_levels p)%nat /\
    in_sub_tree (ft_levels p) (node tb top) (node tb s) = true /\
    in_sub_tree (ft_levels p) (node tb top) (node tb t) = true.
Proof. intros p V H s t Hs Ht. exact (ft_up_down p (ft_build p) V (tab_ok_sound _ _ H) s t Hs Ht). Qed.
Print Assumptions C26_fattree_up_down_built_partial.

(* loopback alone when src = dst and one is configured; otherwise the links of the hops, with the limiter of every
   node left (before an up link, after a down link) and of the last node reached, and nothing else *)
Theorem C26_fattree_loopback_limiter : forall p tb lb s t,
  ft_route p tb true false s s = [FLoop s] /\ ft_route p tb true true s s = [FLoop s] /\
  ((s =? t)%nat && lb = false ->
     let hs := ft_hops p tb s t in
     ft_route p tb lb false s t = map hop_flk hs /\
     filter is_flim (ft_route p tb lb true s t) = map FLim (map fh_from hs ++ [last (map fh_to hs) s]) /\
     filter (fun l => negb (is_flim l)) (ft_route p tb lb true s t) = ft_route p tb lb false s t).
Proof.
  intros. split; [apply ft_route_loopback | split; [apply ft_route_loopback|]]. intros H hs.
  split; [now apply ft_route_no_limiter | now apply ft_route_limiters].
Qed.
Print Assumptions C26_fattree_loopback_limiter.

Example C26_fattree_nonvacuous :
  let p := mkftp [2; 3; 2] [2; 1; 2] [1; 3; 2] in
  ft_valid p = true /\ tab_ok p (ft_build p) = true /\
  nca_level 3 (fn_label (node (ft_build p) 1)) (fn_label (node (ft_build p) 10)) = 3%nat /\
  map fh_up (ft_hops p (ft_build p) 1 10) = [true; true; true; false; false; false] /\
  last (map fh_to (ft_hops p (ft_build p) 1 10)) 0%nat = 10%nat /\
  nca_level 3 (fn_label (node (ft_build p) 4)) (fn_label (node (ft_build p) 5)) = 1%nat /\
  map fh_up (ft_hops p (ft_build p) 4 5) = [true; false].
Proof. vm_compute. repeat split; reflexivity. Qed.

(* ------------------------------------------------------------------------------------------------ dragonfly *)

(* rankId_to_coords is a bijection between the ranks 0 .. G*C*B*n-1 and the coordinates (group, chassis, blade, node)
   within their ranges; its inverse is the row-major numbering.  For ALL parameters >= 1. *)
Theorem C26_dragonfly_coords_bijection : forall p, df_valid p = true ->
  (forall r, 0 <= r < df_g p * df_c p * df_b p * df_n p ->
     coords_in_range p (rank_to_coords p r) /\ coords_to_rank p (rank_to_coords p r) = r) /\
  (forall c, coords_in_range p c ->
     0 <= coords_to_rank p c < df_g p * df_c p * df_b p * df_n p /\ rank_to_coords p (coords_to_rank p c) = c) /\
  (forall r, 0 <= dr_chassis r < df_c p -> 0 <= dr_blade r < df_b p -> router_unflat p (router_flat p r) = r).
Proof. intros p V. split; [exact (df_rank_coords p V) | split; [exact (df_coords_rank p V) | exact (df_router_flat p V)]]. Qed.
Print Assumptions C26_dragonfly_coords_bijection.

(* get_local_route (as repaired by b10f387707): the routers' part of the route is a WALK from the router of the source
   to the router of the destination - every hop leaves the router reached so far through a link found in that router's
   table, which leads to the router the code goes on from -, for all parameters >= 1 and all ranks.
   PARTIAL: side condition [df_g p <= df_b p] (no more groups than blades per chassis).  Outside it the C++ looks for the
   router holding the blue link to group g at blade g of chassis 0 and indexes green_links_ out of bounds (recorded
   finding dragonfly-groups-exceed-blades); the model does not describe the code there. *)
Theorem C26_dragonfly_hierarchy_partial : forall p s t, df_valid p = true -> df_g p <= df_b p ->
  0 <= s < df_g p * df_c p * df_b p * df_n p -> 0 <= t < df_g p * df_c p * df_b p * df_n p ->
  df_walk_end p (router_of (rank_to_coords p s)) (df_hops true p s t) = Some (router_of (rank_to_coords p t)).
Proof. exact df_hops_walk. Qed.
Print Assumptions C26_dragonfly_hierarchy_partial.

(* the kinds of the hops (1 green: inside a chassis, 2 black: inside a group, 3 blue: between groups) follow the
   documented hierarchy and are minimal inside a group: one green hop iff the blades differ then one black hop iff the
   chassis differ; between groups: (green, black as needed to reach blade [destination group] of chassis 0), the blue
   link, then the same inside the destination group from blade [source group] of chassis 0. *)
Theorem C26_dragonfly_hop_kinds_partial : forall p ms tc, df_valid p = true -> df_g p <= df_b p ->
  coords_in_range p ms -> coords_in_range p tc ->
  hop_kinds (df_hops_c true p ms tc) =
  if dr_eqb (router_of ms) (router_of tc) then []
  else if dc_group tc =? dc_group ms
       then (if dc_blade tc =? dc_blade ms then [] else [1]) ++ (if dc_chassis tc =? dc_chassis ms then [] else [2])
       else (if dc_blade ms =? dc_group tc then [] else [1]) ++ (if dc_chassis ms =? 0 then [] else [2]) ++ [3] ++
            (if dc_blade tc =? dc_group ms then [] else [1]) ++ (if dc_chassis tc =? 0 then [] else [2]).
Proof. exact df_hops_kinds. Qed.
Print Assumptions C26_dragonfly_hop_kinds_partial.

(* what a link joins: green = two blades of one chassis, black = the same blade of two chassis of one group, blue = two groups *)
Theorem C26_dragonfly_link_ends : forall p l a b, link_ends p l = Some (a, b) ->
  match l with
  | DGreen _ _ j k _ => dr_group a = dr_group b /\ dr_chassis a = dr_chassis b /\ dr_blade a = j /\ dr_blade b = k
  | DBlack _ j k _ _ => dr_group a = dr_group b /\ dr_blade a = dr_blade b /\ dr_chassis a = j /\ dr_chassis b = k
  | DBlue i j _ => dr_group a = i /\ dr_group b = j
  | _ => False
  end.
Proof. exact link_ends_hierarchy. Qed.
Print Assumptions C26_dragonfly_link_ends.

(* the code before the repair: 1 group, 3 chassis, 2 blades, chassis 1 blade 0 -> chassis 1 blade 1 is not a walk (a
   second, black, link taken from a router of chassis 0 that the route never reached); replayed on the real code *)
Theorem C26_dragonfly_pinned_refuted : exists p s t, df_valid p = true /\ df_g p <= df_b p /\
  0 <= s < df_g p * df_c p * df_b p * df_n p /\ 0 <= t < df_g p * df_c p * df_b p * df_n p /\
  df_walk_end p (router_of (rank_to_coords p s)) (df_hops false p s t) = None /\ length (df_hops false p s t) = 2%nat /\
  length (df_hops true p s t) = 1%nat.
Proof. exact df_pinned_refuted. Qed.
Print Assumptions C26_dragonfly_pinned_refuted.

(* loopback alone when src = dst and one is configured; otherwise: [limiter of the source] local link up, the hops
   (limiter of the router left before a green/black link, after a blue one), [limiter of the last router] local link
   down [limiter of the destination]; limiters exactly when configured *)
Theorem C26_dragonfly_loopback_limiter : forall keep p lb s t,
  df_route keep p true false s s = [DLoop s] /\ df_route keep p true true s s = [DLoop s] /\
  ((s =? t) && lb = false ->
     df_route keep p lb false s t =
       DLocal (router_of (rank_to_coords p s)) (dc_node (rank_to_coords p s)) true :: map snd (df_hops keep p s t) ++
       [DLocal (router_of (rank_to_coords p t)) (dc_node (rank_to_coords p t)) false] /\
     filter is_dlim (df_route keep p lb true s t) =
       DLimNode s :: map (fun h => DLimRouter (fst h)) (df_hops keep p s t) ++
       [DLimRouter (router_of (rank_to_coords p t)); DLimNode t] /\
     filter (fun l => negb (is_dlim l)) (df_route keep p lb true s t) = df_route keep p lb false s t).
Proof.
  intros. split; [apply df_route_loopback | split; [apply df_route_loopback|]]. intros H.
  split; [now apply df_route_no_limiter | apply df_route_limiters; [exact H | apply df_hops_not_lim]].
Qed.
Print Assumptions C26_dragonfly_loopback_limiter.

Example C26_dragonfly_nonvacuous :
  let p := mkdfp 3 2 4 2 in
  df_valid p = true /\ df_g p <= df_b p /\ coords_in_range p (rank_to_coords p 13) /\ coords_in_range p (rank_to_coords p 45) /\
  rank_to_coords p 13 = mkdc 0 1 2 1 /\ rank_to_coords p 45 = mkdc 2 1 2 1 /\
  hop_kinds (df_hops true p 13 45) = [2; 3; 1; 2] /\
  df_walk_end p (mkdr 0 1 2) (df_hops true p 13 45) = Some (mkdr 2 1 2).
Proof. vm_compute. repeat split; congruence. Qed.

Example C26_nonvacuous :
  posl [3; 2; 4] /\ 0 <= 1 < prodz [3; 2; 4] /\ 0 <= 21 < prodz [3; 2; 4] /\
  map (fun h => (h_dim h, h_up h)) (torus_hops [3; 2; 4] 1 21) = [(0%nat, false); (1%nat, true); (2%nat, false)] /\
  hop_ok [3; 2; 4] (mkhop 0 false 1 0) /\
  star_route false [] [1; 2] [2; 3] = [1; 2; 3].
Proof.
  split; [repeat constructor|]. split; [vm_compute; split; congruence|]. split; [vm_compute; split; congruence|].
  split; [vm_compute; reflexivity|]. split; [split; [simpl; lia | vm_compute; reflexivity] | vm_compute; reflexivity].
Qed.
