(** C43 — Checker and application agree on every transition.
    Only statements; proofs live in SGV.Mc.SerCodecProofs (any table) and SGV.Mc.SerCodecTable (the tables that
    gen/ser.py regenerates from the observers' serialize() and the Transition constructors on every run). *)
From SGV Require Import Base.Tactics Mc.SerCodec Mc.SerCodecProofs Gen.SerSpec Mc.SerCodecRun Mc.SerCodecTable.
Local Open Scope Z_scope.

(* Channel::pack<T> / unpack<T> round trip for every primitive the protocol uses (bool, integers of any width and
   sign, pointers, strings shorter than 65535 without NUL), values unbounded *)
Theorem C43_prim_roundtrip : forall v r, wf_pval v -> dec_wire (shape v) (enc_pval v ++ r) = Some (v, r).
Proof. exact prim_roundtrip. Qed.
Print Assumptions C43_prim_roundtrip.

(* n little-endian bytes carry exactly the value modulo 2^(8n) *)
Theorem C43_bytes_mod : forall n z r, dec_le n (enc_le n z ++ r) = Some (z mod width n, r).
Proof. exact dec_enc_le. Qed.
Print Assumptions C43_bytes_mod.

(* for every observer and every type tag it can send while the checker is attached, the checker knows the tag and
   unpacks the same sequence of wire items (same sizes and kinds; only the sign of an integer may differ) *)
Theorem C43_field_sequences_agree : forall o tag its,
  In (o, tag, its) app_table -> memb tag nomc_tags = false ->
  exists c, checker_seq tag = Some c /\ seq_compat its c = true.
Proof. exact field_sequences_agree. Qed.
Print Assumptions C43_field_sequences_agree.

(* hence: whatever well-typed transition the application serializes (including TestAny/WaitAny lists), the checker
   decodes the same type and the same fields, consumes exactly the bytes sent, and never waits for more *)
Theorem C43_decode_encode : forall t r,
  app_typed app_table nested_tags t -> wf_tval t -> memb (fst t) nomc_tags = false ->
  dec_tval checker_seq (enc_tval t ++ r) = Some (reinterp_tval checker_seq t, r).
Proof. exact decode_encode_now. Qed.
Print Assumptions C43_decode_encode.

(* "the same fields": a field read with the type it was packed with is unchanged; one read with the other sign is
   unchanged whenever it fits the positive half *)
Theorem C43_same_type_exact : forall c v, shape v = c -> wf_pval v -> reinterp c v = v.
Proof. exact reinterp_same. Qed.
Print Assumptions C43_same_type_exact.
Theorem C43_sign_change_small : forall n s sg z, 0 <= z < width n / 2 -> reinterp (WInt n sg) (VInt n s z) = VInt n sg z.
Proof. exact reinterp_small. Qed.
Print Assumptions C43_sign_change_small.

(* the code as pinned violated the statement: the message-queue observers' bytes make the checker wait for ever *)
Theorem C43_pinned_messqueue_refuted :
  seq_compat [IP WPtr; IP WPtr] pinned_send_seq = false /\
  wf_tval pinned_mess_value /\ dec_tval pinned_chk (enc_tval pinned_mess_value) = None.
Proof. exact pinned_messqueue_refuted. Qed.
Print Assumptions C43_pinned_messqueue_refuted.

(* the hypotheses of C43_decode_encode hold on a WaitAny over two communications, and it decodes to itself *)
Definition c43_wait (c : Z) : nat * list pval :=
  (13%nat, [VBool false; VInt 4 false c; VInt 8 true 2; VInt 8 true (-1); VInt 4 false 7; VStr [119; 97]]).
Definition c43_waitany : tval := (6%nat, [FSub [c43_wait 1; c43_wait 2]; FP (VStr [119; 97; 105; 116])]).
Example C43_nonvacuous :
  memb 6 nomc_tags = false /\ wf_tval c43_waitany /\
  dec_tval checker_seq (enc_tval c43_waitany) = Some (c43_waitany, []).
Proof.
  split; [vm_compute; reflexivity|]. split; [|vm_compute; reflexivity].
  unfold wf_tval, c43_waitany, c43_wait, wf_simple; cbn [fst snd].
  repeat match goal with
         | |- _ /\ _ => split
         | |- Forall _ [] => constructor
         | |- Forall _ (_ :: _) => constructor
         | |- True => exact I
         | |- wf_fval _ => cbn [wf_fval wf_simple fst snd]
         | |- wf_simple _ => unfold wf_simple; cbn [fst snd]
         | |- wf_pval _ => cbn [wf_pval]
         | |- (_ <= _)%Z => vm_compute; congruence
         | |- (_ < _)%Z => vm_compute; reflexivity
         end.
Qed.
