(** C39 — Declared-independent transitions commute; the dependency relation is symmetric.
    Only statements; proofs in SGV.Mc.Indep (any table) and SGV.Mc.McKernelProofs; the table is Gen/DepLut.v,
    regenerated from Transition.cpp by gen/deplut.py on every run. *)
From SGV Require Import Base.Tactics Mc.Trans Mc.Indep Mc.McKernel Mc.McKernelProofs Mc.McKernel2 Mc.McKernel2Proofs Gen.DepLut.
Local Open Scope Z_scope.

(* Transition::dispatch_depends gives the same answer (or dies the same way) in both orders, for all transitions of
   all types, TestAny/WaitAny included: the regenerated table only holds order-insensitive rules on its diagonal *)
Theorem C39_table_diagonal_ok : diag_ok dep_table = true /\ types_as_in_Trans = true.
Proof. split; vm_compute; reflexivity. Qed.
Print Assumptions C39_table_diagonal_ok.

Theorem C39_symmetric : forall t1 t2, depends t1 t2 = depends t2 t1.
Proof. intros t1 t2. apply depends_sym. vm_compute. reflexivity. Qed.
Print Assumptions C39_symmetric.

(* mutex and semaphore groups (and any mix of them): two transitions of different actors, both enabled, that the
   checker declares independent lead to the same state in either order, and neither disables the other *)
Theorem C39_commute_sync_partial : forall s t1 t2,
  wf_all s -> kaid t1 <> kaid t2 -> enabled s t1 = true -> enabled s t2 = true ->
  depends (Plain (core_of t1)) (Plain (core_of t2)) = Some false ->
  eqst (step (step s t1) t2) (step (step s t2) t1) /\
  enabled (step s t1) t2 = true /\ enabled (step s t2) t1 = true.
Proof. exact commute. Qed.
Print Assumptions C39_commute_sync_partial.
(* _partial: the full statement ranges over every transition group; closed here: mutex (ASYNC_LOCK, TEST, TRYLOCK,
   UNLOCK, WAIT; non-recursive) and semaphore (ASYNC_LOCK, UNLOCK, WAIT; one pending acquisition per actor), without
   timeouts.  Barrier, communications, actor life cycle and random: C39_commute_partial below.  Not closed: condition
   variable x mutex. *)

(* the side condition is an invariant of the kernel *)
Theorem C39_wf_invariant : forall s t, wf_all s -> wf_all (step s t).
Proof. exact wf_step. Qed.
Print Assumptions C39_wf_invariant.

(* hypotheses satisfiable: actor 1 unlocks mutex 0 (which it owns, actor 3 queued) while actor 2 asks for it *)
Definition c39_s0 : st :=
  {| M := fun _ => {| owner := Some 1; mq := [3] |}; S := fun _ => {| val := 1; sq := []; sgr := [] |}; O := fun _ => [] |}.
Example C39_nonvacuous :
  wf_all c39_s0 /\ enabled c39_s0 (KM 1 0 MUnlock) = true /\ enabled c39_s0 (KM 2 0 MLock) = true /\
  depends (Plain (core_of (KM 1 0 MUnlock))) (Plain (core_of (KM 2 0 MLock))) = Some false /\
  depends (Plain (core_of (KM 1 0 MLock))) (Plain (core_of (KM 2 0 MLock))) = Some true /\
  M (step (step c39_s0 (KM 1 0 MUnlock)) (KM 2 0 MLock)) 0 = {| owner := Some 3; mq := [2] |}.
Proof.
  split; [split; [intros m; cbn; discriminate | intros k; unfold wfs; cbn; lia]|].
  repeat split; vm_compute; reflexivity.
Qed.

(* ---- the extended kernel (McKernel2): mutex, semaphore, barrier, actor life cycle, random, communications ----
   For every well-formed state s and transitions t1, t2 of different actors, both enabled in s: if the checker, looking
   at the trace s --t1--> . --t2--> . (each transition described as its observer serializes it right after its
   execution, communications named by any numbering [cid] that is faithful for that trace), declares them independent,
   then both orders reach the same state and neither transition disables the other. *)
Theorem C39_commute_partial : forall cid s t1 t2,
  xwf s -> xaid t1 <> xaid t2 -> xenabled s t1 = true -> xenabled s t2 = true ->
  cid_ok cid (xstep (xstep s t1) t2) ->
  xdepends cid s t1 t2 = Some false ->
  bar_side s t1 t2 ->
  eqx (xstep (xstep s t1) t2) (xstep (xstep s t2) t1) /\
  xenabled (xstep s t1) t2 = true /\ xenabled (xstep s t2) t1 = true.
Proof. exact xcommute. Qed.
Print Assumptions C39_commute_partial.
(* _partial: (1) condition variables (CONDVAR_ASYNC_LOCK/WAIT/SIGNAL/BROADCAST and their implicit mutex operations) are
   not in the model; (2) [bar_side] excludes two BARRIER_ASYNC_LOCK on one barrier whose round lacks exactly one
   participant (more users than expected_actors_): there the statement is false, see C39_barrier_lock_lock_refuted and
   the finding barrier-lock-lock-oversubscribed; (3) no match functions, permanent receivers, detached sends, timeouts;
   an actor ends by ACTOR_EXIT with no request left unwaited (ActorImpl::cleanup_from_self cancelling pending comms is
   not modelled); TestAny/WaitAny are not steps of the model (their verdict is the one of the comm they wrap). *)

(* the side conditions of C39_commute_partial are invariants of the extended kernel *)
Theorem C39_xwf_invariant : forall s t, xwf s -> xenabled s t = true -> xwf (xstep s t).
Proof. exact xwf_step. Qed.
Print Assumptions C39_xwf_invariant.

(* the excluded region is really one where the declared independence is wrong: barrier of 2, actor 3 waiting, actors 1 and
   2 arrive: whoever comes first leaves with 3, the other one is left waiting *)
Theorem C39_barrier_lock_lock_refuted : exists x a1 a2,
  wfb x /\ a1 <> a2 /\ ben x a1 BLock = true /\ ben x a2 BLock = true /\
  depends (Plain (mk_core T_BARRIER_ASYNC_LOCK a1 0)) (Plain (mk_core T_BARRIER_ASYNC_LOCK a2 0)) = Some false /\
  ~ same_bar (bstep (bstep x a1 BLock) a2 BLock) (bstep (bstep x a2 BLock) a1 BLock).
Proof.
  exists {| bn := 2; bq := [3]; bgr := [] |}, 1, 2.
  split; [unfold wfb; cbn; lia|]. split; [lia|]. repeat split; try (vm_compute; reflexivity).
  intros (_ & _ & Hq & _). specialize (Hq 2). vm_compute in Hq. discriminate Hq.
Qed.
Print Assumptions C39_barrier_lock_lock_refuted.

(* the rule of dispatch_depends before 786c1edee0 (EVAL_COMM_SEND_TEST filtered on the sender/receiver reported by the
   test): actor 1 tests its still unpaired receive on mailbox 0, then actor 2 sends on mailbox 0.  The pinned rule
   declares the two independent whatever the numbering of the comms, yet the test answers 0 in one order and 1 in the
   other; the repaired rule declares them dependent for every faithful numbering. *)
Definition c39_s1 : xst := xstep x0 (XC 1 (CRecv 0)).
Theorem C39_pinned_test_rule_refuted :
  (forall cid, eval_test_pinned (xcore cid (xstep c39_s1 (XC 1 (CTest 0))) (XC 2 (CSend 0))) (xcore cid c39_s1 (XC 1 (CTest 0))) = Some false) /\
  xenabled c39_s1 (XC 1 (CTest 0)) = true /\ xenabled c39_s1 (XC 2 (CSend 0)) = true /\
  O (K (xstep (xstep c39_s1 (XC 1 (CTest 0))) (XC 2 (CSend 0)))) 1 = [0] /\
  O (K (xstep (xstep c39_s1 (XC 2 (CSend 0))) (XC 1 (CTest 0)))) 1 = [1] /\
  (forall cid, cid_ok cid (xstep (xstep c39_s1 (XC 1 (CTest 0))) (XC 2 (CSend 0))) ->
               xdepends cid c39_s1 (XC 1 (CTest 0)) (XC 2 (CSend 0)) = Some true).
Proof.
  split; [intros cid; reflexivity|]. repeat split; try (vm_compute; reflexivity).
  intros cid Hc. specialize (Hc 1 0 2 0 ltac:(lia)).
  assert (He : cid 1 0 = cid 2 0) by (apply (proj2 Hc); vm_compute; reflexivity).
  unfold xdepends, depends, depends_with. cbn [xcore comm_core tr_aid unwrap aid ty].
  change (1 =? 2) with false. cbv iota.
  change (Nat.ltb (ty {| ty := T_COMM_ASYNC_SEND; aid := 2; o1 := cid 2 (CN (xstep c39_s1 (XC 1 (CTest 0))) 2); o2 := 0; snd_ := -1; rcv_ := -1; tmo := false |}) T_COMM_TEST) with true.
  cbv iota. cbn [ty]. change (lut_get dep_table T_COMM_ASYNC_SEND T_COMM_TEST) with EVAL_COMM_SEND_TEST.
  cbn [eval o1 o2]. change (CN (xstep c39_s1 (XC 1 (CTest 0))) 2) with 0.
  change (o2 (comm_core cid T_COMM_TEST c39_s1 1 0)) with 0. change (o1 (comm_core cid T_COMM_TEST c39_s1 1 0)) with (cid 1 0).
  rewrite He, !Z.eqb_refl. reflexivity.
Qed.
Print Assumptions C39_pinned_test_rule_refuted.

(* the hypotheses of C39_commute_partial are satisfiable: actor 1 tests its unpaired receive on mailbox 0 while actor 2
   sends on mailbox 1 *)
Example C39_commute_nonvacuous :
  xwf c39_s1 /\ xenabled c39_s1 (XC 1 (CTest 0)) = true /\ xenabled c39_s1 (XC 2 (CSend 1)) = true /\
  cid_ok (fun a _ => a) (xstep (xstep c39_s1 (XC 1 (CTest 0))) (XC 2 (CSend 1))) /\
  xdepends (fun a _ => a) c39_s1 (XC 1 (CTest 0)) (XC 2 (CSend 1)) = Some false /\
  bar_side c39_s1 (XC 1 (CTest 0)) (XC 2 (CSend 1)) /\
  Q (xstep (xstep c39_s1 (XC 1 (CTest 0))) (XC 2 (CSend 1))) 1 = [(true, (2, 0))].
Proof.
  split.
  { unfold xwf. split; [intros m; cbn; unfold wfm; cbn; reflexivity|]. split; [intros k; cbn; lia|].
    split; [intros b; unfold wfb; cbn; lia|]. split.
    - intros p. cbn. destruct ((0 <=? p) && (p <? 8)) eqn:E; [|congruence]. intros _. lia.
    - unfold wfc. split; [intros a; cbn; unfold upd; destruct (a =? 1); lia|]. split.
      + intros m kd b j. cbn. unfold upd. destruct (Z.eqb_spec m 0); cbn; [|tauto].
        intros [H|[]]. inversion H; subst. cbn. unfold upd2. cbn. split; [lia|reflexivity].
      + intros m. exists false. cbn. unfold upd. destruct (m =? 0); cbn; [|tauto]. intros e [H|[]]. subst. reflexivity. }
  split; [vm_compute; reflexivity|]. split; [vm_compute; reflexivity|]. split.
  { intros a k b j Hne. split.
    + intros ->. congruence.
    + cbn. unfold upd2. cbn.
      repeat match goal with |- context [if ?c then _ else _] => destruct c; cbn end; discriminate. }
  split; [vm_compute; reflexivity|]. split; [exact I|vm_compute; reflexivity].
Qed.
