(** C39 — Declared-independent transitions commute; the dependency relation is symmetric.
    Only statements; proofs in SGV.Mc.Indep (any table) and SGV.Mc.McKernelProofs; the table is Gen/DepLut.v,
    regenerated from Transition.cpp by gen/deplut.py on every run. *)
From SGV Require Import Base.Tactics Mc.Trans Mc.Indep Mc.McKernel Mc.McKernelProofs Gen.DepLut.
Local Open Scope Z_scope.

(* Transition::dispatch_depends gives the same answer (or dies the same way) in both orders, for all transitions of
   all types, TestAny/WaitAny included: the regenerated table only holds order-insensitive rules on its diagonal *)
Theorem C39_table_diagonal_ok : diag_ok dep_table = true /\ types_as_in_Trans = true.
Proof. split; vm_compute; reflexivity. Qed.
Print Assumptions C39_table_diagonal_ok.

Theorem C39_symmetric : forall t1 t2, depends t1 t2 = depends t2 t1.
Proof. intros t1 t2. apply depends_sym. vm_compute. reflexivity. Qed.
Print Assumptions C39_symmetric.

(* mutex and semaphore groups (and any mix of them): two transitions of different actors, both enabled, that the
   checker declares independent lead to the same state in either order, and neither disables the other *)
Theorem C39_commute_sync_partial : forall s t1 t2,
  wf_all s -> kaid t1 <> kaid t2 -> enabled s t1 = true -> enabled s t2 = true ->
  depends (Plain (core_of t1)) (Plain (core_of t2)) = Some false ->
  eqst (step (step s t1) t2) (step (step s t2) t1) /\
  enabled (step s t1) t2 = true /\ enabled (step s t2) t1 = true.
Proof. exact commute. Qed.
Print Assumptions C39_commute_sync_partial.
(* _partial: the full statement ranges over every transition group; closed here: mutex (ASYNC_LOCK, TEST, TRYLOCK,
   UNLOCK, WAIT; non-recursive) and semaphore (ASYNC_LOCK, UNLOCK, WAIT; one pending acquisition per actor), without
   timeouts.  Not closed: barrier, condition variable x mutex, communications, actor life cycle, random. *)

(* the side condition is an invariant of the kernel *)
Theorem C39_wf_invariant : forall s t, wf_all s -> wf_all (step s t).
Proof. exact wf_step. Qed.
Print Assumptions C39_wf_invariant.

(* hypotheses satisfiable: actor 1 unlocks mutex 0 (which it owns, actor 3 queued) while actor 2 asks for it *)
Definition c39_s0 : st :=
  {| M := fun _ => {| owner := Some 1; mq := [3] |}; S := fun _ => {| val := 1; sq := []; sgr := [] |}; O := fun _ => [] |}.
Example C39_nonvacuous :
  wf_all c39_s0 /\ enabled c39_s0 (KM 1 0 MUnlock) = true /\ enabled c39_s0 (KM 2 0 MLock) = true /\
  depends (Plain (core_of (KM 1 0 MUnlock))) (Plain (core_of (KM 2 0 MLock))) = Some false /\
  depends (Plain (core_of (KM 1 0 MLock))) (Plain (core_of (KM 2 0 MLock))) = Some true /\
  M (step (step c39_s0 (KM 1 0 MUnlock)) (KM 2 0 MLock)) 0 = {| owner := Some 3; mq := [2] |}.
Proof.
  split; [split; [intros m; cbn; discriminate | intros k; unfold wfs; cbn; lia]|].
  repeat split; vm_compute; reflexivity.
Qed.
