(** C02 — Outcome does not depend on the context factory or on the number of worker threads.
    Only statements; model in SGV.Kernel.Sched, proofs in SGV.Kernel.SchedProofs.
    [micro]/[at_simcall] (user code of an actor, a function of its own local state) and [handle] (the kernel's simcall
    handler, run by maestro alone in list order) are arbitrary. *)
From SGV Require Import Base.Tactics Kernel.Ref Kernel.Sched Kernel.SchedProofs.
From Coq Require Import Permutation.

Section C02.
  Context {Local Kernel : Type}.
  Variable micro : Local -> Local.
  Variable at_simcall : Local -> bool.
  Variable handle : nat -> Kernel * list Local -> Kernel * list Local * list nat.

  (* any two executions of the user phase that run only listed actors, each up to its simcall - whatever the order, the
     assignment to worker threads or their interleaving - leave every actor in the same local state *)
  Theorem C02_user_phase_confluent : forall pi1 pi2 L ls,
    admissible_b micro at_simcall pi1 L ls = true -> admissible_b micro at_simcall pi2 L ls = true ->
    user_phase micro at_simcall pi1 ls = user_phase micro at_simcall pi2 ls.
  Proof. exact (user_phase_confluent micro at_simcall handle). Qed.

  (* steps of different actors commute: permuting a schedule changes nothing *)
  Theorem C02_user_phase_perm : forall pi1 pi2 ls, Permutation pi1 pi2 ->
    user_phase micro at_simcall pi1 ls = user_phase micro at_simcall pi2 ls.
  Proof. exact (user_phase_perm micro at_simcall). Qed.

  (* a sub-round = user phase + simcalls handled sequentially in list order: same kernel state, same locals, same next
     run list *)
  Theorem C02_subround_sched_indep : forall pi1 pi2 L st,
    admissible_b micro at_simcall pi1 L (snd st) = true -> admissible_b micro at_simcall pi2 L (snd st) = true ->
    subround micro at_simcall handle pi1 L st = subround micro at_simcall handle pi2 L st.
  Proof. exact (subround_sched_indep micro at_simcall handle). Qed.

  (* whole runs, one arbitrary admissible schedule per sub-round *)
  Theorem C02_run_sched_indep : forall Pi1 Pi2 L st, length Pi1 = length Pi2 ->
    admissible_run micro at_simcall handle Pi1 L st -> admissible_run micro at_simcall handle Pi2 L st ->
    run micro at_simcall handle Pi1 L st = run micro at_simcall handle Pi2 L st.
  Proof. exact (run_sched_indep micro at_simcall handle). Qed.
End C02.
Print Assumptions C02_user_phase_confluent.
Print Assumptions C02_user_phase_perm.
Print Assumptions C02_subround_sched_indep.
Print Assumptions C02_run_sched_indep.

(* the kernel phase of the concrete engine model used by C14 (Kernel/Ref.v handle_all: synchronisation programs, reference
   step function as handler) is an instance of the abstract kernel phase *)
Theorem C02_engine_model_is_instance : forall P l s ls next tr s' next' tr',
  Ref.handle_all P l s next tr = (s', next', tr') ->
  kernel_phase (handle_ref P) l (s, ls) next = ((s', ls), next').
Proof. exact handle_all_is_kernel_phase. Qed.
Print Assumptions C02_engine_model_is_instance.

(* non-vacuity: three actors whose user code takes 3, 1 and 2 micro-steps; a serial schedule and a shuffled,
   over-long "parallel" one are both admissible for two sub-rounds and give the same non-trivial result *)
Definition ex_micro (l : nat * nat) : nat * nat := (fst l - 1, snd l + fst l)%nat.
Definition ex_at (l : nat * nat) : bool := Nat.eqb (fst l) 0.
Definition ex_handle (a : nat) (st : nat * list (nat * nat)) : nat * list (nat * nat) * list nat :=
  let v := snd (nth a (snd st) (0, 0))%nat in
  ((fst st * 2 + v)%nat, app_at a (fun _ => (a + 1, v)%nat) (snd st), if Nat.eqb a 1 then [] else [a]).
Definition ex_st : nat * list (nat * nat) := (0, [(3, 0); (1, 0); (2, 0)])%nat.
Example C02_nonvacuous :
  let P1 := [serial 3 [0; 1; 2]; serial 3 [0; 2]]%nat in
  let P2 := [[2; 0; 1; 0; 2; 2; 0; 1; 1]; [2; 0; 2; 0; 2; 2; 2]]%nat in
  admissible_run ex_micro ex_at ex_handle P1 [0; 1; 2]%nat ex_st /\
  admissible_run ex_micro ex_at ex_handle P2 [0; 1; 2]%nat ex_st /\
  run ex_micro ex_at ex_handle P1 [0; 1; 2]%nat ex_st = run ex_micro ex_at ex_handle P2 [0; 1; 2]%nat ex_st /\
  fst (fst (run ex_micro ex_at ex_handle P1 [0; 1; 2]%nat ex_st)) = 139%nat.
Proof. vm_compute. repeat split; reflexivity. Qed.
