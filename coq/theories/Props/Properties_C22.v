(** C22 — Availability profiles are applied exactly.  Only statements; proofs live in SGV.Res.ProfileProofs. *)
From Coq Require Import QArith Qminmax Sorting.Sorted.
From SGV Require Import Base.Tactics Res.NetFormula Res.Profile Res.ProfileProofs.
Local Open Scope Q_scope.

(* for every non-empty deterministic pattern (absolute dates d_k, values v_k), every period P and every number of
   iterations: the k-th event of iteration j fires at j*P + d_k with value v_k
   ([spec_iters P pts 0 n] = [map (shift (j*P)) pts] for j = 0..n-1; [evq] = dates equal as rationals, same value) *)
Theorem C22_event_dates : forall period p0 rest n,
  Forall2 (Forall2 evq) (run_iters period (p0 :: rest) true n 0) (spec_iters period (p0 :: rest) 0 n).
Proof. exact event_dates. Qed.
Print Assumptions C22_event_dates.

(* the resource has, at date t, the value of the last event fired at a date <= t (the initial one before the first) *)
Theorem C22_value_at : forall evs init t,
  StronglySorted (fun x y : pt => fst x <= fst y) evs ->
  ((forall e, In e evs -> t < fst e) /\ value_at init evs t = init) \/
  exists pre e post, evs = pre ++ e :: post /\ fst e <= t /\ (forall x, In x post -> t < fst x) /\ value_at init evs t = snd e.
Proof. exact value_at_spec. Qed.
Print Assumptions C22_value_at.

Example C22_nonvacuous :
  map fst (fired 10 [(1, 1 # 2); (4, 1)] 3) = [1; 4; 11; 14; 21; 24] /\
  map snd (fired 10 [(1, 1 # 2); (4, 1)] 3) = [1 # 2; 1; 1 # 2; 1; 1 # 2; 1] /\
  Qeq_bool (value_at 1 (fired 10 [(1, 1 # 2); (4, 1)] 3) 12) (1 # 2) = true.
Proof. repeat split; vm_compute; reflexivity. Qed.
