(** C29 — Every collective algorithm computes the MPI result.
    Only statements; proofs live in SGV.Smpi.CollSchedProofs and SGV.Smpi.CollSpecProofs. *)
From SGV Require Import Base.Tactics Smpi.CollSched Smpi.CollSchedProofs Smpi.CollSpec Smpi.CollSpecProofs Gen.CollList.
From Coq Require Import Permutation.
From Coq Require String.
Local Open Scope Z_scope.

(* running a schedule commutes with the homomorphism from the free commutative monoid (multisets of provenance labels) *)
Theorem C29_hom_run : forall (M : CMonoid) (v : label -> car M) S (lab : cell -> list label) c,
  eqv M (run_sched S (fun c => hom M v (lab c)) c) (hom M v (run_sched (M:=Free) S lab c)).
Proof. exact hom_run. Qed.
Print Assumptions C29_hom_run.

(* THE LIFTING: if on provenance labels a schedule leaves in the output cells the multisets MPI specifies, then for every
   commutative monoid M (every datatype and associative-commutative operator) and every input data v it leaves there the
   M-fold of the specified contributions.  Unbounded in data and operator. *)
Theorem C29_free_monoid_lifting : forall (M : CMonoid) (v : label -> car M) S (lab spec : cell -> list label) (out : cell -> Prop),
  (forall c, out c -> Permutation (run_sched (M:=Free) S lab c) (spec c)) ->
  forall c, out c -> eqv M (run_sched S (fun c => hom M v (lab c)) c) (hom M v (spec c)).
Proof. exact free_monoid_lifting. Qed.
Print Assumptions C29_free_monoid_lifting.

(* hom is the only monoid homomorphism extending v: "the M-fold of the contributions" is well defined *)
Theorem C29_hom_unique : forall (M : CMonoid) (v : label -> car M) (h : list label -> car M),
  eqv M (h []) (unit M) -> (forall l1 l2, eqv M (h (l1 ++ l2)) (op M (h l1) (h l2))) -> (forall x, eqv M (h [x]) (v x)) ->
  forall l, eqv M (h l) (hom M v l).
Proof. exact hom_unique. Qed.
Print Assumptions C29_hom_unique.

(* the fold does not depend on the order in which contributions were combined *)
Theorem C29_hom_perm : forall (M : CMonoid) (v : label -> car M) l1 l2,
  Permutation l1 l2 -> eqv M (hom M v l1) (hom M v l2).
Proof. exact hom_perm. Qed.
Print Assumptions C29_hom_perm.

(* the verified oracle: accepts exactly the buffers MPI defines, cell by cell, as multisets of contributions *)
Theorem C29_coll_ok_correct : forall kind np root count rank obs,
  coll_ok kind np root count rank obs = true <->
  cells_equiv (expand obs) (expand (spec_runs kind np root count rank)).
Proof. exact coll_ok_correct. Qed.
Print Assumptions C29_coll_ok_correct.

Theorem C29_barrier_ok_correct : forall enters exits,
  barrier_ok enters exits = true <-> (forall e x, In e enters -> In x exits -> e <= x).
Proof. exact barrier_ok_correct. Qed.
Print Assumptions C29_barrier_ok_correct.

(* the compact counter-vector encoding used by the harness (per rank: number of contributions, sum of their indices)
   determines the multiset whenever the specified multiset has at most one contribution per rank *)
Theorem C29_compact_faithful : forall spec m,
  NoDup (map fst spec) -> (forall r, cnt m r = cnt spec r /\ isum m r = isum spec r) -> Permutation m spec.
Proof. exact compact_faithful. Qed.
Print Assumptions C29_compact_faithful.

(* the MPI definitions, cell by cell *)
Theorem C29_spec_bcast : forall np root count rank k, 0 <= k < count ->
  nth (Z.to_nat k) (expand (spec_runs 0 np root count rank)) [] = [(root, k)].
Proof. exact spec_bcast. Qed.
Print Assumptions C29_spec_bcast.
Theorem C29_spec_allreduce : forall np root count rank k, 0 <= k < count ->
  nth (Z.to_nat k) (expand (spec_runs 2 np root count rank)) [] = map (fun q => (q, k)) (zseq np).
Proof. exact spec_allreduce. Qed.
Print Assumptions C29_spec_allreduce.
Theorem C29_spec_reduce : forall np root count rank k, 0 <= k < count ->
  nth (Z.to_nat k) (expand (spec_runs 1 np root count root)) [] = map (fun q => (q, k)) (zseq np) /\
  (rank <> root -> expand (spec_runs 1 np root count rank) = []).
Proof. exact spec_reduce. Qed.
Print Assumptions C29_spec_reduce.
Theorem C29_spec_scan : forall np root count rank k, 0 <= k < count ->
  nth (Z.to_nat k) (expand (spec_runs 14 np root count rank)) [] = map (fun q => (q, k)) (zseq (rank + 1)).
Proof. exact spec_scan. Qed.
Print Assumptions C29_spec_scan.
Theorem C29_spec_scatter : forall np root count rank k, 0 <= k < count ->
  nth (Z.to_nat k) (expand (spec_runs 5 np root count rank)) [] = [(root, rank * count + k)].
Proof. exact spec_scatter. Qed.
Print Assumptions C29_spec_scatter.

(* T: every collective of the algorithm table regenerated from smpi_coll.cpp / smpi_nbc_impl.cpp has a specification
   (a new collective or a renamed one makes this fail; the python side checks that every algorithm was exercised) *)
Theorem C29_every_listed_collective_has_a_spec :
  forallb (fun c => negb (match kinds_of_name c with [] => true | _ => false end))
          (map fst coll_algorithms ++ coll_single ++ coll_nonblocking) = true.
Proof. vm_compute. reflexivity. Qed.
Print Assumptions C29_every_listed_collective_has_a_spec.

(* non-vacuity: a concrete 3-rank allreduce schedule satisfies the hypothesis of the lifting, hence sums (and any other
   commutative operator) come out right for all inputs *)
Example C29_lifting_nonvacuous : forall v : label -> Z, forall c, (c = 10 \/ c = 11 \/ c = 12) ->
  run_sched (M:=Zsum) demo_allreduce (fun c => hom Zsum v (demo_lab c)) c = v (0,0) + (v (1,0) + (v (2,0) + 0)).
Proof.
  intros v c Hc.
  exact (free_monoid_lifting Zsum v demo_allreduce demo_lab demo_spec (fun c => c = 10 \/ c = 11 \/ c = 12) demo_free_ok c Hc).
Qed.
Example C29_checker_nonvacuous :
  coll_ok 3 3 1 2 1 [mkrun 2 true [(0,0)]; mkrun 2 true [(1,0)]; mkrun 1 true [(2,0)]; mkrun 1 true [(2,1)]] = true /\
  coll_ok 2 3 0 2 0 [mkrun 2 true [(2,0);(0,0);(1,0)]] = true /\
  coll_ok 2 3 0 2 0 [mkrun 2 true [(0,0);(1,0)]] = false /\
  coll_ok 10 2 0 1 1 [mkrun 3 true [(0,1)]; mkrun 1 false [(-1,-1)]; mkrun 1 true [(1,2)]; mkrun 1 false [(-1,-1)]] = true.
Proof. vm_compute. repeat split. Qed.
Example C29_compact_nonvacuous :
  NoDup (map fst [(0,5);(1,5);(2,5)]) /\ (forall r, cnt [(2,5);(0,5);(1,5)] r = cnt [(0,5);(1,5);(2,5)] r).
Proof.
  split; [repeat constructor; cbn; intuition lia |].
  intros r; unfold cnt; cbn [map fold_right fst]. destruct (0 =? r), (1 =? r), (2 =? r); reflexivity.
Qed.
