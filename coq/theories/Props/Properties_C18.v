(** C18 — Concurrency limits are enforced without starvation.
    Only statements; the model is SGV.Lmm.System (System::expand / enable_var / disable_var / on_disabled_var /
    update_variable_penalty / var_free of src/kernel/lmm/System.cpp, after the repair of update_variable_penalty), the
    proofs are in SGV.Lmm.SystemProofs and SGV.Lmm.DumpProofs.  [run_ops sys0 l] is the state after the history [l] of
    constraint_new / variable_new / expand / update_variable_penalty / variable_free calls; nothing bounds its length. *)
From SGV Require Import Base.Tactics Lmm.System Lmm.SystemProofs Lmm.Dump Lmm.DumpProofs.
From Coq Require Import QArith.
Local Open Scope Z_scope.

(* concurrency_current_ = number of enabled elements that count (weight >= 1); the enabled list holds exactly the
   live variables of positive penalty that use the constraint, each once *)
Theorem C18_counter_exact : forall l c, let s := run_ops sys0 l in
  c_cur (s_cn s c) = count_en s c (c_en (s_cn s c)) /\ NoDup (c_en (s_cn s c)) /\
  (forall v, In v (c_en (s_cn s c)) <->
     v_alive (s_var s v) = true /\ qpos (v_pen (s_var s v)) = true /\ In c (map fst (v_elems (s_var s v)))).
Proof. exact counter_exact. Qed.
Print Assumptions C18_counter_exact.

Theorem C18_limit : forall l c, let s := run_ops sys0 l in
  0 <= c_limit (s_cn s c) -> c_cur (s_cn s c) <= c_limit (s_cn s c).
Proof. exact limit_respected. Qed.
Print Assumptions C18_limit.

(* a staged variable is not enabled and uses a constraint without free slot *)
Theorem C18_no_starvation : forall l v, let s := run_ops sys0 l in
  v_alive (s_var s v) = true -> qpos (v_staged (s_var s v)) = true ->
  qpos (v_pen (s_var s v)) = false /\
  exists c, In c (map fst (v_elems (s_var s v))) /\ 0 <= c_limit (s_cn s c) /\ c_cur (s_cn s c) = c_limit (s_cn s c).
Proof. exact no_starvation. Qed.
Print Assumptions C18_no_starvation.

Theorem C18_sets_consistent : forall l v c, let s := run_ops sys0 l in
  v_alive (s_var s v) = true -> In c (map fst (v_elems (s_var s v))) ->
  if qpos (v_pen (s_var s v)) then In v (c_en (s_cn s c)) /\ ~ In v (c_dis (s_cn s c))
  else In v (c_dis (s_cn s c)) /\ ~ In v (c_en (s_cn s c)).
Proof. exact sets_consistent. Qed.
Print Assumptions C18_sets_consistent.

(* a variable whose last requested penalty is 0 is neither enabled nor staged (so it cannot be resumed behind the
   caller's back when a slot is released) *)
Theorem C18_penalty0_not_staged : forall l v, let s := run_ops sys0 l in
  qpos (v_want (s_var s v)) = false -> qpos (v_pen (s_var s v)) = false /\ qpos (v_staged (s_var s v)) = false.
Proof. exact penalty0_not_running. Qed.
Print Assumptions C18_penalty0_not_staged.

(* the code as pinned violates the statement (replay of the repaired defects), the repaired code does not *)
Theorem C18_pinned_code_refuted :
  any_starving (fold_left step_pinned witness_c18 sys0) = true /\ any_starving (run_ops sys0 witness_c18) = false.
Proof. exact pinned_refuted. Qed.
Print Assumptions C18_pinned_code_refuted.

(* the checker applied to the states dumped by the real lmm::System decides the specification *)
Theorem C18_oracle_sound_complete : forall d, c18_codes d = [] <-> dump_spec d.
Proof. exact c18_codes_sound_complete. Qed.
Print Assumptions C18_oracle_sound_complete.

(* non-vacuity: a history in which a variable is staged behind a limit of 1, then enabled when the slot is released *)
Example C18_nonvacuous :
  let s1 := run_ops sys0 [NewC 1 true; NewV 1; NewV 2; Expand 0 0 1; Expand 0 1 1] in
  let s2 := run_ops sys0 [NewC 1 true; NewV 1; NewV 2; Expand 0 0 1; Expand 0 1 1; Pen 0 0] in
  (v_alive (s_var s1 1) = true /\ qpos (v_staged (s_var s1 1)) = true /\ c_cur (s_cn s1 0) = 1) /\
  (qpos (v_pen (s_var s2 1)) = true /\ qpos (v_staged (s_var s2 1)) = false /\ c_cur (s_cn s2 0) = 1 /\ c_en (s_cn s2 0) = [1%nat]).
Proof. vm_compute. repeat split; reflexivity. Qed.
