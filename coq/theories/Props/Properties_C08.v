(** C08 — Mailbox communications are exactly-once, FIFO and intact.
    Only statements; the model is SGV.Kernel.Mailbox (CommImpl::isend/irecv, MailboxImpl::find_matching_comm,
    set_receiver, iprobe), proofs live in SGV.Kernel.MailboxProofs.  A history [ops] is any sequence of send /
    receive / set_receiver / iprobe requests on one mailbox, in the order the kernel handles them, whatever the number
    of actors, the filters (accept all | label = p | tag = k on either side), sizes and rates; blocking, asynchronous
    and detached sends are the same kernel request (CommImpl::isend).  Mailboxes do not interact. *)
From SGV Require Import Base.Tactics Kernel.Mailbox Kernel.MailboxProofs.
From Coq Require Import Permutation.
Local Open Scope Z_scope.

(* Every request is accounted for exactly once: the sends of the history are, as a multiset, the sends that were
   paired plus those still queued; the same for receives; a pair is always a send and a receive of this history that
   accept each other, and the receive obtains that send's payload and size (a pair carries the send record).
   No side condition. *)
Theorem C08_exactly_once : forall ops,
  let res := run mbox_init ops in
  Permutation (sends_of ops) (map fst (matches_of (snd res)) ++ pending_sends (fst res)) /\
  Permutation (recvs_of ops) (map snd (matches_of (snd res)) ++ pending_recvs (fst res)) /\
  (forall s r, In (s, r) (matches_of (snd res)) ->
     In s (sends_of ops) /\ In r (recvs_of ops) /\ compat s r = true).
Proof. exact exactly_once. Qed.
Print Assumptions C08_exactly_once.

Theorem C08_no_duplicate_delivery : forall ops,
  NoDup (map cid (sends_of ops)) -> NoDup (map cid (recvs_of ops)) ->
  let ms := matches_of (snd (run mbox_init ops)) in
  NoDup (map cid (map fst ms)) /\ NoDup (map cid (map snd ms)).
Proof. exact no_duplicate_delivery. Qed.
Print Assumptions C08_no_duplicate_delivery.

(* FULL STATEMENT (refuted below): the three theorems that follow without the hypothesis
   [no_pending_send_at_set_receiver].  What is missing: histories in which set_receiver is called while a send is
   queued in the mailbox (KNOWN_FINDINGS: set-receiver-with-pending-send). *)

(* A receive obtains the oldest pending send that both sides accept, and is queued only when there is none. *)
Theorem C08_oldest_accepted_partial : forall pre r post,
  wf 0 (pre ++ ORecv r :: post) ->
  no_pending_send_at_set_receiver mbox_init (pre ++ ORecv r :: post) = true ->
  let m := fst (run mbox_init pre) in recv_outcome m r (snd (step m (ORecv r))).
Proof. exact oldest_accepted_partial. Qed.
Print Assumptions C08_oldest_accepted_partial.

(* At no time are a queued send and a queued receive that accept each other left unpaired. *)
Theorem C08_no_missed_match_partial : forall ops,
  wf 0 ops -> no_pending_send_at_set_receiver mbox_init ops = true ->
  let m := fst (run mbox_init ops) in
  forall s r, In s (pending_sends m) -> In r (pending_recvs m) -> compat s r = false.
Proof. exact no_missed_match_partial. Qed.
Print Assumptions C08_no_missed_match_partial.

(* Messages of one sender to one mailbox (same label, tag and filter) are paired in send order: when the later one is
   paired, the earlier one has been paired before. *)
Theorem C08_pairwise_fifo_partial : forall ops,
  wf 0 ops -> no_pending_send_at_set_receiver mbox_init ops = true ->
  forall s1 s2, In s1 (sends_of ops) -> sender_equiv s1 s2 -> cid s1 < cid s2 ->
  forall l1 r2 l2, matches_of (snd (run mbox_init ops)) = l1 ++ (s2, r2) :: l2 -> exists r1, In (s1, r1) l1.
Proof. exact pairwise_fifo_partial. Qed.
Print Assumptions C08_pairwise_fifo_partial.

(* the side condition holds for every mailbox without set_receiver and for every mailbox whose permanent receiver is
   declared before any traffic: there the three theorems above are the full statement *)
Theorem C08_side_condition_ordinary : forall ops m,
  no_set_receiver ops = true -> no_pending_send_at_set_receiver m ops = true.
Proof. exact no_set_receiver_side. Qed.
Print Assumptions C08_side_condition_ordinary.
Theorem C08_side_condition_receiver_first : forall p ops,
  no_set_receiver ops = true -> no_pending_send_at_set_receiver mbox_init (OSetRecv p :: ops) = true.
Proof. exact set_receiver_first_side. Qed.
Print Assumptions C08_side_condition_receiver_first.

(* the code as it stands violates FIFO / oldest-first outside the side condition: put 1; set_receiver; put 2; get; get
   pairs the first get with put 2 (done_comm_queue_ is searched first) *)
Theorem C08_fifo_refuted :
  wf 0 cx_ops /\ In cx_s1 (sends_of cx_ops) /\ sender_equiv cx_s1 cx_s2 /\ cid cx_s1 < cid cx_s2 /\
  matches_of (snd (run mbox_init cx_ops)) = [] ++ (cx_s2, cx_r3) :: [(cx_s1, cx_r4)].
Proof. exact fifo_refuted. Qed.
Print Assumptions C08_fifo_refuted.
(* ... and a receive can be left waiting while a send it accepts sits in comm_queue_ *)
Theorem C08_missed_match_refuted :
  wf 0 cy_ops /\ let m := fst (run mbox_init cy_ops) in
  In cy_s1 (pending_sends m) /\ In cy_r3 (pending_recvs m) /\ compat cy_s1 cy_r3 = true.
Proof. exact missed_match_refuted. Qed.
Print Assumptions C08_missed_match_refuted.

(* iprobe changes neither queue nor the receiver *)
Theorem C08_iprobe_pure_on_queues : forall m c, fst (step m (OProbe c)) = m.
Proof. exact iprobe_pure. Qed.
Print Assumptions C08_iprobe_pure_on_queues.

(* the oracle run on implementation logs is sound for the relational reading of the property text *)
Theorem C08_oracle_once_sound : forall ops dels, log_once ops dels = true -> Spec_once ops dels.
Proof. exact oracle_once_sound. Qed.
Print Assumptions C08_oracle_once_sound.
Theorem C08_oracle_oldest_sound : forall ops dels, log_oldest ops dels = true -> Spec_oldest ops dels.
Proof. exact oracle_oldest_sound. Qed.
Print Assumptions C08_oracle_oldest_sound.
Theorem C08_oracle_no_missed_sound : forall ops dels, log_no_missed ops dels = true -> Spec_no_missed ops dels.
Proof. exact oracle_no_missed_sound. Qed.
Print Assumptions C08_oracle_no_missed_sound.

(* hypotheses are satisfiable on a non-trivial history: permanent receiver declared first, filters on both sides,
   two senders; the tagged receive overtakes nothing it does not accept *)
Definition nv_ops :=
  [OSetRecv (Some 2);
   OSend (mkComm 1 0 0 5 FAll 1 100); OSend (mkComm 2 1 1 6 FAll 2 200); OSend (mkComm 3 0 0 5 FAll 3 300);
   ORecv (mkComm 4 2 2 0 (FTag 6) 0 0); ORecv (mkComm 5 2 2 0 (FLabel 0) 0 0); ORecv (mkComm 6 2 2 0 FAll 0 0);
   ORecv (mkComm 7 2 2 0 (FTag 9) 0 0); OSend (mkComm 8 1 1 9 (FLabel 2) 8 10)].
Example C08_nonvacuous :
  wf 0 nv_ops /\ no_pending_send_at_set_receiver mbox_init nv_ops = true /\
  map (fun p => (cid (fst p), cid (snd p))) (matches_of (snd (run mbox_init nv_ops))) = [(2, 4); (1, 5); (3, 6); (8, 7)] /\
  sender_equiv (mkComm 1 0 0 5 FAll 1 100) (mkComm 3 0 0 5 FAll 3 300).
Proof. repeat split; vm_compute; intuition congruence. Qed.
