(** C41 — Reported counter-examples are replayable: the recorded path survives RecordTrace::to_string followed by the
    RecordTrace(string) constructor.  Only statements; proofs in SGV.Mc.RecordProofs. *)
From Coq Require Import NArith.
From SGV Require Import Base.Tactics Mc.Record Mc.RecordProofs.
Local Open Scope Z_scope.

(* any non-empty path, of any length, with actor ids and times_considered of any size *)
Theorem C41_path_codec : forall p, p <> [] -> parse (to_string p) = Some p.
Proof. exact path_codec. Qed.
Print Assumptions C41_path_codec.

(* the corner the statement excludes: a failure before the first transition is reported with the empty path, which the
   constructor refuses ("Could not parse record path"); simgrid then treats model-check/replay:'' as "no replay" *)
Theorem C41_empty_path_rejected : to_string [] = [] /\ parse [] = None.
Proof. exact empty_path. Qed.
Print Assumptions C41_empty_path_rejected.

Example C41_nonvacuous :
  to_string [(1%N, 0%N); (3%N, 2%N); (10%N, 0%N)] = [49; 59; 51; 47; 50; 59; 49; 48] /\
  parse [49; 59; 51; 47; 50; 59; 49; 48] = Some [(1%N, 0%N); (3%N, 2%N); (10%N, 0%N)].
Proof. split; vm_compute; reflexivity. Qed.
