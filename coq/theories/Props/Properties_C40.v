(** C40 — ODPOR explores each Mazurkiewicz class once: the decision procedure for the equivalence.
    Only statements; model SGV.Mc.Mazur, proofs SGV.Mc.MazurProofs.

    Words are executions (lists of letters = transition occurrences); [swap1 dep] swaps two adjacent letters with
    [dep a b = false]; [equiv dep] is the equivalence it generates (reflexive-symmetric-transitive closure).  The
    dependency relation is arbitrary, only symmetric and reflexive (the checker's dispatch_depends is: same actor => true,
    and it symmetrises by construction). *)
From SGV Require Import Base.Tactics Mc.Mazur Mc.MazurProofs.
Local Open Scope nat_scope.

(* two executions have the same normal form exactly when they are equivalent: counting distinct normal forms counts
   the Mazurkiewicz classes *)
Theorem C40_normal_form_complete : forall dep, (forall a b, dep a b = dep b a) -> (forall a, dep a a = true) ->
  forall t1 t2, nf dep t1 = nf dep t2 <-> equiv dep t1 t2.
Proof. exact nf_complete. Qed.
Print Assumptions C40_normal_form_complete.

(* the normal form is a member of the class *)
Theorem C40_normal_form_in_class : forall dep, (forall a b, dep a b = dep b a) -> (forall a, dep a a = true) ->
  forall t, equiv dep t (nf dep t).
Proof. exact nf_equiv. Qed.
Print Assumptions C40_normal_form_in_class.

(* MazurkiewiczTraces::are_equivalent (the checker's debug-optimality test) decides the same relation *)
Theorem C40_checker_test_is_equivalence : forall dep, (forall a b, dep a b = dep b a) -> (forall a, dep a a = true) ->
  forall fuel u v, length u < fuel -> (are_equivalent dep fuel u v = true <-> equiv dep u v).
Proof. exact are_equivalent_spec. Qed.
Print Assumptions C40_checker_test_is_equivalence.

(* non-vacuity: letters 0..3, 0-1 and 2-3 dependent (two actors), everything else independent *)
Definition ex_dep (a b : nat) : bool := (a / 2 =? b / 2).
Example C40_nonvacuous :
  (forall a b, ex_dep a b = ex_dep b a) /\ (forall a, ex_dep a a = true) /\
  nf ex_dep [2; 0; 3; 1] = [0; 1; 2; 3] /\ nf ex_dep [0; 2; 1; 3] = [0; 1; 2; 3] /\
  nf ex_dep [1; 0; 2; 3] = [1; 0; 2; 3] /\                       (* 1 before 0: another class *)
  are_equivalent ex_dep 5 [2; 0; 3; 1] [0; 2; 1; 3] = true /\ are_equivalent ex_dep 5 [1; 0; 2; 3] [0; 1; 2; 3] = false.
Proof.
  split; [|split].
  - intros a b. unfold ex_dep. apply Nat.eqb_sym.
  - intros a. unfold ex_dep. apply Nat.eqb_refl.
  - vm_compute. repeat split.
Qed.
