(** C47 — Paje traces are well formed.  Only statements; proofs live in SGV.Instr.PajeProofs. *)
From Coq Require Import Sorting.Sorted Permutation.
From SGV Require Import Base.Tactics Instr.Paje Instr.PajeProofs.
Local Open Scope Z_scope.

(* the checker decides the relational specification (types/values/containers declared before use, no use of a container
   that is not alive, non-decreasing timestamps, no pop on an empty stack) *)
Theorem C47_checker_sound_complete : forall tr, paje_ok tr = true <-> WellFormed tr.
Proof. exact paje_ok_sound_complete. Qed.
Print Assumptions C47_checker_sound_complete.

(* the diagnostic run used on the trace files reports nothing exactly when the checker accepts *)
Theorem C47_complaints_iff : forall tr s i, complaints s i tr = [] <-> paje_run s tr = true.
Proof. exact complaints_nil_iff. Qed.
Print Assumptions C47_complaints_iff.

(* what well-formedness gives: the timestamps of the file are sorted *)
Theorem C47_wellformed_timestamps_sorted : forall tr, WellFormed tr -> StronglySorted Z.le (stamps tr).
Proof. intros tr H. exact (proj1 (wf_timestamps_sorted tr init H)). Qed.
Print Assumptions C47_wellformed_timestamps_sorted.

(* ... and a container that is not alive (never created, or destroyed) is not used unless created (again) first *)
Theorem C47_wellformed_no_use_unless_alive : forall tr s c pre e post,
  WF s tr -> ~ Alive s c -> tr = pre ++ e :: post -> uses e c -> exists x, In x pre /\ creates x c.
Proof. exact wf_no_use_unless_alive. Qed.
Print Assumptions C47_wellformed_no_use_unless_alive.

(* the buffer: insertion is stable and keeps the buffer sorted *)
Theorem C47_buffer_sorted : forall (A : Type) (e : Z * A) buf, sorted A buf -> sorted A (insert A e buf) /\ Permutation (e :: buf) (insert A e buf).
Proof. intros A e buf H. split; [apply insert_sorted; exact H|apply insert_perm]. Qed.
Print Assumptions C47_buffer_sorted.

Theorem C47_buffer_stable : forall (A : Type) (e : Z * A) buf,
  exists l1 l2, buf = l1 ++ l2 /\ insert A e buf = l1 ++ e :: l2 /\ Forall (fun x => fst e < fst x) l2 /\
                match rev l1 with [] => True | x :: _ => fst x <= fst e end.
Proof. exact insert_spec. Qed.
Print Assumptions C47_buffer_stable.

(* the file written by any sequence of insertions and (forced or not) dumps is sorted PROVIDED no event is inserted
   with a timestamp smaller than one already written ([ops_ok]).
   FULL STATEMENT (refuted, C47_dump_not_monotone_refuted): the same without [ops_ok]. Missing: SimGrid creates
   resource-utilisation events in the past and forces dumps at container destructions (recorded finding). *)
Theorem C47_dump_monotone_partial : forall (A : Type) ops,
  ops_ok A [] [] ops -> sorted A (snd (brun A [] [] ops)).
Proof.
  intros A ops H. apply (dump_monotone A ops [] []); [constructor|constructor|intros x y []|exact H].
Qed.
Print Assumptions C47_dump_monotone_partial.

Theorem C47_dump_not_monotone_refuted : exists ops : list (bop Z), ~ sorted Z (snd (brun Z [] [] ops)).
Proof. exact dump_not_monotone_refuted. Qed.
Print Assumptions C47_dump_not_monotone_refuted.

Example C47_nonvacuous :
  paje_ok [DefType 0 1 0; DefType 2 2 1; DefValue 3 2; Create 0 1 1 0; Push 5 2 1 3; Pop 7 2 1; Destroy 7 1 1] = true /\
  paje_ok [DefType 0 1 0; DefType 2 2 1; DefValue 3 2; Create 0 1 1 0; Pop 7 2 1] = false /\
  ops_ok Z [] [] [Ins Z (3, 0); Ins Z (1, 1); Dump Z false 2; Ins Z (2, 2); Dump Z true 9] /\
  map snd (snd (brun Z [] [] [Ins Z (3, 0); Ins Z (1, 1); Dump Z false 2; Ins Z (2, 2); Dump Z true 9])) = [1; 2; 0].
Proof. repeat split; try (vm_compute; reflexivity); cbn; intros; try tauto; try lia.
  destruct H as [<-|[]]; cbn; lia. Qed.
