(** C17 — Selective (lazy) solving equals full recomputation.
    Only statements.  The model is SGV.Lmm.Selective: the selective-update members of lmm::System (modified_constraint_set,
    Variable::visited_, visited_counter_ modulo 2^32) and every place of src/kernel/lmm/System.cpp that updates them
    (update_modified_cnst_set, update_modified_cnst_set_rec, update_modified_cnst_set_from_variable,
    remove_all_modified_cnst_set, make_constraint_inactive; called from expand, var_free, update_variable_bound,
    update_variable_penalty, update_constraint_bound, enable_var, disable_var, solve), on top of the concurrency model
    SGV.Lmm.System.  [x_run all_fixes k0 l] is the state after the history [l] of API calls on a fresh system whose
    visited_counter_ starts at [k0]; nothing bounds the length of [l], so the counter wraps in the histories covered.
    [XAge t] is a test device (the counter is moved to [t] as solves of an unrelated constraint would do), also covered.
    Proofs: SGV.Lmm.SelectiveProofs.

    What is NOT proved: that the rates computed by MaxMin on the modified set alone are numerically those of a full
    recomputation.  That needs uniqueness of the max-min characterisation (C16_unique, not available); the full statement is
      forall l, maxmin_solve (restriction to x_mod) agrees with maxmin_solve (whole system) on the variables of x_mod.
    It is checked by the correspondence of checks/C17.py (selective / full / wrapped counter / fresh system at every solve).
    C17_local_partial and C17_selective_eq_full_partial give the part that does not need uniqueness. *)
From SGV Require Import Base.Tactics Lmm.System Lmm.SystemProofs Lmm.Selective Lmm.SelectiveProofs Lmm.Maxmin.
From Coq Require Import QArith.
Local Open Scope Z_scope.

(* after any history the modified set is closed: a variable enabled on a constraint of the set has all its constraints in it *)
Theorem C17_modified_closed : forall k0, 1 <= k0 < W32 -> forall l, let x := x_run all_fixes k0 l in
  forall c v c', In c (x_mod x) -> In v (c_en (s_cn (x_base x) c)) -> In c' (map fst (v_elems (s_var (x_base x) v))) -> In c' (x_mod x).
Proof. exact modified_closed. Qed.
Print Assumptions C17_modified_closed.

(* i.e. it is a union of connected components of the graph "some variable is enabled on both constraints" *)
Theorem C17_modified_components : forall k0, 1 <= k0 < W32 -> forall l, let x := x_run all_fixes k0 l in
  forall c c', (exists v, In v (c_en (s_cn (x_base x) c)) /\ In v (c_en (s_cn (x_base x) c'))) -> (In c (x_mod x) <-> In c' (x_mod x)).
Proof. exact modified_components. Qed.
Print Assumptions C17_modified_components.

(* it contains the constraints touched by the API calls since the last solve (Selective.touched_by / x_var_free; a constraint
   that lost all its elements is forgotten, as make_constraint_inactive does) *)
Theorem C17_touched_in_set : forall k0, 1 <= k0 < W32 -> forall l, let x := x_run all_fixes k0 l in
  forall c, In c (x_touched x) -> In c (x_mod x).
Proof. exact touched_in_set. Qed.
Print Assumptions C17_touched_in_set.

(* the set is duplicate-free and made of existing constraints; the counter never is 0 *)
Theorem C17_set_wellformed : forall k0, 1 <= k0 < W32 -> forall l, let x := x_run all_fixes k0 l in
  NoDup (x_mod x) /\ (forall c, In c (x_mod x) -> (c < s_nc (x_base x))%nat) /\ 1 <= x_cnt x < W32.
Proof. exact set_wellformed. Qed.
Print Assumptions C17_set_wellformed.

(* the bookkeeping never changes the system underneath: it is the System.v state of the same history (C15/C18 apply) *)
Theorem C17_base_is_system : forall k0, 1 <= k0 < W32 -> forall l, x_base (x_run all_fixes k0 l) = run_ops sys0 (map proj l).
Proof. exact base_is_system. Qed.
Print Assumptions C17_base_is_system.

(* locality: when two groups of constraints share no consuming variable, an allocation has the bottleneck property on the
   whole system iff it has it on each group *)
Theorem C17_local_partial : forall tol l1 l2 vars val, separated l1 l2 vars ->
  bottleneck_b tol (mkMsys (l1 ++ l2) vars) val = bottleneck_b tol (mkMsys l1 vars) val && bottleneck_b tol (mkMsys l2 vars) val.
Proof. exact bottleneck_split. Qed.
Print Assumptions C17_local_partial.

(* hence: rates that are feasible and bottlenecked on the re-solved group, kept rates that were so on the other group, give
   an allocation that is feasible and bottlenecked on the whole system — the characterisation that a full recomputation meets *)
Theorem C17_selective_eq_full_partial : forall tol l1 l2 vars val, separated l1 l2 vars ->
  (alloc_feasible_b tol (mkMsys l1 vars) val && bottleneck_b tol (mkMsys l1 vars) val = true /\
   alloc_feasible_b tol (mkMsys l2 vars) val && bottleneck_b tol (mkMsys l2 vars) val = true) <->
  alloc_feasible_b tol (mkMsys (l1 ++ l2) vars) val && bottleneck_b tol (mkMsys (l1 ++ l2) vars) val = true.
Proof. exact selective_char_split. Qed.
Print Assumptions C17_selective_eq_full_partial.

(* the checkers used on the implementation's dumps decide closure *)
Theorem C17_oracle_sound_complete : forall en el M, find_open en el M = None <->
  (forall c v c', In c M -> In v (en c) -> In c' (el v) -> In c' M).
Proof. exact find_open_none_iff. Qed.
Print Assumptions C17_oracle_sound_complete.

(* the code before each of the three repairs (c05940b907, e1052b4b48, 142d91a19d) leaves a non-closed set; the current code does not *)
Theorem C17_pinned_code_refuted :
  closed_after (mkFixes false true true) witness_from = false /\ closed_after all_fixes witness_from = true /\
  closed_after (mkFixes true false true) witness_expand = false /\ closed_after all_fixes witness_expand = true /\
  closed_after (mkFixes true true false) witness_wrap = false /\ closed_after all_fixes witness_wrap = true.
Proof. exact pinned_refuted. Qed.
Print Assumptions C17_pinned_code_refuted.

(* non-vacuity: the counter started 2 solves before its wrap; a change of one constraint drags in the constraint that shares a
   variable with it and not the third one; after the wrap the counter is 1 again and the same holds *)
Example C17_nonvacuous :
  let h := [XNewC (-1) true; XNewC (-1) true; XNewC (-1) true; XNewV 1; XNewV 1; XExpand 0 0 1; XExpand 1 0 1; XExpand 2 1 1; XSolve;
            XCBound 0] in
  let x1 := x_run all_fixes (W32 - 2) h in
  let x2 := x_run all_fixes (W32 - 2) (h ++ [XSolve; XCBound 1]) in
  (x_mod x1 = [0%nat; 1%nat] /\ x_cnt x1 = W32 - 1 /\ c_en (s_cn (x_base x1) 0) = [0%nat] /\ x_touched x1 = [0%nat]) /\
  (x_mod x2 = [1%nat; 0%nat] /\ x_cnt x2 = 1 /\ x_stamp x2 0%nat = 1) /\
  separated [mkMcn 1 true [(0%nat, 1%Q)]] [mkMcn 1 true [(1%nat, 1%Q)]] [mkMvar 1 (-1); mkMvar 1 (-1)].
Proof.
  vm_compute. repeat split; try reflexivity. intros v [A B]. destruct v as [|[|v]]; vm_compute in A, B; discriminate.
Qed.
