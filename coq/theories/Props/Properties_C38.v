(** C38 — Model-checker reductions are sound.
    Only statements; proofs live in SGV.Mc.ExploreProofs and SGV.Mc.SleepSet.
    What is proved: (1) the reference explorer (the oracle against which simgrid-mc is compared, program by program) returns
    exactly the outcomes of the reachable terminal states of the reference semantics and flags a deadlock / an assertion
    failure iff one is reachable (for every program and every fuel that suffices); (2) the classical sleep-set theorem on an
    abstract transition system with a commuting independence relation.  The race analyses of DPOR/SDPOR/ODPOR/UDPOR are not
    mechanised: their soundness is checked per generated program by checks/C38.py. *)
From SGV Require Import Base.Tactics Mc.McRef Mc.Explore Mc.ExploreProofs Mc.SleepSet.
Local Open Scope Z_scope.

(* the visited set is exactly the set of reachable states *)
Theorem C38_ref_states : forall fuel P R,
  explore fuel P = Some R -> forall s, In s (r_states R) <-> reachable P s.
Proof. exact explore_states. Qed.
Print Assumptions C38_ref_states.

(* the reported outcomes are exactly the outcomes of the reachable terminal states *)
Theorem C38_ref_complete : forall fuel P R,
  explore fuel P = Some R -> forall o, reachable_terminal P o <-> In o (r_outcomes R).
Proof. exact explore_outcomes. Qed.
Print Assumptions C38_ref_complete.

Theorem C38_ref_deadlock : forall fuel P R,
  explore fuel P = Some R -> (r_deadlock R = true <-> deadlock_reachable P).
Proof. exact explore_deadlock. Qed.
Print Assumptions C38_ref_deadlock.

Theorem C38_ref_failure : forall fuel P R,
  explore fuel P = Some R -> (r_failure R = true <-> failure_reachable P).
Proof. exact explore_failure. Qed.
Print Assumptions C38_ref_failure.

(* programs that leave the modelled fragment (unlock by a non-owner, join on oneself, ...) are recognised and skipped *)
Theorem C38_ref_invalid : forall fuel P R,
  explore fuel P = Some R -> (r_invalid R = true <-> invalid_reachable P).
Proof. exact explore_invalid. Qed.
Print Assumptions C38_ref_invalid.

(* sleep sets: with an independence relation that commutes and neither enables nor disables, the sleep-set pruned search
   visits a dead state (terminal or deadlock) iff it is reachable *)
Theorem C38_sleepset_sound :
  forall (St T : Type) (T_eq_dec : forall a b : T, {a = b} + {a <> b}) (step : St -> T -> option St) (en : St -> list T),
  (forall s t, In t (en s) <-> step s t <> None) ->
  forall indep : T -> T -> bool,
  (forall a b, indep a b = indep b a) ->
  (forall s a b s1 s2, indep a b = true -> step s a = Some s1 -> step s b = Some s2 ->
                       exists s3, step s1 b = Some s3 /\ step s2 a = Some s3) ->
  (forall s a b s1 s3, indep a b = true -> step s a = Some s1 -> step s1 b = Some s3 -> exists s2, step s b = Some s2) ->
  forall s d, dead St T en d ->
    ((exists w, run St T step s w = Some d) <-> visits St T step en indep s [] d).
Proof. exact sleep_sets_preserve_dead_states. Qed.
Print Assumptions C38_sleepset_sound.

(* ... and, with a non-empty sleep set, as long as no sleeping transition could have been moved to the front of the path *)
Theorem C38_sleepset_complete :
  forall (St T : Type) (T_eq_dec : forall a b : T, {a = b} + {a <> b}) (step : St -> T -> option St) (en : St -> list T),
  (forall s t, In t (en s) <-> step s t <> None) ->
  forall indep : T -> T -> bool,
  (forall a b, indep a b = indep b a) ->
  (forall s a b s1 s2, indep a b = true -> step s a = Some s1 -> step s b = Some s2 ->
                       exists s3, step s1 b = Some s3 /\ step s2 a = Some s3) ->
  (forall s a b s1 s3, indep a b = true -> step s a = Some s1 -> step s1 b = Some s3 -> exists s2, step s b = Some s2) ->
  forall w s Z d, run St T step s w = Some d -> dead St T en d ->
    (forall z, In z Z -> initb T T_eq_dec indep z w = false) -> visits St T step en indep s Z d.
Proof. exact sleep_set_search_complete. Qed.
Print Assumptions C38_sleepset_complete.

(** Non-vacuity *)
(* two actors locking two mutexes in opposite orders: 44 reachable states, a reachable deadlock, two outcomes *)
Definition ex_prog : prog := decode_prog
  [2; 1;1;1;1; 2;2;2;2; 5; 1;0;0; 1;1;0; 21;0;1; 2;1;0; 2;0;0;  5; 1;1;0; 1;0;0; 21;0;2; 2;0;0; 2;1;0].
Example C38_ref_nonvacuous :
  exists R, explore 1000 ex_prog = Some R /\ length (r_states R) = 44%nat /\ r_deadlock R = true /\ r_failure R = false
            /\ In [0;0;0;0;5;0;0;0] (r_outcomes R) /\ In [0;0;0;0;7;0;0;0] (r_outcomes R).
Proof. eexists. split; [vm_compute; reflexivity|]. vm_compute. repeat split; auto. Qed.

(* the hypotheses of the sleep-set theorem are satisfiable: two independent one-shot transitions *)
Example C38_sleepset_nonvacuous :
  visits (bool * bool) bool ex_step ex_en ex_indep (false, false) [] (true, true) /\
  dead (bool * bool) bool ex_en (true, true).
Proof.
  split; [|reflexivity].
  apply (proj1 (C38_sleepset_sound _ _ Bool.bool_dec ex_step ex_en ex_en_spec ex_indep ex_indep_sym ex_indep_comm
                  ex_indep_back (false, false) (true, true) eq_refl)).
  exists [true; false]. reflexivity.
Qed.
