(** C06 — Condition variable semantics.
    Only statements; model SGV.Kernel.CondVar (ConditionVariableImpl::signal/broadcast/acquire_async, the acquisition's
    wait_for/finish/cancel, with its own small non-recursive mutex: FIFO hand-off), proofs in SGV.Kernel.CondVarProofs.
    A request is handled at a date [d]: first the timers that are due fire ([fire d]), then the request itself
    ([apply_op]).  All theorems hold for every state [s] (hence every history and every number of actors). *)
From SGV Require Import Base.Tactics Kernel.CondVar Kernel.CondVarProofs.
Local Open Scope Z_scope.

(* notify_one with nobody waiting is lost: nothing changes *)
Theorem C06_notify_one_lost : forall s, cwait s = [] -> signal s = (s, []).
Proof. exact notify_one_lost. Qed.
Print Assumptions C06_notify_one_lost.

(* notify_one wakes the longest-waiting actor (head of the FIFO) and nobody else; the woken actor re-locks the mutex:
   it returns at once when the mutex is free, otherwise it queues on the mutex *)
Theorem C06_notify_one : forall s a t r, cwait s = (a, t) :: r ->
  let s' := fst (signal s) in let o := snd (signal s) in
  cwait s' = r /\
  match owner s with
  | None => owner s' = Some a /\ mwait s' = mwait s /\ o = [WaitReturn a false]
  | Some b => owner s' = Some b /\ mwait s' = mwait s ++ [(a, MRelock false)] /\ o = []
  end.
Proof. exact notify_one_wakes_head. Qed.
Print Assumptions C06_notify_one.

(* notify_all wakes exactly the actors waiting at that moment, in FIFO order, and leaves the queue empty *)
Theorem C06_notify_all : forall s,
  let s' := fst (broadcast s) in let o := snd (broadcast s) in
  cwait s' = [] /\
  match owner s, cwait s with
  | Some b, l => owner s' = Some b /\ mwait s' = mwait s ++ relockers l /\ o = []
  | None, [] => s' = s /\ o = []
  | None, (a, _) :: r => owner s' = Some a /\ mwait s' = mwait s ++ relockers r /\ o = [WaitReturn a false]
  end.
Proof. exact notify_all_wakes_all. Qed.
Print Assumptions C06_notify_all.

(* a wait (notified or timed out) or a lock returns only to the actor that owns the mutex at that moment *)
Theorem C06_return_holds_mutex_timers : forall d s x,
  In x (grants (snd (fire d s))) -> owner (fst (fire d s)) = Some x.
Proof. exact timers_return_to_owner. Qed.
Print Assumptions C06_return_holds_mutex_timers.
Theorem C06_return_holds_mutex_request : forall dlf s d o x,
  In x (grants (snd (apply_op dlf s d o))) -> owner (fst (apply_op dlf s d o)) = Some x.
Proof. exact request_returns_to_owner. Qed.
Print Assumptions C06_return_holds_mutex_request.
Theorem C06_return_carries_queued_flag : forall s b k r, mwait s = (b, k) :: r ->
  snd (munlock s) = [ret b k] /\ owner (fst (munlock s)) = Some b.
Proof. exact unlock_returns_queued_flag. Qed.
Print Assumptions C06_return_carries_queued_flag.

(* wait_for(t) reports a timeout iff it was not notified within t:
   - when a request is handled at date d, exactly the waiters whose deadline is <= d have left the queue through their
     timer, the others are still queued in the same order;
   - those that leave through a timer report "timeout", those that leave through notify_one/notify_all report "no timeout";
   - hence a notify at date d can only wake waiters whose deadline is > d. *)
Theorem C06_wait_for_timers_exact : forall d s, cwait (fst (fire d s)) = keep d (cwait s).
Proof. exact timers_fire_exactly_when_due. Qed.
Print Assumptions C06_wait_for_timers_exact.
Theorem C06_wait_for_timeout_flag : forall d s,
  Forall (flag_ok true) (snd (fire d s)) /\
  exists added, mwait (fst (fire d s)) = mwait s ++ added /\ Forall (qflag_ok true) added.
Proof. exact timers_report_timeout. Qed.
Print Assumptions C06_wait_for_timeout_flag.
Theorem C06_wait_for_notified_flag : forall s,
  Forall (flag_ok false) (snd (signal s)) /\ Forall (flag_ok false) (snd (broadcast s)) /\
  (exists added, mwait (fst (broadcast s)) = mwait s ++ added /\ Forall (qflag_ok false) added).
Proof. exact notify_reports_no_timeout. Qed.
Print Assumptions C06_wait_for_notified_flag.
Theorem C06_wait_for_notified_before_deadline : forall s d a D r,
  cwait (fst (fire d s)) = (a, Some D) :: r -> d < D.
Proof. exact notified_before_deadline. Qed.
Print Assumptions C06_wait_for_notified_before_deadline.

(* the kernel as pinned (`timeout > 0`) never arms the timer of wait_for(0): lock; wait_for(0); 100 ticks later the
   caller is still queued and never returned.  Repaired code: it returns "timeout" holding the mutex. *)
Theorem C06_wait_for_zero_refuted :
  map fst (cwait (fst (crun_gen deadline_pinned cv_init cz_hist))) = [1] /\
  flat_map (fun oo => grants (fst oo) ++ grants (snd oo)) (snd (crun_gen deadline_pinned cv_init cz_hist)) = [1].
Proof. exact wait_for_zero_refuted. Qed.
Print Assumptions C06_wait_for_zero_refuted.
Theorem C06_wait_for_zero_repaired :
  cwait (fst (crun cv_init cz_hist)) = [] /\
  snd (crun cv_init cz_hist) = [([], [Acquired 1]); ([], []); ([WaitReturn 1 true], [])].
Proof. exact wait_for_zero_repaired. Qed.
Print Assumptions C06_wait_for_zero_repaired.

(* a history exercising every rule: two waiters, one with a timeout that fires while the mutex is held, notify_one then
   notify_all, FIFO hand-off of the mutex *)
Example C06_nonvacuous :
  snd (crun cv_init [(0, CLock 1); (0, CWait 1 None); (1, CLock 2); (1, CWait 2 (Some 5)); (2, CLock 3); (2, CWait 3 None);
                     (3, CLock 4); (7, CNotifyOne); (8, CNotifyAll); (9, CUnlock 4); (10, CUnlock 2); (11, CUnlock 1)]) =
  [([], [Acquired 1]); ([], []); ([], [Acquired 2]); ([], []); ([], [Acquired 3]); ([], []); ([], [Acquired 4]);
   ([], []); ([], []); ([], [WaitReturn 2 true]); ([], [WaitReturn 1 false]); ([], [WaitReturn 3 false])].
Proof. vm_compute. reflexivity. Qed.
