(** C42 — Happens-before equals transitive dependency; racing events are exactly the races.
    Only statements; the model is SGV.Mc.Hb (odpor::Execution), proofs live in SGV.Mc.HbProofs.

    An execution is any sequence of transitions; the code only observes the actor [aid h] of the h-th transition and
    [dep a b] = contents_[a].transition->dispatch_depends(transition b) for a < b, so the theorems quantify over
    arbitrary such functions (any length n, any number of actors).  The single hypothesis is the first statement of
    Transition::dispatch_depends: two transitions of the same actor are dependent. *)
From SGV Require Import Base.Tactics Mc.Hb Mc.HbProofs.
From Coq Require Import Relations.
Local Open Scope nat_scope.

(* dep_before dep a b := a < b /\ dep a b = true ;  same_actor_dependent aid dep n := forall a<b<n of one actor, dep a b *)

(* e1 --> e2 as answered by the clock vectors  <->  e1 occurs before e2 and a chain of pairwise dependent,
   increasing events leads from e1 to e2 *)
Theorem C42_hb_iff : forall aid dep n, same_actor_dependent aid dep n ->
  forall e1 e2, e2 < n ->
  (hb aid (exec_of aid dep n) e1 e2 = true <-> e1 < e2 /\ clos_trans nat (dep_before dep) e1 e2).
Proof. exact C42_hb. Qed.
Print Assumptions C42_hb_iff.

(* get_racing_events_of(t) = the events e of other actors with e --> t and no event in between *)
Theorem C42_racing_exact : forall aid dep n, same_actor_dependent aid dep n ->
  forall t e, t < n ->
  (In e (racing aid (exec_of aid dep n) t) <->
   aid e <> aid t /\ clos_trans nat (dep_before dep) e t /\
   forall m, ~ (clos_trans nat (dep_before dep) e m /\ clos_trans nat (dep_before dep) m t)).
Proof. exact C42_racing. Qed.
Print Assumptions C42_racing_exact.

(* the same set in the words of the property: maximal (for -->) predecessors of t among the events of other actors,
   not already ordered before the previous event of t's actor *)
Theorem C42_racing_maximal_predecessors : forall aid dep n, same_actor_dependent aid dep n ->
  forall t e, t < n ->
  (In e (racing aid (exec_of aid dep n) t) <->
   aid e <> aid t /\ clos_trans nat (dep_before dep) e t /\
   (forall p, prev_on aid (aid t) t = Some p -> ~ clos_trans nat (dep_before dep) e p) /\
   (forall e', aid e' <> aid t -> clos_trans nat (dep_before dep) e' t -> ~ clos_trans nat (dep_before dep) e e')).
Proof. exact C42_racing_max. Qed.
Print Assumptions C42_racing_maximal_predecessors.

(* prev_on is "the previous event of the same actor" *)
Theorem C42_prev_on_spec : forall aid t p, prev_on aid (aid t) t = Some p <->
  p < t /\ aid p = aid t /\ forall k, p < k -> k < t -> aid k <> aid t.
Proof. exact C42_prev_on. Qed.
Print Assumptions C42_prev_on_spec.

(* the list returned has no duplicates *)
Theorem C42_racing_nodup : forall aid dep n t, NoDup (racing aid (exec_of aid dep n) t).
Proof. exact racing_nodup. Qed.
Print Assumptions C42_racing_nodup.

(* non-vacuity: 3 actors, 6 events; 0:a0 1:a1 2:a2 3:a0 4:a1 5:a2; besides program order, 0-1, 1-2 and 3-5 are dependent *)
Definition ex_aid (h : nat) : nat := h mod 3.
Definition ex_dep (a b : nat) : bool :=
  (a mod 3 =? b mod 3) || existsb (fun p => (fst p =? a) && (snd p =? b)) [(0, 1); (1, 2); (3, 5)].
Example C42_nonvacuous :
  same_actor_dependent ex_aid ex_dep 6 /\
  hb ex_aid (exec_of ex_aid ex_dep 6) 0 5 = true /\      (* 0 -> 1 -> 2 -> 5 *)
  hb ex_aid (exec_of ex_aid ex_dep 6) 0 2 = true /\      (* transitively only *)
  hb ex_aid (exec_of ex_aid ex_dep 6) 1 3 = false /\
  racing ex_aid (exec_of ex_aid ex_dep 6) 5 = [3] /\     (* 1 --> 2 = previous event of actor 2: not a race *)
  racing ex_aid (exec_of ex_aid ex_dep 6) 2 = [1] /\
  racing ex_aid (exec_of ex_aid ex_dep 6) 4 = [].
Proof.
  split.
  - intros a b _ _ H. unfold ex_dep. apply orb_true_iff; left. apply Nat.eqb_eq. exact H.
  - vm_compute. repeat split.
Qed.
