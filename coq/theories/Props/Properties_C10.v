(** C10 — Resource failures are reported to every live participant.  Only statements; proofs in SGV.Kernel.FailProofs.
    Scope (level fault_enumeration): the theorems are about the failure-handling step itself — given what each actor is
    blocked on when the resource goes off (the kernel's own view, dumped by the harness), who is killed, who gets which
    exception, and that nobody stays registered on an activity using the off resource — and about the oracle that judges
    every enumerated faulty run.  The engine dynamics around that step are not modelled; they are covered by the
    enumeration (every host and link, at every event date of the fault-free run and just before/after it). *)
From SGV Require Import Base.Tactics Kernel.Fail Kernel.FailProofs.
Local Open Scope Z_scope.

Theorem C10_all_waiters_answered : forall f a, a_alive (post f a) = true -> uses f (a_wait (post f a)) = false.
Proof. exact all_waiters_answered. Qed.
Print Assumptions C10_all_waiters_answered.

Theorem C10_exception_kind : forall f a, a_alive a = true -> on_failed_host f a = false -> uses f (a_wait a) = true ->
  (w_kind (a_wait a) = 4 -> expected f a = 2) /\ (w_kind (a_wait a) <> 4 -> expected f a = 3).
Proof. exact exception_kind. Qed.
Print Assumptions C10_exception_kind.

Theorem C10_on_exit_failed_true : forall f a, a_alive a = true -> (expected f a = 1 <-> on_failed_host f a = true).
Proof. exact killed_iff_on_failed_host. Qed.
Print Assumptions C10_on_exit_failed_true.

(* nobody goes on normally through an off resource: in the model a live actor blocked on an activity that uses the
   resource that goes off is killed or served an exception *)
Theorem C10_no_success_through_off_resource : forall f a, a_alive a = true -> uses f (a_wait a) = true ->
  expected f a = 1 \/ expected f a = 2 \/ expected f a = 3.
Proof. exact no_success_through_off. Qed.
Print Assumptions C10_no_success_through_off_resource.

(* the oracle accepts an observed run only if: every live actor of the failed host was killed and its on_exit saw
   failed = true; every surviving actor blocked on an activity using the off resource caught NetworkFailureException
   (communication) resp. HostFailureException (execution) at the failure date; no actor is reported blocked for ever
   (deadlock) on an activity that uses the off resource; and no operation blocked on an activity using the off resource
   returned successfully afterwards (clause_ok is defined in Kernel/FailProofs.v) *)
Theorem C10_oracle_sound : forall f l, failure_log_ok f l = true -> Forall (clause_ok f) l.
Proof. exact oracle_sound. Qed.
Print Assumptions C10_oracle_sound.

(* an activity that uses a resource that is off from the failure date to its completion must not complete successfully:
   the oracle rejects every such observation *)
Theorem C10_oracle_rejects_success_through_off : forall f o, a_alive (o_actor o) = true ->
  uses f (a_wait (o_actor o)) = true -> o_done o = true -> verdict f o <> 0.
Proof. exact oracle_rejects_success_through_off. Qed.
Print Assumptions C10_oracle_rejects_success_through_off.

Theorem C10_model_passes_oracle : forall f l, failure_log_ok f (map (obs_of_model f) l) = true.
Proof. exact model_passes_oracle. Qed.
Print Assumptions C10_model_passes_oracle.

(* non-vacuity: host 1 goes off while actor 0 (host 0) sends to actor 1 (host 1) and actor 2 (host 2) runs an
   execution on host 1: 0 gets NetworkFailure, 1 is killed, 2 gets HostFailure; a link failure hits both ends *)
Example C10_nonvacuous :
  let c := mkWait 4 0 1 [0] in
  map (expected (FHost 1)) [mkActor 0 true c; mkActor 1 true c; mkActor 2 true (mkWait 2 1 (-1) [])] = [2; 1; 3] /\
  map (expected (FLink 0)) [mkActor 0 true c; mkActor 1 true c; mkActor 2 true (mkWait 2 1 (-1) [])] = [2; 2; 0] /\
  verdict (FHost 1) (mkObs (mkActor 0 true c) false false 0 false no_wait) = 3 /\
  verdict (FHost 1) (mkObs (mkActor 0 true c) false false 0 false c) = 5 /\
  verdict (FLink 0) (mkObs (mkActor 0 true c) false false 0 true no_wait) = 6 /\
  verdict (FLink 0) (mkObs (mkActor 0 true c) false false 1 false no_wait) = 0.
Proof. vm_compute. repeat split; reflexivity. Qed.
