(** C21 — Work is conserved and capacity is respected over time.
    Only statements; proofs live in SGV.Res.ActionProofs and SGV.Res.Share.
    A history [h] is the list of (duration, rate, touched) segments the sharing solver gives to one action (any history:
    suspensions and starvation are rate 0, bound / priority / capacity changes are rate changes); eps = 0. *)
From Coq Require Import QArith List.
From SGV Require Import Res.Action Res.ActionProofs Res.Share.
Import ListNotations.
Local Open Scope Q_scope.

(* the remaining work shown after every engine step never increases and never goes below zero *)
Theorem C21_remaining_monotone : forall h cost, wf h -> 0 < cost -> nonincr cost (full_rems 0 cost h).
Proof. exact full_rems_nonincr. Qed.
Print Assumptions C21_remaining_monotone.

(* an action that completes at date T has received exactly its cost: the integral of its rate over [t0, T] is the cost,
   and at no earlier date had it already received it *)
Theorem C21_work_exact : forall h t0 cost T, wf h -> 0 < cost -> full_run 0 t0 cost h = Some T ->
  t0 <= T /\ integral h (T - t0) == cost /\ (forall y, 0 <= y -> y < T - t0 -> integral h y < cost).
Proof. exact full_char. Qed.
Print Assumptions C21_work_exact.

(* the remaining work reaches zero exactly when (and only if) the action completes *)
Theorem C21_zero_iff_completed : forall h t0 cost, wf h -> 0 < cost ->
  (exists T, full_run 0 t0 cost h = Some T) <-> last (full_rems 0 cost h) 1 == 0.
Proof. exact full_rems_last. Qed.
Print Assumptions C21_zero_iff_completed.

(* the oracle run on the implementation's samples is sound: if it accepts, the observed remaining work is monotone and
   the observed work sum(rate*dt) equals cost - last remaining up to one tolerance per step *)
Theorem C21_oracle_sound : forall l tol cost, trace_ok tol cost l = true ->
  nonincr cost (rems_of l) /\ Qabs.Qabs (cost - last_rem cost l - work_sum l) <= tol_sum tol l.
Proof. exact trace_ok_sound. Qed.
Print Assumptions C21_oracle_sound.

(* multicore: k equal single-core executions on n cores of speed S. The equal allocation S*min(1,n/k) respects the
   capacity n*S and the per-execution bound S ... *)
Theorem C21_multicore_feasible : forall n k S, 0 <= S -> (0 < k)%nat -> feasible (qn n * S) S (equal_alloc n k S).
Proof. exact share_feasible. Qed.
Print Assumptions C21_multicore_feasible.

(* ... is max-min fair ... *)
Theorem C21_multicore_fair : forall n k S, 0 <= S -> (0 < k)%nat -> fair (qn n * S) S (equal_alloc n k S).
Proof. exact share_fair. Qed.
Print Assumptions C21_multicore_fair.

(* ... and is the only feasible max-min fair allocation: each execution progresses at S*min(1, n/k) *)
Theorem C21_multicore_share : forall n k S y, 0 < S -> (0 < k)%nat -> length y = k ->
  feasible (qn n * S) S y -> fair (qn n * S) S y -> Forall (fun v => v == share n k S) y.
Proof. exact share_unique. Qed.
Print Assumptions C21_multicore_share.

(* hypotheses are satisfiable on non-trivial instances: an action of cost 10, suspended for 2 time units in the middle,
   with a rate change; 3 executions on 2 cores *)
Example C21_nonvacuous :
  let h := [mkseg 2 2 true; mkseg 2 0 true; mkseg 4 1 true; mkseg 8 (1#2) true] in
  wf_b h = true /\ full_run 0 1 10 h = Some (1 + 2 + 2 + 4 + 2 / (1#2)) /\
  full_rems 0 10 h = [10 - 2 * 2; 10 - 2 * 2 - 0 * 2; 10 - 2 * 2 - 0 * 2 - 1 * 4; 0] /\
  Qred (share 2 3 6) = 4 /\ Qred (share 4 3 6) = 6.
Proof. vm_compute. repeat split. Qed.
