(** C30 — Derived datatypes have the MPI layout and transfer exactly their bytes.
    Only statements; proofs live in SGV.Smpi.DatatypeProofs / DatatypeProofs2.
    [sem_of t] is the MPI-3.1 type map of the tree t with its lb/ub (Smpi/Datatype.v part 2), [build t] the C++ object
    built by Datatype::create_* and [cser] the bytes visited by serialize/unserialize (part 3). *)
From SGV Require Import Base.Tactics Smpi.Datatype Smpi.DatatypeProofs Smpi.DatatypeProofs2.
Local Open Scope Z_scope.

(* size, lower bound, upper bound (hence extent) of the object are those of the type map, for trees of any depth
   built with contiguous, vector, hvector, indexed, hindexed, indexed_block, struct, resized and subarray *)
Theorem C30_layout : forall t, wf t ->
  csize (build t) = tmsize (tm (sem_of t)) /\ clb (build t) = slb (sem_of t) /\ cub (build t) = sub (sem_of t).
Proof. exact layout_correct. Qed.
Print Assumptions C30_layout.

(* serialize (pack, send) reads and unserialize (unpack, receive) writes exactly the bytes of [count] copies of the
   type map placed one extent apart, in type-map order: same list, so no other byte is touched *)
Theorem C30_bytes : forall t base count, wf t -> 0 <= count ->
  cser (build t) base count = sbytes (sem_of t) base count.
Proof. exact bytes_correct. Qed.
Print Assumptions C30_bytes.

(* the formula of the pinned code for the end of a block of bl old elements (d + bl*ub_old) is not the type map's:
   witness = a block of 2 copies of a type with lb 4, ub 8 (indexed(1 int at index 1)) *)
Theorem C30_pinned_block_ub_refuted : exists bl d s,
  1 <= bl /\ 0 <= sext s /\ pinned_block_ub bl d (sub s) <> sub (replicate (blockds d (sext s) bl) s).
Proof. exact pinned_ub_refuted. Qed.
Print Assumptions C30_pinned_block_ub_refuted.

(* the hypotheses hold on a non-trivial tree of depth 3: struct { 2 x vector(2,1,3) of indexed({1,2},{1,4}) of int at 8 ;
   1 x subarray(C, (4,2,1)(3,2,0)) of short at 0 }, and the answers are not the trivial ones *)
Example C30_nonvacuous :
  let t := Struct (FCons 2 8 (Vector 2 1 3 (Indexed [(1, 1); (2, 4)] (Basic 4)))
                  (FCons 1 0 (Subarray true [(4, 2, 1); (3, 2, 0)] (Basic 2)) FNil)) in
  wf t /\ csize (build t) = 56 /\ clb (build t) = 0 /\ cub (build t) = 172 /\
  firstn 8 (cser (build t) 0 2) = [12; 13; 14; 15; 24; 25; 26; 27].
Proof.
  cbn zeta. split; [|vm_compute; repeat split; reflexivity].
  cbn [wf wf_flds]. repeat split; try lia; try congruence; repeat (constructor; cbn; try lia).
Qed.
