(** C30 — placeholder while the proofs are written *)
From SGV Require Import Base.Tactics Smpi.Datatype.
Local Open Scope Z_scope.
