(** C16 — Max-min and BMF allocations are fair.
    Only statements.  What is proved: the two checkers that judge every allocation produced by the real solvers are sound
    for the characterisations of the property text (within the tolerance given to them).
    NOT proved (stated here, carried by the correspondence only): [C16_bottleneck] "for every snapshot_ok system the values of
    SGV.Lmm.Maxmin.maxmin_solve satisfy is_bottleneck 0" and [C16_unique] "on SHARED-only systems is_bottleneck 0 together with
    feasibility determines the allocation".  The check compares the real MaxMin with the exact progressive filling of
    SGV.Lmm.Maxmin on every solved system and runs the verified checker on every output. *)
From SGV Require Import Base.Tactics Lmm.System Lmm.Maxmin Lmm.MaxminProofs.
From Coq Require Import QArith.
Local Open Scope Q_scope.

(* maxmin: a consuming variable is at its bound, or uses a saturated constraint on which its penalty*rate is the largest *)
Theorem C16_maxmin_oracle_sound_partial : forall tol s val, bottleneck_b tol s val = true ->
  forall v, (v < length (m_vars s))%nat -> is_bottleneck tol s val v.
Proof. exact bottleneck_b_sound. Qed.
Print Assumptions C16_maxmin_oracle_sound_partial.

(* bmf: ... or uses a saturated resource on which its share penalty*weight*rate is the largest *)
Theorem C16_bmf_oracle_sound_partial : forall tol s val, bmf_b tol s val = true ->
  forall v, (v < length (m_vars s))%nat -> is_bmf_share tol s val v.
Proof. exact bmf_b_sound. Qed.
Print Assumptions C16_bmf_oracle_sound_partial.

(* non-vacuity: the exact model's allocation on a system with penalties, a bound and a fat-pipe passes the checker exactly,
   an allocation that wastes capacity does not *)
Definition ex16 : msys :=
  mkMsys [mkMcn 3 true [(0%nat, 1); (1%nat, 1); (2%nat, 1 # 2)]; mkMcn 8 false [(1%nat, 2); (2%nat, 1)]]
         [mkMvar 1 (-1); mkMvar 2 (1 # 2); mkMvar (1 # 2) (-1)].
Example C16_nonvacuous :
  bottleneck_b 0 ex16 (st_val (maxmin_solve ex16)) = true /\
  bottleneck_b 0 ex16 (fun v => match v with 0%nat => 1 | 1%nat => 1 # 2 | _ => 2 end) = false.
Proof. vm_compute. split; reflexivity. Qed.
