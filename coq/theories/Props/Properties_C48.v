(** C48 — Configuration flags parse and validate values (src/xbt/config.cpp).
    Only statements; proofs live in SGV.Xbt.ConfigProofs.  [set_string valid c name text] is
    simgrid::config::set_as_string (also reached from set_parse / --cfg) on the table c, [valid] the items' callbacks;
    [reg_cfg] is the table of the items and aliases the rebuilt library registers (Gen/CfgFlags.v, regenerated on
    every run by gen/cfg.py). *)
From SGV Require Import Base.Tactics Xbt.Strtod Xbt.Units Xbt.UnitsProofs Gen.CfgFlags Xbt.Config Xbt.ConfigProofs.
From Coq Require Import QArith.
Local Open Scope Z_scope.

(* a successful set, by name or alias: the name resolves to an item, the text parses at the item's type, the callback
   accepted it; afterwards the item holds exactly the parsed value, its callback ran exactly once more, every other
   item and the aliases are untouched *)
Theorem C48_set_get : forall valid c n s c', set_string valid c n s = Ok c' ->
  exists r it v, resolve c n = Some r /\ find_item (c_items c) r = Some it /\ parse (i_ty it) s = Some v /\
    valid r v = true /\ get c' n = Some v /\ calls c' r = calls c r + 1 /\
    (forall m, m <> r -> find_item (c_items c') m = find_item (c_items c) m) /\ c_aliases c' = c_aliases c.
Proof. exact set_get. Qed.
Print Assumptions C48_set_get.

Theorem C48_set_succeeds : forall valid c n s r it v,
  resolve c n = Some r -> find_item (c_items c) r = Some it -> parse (i_ty it) s = Some v -> valid r v = true ->
  exists c', set_string valid c n s = Ok c' /\ get c' n = Some v.
Proof. exact set_succeeds. Qed.
Print Assumptions C48_set_succeeds.

(* unparsable text: rejected by the parser's exception, nothing stored, no callback *)
Theorem C48_reject_unparsable : forall valid c n s r it,
  resolve c n = Some r -> find_item (c_items c) r = Some it -> parse (i_ty it) s = None ->
  set_string valid c n s = ErrParse.
Proof. exact reject_unparsable. Qed.
Print Assumptions C48_reject_unparsable.

Theorem C48_unknown_name : forall valid c n s,
  find_item (c_items c) n = None -> find_alias (c_aliases c) n = None -> set_string valid c n s = ErrUnknown.
Proof. exact unknown_name. Qed.
Print Assumptions C48_unknown_name.

(* the validation callback runs exactly once per parsed value, also when it rejects (the value is then already stored:
   content is assigned before update() in set_string_value — stated, not hidden) *)
Theorem C48_callback_once : forall valid c n s c', set_string valid c n s = ErrInvalid c' ->
  exists r it v, resolve c n = Some r /\ find_item (c_items c) r = Some it /\ parse (i_ty it) s = Some v /\
    valid r v = false /\ calls c' r = calls c r + 1 /\
    (forall m, m <> r -> find_item (c_items c') m = find_item (c_items c) m).
Proof. exact callback_runs_once_even_when_it_rejects. Qed.
Print Assumptions C48_callback_once.

Theorem C48_alias : forall valid c a r it s,
  find_item (c_items c) a = None -> find_alias (c_aliases c) a = Some r -> find_item (c_items c) r = Some it ->
  set_string valid c a s = set_string valid c r s.
Proof. exact alias_same. Qed.
Print Assumptions C48_alias.

(* T: in the table the library registers now, every item name resolves to itself and every alias to an existing item
   (no alias is shadowed by an item name, no duplicate) *)
Theorem C48_registered_names_resolve :
  (forall n t, In (n, t) cfg_items -> resolve reg_cfg n = Some n) /\
  (forall a r, In (a, r) cfg_aliases -> resolve reg_cfg a = Some r /\ exists t, In (r, t) cfg_items).
Proof. exact registered_names_resolve. Qed.
Print Assumptions C48_registered_names_resolve.

(* the parsers: booleans are the 8 literals case-insensitively, nothing else *)
Theorem C48_parse_bool_spec : forall s b,
  parse_bool s = Some b <->
  (if b then In (map lower s) true_lits else In (map lower s) false_lits /\ ~ In (map lower s) true_lits).
Proof. exact parse_bool_spec. Qed.
Print Assumptions C48_parse_bool_spec.

(* integers: every decimal numeral [spaces][sign]d1..dn (d1 <> 0, any length) is its value when it fits an int,
   rejected otherwise; trailing characters are rejected (full consumption) *)
Theorem C48_parse_int_decimal : forall sp sg ds,
  all is_space sp -> all is_digit ds -> ds <> [] -> hd 0 ds <> 48 ->
  parse_int (int_text sp sg ds) =
  if (int_val sg ds <? INT_MIN) || (INT_MAX <? int_val sg ds) then None else Some (int_val sg ds).
Proof. exact parse_int_dec. Qed.
Print Assumptions C48_parse_int_decimal.

Theorem C48_parse_int_trailing_rejected : forall sp sg ds g,
  all is_space sp -> all is_digit ds -> ds <> [] -> hd 0 ds <> 48 -> hd_not is_digit g -> g <> [] ->
  parse_int (int_text sp sg ds ++ g) = None.
Proof. exact parse_int_trailing_rejected. Qed.
Print Assumptions C48_parse_int_trailing_rejected.

(* doubles: every decimal number of the C27 grammar is its exact value (then rounded by strtod: not modelled),
   out-of-range numbers and trailing characters are rejected *)
Theorem C48_parse_double_decimal : forall d, wf d ->
  parse_double (render d) = if erange (dvalue d) then None else Some (DFin (dvalue d)).
Proof. exact parse_double_dec. Qed.
Print Assumptions C48_parse_double_decimal.

Theorem C48_parse_double_trailing_rejected : forall d u, wf d -> unit_shape u = true -> u <> [] ->
  parse_double (render d ++ u) = None.
Proof. exact parse_double_trailing_rejected. Qed.
Print Assumptions C48_parse_double_trailing_rejected.

(* hypotheses are satisfiable on the test table: set by alias, rejected value, unknown name, rejecting callback *)
Example C48_nonvacuous :
  (exists c', set_string test_valid test_cfg n_int_old [45; 52; 50] = Ok c' /\ get c' n_int = Some (VInt (-42)) /\
              calls c' n_int = 2 /\ get c' n_pos = Some (VInt 1)) /\
  set_string test_valid test_cfg n_int [52; 50; 120] = ErrParse /\
  set_string test_valid test_cfg [116; 47; 110; 111; 112; 101] [49] = ErrUnknown /\
  (exists c', set_string test_valid test_cfg n_pos [48] = ErrInvalid c' /\ calls c' n_pos = 2) /\
  parse TBool [79; 102; 70] = Some (VBool false) /\ parse TInt [48; 120; 49; 70] = Some (VInt 31) /\
  parse TInt [50; 49; 52; 55; 52; 56; 51; 54; 52; 56] = None /\ parse TDouble [49; 101; 45; 51; 32] = None.
Proof. vm_compute. repeat split; try (eexists; repeat split); reflexivity. Qed.
