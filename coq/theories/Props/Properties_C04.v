(** C04 — Mutex semantics: exclusion, FIFO hand-off, ownership, recursion.
    Only statements; proofs live in SGV.Kernel.MutexProofs.
    [exec true rec ops] is the state of a (recursive iff [rec]) mutex after ANY sequence [ops] of lock / try_lock /
    unlock calls by any number of actors, in the order the kernel executes them ([true] = the repaired try_lock).
    Calls by an actor that is blocked in a lock() on this mutex are [Rejected] (they cannot exist); lock() of a
    non-recursive mutex by its owner is [Undefined] (outside the property, see Kernel/Mutex.v).
    [held m p] is ghost: acquisitions obtained by p (lock returned, try_lock true, hand-off) minus unlocks done by p
    (C04_held_counts ties it to the trace). *)
From SGV Require Import Base.Tactics Kernel.Mutex Kernel.MutexProofs.
Local Open Scope Z_scope.

(* at most one actor owns the mutex: two actors never both have outstanding acquisitions *)
Theorem C04_exclusion : forall rec ops p q,
  let m := exec true rec ops in 0 < held m p -> 0 < held m q -> p = q.
Proof. exact exclusion. Qed.
Print Assumptions C04_exclusion.

(* ... and owner_ is exactly that actor (Mutex::get_owner) *)
Theorem C04_owner_iff_held : forall rec ops p,
  let m := exec true rec ops in (owner m = Some p <-> 0 < held m p).
Proof. exact owner_iff_held. Qed.
Print Assumptions C04_owner_iff_held.

Theorem C04_held_bounds : forall rec ops p,
  let m := exec true rec ops in 0 <= held m p /\ (rec = false -> held m p <= 1).
Proof. exact held_bounds. Qed.
Print Assumptions C04_held_bounds.

(* the ghost counter is the quantity of the trace the property talks about *)
Theorem C04_held_counts : forall fx rec ops p,
  held (exec fx rec ops) p = total (gets p) (run fx (init rec) ops) - total (gives p) (run fx (init rec) ops).
Proof. exact held_counts. Qed.
Print Assumptions C04_held_counts.

(* recursion: an actor that obtained the mutex n times (lock or try_lock, any mix, or by hand-off) keeps it until
   its n-th unlock: it is the owner exactly while unlocks < acquisitions *)
Theorem C04_recursive_depth : forall rec ops p,
  let tr := run true (init rec) ops in
  (owner (exec true rec ops) = Some p <-> total (gives p) tr < total (gets p) tr).
Proof. exact recursive_depth. Qed.
Print Assumptions C04_recursive_depth.

(* only the owner can release: any other unlock fails the assertion and changes nothing *)
Theorem C04_only_owner_unlocks : forall fx m p, in_queue p (queue m) = false ->
  (owner m <> Some p -> step fx m (Unlock p) = (m, Error)) /\
  (owner m = Some p -> exists m' w, step fx m (Unlock p) = (m', Released w)).
Proof. exact only_owner_unlocks. Qed.
Print Assumptions C04_only_owner_unlocks.

(* try_lock never blocks (it answers, the queue is untouched), succeeds iff free or held by the caller on a recursive
   mutex, makes the caller the owner when it succeeds and changes nothing when it fails *)
Theorem C04_trylock : forall fx m p, in_queue p (queue m) = false ->
  let r := step fx m (TryLock p) in
  (snd r = TryOk \/ snd r = TryFail) /\ queue (fst r) = queue m /\
  (snd r = TryOk <-> owner m = None \/ (owner m = Some p /\ recursive m = true)) /\
  (snd r = TryOk -> owner (fst r) = Some p) /\ (snd r = TryFail -> fst r = m).
Proof. exact trylock. Qed.
Print Assumptions C04_trylock.

(* lock() returns at once iff the mutex is free or already held by the caller (recursive mutex; the plain-mutex re-lock is
   outside the domain); otherwise the caller joins the END of the queue and nothing else changes *)
Theorem C04_lock_outcome : forall fx m p, in_queue p (queue m) = false -> undefined_region m (Lock p) = false ->
  let r := step fx m (Lock p) in
  (snd r = Acquired <-> owner m = None \/ owner m = Some p) /\
  (snd r = Blocked <-> exists o, owner m = Some o /\ o <> p) /\
  (snd r = Acquired \/ snd r = Blocked) /\
  (snd r = Acquired -> owner (fst r) = Some p /\ queue (fst r) = queue m) /\
  (snd r = Blocked -> map a_issuer (queue (fst r)) = map a_issuer (queue m) ++ [p] /\ owner (fst r) = owner m /\ depth (fst r) = depth m).
Proof. exact lock_outcome. Qed.
Print Assumptions C04_lock_outcome.

(* FIFO: the lockers that had to wait are served in the order of their requests (the served ones are a prefix of the
   blocked ones, the rest is the queue, in order) *)
Theorem C04_fifo : forall fx rec ops,
  let tr := run fx (init rec) ops in
  blocked_seq tr = granted_seq tr ++ map a_issuer (queue (exec fx rec ops)).
Proof. exact fifo. Qed.
Print Assumptions C04_fifo.

(* hand-off is immediate: a free mutex has no waiter, and an unlock that wakes q takes q from the head of the queue *)
Theorem C04_free_no_waiter : forall rec ops, owner (exec true rec ops) = None -> queue (exec true rec ops) = [].
Proof. exact free_no_waiter. Qed.
Print Assumptions C04_free_no_waiter.

Theorem C04_handoff : forall fx m p m' q, step fx m (Unlock p) = (m', Released (Some q)) ->
  exists a r, queue m = a :: r /\ a_issuer a = q /\ queue m' = r /\ owner m' = Some q.
Proof. exact handoff. Qed.
Print Assumptions C04_handoff.

Theorem C04_rejected_iff_blocked : forall fx m o m',
  step fx m o = (m', Rejected) <-> in_queue (issuer_of o) (queue m) = true /\ m' = m.
Proof. exact rejected_iff_blocked. Qed.
Print Assumptions C04_rejected_iff_blocked.

(* the pinned code violates the statement: recursive mutex, try_lock; lock; unlock by actor 1 -> actor 1 still has one
   outstanding acquisition, yet the mutex is free and actor 2 obtains it *)
Theorem C04_pinned_try_lock_refuted :
  let ops := [TryLock 1; Lock 1; Unlock 1] in
  let tr := run false (init true) ops in
  total (gets 1) tr - total (gives 1) tr = 1 /\ owner (exec false true ops) = None /\
  snd (step false (exec false true ops) (Lock 2)) = Acquired.
Proof. exact pinned_try_lock_refuted. Qed.
Print Assumptions C04_pinned_try_lock_refuted.

(* non-vacuity: recursive mutex; 1 takes it twice (try_lock, lock), 2 and 3 queue up, 1 unlocks twice -> 2 is served *)
Example C04_nonvacuous :
  map snd (run true (init true) [TryLock 1; Lock 1; Lock 2; TryLock 3; Lock 3; Unlock 1; Unlock 2; Unlock 1; Unlock 2]) =
    [TryOk; Acquired; Blocked; TryFail; Blocked; Released None; Rejected; Released (Some 2); Released (Some 3)] /\
  held (exec true true [TryLock 1; Lock 1; Lock 2]) 1 = 2 /\
  in_queue 1 (queue (exec true true [TryLock 1; Lock 1; Lock 2])) = false.
Proof. vm_compute. repeat split; reflexivity. Qed.
