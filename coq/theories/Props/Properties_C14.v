(** C14 — Real runs conform to the reference interleaving semantics.
    Only statements; model in SGV.Kernel.Ref, proofs in SGV.Kernel.RefProofs. *)
From SGV Require Import Base.Tactics Kernel.Ref Kernel.RefProofs.
Local Open Scope Z_scope.

(* The explorer that judges the implementation's final observation is sound and complete for the inductive
   reachability relation of the reference semantics (any unblocked actor takes its next operation; FIFO objects):
   whenever it answers (fuel not exhausted) its answer is exactly the set of reachable terminal states. *)
Theorem C14_explorer_sound_complete : forall fuel P T,
  explore fuel P = Some T -> forall s, reachable_terminal P s <-> In s T.
Proof. exact explore_correct. Qed.
Print Assumptions C14_explorer_sound_complete.

(* A terminal state with an unfinished actor is exactly a reference deadlock (every unfinished actor is blocked on a
   synchronisation object and has no timer armed), unless the run crashed on an assertion. *)
Theorem C14_deadlock_iff_terminal_unfinished : forall P s, st_crash s = false ->
  ((terminal P s /\ exists a, unfinished P s a) <-> Ref_deadlock P s).
Proof. exact deadlock_iff. Qed.
Print Assumptions C14_deadlock_iff_terminal_unfinished.

(* the boolean the oracle compares with the implementation's deadlock report decides Ref_deadlock *)
Theorem C14_deadlock_decided : forall P s, deadlock_b P s = true <-> Ref_deadlock P s.
Proof. exact deadlock_b_spec. Qed.
Print Assumptions C14_deadlock_decided.

(* Replaying a schedule (the order in which the implementation started its operations) yields a reachable state:
   an implementation run whose schedule replays to its own final observation is a reference execution. *)
Theorem C14_replay_sound : forall P sched s, replay P sched (init P) = Some s -> reachable P s.
Proof. intros P sched s H. exact (replay_reachable P sched (init P) s (reachable_init P) H). Qed.
Print Assumptions C14_replay_sound.

(* The model of EngineImpl::run (sub-rounds, simcalls handled in list order, answered actors appended in answer
   order) is one interleaving of the reference semantics and stops in a reachable terminal state. *)
Theorem C14_engine_refines : forall fuel P s tr, engine_run fuel P = Some (s, tr) ->
  replay P tr (init P) = Some s /\ reachable_terminal P s.
Proof. exact engine_run_refines. Qed.
Print Assumptions C14_engine_refines.

(* a program with no reachable deadlock never gets one reported, whatever the schedule *)
Theorem C14_deadlock_free_never_reports : forall P sched s,
  (forall t, reachable P t -> ~ Ref_deadlock P t) ->
  replay P sched (init P) = Some s -> deadlock_b P s = false.
Proof. exact no_deadlock_never_reported. Qed.
Print Assumptions C14_deadlock_free_never_reports.

(* A timed acquisition that times out leaves the waiting queue of its semaphore alone: exactly that waiter is removed,
   the waiters before and after it keep their relative order, the value is unchanged, the actor is answered. *)
Theorem C14_timeout_keeps_order : forall a i d s q1 q2, (i < length (st_s s))%nat ->
  s_q (nth i (st_s s) dS) = q1 ++ a :: q2 -> ~ In a q1 -> ~ In a q2 ->
  let '(s', ws) := fire a (AcquireT i d) s in
  nth i (st_s s') dS = mkS (s_val (nth i (st_s s) dS)) (q1 ++ q2) /\ ws = [a].
Proof. exact fire_acquire_keeps_order. Qed.
Print Assumptions C14_timeout_keeps_order.

(* non-vacuity: the AB/BA program has two reachable terminal states, one of which is a deadlock, and the engine
   model runs into it *)
Definition abba := mkP 2 [] 0 [] 0 [[Lock 0; Lock 1; Unlock 1; Unlock 0]; [Lock 1; Lock 0; Unlock 0; Unlock 1]].
Example C14_nonvacuous :
  (exists T, explore 100 abba = Some T /\ length T = 2%nat /\ existsb (deadlock_b abba) T = true
             /\ existsb (fun s => negb (deadlock_b abba s)) T = true) /\
  (exists s tr, engine_run 100 abba = Some (s, tr) /\ tr = [0; 1; 0; 1]%nat /\ deadlock_b abba s = true).
Proof. split; [eexists | eexists; eexists]; vm_compute; repeat split; reflexivity. Qed.

(* non-vacuity of the timed part: S = Sem(0); A: acquire_timeout(10 s), release; B: sleep 1 s, acquire, release;
   C: sleep 2 s, acquire.  The dates force the queue [A; B; C]; A times out, B then C are served: the timed reference has
   exactly one terminal state, every actor finished, A answered 1 (timed out), no deadlock.  The same program with an
   untimed operation added (a fourth actor doing Put on a mailbox nobody reads) is read without dates: the timeout and the
   queueing order are free, several terminal states. *)
Definition tdemo := mkP 0 [0] 0 [] 0 [[AcquireT 0 80; Release 0]; [Sleep 8; Acquire 0; Release 0]; [Sleep 16; Acquire 0]].
Definition udemo := mkP 0 [0] 0 [] 1 [[AcquireT 0 80; Release 0]; [Sleep 8; Acquire 0; Release 0]; [Sleep 16; Acquire 0]; [Put 0 1]].
Example C14_timed_nonvacuous :
  (exists s, explore 1000 tdemo = Some [s] /\ deadlock_b tdemo s = false /\ st_now s = 80 /\
             map a_pc (st_a s) = [2; 3; 2]%nat /\ map a_log (st_a s) = [[0; 1]; [0; 0; 0]; [0; 0]]) /\
  (exists T, explore 4000 udemo = Some T /\ (1 < length T)%nat /\ existsb (deadlock_b udemo) T = true).
Proof. split; [eexists | eexists]; vm_compute; repeat split; reflexivity. Qed.
