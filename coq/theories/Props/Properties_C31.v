(** C31 — Predefined reduction operators compute MPI results.
    Only statements; proofs live in SGV.Smpi.OpProofs.  The tables (op_decl, dt_decl, func_loops) are regenerated from
    smpi_op.cpp / smpi_datatype.cpp on every run (gen/ops.py), so the finite theorems are about the current source. *)
From Coq Require Import String.
From SGV Require Import Base.Tactics Gen.OpTable Smpi.Op Smpi.OpProofs.
Local Open Scope string_scope.
Local Open Scope Z_scope.

(* every entry of the dispatch chains applies the C type the datatype is declared with *)
Theorem C31_table_types : forall f l dt c mac, In (f, l) func_loops -> In (dt, (c, mac)) l ->
  exists fam, assoc dt dt_decl = Some (c, fam).
Proof. exact table_types_all. Qed.
Print Assumptions C31_table_types.

(* the pairs accepted by CHECK_OP are exactly the pairs MPI-3.1 5.9.2 allows, plus the listed extensions
   (MPI_CHAR as a C integer; logical operators on floating point / multi-language types: recorded findings) *)
Theorem C31_supported_iff : forall op dt, In op all_ops -> In dt all_dts ->
  accepted op dt = mpi_allows op dt || extension op dt.
Proof. exact supported_iff. Qed.
Print Assumptions C31_supported_iff.

(* every accepted pair is dispatched to the macro of ITS operator on a known C type; the only accepted pairs without an
   entry (the simulation aborts) are those of [aborts] (MPI_INTEGER16: recorded finding) *)
Theorem C31_accepted_dispatched : forall op dt, In op all_ops -> In dt all_dts -> accepted op dt = true ->
  match dispatch op dt with
  | Some (c, mac) => aborts op dt = false /\ mac = expected_macro op (ctype_kind c) /\ ctype_kind c <> KOther
  | None => aborts op dt = true
  end.
Proof. exact dispatched_all. Qed.
Print Assumptions C31_accepted_dispatched.

(* the sized datatypes have the size MPI mandates, except [size_exception] (MPI_COMPLEX32: recorded finding) *)
Theorem C31_sizes : sizes_ok = true.
Proof. exact sizes. Qed.
Print Assumptions C31_sizes.

(* every datatype MPI gives a C type to is declared with a C type of that width, signedness and shape *)
Theorem C31_declared_kinds : declared_kinds_ok = true.
Proof. exact declared_kinds. Qed.
Print Assumptions C31_declared_kinds.

(* element-wise semantics, for all values *)
Theorem C31_max_min : forall f k a ia b ib,
  elem_op f "MAX_OP" k (a, ia) (b, ib) = (Z.max a b, 0) /\ elem_op f "MIN_OP" k (a, ia) (b, ib) = (Z.min a b, 0).
Proof. intros. split; [apply max_spec|apply min_spec]. Qed.
Print Assumptions C31_max_min.

Theorem C31_sum_wraps : forall f bits s a ia b ib, 1 <= bits ->
  let r := fst (elem_op f "SUM_OP" (KInt bits s) (a, ia) (b, ib)) in
  in_width bits s r /\ r mod 2 ^ bits = (a + b) mod 2 ^ bits /\ (in_width bits s (a + b) -> r = a + b).
Proof. exact sum_int_spec. Qed.
Print Assumptions C31_sum_wraps.

Theorem C31_prod_wraps : forall f bits s a ia b ib, 1 <= bits ->
  let r := fst (elem_op f "PROD_OP" (KInt bits s) (a, ia) (b, ib)) in
  in_width bits s r /\ r mod 2 ^ bits = (a * b) mod 2 ^ bits /\ (in_width bits s (a * b) -> r = a * b).
Proof. exact prod_int_spec. Qed.
Print Assumptions C31_prod_wraps.

Theorem C31_logical : forall f bits s a ia b ib, 2 <= bits ->
  elem_op f "LAND_OP" (KInt bits s) (a, ia) (b, ib) = (bz (nz a && nz b), 0) /\
  elem_op f "LOR_OP" (KInt bits s) (a, ia) (b, ib) = (bz (nz a || nz b), 0) /\
  elem_op f "LXOR_OP" (KInt bits s) (a, ia) (b, ib) = (bz (xorb (nz a) (nz b)), 0).
Proof. exact logical_spec. Qed.
Print Assumptions C31_logical.

Theorem C31_bitwise : forall f k a ia b ib,
  elem_op f "BAND_OP" k (a, ia) (b, ib) = (Z.land a b, 0) /\
  elem_op f "BOR_OP" k (a, ia) (b, ib) = (Z.lor a b, 0) /\
  elem_op f "BXOR_OP" k (a, ia) (b, ib) = (Z.lxor a b, 0).
Proof. exact bitwise_spec. Qed.
Print Assumptions C31_bitwise.

Theorem C31_minloc_lowest_index : forall f k a ia b ib,
  let r := elem_op f "MINLOC_OP" k (a, ia) (b, ib) in
  fst r = Z.min a b /\ (a < b -> snd r = ia) /\ (b < a -> snd r = ib) /\ (a = b -> snd r = Z.min ia ib).
Proof. exact minloc_spec. Qed.
Print Assumptions C31_minloc_lowest_index.

Theorem C31_maxloc_lowest_index : forall f k a ia b ib,
  let r := elem_op f "MAXLOC_OP" k (a, ia) (b, ib) in
  fst r = Z.max a b /\ (a < b -> snd r = ib) /\ (b < a -> snd r = ia) /\ (a = b -> snd r = Z.min ia ib).
Proof. exact maxloc_spec. Qed.
Print Assumptions C31_maxloc_lowest_index.

Theorem C31_complex : forall a b,
  elem_op true "SUM_OP" KCplx a b = (fst a + fst b, snd a + snd b) /\
  elem_op true "PROD_OP" KCplx a b = cprod a b /\
  elem_op true "SUM_OP_COMPLEX" (KPair KFloat KFloat) a b = (fst a + fst b, snd a + snd b) /\
  elem_op true "PROD_OP_COMPLEX" (KPair KFloat KFloat) a b = cprod a b.
Proof. exact complex_spec. Qed.
Print Assumptions C31_complex.

(* the pinned PROD on Fortran complex pairs multiplied component-wise: i*i = (0,1) instead of (-1,0) *)
Theorem C31_prod_complex_pinned_refuted :
  exists a b, elem_op false "PROD_OP_COMPLEX" (KPair KFloat KFloat) a b <> cprod a b.
Proof. exact prod_complex_pinned_refuted. Qed.
Print Assumptions C31_prod_complex_pinned_refuted.

Example C31_nonvacuous :
  In "MPI_SUM" all_ops /\ In "MPI_COMPLEX16" all_dts /\ accepted "MPI_SUM" "MPI_COMPLEX16" = true /\
  dispatch "MPI_PROD" "MPI_COMPLEX16" = Some ("double_double", "PROD_OP_COMPLEX") /\
  accepted "MPI_BAND" "MPI_DOUBLE" = false /\ accepted "MPI_MINLOC" "MPI_INT" = false /\
  in_width 8 true (-128) /\ fst (elem_op true "SUM_OP" (KInt 8 true) (127, 0) (1, 0)) = -128 /\
  elem_op true "MINLOC_OP" (KPair (KInt 32 true) (KInt 32 true)) (3, 7) (3, 2) = (3, 2).
Proof. repeat split; try (vm_compute; reflexivity); try (vm_compute; tauto); vm_compute; intuition discriminate. Qed.
