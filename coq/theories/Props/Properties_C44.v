(** C44 — Unfolding set algebra.  Only statements; model SGV.Mc.Unfold (History / EventSet / UnfoldingEvent /
    variable_for_loop), oracles SGV.Mc.UnfoldOracle, proofs SGV.Mc.UnfoldProofs.

    Events are numbers in creation order, [causes e] = get_immediate_causes(), [dep a b] = a->is_dependent_with(b).
    [pick] is the iteration order of the unordered_set of pointers (which element History::Iterator pops next): it is
    universally quantified and may depend on the step and on the whole frontier; all that is assumed is that begin() of
    a non-empty set is a member of it.
      le causes x e  = x is e or a (transitive) cause of e        lt causes x e = x is a strict cause of e
      created_after_causes causes := forall e c, In c (causes e) -> c < e       (an event is built from existing ones) *)
From SGV Require Import Base.Tactics Mc.Unfold Mc.UnfoldOracle Mc.UnfoldProofs.
Local Open Scope nat_scope.

(* History(S).get_all_events() is the causal closure of S *)
Theorem C44_history_is_closure : forall causes pick, created_after_causes causes -> picks_a_member pick ->
  forall s x, In x (get_all_events causes pick s) <-> exists e0, In e0 s /\ le causes x e0.
Proof. exact get_all_events_spec. Qed.
Print Assumptions C44_history_is_closure.

(* iterating a History (contains(), EventSet::contains(History), ...) visits every event of the closure exactly once *)
Theorem C44_history_iteration_each_once : forall causes pick, created_after_causes causes -> picks_a_member pick ->
  forall s, NoDup (history_sequence causes pick s) /\
            forall x, In x (history_sequence causes pick s) <-> exists e0, In e0 s /\ le causes x e0.
Proof. exact history_sequence_spec. Qed.
Print Assumptions C44_history_iteration_each_once.

(* get_all_maximal_events / get_largest_maximal_subset: the events of S that are not a strict cause of an event of S *)
Theorem C44_maximal_def : forall causes pick, created_after_causes causes -> picks_a_member pick ->
  forall s e, In e (get_all_maximal_events causes pick s) <-> In e s /\ forall e', In e' s -> ~ lt causes e e'.
Proof. exact get_all_maximal_events_spec. Qed.
Print Assumptions C44_maximal_def.

Theorem C44_is_maximal_iff_antichain : forall causes pick, created_after_causes causes -> picks_a_member pick ->
  forall s, is_maximal causes pick s = true <-> forall e e', In e s -> In e' s -> ~ lt causes e e'.
Proof. exact is_maximal_spec. Qed.
Print Assumptions C44_is_maximal_iff_antichain.

(* conflicts_with = causally unrelated, and an event below one side only is dependent with the other side
   ([conflict] is this definition, spelled out in UnfoldProofs) *)
Theorem C44_conflict_def : forall causes pick, created_after_causes causes -> picks_a_member pick ->
  forall dep e1 e2, conflicts_with causes dep pick e1 e2 = true <->
    ~ le causes e1 e2 /\ ~ le causes e2 e1 /\
    ((exists x, le causes x e1 /\ ~ le causes x e2 /\ dep x e2 = true) \/
     (exists y, le causes y e2 /\ ~ le causes y e1 /\ dep y e1 = true)).
Proof. exact conflicts_with_spec. Qed.
Print Assumptions C44_conflict_def.

(* what Configuration's constructor accepts: exactly the causally closed, conflict-free sets *)
Theorem C44_config_iff_closed_conflict_free : forall causes pick, created_after_causes causes -> picks_a_member pick ->
  forall dep s, is_valid_configuration causes dep pick s = true <->
    (forall e c, In e s -> le causes c e -> In c s) /\
    (forall e1 e2, In e1 s -> In e2 s -> ~ conflict causes dep e1 e2).
Proof. exact is_valid_configuration_spec. Qed.
Print Assumptions C44_config_iff_closed_conflict_free.

(* variable_for_loop (the odometer used by is_conflict_free / is_compatible_with): every tuple of the product exactly once *)
Theorem C44_variable_for_loop_each_once : forall sizes, sizes <> [] -> Forall (fun n => 0 < n) sizes ->
  NoDup (vfl_all sizes) /\ forall t, In t (vfl_all sizes) <-> Forall2 (fun c n => c < n) t sizes.
Proof. exact vfl_each_once. Qed.
Print Assumptions C44_variable_for_loop_each_once.
Theorem C44_variable_for_loop_empty : forall sizes, sizes = [] \/ Exists (fun n => n = 0) sizes -> vfl_all sizes = [].
Proof. exact vfl_all_empty. Qed.
Print Assumptions C44_variable_for_loop_empty.

(* subsets_iterator / powerset_iterator / maximal_subsets_iterator.
   _partial: these three state machines are NOT modelled; what is proved is the soundness of the oracle that judges every
   observed output of the real iterators: if [enum_ok out reference] accepts, the yielded sets (each canonicalised as an
   increasing list) are duplicate-free and are exactly the qualifying sets.  Missing for the full statement: Gallina models
   of the three increment() functions with a proof that they always produce an accepted output. *)
Theorem C44_subsets_each_once_partial : forall k l out, NoDup l -> enum_ok out (ksubsets k l) = true ->
  NoDup out /\ forall s, In s out <-> sublist s l /\ length s = k.
Proof. exact subsets_oracle. Qed.
Print Assumptions C44_subsets_each_once_partial.
Theorem C44_powerset_each_once_partial : forall l out, NoDup l -> enum_ok out (allsubsets l) = true ->
  NoDup out /\ forall s, In s out <-> sublist s l.
Proof. exact powerset_oracle. Qed.
Print Assumptions C44_powerset_each_once_partial.
Theorem C44_maximal_subsets_each_once_partial : forall causes pick events k out,
  created_after_causes causes -> picks_a_member pick -> NoDup events ->
  enum_ok out (maxsub_ref causes pick events k) = true ->
  NoDup out /\ forall s, In s out <->
    sublist s events /\ (forall e e', In e s -> In e' s -> ~ lt causes e e') /\ length s <= k.
Proof. exact maxsub_oracle. Qed.
Print Assumptions C44_maximal_subsets_each_once_partial.

(* non-vacuity: 0 <- 1 <- 3, 0 <- 2, 4 alone;  1 and 2 are dependent (hence in conflict), the rest independent *)
Definition ex_causes (e : nat) : eset := match e with 1 => [0] | 2 => [0] | 3 => [1] | _ => [] end.
Definition ex_dep (a b : nat) : bool := ((a =? 1) && (b =? 2)) || ((a =? 2) && (b =? 1)).
Example C44_nonvacuous :
  created_after_causes ex_causes /\ picks_a_member (pick_mode 1) /\
  get_all_events ex_causes (pick_mode 1) [3; 4] = [0; 1; 3; 4] /\
  get_all_maximal_events ex_causes (pick_mode 0) [0; 1; 3; 4] = [3; 4] /\
  is_valid_configuration ex_causes ex_dep (pick_mode 2) [0; 1; 3; 4] = true /\
  is_valid_configuration ex_causes ex_dep (pick_mode 2) [0; 1; 2] = false /\     (* 1 # 2 *)
  is_valid_configuration ex_causes ex_dep (pick_mode 2) [1; 3] = false /\        (* not closed *)
  conflicts_with ex_causes ex_dep (pick_mode 0) 3 2 = true /\                    (* inherited through 1 *)
  vfl_all [2; 3] = [[0; 0]; [0; 1]; [0; 2]; [1; 0]; [1; 1]; [1; 2]] /\
  enum_ok [[1; 2]; [0; 1]; [0; 2]] (ksubsets 2 [0; 1; 2]) = true /\
  enum_ok [[1; 2]; [0; 1]; [0; 1]] (ksubsets 2 [0; 1; 2]) = false /\
  enum_ok [[]; [3]; [4]; [2]; [3; 4]; [2; 3]; [2; 4]; [2; 3; 4]] (maxsub_ref ex_causes (pick_mode 0) [1; 2; 3; 4] 3) = false /\
  enum_ok [[]; [1]; [3]; [4]; [2]; [3; 4]; [2; 3]; [2; 4]; [1; 2]; [1; 4]; [2; 3; 4]; [1; 2; 4]]
          (maxsub_ref ex_causes (pick_mode 0) [1; 2; 3; 4] 3) = true.
Proof.
  split; [|split].
  - intros e c. unfold ex_causes. destruct e as [|[|[|[|e]]]]; simpl; intros H; repeat (destruct H as [<-|H]; [lia|]); tauto.
  - intros k s Hs. unfold pick_mode. destruct s as [|x s]; [congruence|]. apply exists_last in Hs.
    destruct Hs as (l & a & ->). rewrite last_last. apply in_or_app; simpl; auto.
  - vm_compute. repeat split.
Qed.
