(** C13 — Workflow dependencies are respected.  Only statements; proofs live in SGV.Kernel.DagProofs.
    Model: SGV.Kernel.Dag (s4u::Activity add_successor / remove_successor / start / complete / release_dependencies,
    set_host / set_source+set_destination / set_disk, and the event loop for activities on dedicated resources).
    Dates are integer ticks (2^-k s). *)
From SGV Require Import Base.Tactics Kernel.Dag Kernel.DagProofs.
Local Open Scope Z_scope.

(* "An activity with predecessors starts only after all of them have finished and it is assigned": for every script
   (any operations in any order, any number of activities, any durations), in the state it reaches, every started or
   finished activity is assigned and each predecessor declared by add_successor (and not removed) is FINISHED with a
   finish date <= the activity's start date. *)
Theorem C13_start_guard : forall ops s, run ops = Ok s -> forall b,
  a_state (acts s b) = STARTED \/ a_state (acts s b) = FINISHED ->
  a_assigned (acts s b) = true /\
  exists ts, a_tstart (acts s b) = Some ts /\ ts <= now s /\
    forall p, In p (a_gpreds (acts s b)) ->
      a_state (acts s p) = FINISHED /\ exists tf, a_tfinish (acts s p) = Some tf /\ tf <= ts.
Proof. exact start_guard. Qed.
Print Assumptions C13_start_guard.

(* "each starts at the latest finish date of its predecessors": for every script (remove_successor included) a started
   activity started exactly at the latest of: the finish dates of its declared predecessors, its latest assignment,
   its latest explicit start request (absent dates count as 0, the origin of the clock).  In particular an activity
   that was assigned and requested before its last predecessor finished starts at that predecessor's finish date. *)
Theorem C13_start_at_max_pred_finish : forall ops s, run ops = Ok s -> forall b ts, a_tstart (acts s b) = Some ts ->
  ts = Z.max (Z.max (max_list (map (fun p => odef (a_tfinish (acts s p))) (a_gpreds (acts s b))))
                    (odef (a_tassign (acts s b)))) (odef (a_treq (acts s b))).
Proof. exact start_at_max. Qed.
Print Assumptions C13_start_at_max_pred_finish.

(* "In an acyclic workflow where every activity is assigned and nothing fails, every activity finishes": from any state
   reached by a script in which every activity is assigned, every not-yet-started activity still waits for a dependency,
   dependencies are unfinished activities that list it as successor, and the dependency relation decreases some rank
   (acyclic), Engine::run() leaves every activity FINISHED.  (Failures do not exist in this model.) *)
Theorem C13_acyclic_all_finish : forall ops s rank, run ops = Ok s -> settled s rank ->
  forall s', step s Run = Ok s' -> forall b, (b < nacts s')%nat -> a_state (acts s' b) = FINISHED.
Proof. exact acyclic_all_finish. Qed.
Print Assumptions C13_acyclic_all_finish.

(* The oracle: a log (script operations and on_start / on_completion signals, oldest first) accepted by the monitor
   satisfies, at every start signal of b at date d: b was assigned before; every predecessor a declared before and not
   removed since has a completion signal before, dated <= d; and, on logs without remove_successor, d is the max of
   the predecessors' completion dates, the assignment date and the first start request. *)
Theorem C13_monitor_sound : forall tr, trace_ok tr = true ->
  forall pre b d post, tr = pre ++ EvStart b d :: post ->
  (exists ta, assign_date (rev pre) b = Some ta /\
     (has_remove (rev pre) = false ->
      d = Z.max (Z.max (max_list (map (fun a => odef (finish_date (rev pre) a)) (preds_in (rev pre) b))) ta)
                (odef (req_date (rev pre) b)))) /\
  (forall a, In a (preds_in (rev pre) b) -> exists f, finish_date (rev pre) a = Some f /\ f <= d).
Proof. exact monitor_sound. Qed.
Print Assumptions C13_monitor_sound.

(* meaning of the monitor's vocabulary: dates come from the log, declared dependencies are seen *)
Theorem C13_monitor_reads_log : forall past a b t,
  (assign_date past b = Some t -> In (EvOp (Assign b) t) past) /\
  (finish_date past a = Some t -> In (EvFinish a t) past) /\
  (forall newer older, (forall t', ~ In (EvOp (RemoveSucc a b) t') newer) ->
     In a (preds_in (newer ++ EvOp (AddSucc a b) t :: older) b)).
Proof.
  intros past a b t. split; [apply assign_date_in|]. split; [apply finish_date_in|].
  intros newer older H. apply preds_in_add; exact H.
Qed.
Print Assumptions C13_monitor_reads_log.

(* non-vacuity: two parents and a child; the child is assigned late (date 1536 > both parents' finish dates) *)
Definition ex_ops : list op :=
  [Create KExec 1024; Create KExec 2048; Create KExec 1024; AddSucc 0 2; AddSucc 1 2; Assign 0; Assign 1;
   Start 0; Start 1; Start 2; RunUntil 2560; Assign 2; Run].
Example C13_nonvacuous :
  exists s, run ex_ops = Ok s /\
    a_state (acts s 2) = FINISHED /\ a_gpreds (acts s 2) = [1; 0]%nat /\
    a_tfinish (acts s 0) = Some 1024 /\ a_tfinish (acts s 1) = Some 2048 /\
    a_tstart (acts s 2) = Some 2560 /\ a_tfinish (acts s 2) = Some 3584 /\
    trace_ok (rev (trace s)) = true.
Proof. eexists. split; [vm_compute; reflexivity|]. vm_compute. repeat split; reflexivity. Qed.

(* the hypotheses of C13_acyclic_all_finish hold on a real workflow: two running parents, one waiting child *)
Definition ex_ops2 : list op :=
  [Create KExec 1024; Create KComm 2048; Create KIo 1024; AddSucc 0 2; AddSucc 1 2; Assign 2; Assign 0; Assign 1; Start 0].
Example C13_liveness_nonvacuous : exists s, run ex_ops2 = Ok s /\ settled s (fun i => i) /\ nacts s = 3%nat /\
  a_state (acts s 2) = INITED /\ a_state (acts s 1) = STARTED.
Proof.
  eexists. split; [vm_compute; reflexivity|]. split; [|vm_compute; auto].
  constructor.
  - intros b Hb. cbn in Hb. destruct b as [|[|[|b]]]; try lia; vm_compute; reflexivity.
  - intros b Hb. cbn in Hb. destruct b as [|[|[|b]]]; try lia; vm_compute; intros; discriminate.
  - intros b p Hp. destruct b as [|[|[|b]]]; vm_compute in Hp; try contradiction.
    destruct Hp as [<-|[<-|[]]]; vm_compute; repeat split; try discriminate; try lia; auto.
  - intros b. destruct b as [|[|[|b]]]; vm_compute; auto.
Qed.
