(** C25 — Shortest-path zones compute minimal routes.
    Only statements; proofs live in SGV.Routing.SPCertProofs.  The verified objects are CHECKERS that are run on what the
    real Floyd / Dijkstra / DijkstraCache zones return on every generated graph (all ordered pairs):
    [chain_check] (the route is a chain of declared routes) and [cert_ok] (the table of link counts is the table of
    minimal link counts).  Minimality of the in-place Floyd-Warshall model for every table size is NOT stated as a theorem
    about the model (see checks/C25.py META); it is decided per graph by the certificate. *)
From SGV Require Import Base.Tactics Routing.SPCert Routing.SPCertProofs.
Local Open Scope Z_scope.

Theorem C25_chain_check_sound : forall g s t L, chain_check g s t L = true -> is_route g s t L.
Proof. exact chain_check_sound. Qed.
Print Assumptions C25_chain_check_sound.

(* an accepted table is exactly the table of minimal link counts over non-empty chains of declared routes, for any
   number of nodes and any declared routes (symmetric or not) *)
Theorem C25_certificate_sound : forall g n rows, cert_ok g n rows = true -> forall s t,
  In s (range n) -> In t (range n) -> s <> t ->
  (dget rows s t <> -1 -> (exists p, p <> [] /\ is_path g s p t /\ cost_of p = dget rows s t) /\
                          (forall p, p <> [] -> is_path g s p t -> dget rows s t <= cost_of p)) /\
  (dget rows s t = -1 -> forall p, p <> [] -> ~ is_path g s p t).
Proof. exact cert_sound. Qed.
Print Assumptions C25_certificate_sound.

Theorem C25_certified_minimal : forall g n rows s t L,
  cert_ok g n rows = true -> 0 <= s < Z.of_nat n -> 0 <= t < Z.of_nat n -> s <> t ->
  chain_check g s t L = true -> Z.of_nat (length L) = dget rows s t ->
  minimal_route g s t L.
Proof. exact certified_minimal. Qed.
Print Assumptions C25_certified_minimal.

Theorem C25_certified_unreachable : forall g n rows s t,
  cert_ok g n rows = true -> 0 <= s < Z.of_nat n -> 0 <= t < Z.of_nat n -> s <> t ->
  dget rows s t = -1 -> forall L, ~ is_route g s t L.
Proof. exact certified_unreachable. Qed.
Print Assumptions C25_certified_unreachable.

(* Floyd, Dijkstra, DijkstraCache: accepted tables coincide *)
Theorem C25_three_agree : forall g n r1 r2 s t,
  cert_ok g n r1 = true -> cert_ok g n r2 = true -> 0 <= s < Z.of_nat n -> 0 <= t < Z.of_nat n -> s <> t ->
  dget r1 s t = dget r2 s t.
Proof. exact certified_agree. Qed.
Print Assumptions C25_three_agree.

(* Full zone: the route is the declared one, and every (uniquely) declared route is returned *)
Theorem C25_full_exact : forall g s t L, full_route g s t = Some L ->
  exists e, In e g /\ eu e = s /\ ev e = t /\ el e = L.
Proof. exact full_route_exact. Qed.
Print Assumptions C25_full_exact.
Theorem C25_full_declared : forall g e, In e g ->
  (forall e', In e' g -> eu e' = eu e -> ev e' = ev e -> e' = e) -> full_route g (eu e) (ev e) = Some (el e).
Proof. exact full_route_declared. Qed.
Print Assumptions C25_full_declared.

(* the Dijkstra loop as pinned (costs initialised to ULONG_MAX, every node queued, cost_v_u + ULONG_MAX wraps;
   predecessor 0 by default) violates the statement; the repaired loop does not on this witness *)
Theorem C25_dijkstra_pinned_refuted :
  let g := [mkedge 0 1 [10]; mkedge 2 1 [11]; mkedge 0 0 [99]; mkedge 1 1 [99]; mkedge 2 2 [99]] in
  is_route g 0 1 [10] /\ dijkstra_route_len false g 3 0 1 = -1 /\ dijkstra_route_len true g 3 0 1 = 1 /\
  snd (dijkstra false g 3 0) = [0; 2; 2].
Proof. exact dijkstra_pinned_refuted. Qed.
Print Assumptions C25_dijkstra_pinned_refuted.

(* hypotheses are satisfiable: a one-way triangle with a 2-link route; the table is accepted and the chain parses *)
Example C25_nonvacuous :
  let g := [mkedge 0 1 [1; 2]; mkedge 1 2 [3]; mkedge 2 0 [4]; mkedge 0 2 [5; 6; 7; 8]] in
  cert_ok g 3 [[0; 2; 3]; [2; 0; 1]; [1; 3; 0]] = true /\ chain_check g 0 2 [1; 2; 3] = true /\
  cert_ok g 3 [[0; 2; 4]; [2; 0; 1]; [1; 3; 0]] = false.
Proof. vm_compute. repeat split; reflexivity. Qed.
