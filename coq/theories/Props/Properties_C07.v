(** C07 — Barrier semantics.  Only statements; proofs live in SGV.Kernel.BarrierProofs.
    [exec n ops] is the state of a barrier created for n actors after ANY sequence [ops] of wait() calls (the list of
    the calling pids, in the order the kernel executes them; calls by an actor that is blocked in the barrier are
    rejected and change nothing).  Arrivals are numbered 0,1,2,... in that order (ghost field [arrived]); queue
    entries and outputs carry the number of the arrival they stand for. *)
From SGV Require Import Base.Tactics Kernel.Barrier Kernel.BarrierProofs.
Local Open Scope Z_scope.

(* a release happens exactly when the number of arrivals reaches a multiple of n, and it releases exactly the arrivals
   m-n .. m-1 (one complete group of n, the caller last), the queued ones being woken in arrival order *)
Theorem C07_groups : forall n ops p b' w me, 1 <= n < W32 ->
  step (exec n ops) p = (b', Release w me) ->
  let m := arrived (exec n ops) + 1 in
  m mod n = 0 /\ map snd (w ++ [me]) = zseq (m - n) (Z.to_nat n) /\ fst me = p.
Proof. exact groups. Qed.
Print Assumptions C07_groups.

(* an arrival (by an actor that can run) releases its group iff it is the n-th of the group; otherwise it blocks *)
Theorem C07_release_iff_complete : forall n ops p, 1 <= n < W32 ->
  in_queue p (queue (exec n ops)) = false ->
  ((exists w me, snd (step (exec n ops) p) = Release w me) <-> (arrived (exec n ops) + 1) mod n = 0).
Proof. exact release_iff_complete. Qed.
Print Assumptions C07_release_iff_complete.

(* no wait returns before the n arrivals of its group happened: arrival number i returns exactly when the number of
   arrivals reaches n*(i/n + 1) *)
Theorem C07_no_early_return : forall n ops p b' w me e, 1 <= n < W32 ->
  step (exec n ops) p = (b', Release w me) -> In e (w ++ [me]) ->
  arrived (exec n ops) + 1 = n * (snd e / n + 1).
Proof. exact no_early_return. Qed.
Print Assumptions C07_no_early_return.

(* at any time the actors blocked in the barrier are the arrivals after the last complete group, in arrival order *)
Theorem C07_state_closed_form : forall n ops, 1 <= n < W32 ->
  let b := exec n ops in
  Z.of_nat (length (queue b)) = arrived b mod n /\
  map snd (queue b) = zseq (n * (arrived b / n)) (length (queue b)).
Proof. exact state_closed_form. Qed.
Print Assumptions C07_state_closed_form.

(* the barrier is re-armed by a release *)
Theorem C07_rearm : forall n ops p b' w me, 1 <= n < W32 ->
  step (exec n ops) p = (b', Release w me) -> queue b' = [] /\ arrived b' mod n = 0.
Proof. exact rearm. Qed.
Print Assumptions C07_rearm.

(* [arrived] really counts the accepted wait() calls *)
Theorem C07_arrival_counter : forall n ops,
  arrived (exec n ops) = Z.of_nat (length (filter accepted (run (init n) ops))).
Proof. exact arrival_counter. Qed.
Print Assumptions C07_arrival_counter.

(* a call is rejected only when its issuer is blocked in this barrier (such a call cannot exist) *)
Theorem C07_rejected_iff_blocked : forall b p b',
  step b p = (b', Rejected) <-> in_queue p (queue b) = true /\ b' = b.
Proof. exact step_rejected. Qed.
Print Assumptions C07_rejected_iff_blocked.

(* Barrier::create(0) is accepted by the code: expected_actors_ - 1 wraps and nobody is ever released *)
Theorem C07_zero_never_releases : forall ops, Z.of_nat (length ops) < W32 - 1 ->
  Forall (fun o => o = Blocked \/ o = Rejected) (run (init 0) ops).
Proof. exact zero_never_releases. Qed.
Print Assumptions C07_zero_never_releases.

(* the oracle applied to the implementation's observations accepts exactly the observations in which every arrival of
   a complete group returns after, and at the date of, the arrival completing the group, and nobody else returns *)
Theorem C07_judge_sound : forall n arrs, 1 <= n ->
  (Forall (fun v => v = 0) (judge n arrs) <->
  (forall k a, nth_error arrs k = Some a -> arrival_ok n (Z.of_nat (length arrs)) arrs (Z.of_nat k) a)).
Proof. exact judge_sound. Qed.
Print Assumptions C07_judge_sound.

(* non-vacuity: size 2, actors 5 6 7 8 9 arrive: 6 releases {5,6}, 8 releases {7,8}, 9 stays blocked *)
Example C07_nonvacuous :
  run (init 2) [5; 6; 7; 8; 9] =
    [Blocked; Release [(5, 0)] (6, 1); Blocked; Release [(7, 2)] (8, 3); Blocked] /\
  queue (exec 2 [5; 6; 7; 8; 9]) = [(9, 4)] /\
  step (exec 2 [5; 6; 7]) 8 = (mkBar 2 4 [], Release [(7, 2)] (8, 3)) /\
  in_queue 8 (queue (exec 2 [5; 6; 7])) = false.
Proof. vm_compute. repeat split; reflexivity. Qed.
