(** C07 — Barrier semantics.  Only statements; proofs live in SGV.Kernel.BarrierProofs.
    [exec n ops] is the state of a barrier created for n actors after ANY sequence [ops] of wait() calls (the list of
    the calling pids, in the order the kernel executes them; calls by an actor that is blocked in the barrier are
    rejected and change nothing).  Arrivals are numbered 0,1,2,... in that order (ghost field [arrived]); queue
    entries and outputs carry the number of the arrival they stand for. *)
From SGV Require Import Base.Tactics Kernel.Barrier Kernel.BarrierProofs.
Local Open Scope Z_scope.

(* a release happens exactly when the number of arrivals reaches a multiple of n, and it releases exactly the arrivals
   m-n .. m-1 (one complete group of n, the caller last), the queued ones being woken in arrival order *)
Theorem C07_groups : forall n ops p b' w me, 1 <= n < W32 ->
  step (exec n ops) p = (b', Release w me) ->
  let m := arrived (exec n ops) + 1 in
  m mod n = 0 /\ map snd (w ++ [me]) = zseq (m - n) (Z.to_nat n) /\ fst me = p.
Proof. exact groups. Qed.
Print Assumptions C07_groups.

(* an arrival (by an actor that can run) releases its group iff it is the n-th of the group; otherwise it blocks *)
Theorem C07_release_iff_complete : forall n ops p, 1 <= n < W32 ->
  in_queue p (queue (exec n ops)) = false ->
  ((exists w me, snd (step (exec n ops) p) = Release w me) <-> (arrived (exec n ops) + 1) mod n = 0).
Proof. exact release_iff_complete. Qed.
Print Assumptions C07_release_iff_complete.

(* no wait returns before the n arrivals of its group happened: arrival number i returns exactly when the number of
   arrivals reaches n*(i/n + 1) *)
Theorem C07_no_early_return : forall n ops p b' w me e, 1 <= n < W32 ->
  step (exec n ops) p = (b', Release w me) -> In e (w ++ [me]) ->
  arrived (exec n ops) + 1 = n * (snd e / n + 1).
Proof. exact no_early_return. Qed.
Print Assumptions C07_no_early_return.

(* at any time the actors blocked in the barrier are the arrivals after the last complete group, in arrival order *)
Theorem C07_state_closed_form : forall n ops, 1 <= n < W32 ->
  let b := exec n ops in
  Z.of_nat (length (queue b)) = arrived b mod n /\
  map snd (queue b) = zseq (n * (arrived b / n)) (length (queue b)).
Proof. exact state_closed_form. Qed.
Print Assumptions C07_state_closed_form.

(* the barrier is re-armed by a release *)
Theorem C07_rearm : forall n ops p b' w me, 1 <= n < W32 ->
  step (exec n ops) p = (b', Release w me) -> queue b' = [] /\ arrived b' mod n = 0.
Proof. exact rearm. Qed.
Print Assumptions C07_rearm.

(* [arrived] really counts the accepted wait() calls *)
Theorem C07_arrival_counter : forall n ops,
  arrived (exec n ops) = Z.of_nat (length (filter accepted (run (init n) ops))).
Proof. exact arrival_counter. Qed.
Print Assumptions C07_arrival_counter.

(* a call is rejected only when its issuer is blocked in this barrier (such a call cannot exist) *)
Theorem C07_rejected_iff_blocked : forall b p b',
  step b p = (b', Rejected) <-> in_queue p (queue b) = true /\ b' = b.
Proof. exact step_rejected. Qed.
Print Assumptions C07_rejected_iff_blocked.

(* Barrier::create(0) is accepted by the code: expected_actors_ - 1 wraps and nobody is ever released *)
Theorem C07_zero_never_releases : forall ops, Z.of_nat (length ops) < W32 - 1 ->
  Forall (fun o => o = Blocked \/ o = Rejected) (run (init 0) ops).
Proof. exact zero_never_releases. Qed.
Print Assumptions C07_zero_never_releases.

(* the oracle applied to the implementation's observations accepts exactly the observations in which every arrival of
   a complete group returns after, and at the date of, the arrival completing the group, and nobody else returns *)
Theorem C07_judge_sound : forall n arrs, 1 <= n ->
  (Forall (fun v => v = 0) (judge n arrs) <->
  (forall k a, nth_error arrs k = Some a -> arrival_ok n (Z.of_nat (length arrs)) arrs (Z.of_nat k) a)).
Proof. exact judge_sound. Qed.
Print Assumptions C07_judge_sound.

(* non-vacuity: size 2, actors 5 6 7 8 9 arrive: 6 releases {5,6}, 8 releases {7,8}, 9 stays blocked *)
Example C07_nonvacuous :
  run (init 2) [5; 6; 7; 8; 9] =
    [Blocked; Release [(5, 0)] (6, 1); Blocked; Release [(7, 2)] (8, 3); Blocked] /\
  queue (exec 2 [5; 6; 7; 8; 9]) = [(9, 4)] /\
  step (exec 2 [5; 6; 7]) 8 = (mkBar 2 4 [], Release [(7, 2)] (8, 3)) /\
  in_queue 8 (queue (exec 2 [5; 6; 7])) = false.
Proof. vm_compute. repeat split; reflexivity. Qed.

(** ------------------------------------------------------------------------------------------------------------
    The two-simcall protocol used under the model checker and in replay mode (Barrier::wait() = BARRIER_ASYNC_LOCK
    then BARRIER_WAIT, any other actor may run in between).  [sexec n ops] is the state after ANY interleaving [ops]
    of [ALock p] (acquire_async by p) and [AWait p] (wait_for by p on its acquisition), by any number of actors, with
    any reuse of the barrier; operations an actor cannot issue (ALock while it holds an acquisition, AWait without
    one or while blocked) are rejected and change nothing.  Arrivals are numbered in ALock order. *)

(* a wait returns (at once, or woken by the ALock of the last of its group) only when the n arrivals of its group
   kn .. (k+1)n-1 all happened *)
Theorem C07_split_no_early_return : forall n ops o s' x e, 1 <= n < W32 ->
  sstep (sexec n ops) o = (s', x) -> In e (returned x) -> n * (snd e / n + 1) <= arrived (s_bar s').
Proof. exact split_no_early_return. Qed.
Print Assumptions C07_split_no_early_return.

(* a wait on a live acquisition returns at once iff the group of its arrival is complete and blocks iff it is not *)
Theorem C07_split_wait_iff_complete : forall n ops p a, 1 <= n < W32 ->
  let s := sexec n ops in
  find_acq p (s_acqs s) = Some a -> q_waiting a = false ->
  (n * (q_idx a / n + 1) <= arrived (s_bar s) -> snd (sstep s (AWait p)) = SReturns (p, q_idx a)) /\
  (arrived (s_bar s) < n * (q_idx a / n + 1) -> snd (sstep s (AWait p)) = SBlocks).
Proof. exact split_wait_iff_complete. Qed.
Print Assumptions C07_split_wait_iff_complete.

(* nobody stays blocked once its group is complete: a blocked waiter is in the queue, its group is incomplete *)
Theorem C07_split_blocked_incomplete : forall n ops a, 1 <= n < W32 ->
  let s := sexec n ops in
  In a (s_acqs s) -> q_waiting a = true ->
  q_granted a = false /\ In (q_pid a, q_idx a) (queue (s_bar s)) /\ arrived (s_bar s) < n * (q_idx a / n + 1).
Proof. exact split_blocked_incomplete. Qed.
Print Assumptions C07_split_blocked_incomplete.

(* at any time the queue is exactly the live acquisitions that are not granted, and these are the arrivals after the
   last complete group, in arrival order (nothing of a released group counts for the next one) *)
Theorem C07_split_state : forall n ops, 1 <= n < W32 ->
  let s := sexec n ops in
  map key (filter ungranted (s_acqs s)) = queue (s_bar s) /\
  Z.of_nat (length (queue (s_bar s))) = arrived (s_bar s) mod n /\
  map snd (queue (s_bar s)) = zseq (n * (arrived (s_bar s) / n)) (length (queue (s_bar s))).
Proof. exact split_state. Qed.
Print Assumptions C07_split_state.

(* the ALock of the last of a group is one Release step of the one-simcall protocol on the same queue; the queued
   ones are either woken (they were blocked in their wait) or marked granted; the barrier is re-armed: empty queue,
   no live acquisition left ungranted *)
Theorem C07_split_grant : forall n ops p s' w mk me, 1 <= n < W32 ->
  let s := sexec n ops in
  sstep s (ALock p) = (s', SGrant w mk me) ->
  step (s_bar s) p = (s_bar s', Release (queue (s_bar s)) me) /\
  (forall e, In e (queue (s_bar s)) <-> In e w \/ In e mk) /\
  (forall e, In e w <-> In e (queue (s_bar s)) /\ is_waiting (s_acqs s) e = true) /\
  queue (s_bar s') = [] /\ filter ungranted (s_acqs s') = [] /\ arrived (s_bar s') mod n = 0.
Proof. exact split_grant. Qed.
Print Assumptions C07_split_grant.

(* refinement: after any interleaving the barrier is in the state the one-simcall protocol reaches on the accepted
   ALocks in their order, it rejects none of them, and answers Blocked/Release (same groups) as the split protocol
   answers Queued/Grant: C07_groups, C07_no_early_return, ... apply to the groups formed under the model checker *)
Theorem C07_split_refines : forall n ops, 1 <= n < W32 ->
  let lk := locks (sinit n) ops in
  s_bar (sexec n ops) = exec n (map fst lk) /\
  run (init n) (map fst lk) = map snd lk /\
  Forall (fun o => accepted o = true) (map snd lk).
Proof. exact split_refines. Qed.
Print Assumptions C07_split_refines.

(* arrivals are numbered in ALock order *)
Theorem C07_split_arrival_counter : forall n ops, 1 <= n < W32 ->
  arrived (s_bar (sexec n ops)) = Z.of_nat (length (locks (sinit n) ops)).
Proof. exact split_arrival_counter. Qed.
Print Assumptions C07_split_arrival_counter.

(* non-vacuity: size 2, the interleaving 1:LOCK 2:LOCK 1:WAIT 1:LOCK 1:WAIT 2:WAIT 2:LOCK: actor 2 has locked but
   not waited when its group completes (marked, not woken); actor 1 re-uses the barrier and must block until actor 2
   arrives again *)
Example C07_split_nonvacuous :
  srun (sinit 2) [ALock 1; ALock 2; AWait 1; ALock 1; AWait 1; AWait 2; ALock 2] =
    [SQueued; SGrant [] [(1, 0)] (2, 1); SReturns (1, 0); SQueued; SBlocks; SReturns (2, 1); SGrant [(1, 2)] [] (2, 3)] /\
  sstep (sexec 2 [ALock 1; ALock 2; AWait 1; ALock 1; AWait 1; AWait 2]) (ALock 2) =
    (mkS (mkBar 2 4 []) [mkAcq 2 3 true false], SGrant [(1, 2)] [] (2, 3)) /\
  find_acq 1 (s_acqs (sexec 2 [ALock 1; ALock 2; AWait 1; ALock 1])) = Some (mkAcq 1 2 false false) /\
  In (mkAcq 1 2 false true) (s_acqs (sexec 2 [ALock 1; ALock 2; AWait 1; ALock 1; AWait 1])) /\
  locks (sinit 2) [ALock 1; ALock 2; AWait 1; ALock 1; AWait 1; AWait 2; ALock 2] =
    [(1, Blocked); (2, Release [(1, 0)] (2, 1)); (1, Blocked); (2, Release [(1, 2)] (2, 3))].
Proof. vm_compute. repeat split; try reflexivity. right. left. reflexivity. Qed.
