(** C09 — Message queues are exactly-once and FIFO.
    Only statements; model SGV.Kernel.MQueue (MessImpl::iput/iget, MessageQueueImpl::find_matching_message), proofs
    in SGV.Kernel.MQueueProofs.  A history [ops] is any sequence of put/get requests on one queue in the order the
    kernel handles them (any number of actors; blocking, asynchronous and detached puts are the same request). *)
From SGV Require Import Base.Tactics Kernel.MQueue Kernel.MQueueProofs.
Local Open Scope Z_scope.

(* the pairs formed, in the order they are formed, are exactly: k-th put with k-th get *)
Theorem C09_fifo : forall ops, snd (qrun [] ops) = combine (puts_of ops) (gets_of ops).
Proof. exact fifo. Qed.
Print Assumptions C09_fifo.

Theorem C09_kth_get_kth_put : forall ops k p g,
  nth_error (snd (qrun [] ops)) k = Some (p, g) <->
  nth_error (puts_of ops) k = Some p /\ nth_error (gets_of ops) k = Some g.
Proof. exact kth. Qed.
Print Assumptions C09_kth_get_kth_put.

(* every put is consumed by exactly one get or still queued, every get is served by exactly one put or still queued
   (equalities of lists: nothing duplicated, nothing lost, order kept) *)
Theorem C09_exactly_once : forall ops,
  let res := qrun [] ops in
  puts_of ops = map fst (snd res) ++ qpending true (fst res) /\
  gets_of ops = map snd (snd res) ++ qpending false (fst res).
Proof. exact exactly_once. Qed.
Print Assumptions C09_exactly_once.

(* the queue never holds a PUT and a GET together *)
Theorem C09_homogeneous : forall ops,
  let q := fst (qrun [] ops) in (forall e, In e q -> fst e = true) \/ (forall e, In e q -> fst e = false).
Proof. exact homogeneous. Qed.
Print Assumptions C09_homogeneous.

(* what is left queued *)
Theorem C09_final_queue : forall ops,
  fst (qrun [] ops) = tagq true (skipn (length (gets_of ops)) (puts_of ops)) ++
                      tagq false (skipn (length (puts_of ops)) (gets_of ops)).
Proof. exact final_queue. Qed.
Print Assumptions C09_final_queue.

(* the oracle applied to implementation logs accepts exactly the pairing the property text prescribes *)
Theorem C09_oracle_sound : forall ops obs, mq_log_ok ops obs = true ->
  obs = flat_map (fun pg => [mid (snd pg); mpayload (fst pg)]) (combine (puts_of ops) (gets_of ops)).
Proof. exact oracle_sound. Qed.
Print Assumptions C09_oracle_sound.

Example C09_nonvacuous :
  let ops := [QGet (mkMess 1 0 0); QPut (mkMess 2 1 2); QPut (mkMess 3 2 3); QPut (mkMess 4 1 4); QGet (mkMess 5 0 0)] in
  map (fun pg => (mid (fst pg), mid (snd pg))) (snd (qrun [] ops)) = [(2, 1); (3, 5)] /\
  map (fun e => mid (snd e)) (fst (qrun [] ops)) = [4].
Proof. vm_compute. split; reflexivity. Qed.
