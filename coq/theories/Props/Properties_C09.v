(** C09 — Message queues are exactly-once and FIFO.
    Only statements; model SGV.Kernel.MQueue (MessImpl::iput/iget, MessageQueueImpl::find_matching_message), proofs
    in SGV.Kernel.MQueueProofs.  A history [ops] is any sequence of put/get requests on one queue in the order the
    kernel handles them (any number of actors; blocking, asynchronous and detached puts are the same request).
    Second part: histories [xops] that also contain withdrawals of requests that are still queued (Mess::cancel(), or
    the issuer ends / is killed with unmatched put_async/get_async: MessImpl::cancel -> MessageQueueImpl::remove). *)
From SGV Require Import Base.Tactics Kernel.MQueue Kernel.MQueueProofs Kernel.MQueueWithdraw.
Local Open Scope Z_scope.

(* the pairs formed, in the order they are formed, are exactly: k-th put with k-th get *)
Theorem C09_fifo : forall ops, snd (qrun [] ops) = combine (puts_of ops) (gets_of ops).
Proof. exact fifo. Qed.
Print Assumptions C09_fifo.

Theorem C09_kth_get_kth_put : forall ops k p g,
  nth_error (snd (qrun [] ops)) k = Some (p, g) <->
  nth_error (puts_of ops) k = Some p /\ nth_error (gets_of ops) k = Some g.
Proof. exact kth. Qed.
Print Assumptions C09_kth_get_kth_put.

(* every put is consumed by exactly one get or still queued, every get is served by exactly one put or still queued
   (equalities of lists: nothing duplicated, nothing lost, order kept) *)
Theorem C09_exactly_once : forall ops,
  let res := qrun [] ops in
  puts_of ops = map fst (snd res) ++ qpending true (fst res) /\
  gets_of ops = map snd (snd res) ++ qpending false (fst res).
Proof. exact exactly_once. Qed.
Print Assumptions C09_exactly_once.

(* the queue never holds a PUT and a GET together *)
Theorem C09_homogeneous : forall ops,
  let q := fst (qrun [] ops) in (forall e, In e q -> fst e = true) \/ (forall e, In e q -> fst e = false).
Proof. exact homogeneous. Qed.
Print Assumptions C09_homogeneous.

(* what is left queued *)
Theorem C09_final_queue : forall ops,
  fst (qrun [] ops) = tagq true (skipn (length (gets_of ops)) (puts_of ops)) ++
                      tagq false (skipn (length (puts_of ops)) (gets_of ops)).
Proof. exact final_queue. Qed.
Print Assumptions C09_final_queue.

(* the oracle applied to implementation logs accepts exactly the pairing the property text prescribes *)
Theorem C09_oracle_sound : forall ops obs, mq_log_ok ops obs = true ->
  obs = flat_map (fun pg => [mid (snd pg); mpayload (fst pg)]) (combine (puts_of ops) (gets_of ops)).
Proof. exact oracle_sound. Qed.
Print Assumptions C09_oracle_sound.

Example C09_nonvacuous :
  let ops := [QGet (mkMess 1 0 0); QPut (mkMess 2 1 2); QPut (mkMess 3 2 3); QPut (mkMess 4 1 4); QGet (mkMess 5 0 0)] in
  map (fun pg => (mid (fst pg), mid (snd pg))) (snd (qrun [] ops)) = [(2, 1); (3, 5)] /\
  map (fun e => mid (snd e)) (fst (qrun [] ops)) = [4].
Proof. vm_compute. split; reflexivity. Qed.

(** ---- histories with withdrawals ----
    [XCancel ids] = cancel() called on the messages [ids] one after the other (one id for Mess::cancel(); all the
    non-detached messages of an actor, in the arbitrary order of its activity set, when the actor ends or is killed).
    Request ids are pairwise distinct (a request is one MessImpl object). *)

(* one cancel step: exactly the named messages that are still queued leave the queue, the others keep their relative
   order (filter), and the order of the cancels is irrelevant (the right-hand sides depend on [ids] as a set only) *)
Theorem C09_cancel_exact : forall q ids, NoDup (qids q) ->
  fst (cancel_all q ids) = filter (keep ids) q /\
  (forall i, In i (snd (cancel_all q ids)) <-> In i ids /\ In i (qids q)).
Proof. exact cancel_exact. Qed.
Print Assumptions C09_cancel_exact.

(* which requests are withdrawn over a whole history: those named by a cancel while they are queued *)
Theorem C09_withdrawn_iff : forall xops, NoDup (req_ids xops) -> forall i,
  In i (withdrawn xops) <->
  exists pre ids post, xops = pre ++ XCancel ids :: post /\ In i ids /\ In i (qids (fst (fst (xrun [] pre)))).
Proof. exact withdrawn_iff. Qed.
Print Assumptions C09_withdrawn_iff.

(* pairs formed and final queue are those of the history in which the withdrawn requests were never issued *)
Theorem C09_withdrawn_as_never_issued : forall xops, NoDup (req_ids xops) ->
  qrun [] (erase (withdrawn xops) xops) = fst (xrun [] xops).
Proof. exact as_never_issued. Qed.
Print Assumptions C09_withdrawn_as_never_issued.

(* FIFO among the survivors: k-th surviving put with k-th surviving get, in the order the pairs are formed *)
Theorem C09_withdraw_fifo : forall xops, NoDup (req_ids xops) ->
  let w := withdrawn xops in
  snd (fst (xrun [] xops)) = combine (surv w (xputs_of xops)) (surv w (xgets_of xops)).
Proof. exact withdraw_fifo. Qed.
Print Assumptions C09_withdraw_fifo.

(* exactly-once for the requests that were not withdrawn (ordered lists: nothing duplicated, lost or reordered) *)
Theorem C09_withdraw_exactly_once : forall xops, NoDup (req_ids xops) ->
  let res := xrun [] xops in let w := withdrawn xops in
  surv w (xputs_of xops) = map fst (snd (fst res)) ++ qpending true (fst (fst res)) /\
  surv w (xgets_of xops) = map snd (snd (fst res)) ++ qpending false (fst (fst res)).
Proof. exact withdraw_exactly_once. Qed.
Print Assumptions C09_withdraw_exactly_once.

Theorem C09_withdraw_homogeneous : forall xops, NoDup (req_ids xops) ->
  let q := fst (fst (xrun [] xops)) in (forall e, In e q -> fst e = true) \/ (forall e, In e q -> fst e = false).
Proof. exact withdraw_homogeneous. Qed.
Print Assumptions C09_withdraw_homogeneous.

Theorem C09_withdraw_final_queue : forall xops, NoDup (req_ids xops) ->
  let w := withdrawn xops in let P := surv w (xputs_of xops) in let G := surv w (xgets_of xops) in
  fst (fst (xrun [] xops)) = tagq true (skipn (length G) P) ++ tagq false (skipn (length P) G).
Proof. exact withdraw_final_queue. Qed.
Print Assumptions C09_withdraw_final_queue.

(* on histories without withdrawals the extended step function is the one of the first part *)
Theorem C09_xrun_conservative : forall ops q, xrun q (map XReq ops) = (qrun q ops, []).
Proof. exact xrun_conservative. Qed.
Print Assumptions C09_xrun_conservative.

Theorem C09_xoracle_sound : forall xops obs, mq_xlog_ok xops obs = true ->
  obs = flat_map (fun pg => [mid (snd pg); mpayload (fst pg)])
          (combine (surv (withdrawn xops) (xputs_of xops)) (surv (withdrawn xops) (xgets_of xops))).
Proof. exact xoracle_sound. Qed.
Print Assumptions C09_xoracle_sound.
Theorem C09_xoracle_is_model : forall xops, NoDup (req_ids xops) ->
  expected_xlog xops = flat_map (fun pg => [mid (snd pg); mpayload (fst pg)]) (snd (fst (xrun [] xops))).
Proof. exact xoracle_is_model. Qed.
Print Assumptions C09_xoracle_is_model.

(* puts 1..4 queued, the 2nd is cancelled with two queued behind it, then three gets: 1,3,4 in that order *)
Example C09_withdraw_nonvacuous :
  let xops := [XReq (QPut (mkMess 1 0 1)); XReq (QPut (mkMess 2 0 2)); XReq (QPut (mkMess 3 1 3)); XReq (QPut (mkMess 4 2 4));
               XCancel [2]; XReq (QGet (mkMess 5 3 0)); XReq (QGet (mkMess 6 3 0)); XCancel [1; 6];
               XReq (QGet (mkMess 7 3 0))] in
  NoDup (req_ids xops) /\ withdrawn xops = [2] /\
  map (fun pg => (mid (fst pg), mid (snd pg))) (snd (fst (xrun [] xops))) = [(1, 5); (3, 6); (4, 7)] /\
  fst (fst (xrun [] xops)) = [].
Proof.
  cbv zeta. split; [|vm_compute; repeat split; reflexivity].
  cbn [req_ids op_mess mid]. repeat (constructor; [cbn; lia|]). constructor.
Qed.
(* pending gets; an actor with gets 2 and 4 dies (its activity set is walked in address order: 4 before 2) *)
Example C09_withdraw_gets_nonvacuous :
  let xops := [XReq (QGet (mkMess 1 0 0)); XReq (QGet (mkMess 2 1 0)); XReq (QGet (mkMess 3 2 0)); XReq (QGet (mkMess 4 1 0));
               XReq (QGet (mkMess 5 3 0)); XCancel [4; 2; 9]; XReq (QPut (mkMess 6 4 6)); XReq (QPut (mkMess 7 4 7));
               XReq (QPut (mkMess 8 4 8)); XReq (QPut (mkMess 9 4 9))] in
  NoDup (req_ids xops) /\ withdrawn xops = [4; 2] /\
  map (fun pg => (mid (fst pg), mid (snd pg))) (snd (fst (xrun [] xops))) = [(6, 1); (7, 3); (8, 5)] /\
  qids (fst (fst (xrun [] xops))) = [9].
Proof.
  cbv zeta. split; [|vm_compute; repeat split; reflexivity].
  cbn [req_ids op_mess mid]. repeat (constructor; [cbn; lia|]). constructor.
Qed.

(** ---- hand-over of the payload (MessImpl::finish) ----
    finish() runs once when the pair is formed and again for every later wait()/test() on the message; the payload is
    written to the receive buffer by the first run only (repaired code: fix in KNOWN_FINDINGS.txt), so a variable filled by
    a completed get is never written again.  The pinned code wrote it on every run. *)
Theorem C09_delivered_once : forall n m, mo_done m = true -> mo_payload m <> 0 -> mo_dst m <> 0 ->
  finish_n true (S n) m = [(mo_dst m, mo_payload m)].
Proof. exact delivered_once. Qed.
Print Assumptions C09_delivered_once.
Theorem C09_delivered_once_pinned_refuted :
  exists m, finish_n false 2 m = [(mo_dst m, mo_payload m); (mo_dst m, mo_payload m)].
Proof. exact delivered_once_pinned_refuted. Qed.
Print Assumptions C09_delivered_once_pinned_refuted.
Example C09_delivered_once_nonvacuous : finish_n true 3 (mkMobj true 7 9) = [(9, 7)].
Proof. vm_compute. reflexivity. Qed.
