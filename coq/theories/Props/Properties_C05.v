(** C05 — Semaphore semantics: token conservation, FIFO, timeouts.
    Only statements; proofs live in SGV.Kernel.SemProofs.
    [exec fx c ops] is the state of a semaphore of initial capacity c after ANY sequence of acquire / acquire_timeout /
    release calls by any number of actors and of timer events [Fire p] (the engine ending the sleep action that p's
    wait_for armed), in the order the kernel executes them.  [fx = true] is the repaired wait_for (timeout >= 0 arms a
    timer), [fx = false] the pinned one (timeout > 0).  Calls of an actor blocked in this semaphore are [Rejected]. *)
From SGV Require Import Base.Tactics Kernel.Sem Kernel.SemProofs.
Local Open Scope Z_scope.

(* never more tokens granted than c + releases; get_capacity() = c + releases - grants at any time, which is 0 whenever
   somebody waits (so it "is that difference when nobody waits", and nobody waits while a token is free) *)
Theorem C05_conservation : forall fx c ops, 0 <= c ->
  let s := exec fx c ops in let tr := run fx (init c) ops in
  value s = c + total released tr - total granted tr /\ 0 <= value s /\
  total granted tr <= c + total released tr /\
  (queue s = [] \/ (value s = 0 /\ total granted tr = c + total released tr)).
Proof. exact conservation. Qed.
Print Assumptions C05_conservation.

(* FIFO: the queue is exactly the blocked requests not yet served or timed out, in request order ... *)
Theorem C05_fifo : forall fx c ops, map fst (queue (exec fx c ops)) = waiting_of (run fx (init c) ops).
Proof. exact fifo. Qed.
Print Assumptions C05_fifo.

(* ... and a release serves its head (the oldest request still waiting) without touching the free tokens *)
Theorem C05_release_serves_head : forall fx s p s' q, step fx s (Release p) = (s', Released (Some q)) ->
  exists tm r, queue s = (q, tm) :: r /\ queue s' = r /\ value s' = value s.
Proof. exact release_serves_head. Qed.
Print Assumptions C05_release_serves_head.

Theorem C05_release_without_waiter : forall fx s p s', step fx s (Release p) = (s', Released None) ->
  queue s = [] /\ value s' = value s + 1.
Proof. exact release_without_waiter. Qed.
Print Assumptions C05_release_without_waiter.

(* acquire (with or without timeout) returns at once iff a token is free *)
Theorem C05_acquire_when_token : forall fx s p tm, in_queue p (queue s) = false -> 0 < value s ->
  step fx s (match tm with Some t => AcquireTimeout p t | None => Acquire p end) =
  (mkSem (value s - 1) (queue s) (grants s + 1) (releases s), Acquired).
Proof. exact acquire_when_token. Qed.
Print Assumptions C05_acquire_when_token.

(* a timeout is reported iff the timer elapses while the acquisition still waits, i.e. no token was granted to it before *)
Theorem C05_timeout_iff_timer : forall fx s p,
  (has_timer p (queue s) = true -> snd (step fx s (Fire p)) = TimedOut) /\
  (has_timer p (queue s) = false -> step fx s (Fire p) = (s, NoTimer)).
Proof. exact timeout_iff_timer. Qed.
Print Assumptions C05_timeout_iff_timer.

Theorem C05_granted_never_times_out : forall fx c ops p s' q, 0 <= c ->
  step fx (exec fx c ops) (Release p) = (s', Released (Some q)) -> step fx s' (Fire q) = (s', NoTimer).
Proof. exact granted_never_times_out. Qed.
Print Assumptions C05_granted_never_times_out.

(* a reported timeout consumes no token and removes exactly that waiter, which no later release can serve *)
Theorem C05_timeout_consumes_nothing : forall fx s p s', step fx s (Fire p) = (s', TimedOut) ->
  value s' = value s /\ grants s' = grants s /\ releases s' = releases s /\
  queue s' = remove_first p (queue s) /\ has_timer p (queue s) = true.
Proof. exact timeout_consumes_nothing. Qed.
Print Assumptions C05_timeout_consumes_nothing.

Theorem C05_timed_out_is_gone : forall fx c ops p s', 0 <= c ->
  step fx (exec fx c ops) (Fire p) = (s', TimedOut) -> in_queue p (queue s') = false.
Proof. exact timed_out_is_gone. Qed.
Print Assumptions C05_timed_out_is_gone.

(* repaired code: every acquire_timeout(t), t >= 0, that has to wait arms a timer, so it ends by a grant or by a timeout *)
Theorem C05_armed_iff_nonnegative : forall s p t, in_queue p (queue s) = false -> value s <= 0 ->
  snd (step true s (AcquireTimeout p t)) = Blocked (0 <=? t) /\
  (0 <= t -> snd (step true (fst (step true s (AcquireTimeout p t))) (Fire p)) = TimedOut).
Proof. exact armed_iff_nonnegative. Qed.
Print Assumptions C05_armed_iff_nonnegative.

(* pinned code: acquire_timeout(0) on an empty semaphore arms nothing; it never reports a timeout *)
Theorem C05_pinned_timeout0_refuted :
  map snd (run false (init 0) [AcquireTimeout 1 0; Fire 1]) = [Blocked false; NoTimer] /\
  map fst (queue (exec false 0 [AcquireTimeout 1 0; Fire 1])) = [1] /\
  map snd (run true (init 0) [AcquireTimeout 1 0; Fire 1]) = [Blocked true; TimedOut].
Proof. exact pinned_timeout0_refuted. Qed.
Print Assumptions C05_pinned_timeout0_refuted.

(* non-vacuity: capacity 1; 1 takes the token, 2 and 3 wait (3 with a timeout), 3 times out, 1 releases -> 2 is served,
   then a release finds nobody *)
Example C05_nonvacuous :
  map snd (run true (init 1) [Acquire 1; Acquire 2; AcquireTimeout 3 4; Fire 3; Release 1; Fire 3; Release 2; Release 2]) =
    [Acquired; Blocked false; Blocked true; TimedOut; Released (Some 2); NoTimer; Released None; Released None] /\
  value (exec true 1 [Acquire 1; Acquire 2; AcquireTimeout 3 4; Fire 3; Release 1; Fire 3; Release 2; Release 2]) = 2 /\
  has_timer 3 (queue (exec true 1 [Acquire 1; Acquire 2; AcquireTimeout 3 4])) = true.
Proof. vm_compute. repeat split; reflexivity. Qed.
