(** C36 — Each rank has its own copy of global variables (mmap privatization logic).
    Only statements; proofs live in SGV.Smpi.PrivProofs.

    [run_impl init t] = the values the reads of trace [t] return in the model of smpi_switch_data_segment (one window,
    one backing store per rank, smpi_loaded_page); [run_spec init t] = the value every read must return: the reading
    rank's own last write to that cell, or the initial value.  dlopen privatization (one copy of the binary per rank,
    made by the dynamic loader) has no logic to model: it is judged by runs only (checks/C36.py). *)
From SGV Require Import Base.Tactics Smpi.Priv Smpi.PrivProofs.
Local Open Scope Z_scope.

(* for ANY interleaving of rank slices, writes, reads and library switches to other actors' segments: if every access
   is made while the last switch was the hook for the running rank (ActorImpl::yield / switch-back), each read returns
   the reader's own last write *)
Theorem C36_read_own_last_write : forall init t,
  disciplined t = true -> run_impl init t = run_spec init t.
Proof. exact read_own_last_write. Qed.
Print Assumptions C36_read_own_last_write.

(* what the specification says, spelled out: another rank's write is invisible, the own write is read back, and a
   cell never written by the rank still has its initial value *)
Theorem C36_spec_other_rank_invisible : forall hist r' a' v r a init,
  r' <> r -> own_last ((r', a', v) :: hist) r a init = own_last hist r a init.
Proof. exact own_last_other. Qed.
Print Assumptions C36_spec_other_rank_invisible.

Theorem C36_spec_own_write_read_back : forall hist r a v init, own_last ((r, a, v) :: hist) r a init = v.
Proof. exact own_last_same. Qed.
Print Assumptions C36_spec_own_write_read_back.

Theorem C36_spec_initial_value : forall hist r a init,
  (forall v, ~ In (r, a, v) hist) -> own_last hist r a init = init a.
Proof. exact own_last_never. Qed.
Print Assumptions C36_spec_initial_value.

(* the hypothesis is needed: one skipped hook, or one missing switch-back after touching another actor's segment, and
   a rank reads a foreign value *)
Theorem C36_skipped_hook_refuted :
  exists t, run_impl (fun _ => 0) t <> run_spec (fun _ => 0) t /\
            run_impl (fun _ => 0) t = [(0, 1, 20)] /\ run_spec (fun _ => 0) t = [(0, 1, 10)].
Proof. exact skipped_hook_refuted. Qed.
Print Assumptions C36_skipped_hook_refuted.

Theorem C36_foreign_not_restored_refuted :
  exists t, run_impl (fun _ => 0) t = [(0, 1, 20)] /\ run_spec (fun _ => 0) t = [(0, 1, 10)].
Proof. exact foreign_not_restored_refuted. Qed.
Print Assumptions C36_foreign_not_restored_refuted.

(* the oracle used on implementation observations is sound *)
Theorem C36_oracle_sound : forall x y, obs_eqb x y = true -> x = y.
Proof. exact obs_eqb_sound. Qed.
Print Assumptions C36_oracle_sound.

(* the hypothesis holds on a non-trivial interleaving: three ranks, interleaved writes to the same cell, a copy
   callback touching another segment followed by the switch back *)
Example C36_nonvacuous :
  let t := [ESwitch 0; EWrite 1 10; EWrite 2 11; ESwitch 1; EWrite 1 20; EForeign 0; ESwitch 1; ERead 1;
            ESwitch 2; ERead 1; EWrite 1 30; ESwitch 0; ERead 1; ERead 2; ESwitch 2; ERead 1] in
  disciplined t = true /\ run_impl (fun a => 7 * a) t = [(1, 1, 20); (2, 1, 7); (0, 1, 10); (0, 2, 11); (2, 1, 30)].
Proof. split; vm_compute; reflexivity. Qed.
