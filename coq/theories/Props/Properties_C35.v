(** C35 — Private parts of partially shared buffers are transferred exactly.
    Only statements; proofs live in SGV.Smpi.BlocksProofs. *)
From SGV Require Import Base.Tactics Smpi.Blocks Smpi.BlocksProofs.
Local Open Scope Z_scope.

(* every byte of the message lying in a private block is kept (re-based at the message start), nothing else,
   whatever the offset of the message inside the allocation *)
Theorem C35_shift_covers : forall vec off size x,
  0 <= off -> 0 <= size ->
  (covered (shift vec off size) x <-> 0 <= x < size /\ covered vec (x + off)).
Proof. exact shift_covers. Qed.
Print Assumptions C35_shift_covers.

Theorem C35_merge_is_intersection : forall s d x,
  sorted s -> sorted d -> (covered (merge s d) x <-> covered s x /\ covered d x).
Proof. exact merge_is_intersection. Qed.
Print Assumptions C35_merge_is_intersection.

(* the blocks memcpy'd by the copy callback = bytes of the message private in both buffers *)
Theorem C35_private_bytes_copied : forall src dst soff doff size x,
  0 <= soff -> 0 <= doff -> 0 <= size -> sorted src -> sorted dst ->
  (covered (copied src dst soff doff size) x <->
   0 <= x < size /\ covered src (x + soff) /\ covered dst (x + doff)).
Proof. exact private_bytes_copied. Qed.
Print Assumptions C35_private_bytes_copied.

(* check_blocks() can never fire *)
Theorem C35_framed_blocks_in_buffer : forall vec off size b e,
  0 <= off -> 0 <= size -> Forall (fun be => fst be <= snd be) vec ->
  In (b, e) (shift vec off size) -> 0 <= b <= e /\ e <= size.
Proof. exact shift_in_frame. Qed.
Print Assumptions C35_framed_blocks_in_buffer.

(* end to end: between two SMPI_PARTIAL_SHARED_MALLOC allocations, exactly the message bytes that are outside the
   shared blocks of both allocations must be transferred *)
Theorem C35_end_to_end : forall ssize sshared dsize dshared soff doff size x,
  0 <= soff -> 0 <= doff -> 0 <= size -> 0 <= ssize -> 0 <= dsize ->
  sorted sshared -> sorted dshared ->
  (forall b e, In (b, e) sshared -> 0 <= b /\ e <= ssize) ->
  (forall b e, In (b, e) dshared -> 0 <= b /\ e <= dsize) ->
  (covered (e2e ssize sshared dsize dshared soff doff size) x <->
   0 <= x < size /\ (0 <= x + soff < ssize /\ ~ covered sshared (x + soff))
                 /\ (0 <= x + doff < dsize /\ ~ covered dshared (x + doff))).
Proof. exact e2e_spec. Qed.
Print Assumptions C35_end_to_end.

(* the function as pinned (unsigned underflow) violates the statement: the witness is the replay of the finding *)
Theorem C35_pinned_code_refuted :
  exists vec off size x, 0 <= x < size /\ covered_b vec (x + off) = true /\ covered_b (shift_orig vec off size) x = false.
Proof. exact shift_orig_refuted. Qed.
Print Assumptions C35_pinned_code_refuted.

(* hypotheses are satisfiable on a non-trivial layout *)
Example C35_nonvacuous :
  sorted [(4, 10); (16, 24)] /\ sorted [(0, 8); (12, 20)] /\
  copied [(4, 10); (16, 24)] [(0, 8); (12, 20)] 6 2 16 = [(0, 4); (10, 16)].
Proof. repeat split; try (apply sorted_b_sound); vm_compute; reflexivity. Qed.
