(** C46 — File system accounting is consistent.
    Only statements; the model is SGV.Plugins.FileSystem (mirrors s4u_FileSystem.cpp after commit "fix: File::write
    truncates the file when it overwrites from inside"), proofs live in SGV.Plugins.FileSystemProofs. *)
From SGV Require Import Base.Tactics Plugins.FileSystem Plugins.FileSystemProofs.
Local Open Scope Z_scope.

(* Full statement wanted by the property text:
     forall c capacity ops s', nodup c -> ranged c -> run true (init c capacity) ops = Some s' ->
       used s' = wrap (total (content s')).
   It is FALSE for the real code (C46_two_handles_refuted, C46_write_after_move_refuted, C46_write_after_unlink_refuted,
   C46_move_onto_existing_refuted below: recorded findings).  What is proved is the statement for every history
   (any length, any number of files/File objects, any sizes) in which each operation is [admissible]: the File it
   goes through is in sync with the disk (its path_ is in the content map with the File's cached size_) and a move
   does not target another existing path.  Missing for the full statement: File objects sharing a path, and a File
   used after move/unlink, do not keep size_/path_ up to date in the C++. *)
Theorem C46_used_eq_sum_partial : forall c capacity ops s',
  nodup c -> ranged c ->
  all_admissible true (init c capacity) ops = true ->
  run true (init c capacity) ops = Some s' ->
  used s' = wrap (total (content s')) /\ (total (content s') < W -> used s' = total (content s')).
Proof. exact used_eq_sum. Qed.
Print Assumptions C46_used_eq_sum_partial.

(* the invariant is inductive from any consistent state, not only from a freshly parsed disk *)
Theorem C46_step_preserves_accounting : forall s o s' r,
  Inv s -> admissible s o = true -> step true s o = Some (s', r) -> Inv s'.
Proof. exact step_inv. Qed.
Print Assumptions C46_step_preserves_accounting.

(* a read returns at most the bytes between the position and the end of the file, and advances by what it returns *)
Theorem C46_read_bound : forall s slot n h s' r,
  Inv s -> hget slot (hs s) = Some h -> step true s (Read slot n) = Some (s', r) ->
  0 <= r <= hsize h - hpos h /\ r <= wrap n
  /\ hget slot (hs s') = Some (mkH (hpath h) (hsize h) (hpos h + r))
  /\ content s' = content s /\ used s' = used s
  /\ (in_sync s h = true -> r <= fsize (hpath h) (content s) - hpos h).
Proof. exact read_bound. Qed.
Print Assumptions C46_read_bound.

(* unlinking gives back exactly the size of the file: it disappears from the content, nothing else changes *)
Theorem C46_unlink_returns_size : forall s slot h s' r,
  Inv s -> hget slot (hs s) = Some h -> in_sync s h = true -> step true s (Unlink slot) = Some (s', r) ->
  r = 0 /\ lookup (hpath h) (content s') = None
  /\ fsize (hpath h) (content s) = hsize h
  /\ total (content s') = total (content s) - fsize (hpath h) (content s)
  /\ used s' = wrap (used s - fsize (hpath h) (content s))
  /\ (forall q, q <> hpath h -> lookup q (content s') = lookup q (content s)).
Proof. exact unlink_returns_size. Qed.
Print Assumptions C46_unlink_returns_size.

(* the oracle run on the implementation's observations is exactly the per-step specification ... *)
Theorem C46_oracle_is_spec : forall r, step_ok r = true <-> StepSpec r.
Proof. exact step_ok_spec. Qed.
Print Assumptions C46_oracle_is_spec.

(* ... and the verified model always passes it *)
Theorem C46_model_passes_oracle : forall s o s' r,
  Inv s -> admissible s o = true -> step true s o = Some (s', r) -> step_ok (record s o s' r) = true.
Proof. exact model_passes_oracle. Qed.
Print Assumptions C46_model_passes_oracle.

(* the code as pinned violated the statement inside the discipline (repaired by the fix: commit) *)
Theorem C46_pinned_write_refuted :
  exists c capacity ops s', nodup c /\ ranged c /\ all_admissible false (init c capacity) ops = true
    /\ run false (init c capacity) ops = Some s' /\ viol s' = true.
Proof. exact pinned_write_refuted. Qed.
Print Assumptions C46_pinned_write_refuted.

(* outside the discipline the current code violates the statement: recorded findings *)
Theorem C46_two_handles_refuted :
  exists ops s', run true (init [(0, 100)] 1000000) ops = Some s' /\ viol s' = true.
Proof. exact two_handles_refuted. Qed.
Print Assumptions C46_two_handles_refuted.
Theorem C46_write_after_move_refuted :
  exists ops s', run true (init [(0, 100)] 1000000) ops = Some s' /\ viol s' = true.
Proof. exact write_after_move_refuted. Qed.
Print Assumptions C46_write_after_move_refuted.
Theorem C46_write_after_unlink_refuted :
  exists ops s', run true (init [(0, 100)] 1000000) ops = Some s' /\ viol s' = true.
Proof. exact write_after_unlink_refuted. Qed.
Print Assumptions C46_write_after_unlink_refuted.
Theorem C46_move_onto_existing_refuted :
  exists ops s', run true (init [(0, 100); (1, 7)] 1000000) ops = Some s' /\ viol s' = true.
Proof. exact move_onto_existing_refuted. Qed.
Print Assumptions C46_move_onto_existing_refuted.

(* hypotheses are satisfiable on a non-trivial history: overwrite, append in place, read, move, unlink, re-create *)
Example C46_nonvacuous :
  let c := [(0, 100); (1, 7)] in
  let ops := [Open 0 0; Seek 0 40 0; Write 0 10 false; Read 0 5; Seek 0 20 0; Write 0 100 true; Open 1 1;
              Unlink 1; Close 1; Move 0 2; Close 0; Open 0 2; Read 0 500; Open 1 1; Write 1 3 false] in
  nodup c /\ ranged c /\ all_admissible true (init c 1000) ops = true
  /\ exists s', run true (init c 1000) ops = Some s' /\ used s' = 123 /\ total (content s') = 123.
Proof.
  cbn zeta. split; [repeat constructor; cbn; intuition lia|]. split; [repeat constructor; cbn; rewrite ?W_val; lia|].
  split; [vm_compute; reflexivity|]. eexists. split; [vm_compute; reflexivity|]. split; reflexivity.
Qed.
