(** C46 — File system accounting is consistent.
    Only statements; the model is SGV.Plugins.FileSystem (mirrors s4u_FileSystem.cpp after commit "fix: File::write
    truncates the file when it overwrites from inside"), proofs live in SGV.Plugins.FileSystemProofs. *)
From SGV Require Import Base.Tactics Plugins.FileSystem Plugins.FileSystemProofs.
From SGV Require Import Plugins.FileSystemConc Plugins.FileSystemConcProofs.
Local Open Scope Z_scope.

(* Full statement wanted by the property text:
     forall c capacity ops s', nodup c -> ranged c -> run true (init c capacity) ops = Some s' ->
       used s' = wrap (total (content s')).
   It is FALSE for the real code (C46_two_handles_refuted, C46_write_after_move_refuted, C46_write_after_unlink_refuted,
   C46_move_onto_existing_refuted below: recorded findings).  What is proved is the statement for every history
   (any length, any number of files/File objects, any sizes) in which each operation is [admissible]: the File it
   goes through is in sync with the disk (its path_ is in the content map with the File's cached size_) and a move
   does not target another existing path.  Missing for the full statement: File objects sharing a path, and a File
   used after move/unlink, do not keep size_/path_ up to date in the C++. *)
Theorem C46_used_eq_sum_partial : forall c capacity ops s',
  nodup c -> ranged c ->
  all_admissible true (init c capacity) ops = true ->
  run true (init c capacity) ops = Some s' ->
  used s' = wrap (total (content s')) /\ (total (content s') < W -> used s' = total (content s')).
Proof. exact used_eq_sum. Qed.
Print Assumptions C46_used_eq_sum_partial.

(* the invariant is inductive from any consistent state, not only from a freshly parsed disk *)
Theorem C46_step_preserves_accounting : forall s o s' r,
  Inv s -> admissible s o = true -> step true s o = Some (s', r) -> Inv s'.
Proof. exact step_inv. Qed.
Print Assumptions C46_step_preserves_accounting.

(* a read returns at most the bytes between the position and the end of the file, and advances by what it returns *)
Theorem C46_read_bound : forall s slot n h s' r,
  Inv s -> hget slot (hs s) = Some h -> step true s (Read slot n) = Some (s', r) ->
  0 <= r <= hsize h - hpos h /\ r <= wrap n
  /\ hget slot (hs s') = Some (mkH (hpath h) (hsize h) (hpos h + r))
  /\ content s' = content s /\ used s' = used s
  /\ (in_sync s h = true -> r <= fsize (hpath h) (content s) - hpos h).
Proof. exact read_bound. Qed.
Print Assumptions C46_read_bound.

(* unlinking gives back exactly the size of the file: it disappears from the content, nothing else changes *)
Theorem C46_unlink_returns_size : forall s slot h s' r,
  Inv s -> hget slot (hs s) = Some h -> in_sync s h = true -> step true s (Unlink slot) = Some (s', r) ->
  r = 0 /\ lookup (hpath h) (content s') = None
  /\ fsize (hpath h) (content s) = hsize h
  /\ total (content s') = total (content s) - fsize (hpath h) (content s)
  /\ used s' = wrap (used s - fsize (hpath h) (content s))
  /\ (forall q, q <> hpath h -> lookup q (content s') = lookup q (content s)).
Proof. exact unlink_returns_size. Qed.
Print Assumptions C46_unlink_returns_size.

(* the oracle run on the implementation's observations is exactly the per-step specification ... *)
Theorem C46_oracle_is_spec : forall r, step_ok r = true <-> StepSpec r.
Proof. exact step_ok_spec. Qed.
Print Assumptions C46_oracle_is_spec.

(* ... and the verified model always passes it *)
Theorem C46_model_passes_oracle : forall s o s' r,
  Inv s -> admissible s o = true -> step true s o = Some (s', r) -> step_ok (record s o s' r) = true.
Proof. exact model_passes_oracle. Qed.
Print Assumptions C46_model_passes_oracle.

(* the code as pinned violated the statement inside the discipline (repaired by the fix: commit) *)
Theorem C46_pinned_write_refuted :
  exists c capacity ops s', nodup c /\ ranged c /\ all_admissible false (init c capacity) ops = true
    /\ run false (init c capacity) ops = Some s' /\ viol s' = true.
Proof. exact pinned_write_refuted. Qed.
Print Assumptions C46_pinned_write_refuted.

(* outside the discipline the current code violates the statement: recorded findings *)
Theorem C46_two_handles_refuted :
  exists ops s', run true (init [(0, 100)] 1000000) ops = Some s' /\ viol s' = true.
Proof. exact two_handles_refuted. Qed.
Print Assumptions C46_two_handles_refuted.
Theorem C46_write_after_move_refuted :
  exists ops s', run true (init [(0, 100)] 1000000) ops = Some s' /\ viol s' = true.
Proof. exact write_after_move_refuted. Qed.
Print Assumptions C46_write_after_move_refuted.
Theorem C46_write_after_unlink_refuted :
  exists ops s', run true (init [(0, 100)] 1000000) ops = Some s' /\ viol s' = true.
Proof. exact write_after_unlink_refuted. Qed.
Print Assumptions C46_write_after_unlink_refuted.
Theorem C46_move_onto_existing_refuted :
  exists ops s', run true (init [(0, 100); (1, 7)] 1000000) ops = Some s' /\ viol s' = true.
Proof. exact move_onto_existing_refuted. Qed.
Print Assumptions C46_move_onto_existing_refuted.

(* hypotheses are satisfiable on a non-trivial history: overwrite, append in place, read, move, unlink, re-create *)
Example C46_nonvacuous :
  let c := [(0, 100); (1, 7)] in
  let ops := [Open 0 0; Seek 0 40 0; Write 0 10 false; Read 0 5; Seek 0 20 0; Write 0 100 true; Open 1 1;
              Unlink 1; Close 1; Move 0 2; Close 0; Open 0 2; Read 0 500; Open 1 1; Write 1 3 false] in
  nodup c /\ ranged c /\ all_admissible true (init c 1000) ops = true
  /\ exists s', run true (init c 1000) ops = Some s' /\ used s' = 123 /\ total (content s') = 123.
Proof.
  cbn zeta. split; [repeat constructor; cbn; intuition lia|]. split; [repeat constructor; cbn; rewrite ?W_val; lia|].
  split; [vm_compute; reflexivity|]. eexists. split; [vm_compute; reflexivity|]. split; reflexivity.
Qed.

(** ---------------------------------------------------------------------------------------------------------------
    Several actors on one disk (SGV.Plugins.FileSystemConc): an operation is not atomic, it is a first segment
    ([Start a o]: everything up to the first accounting simcall; it reads the disk state) followed by the updates the C++
    performs one simcall / one statement at a time ([Tick a]: used_size_ += x, used_size_ -= x, replace the content entry,
    erase the content entry), and the segments of different actors interleave in any order (same scheduling round,
    later rounds, later dates).  Discipline [madmissible]: [admissible] as above + no operation in flight concerns a path
    that the starting operation touches (different actors work on different files). *)

(* the segments of one operation, run without interruption, are exactly one [step] of the single-actor model
   (which is tied to the C++ by the differential runs) *)
Theorem C46_segments_refine_step : forall s o,
  step true s o = match decide s o with
                  | Some (s', r, l) => Some (flush s' (op_path s o) l, r)
                  | None => None
                  end.
Proof. exact decide_refines_step. Qed.
Print Assumptions C46_segments_refine_step.
Theorem C46_solo_refines_step : forall s a o,
  mrun (mkM s []) (solo a o) = match step true s o with Some (s', _) => Some (mkM s' []) | None => None end.
Proof. exact solo_refines_step. Qed.
Print Assumptions C46_solo_refines_step.

(* every segment of every admissible interleaving preserves: used size = total of the files - what the operations in
   flight still owe ([psum]), distinct Files in flight, well-formed content *)
Theorem C46_interleaving_preserves_accounting : forall M e M' r,
  MInv M -> madmissible M e = true -> mstep M e = Some (M', r) -> MInv M'.
Proof. exact mstep_inv. Qed.
Print Assumptions C46_interleaving_preserves_accounting.

(* ... hence, from a freshly parsed disk, after ANY interleaving of the segments of the actors' operations: the used size
   is the total of the files corrected by the operations in flight, and equals it as soon as no operation is in flight
   (the audit points of the multi-actor driver).  Partial for the same reason as C46_used_eq_sum_partial. *)
Theorem C46_concurrent_used_eq_sum_partial : forall c capacity es M',
  nodup c -> ranged c ->
  all_madmissible (minit c capacity) es = true ->
  mrun (minit c capacity) es = Some M' ->
  used (ms M') = wrap (total (content (ms M')) - psum (content (ms M')) (pend M'))
  /\ (pend M' = [] ->
      used (ms M') = wrap (total (content (ms M')))
      /\ (total (content (ms M')) < W -> used (ms M') = total (content (ms M')))).
Proof. exact concurrent_used_eq_sum. Qed.
Print Assumptions C46_concurrent_used_eq_sum_partial.

(* non-vacuous: three actors; in one round two of them unlink their file and the third cuts its file from 4000 to 1500
   bytes (seek 1000, write 500); the three decrements are handled first (used 1000 while the files still total 7500,
   three operations in flight), then the remaining updates: used = total = 1500 *)
Example C46_concurrent_nonvacuous :
  let c := [(0, 1000); (1, 2500); (2, 4000)] in
  let es1 := [Start 0 (Open 0 0); Start 1 (Open 16 1); Start 2 (Open 32 2); Start 2 (Seek 32 1000 0);
              Start 0 (Unlink 0); Start 1 (Unlink 16); Start 2 (Write 32 500 false); Tick 0; Tick 1; Tick 2] in
  let es2 := [Tick 0; Tick 1; Tick 2; Tick 2; Tick 2] in
  nodup c /\ ranged c /\ all_madmissible (minit c 1000000) (es1 ++ es2) = true
  /\ (exists M1, mrun (minit c 1000000) es1 = Some M1 /\ length (pend M1) = 3%nat
                 /\ used (ms M1) = 1000 /\ total (content (ms M1)) = 7500)
  /\ exists M', mrun (minit c 1000000) (es1 ++ es2) = Some M' /\ pend M' = []
                /\ used (ms M') = 1500 /\ total (content (ms M')) = 1500.
Proof.
  cbn zeta. split; [repeat constructor; cbn; intuition lia|]. split; [repeat constructor; cbn; rewrite ?W_val; lia|].
  split; [vm_compute; reflexivity|]. split.
  - eexists. split; [vm_compute; reflexivity|]. repeat split; reflexivity.
  - eexists. split; [vm_compute; reflexivity|]. repeat split; reflexivity.
Qed.
