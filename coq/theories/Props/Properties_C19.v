(** C19 — Update algorithms and solver options give the same timings.
    Only statements; proofs live in SGV.Res.ActionProofs and SGV.Res.Ti.  eps = 0 (exact rationals).
    A history is the list of (duration, rate, touched) segments the sharing solver gives to one action: suspension and
    starvation are rate 0, resume / bound / priority / capacity changes are rate changes, segment boundaries are all the
    dates at which the engine stops (so any interleaving with unrelated events is covered); [touched] = the action is in
    the modified set at that solve, which selective update guarantees at least when its rate changed ([touch_ok]). *)
From Coq Require Import QArith List.
From SGV Require Import Res.Action Res.ActionProofs Res.Ti.
Import ListNotations.
Local Open Scope Q_scope.

(* same completion date (or none within the history) under the LAZY and the FULL update algorithm *)
Theorem C19_lazy_eq_full : forall h cost t0, wf h -> touch_ok 0 h -> 0 < cost ->
  oQeq (lazy_run 0 t0 (lazy_init cost t0) h) (full_run 0 t0 cost h).
Proof. exact lazy_eq_full. Qed.
Print Assumptions C19_lazy_eq_full.

(* that date is determined by the rates alone: the first date at which the integral of the rate reaches the cost
   (hence also independent of where unrelated events cut the engine steps) *)
Theorem C19_completion_is_first_hit : forall h t0 cost T, wf h -> 0 < cost -> full_run 0 t0 cost h = Some T ->
  t0 <= T /\ integral h (T - t0) == cost /\ (forall y, 0 <= y -> y < T - t0 -> integral h y < cost).
Proof. exact full_char. Qed.
Print Assumptions C19_completion_is_first_hit.

(* in the FULL algorithm, when the action's own completion is the next event the step does finish it *)
Theorem C19_full_no_stall : forall rem r d, 0 < rem -> ttc rem r = Some d -> Qle_bool (dupd 0 rem (r * d)) 0 = true.
Proof. exact full_own_event_finishes. Qed.
Print Assumptions C19_full_no_stall.

(* max_duration (sleeps): decrementing at every step (FULL) or keeping start + duration in the heap (LAZY) *)
Theorem C19_max_duration : forall steps t0 md, Forall (fun d => 0 <= d) steps -> 0 < md ->
  oQeq (lazy_sleep t0 (t0 + md) steps) (full_sleep 0 t0 md steps).
Proof. exact sleep_lazy_eq_full. Qed.
Print Assumptions C19_max_duration.

(* TI (single core, availability trace): inverting the integral of the trace for total_area = rem / share gives the date
   at which the FULL bookkeeping completes with the rates scale * share *)
Theorem C19_ti_eq_full : forall trace share now rem, 0 < share -> trace_ok trace -> 0 < rem ->
  oQeq (ti_solve now (ti_area rem share) trace) (full_run 0 now rem (ti_hist share trace)).
Proof. exact ti_eq_full. Qed.
Print Assumptions C19_ti_eq_full.

(* hypotheses are satisfiable: an action suspended in the middle, a rate change not reported as touched only when the rate
   is unchanged, and a trace with two availability levels *)
Example C19_nonvacuous :
  let h := [mkseg 2 2 true; mkseg 1 2 false; mkseg 2 0 true; mkseg 4 1 true; mkseg 8 (1#2) true] in
  wf_b h = true /\ touch_ok_b 0 h = true /\
  lazy_run 0 1 (lazy_init 10 1) h = Some (1 + 2 + 1 + 2 + 4) /\ full_run 0 1 10 h = Some (1 + 2 + 1 + 2 + 4) /\
  ti_solve 0 (ti_area 10 (1#2)) [(4, 1); (100, 1#2)] = Some (4 + (10 / (1#2) - 1 * 4) / (1#2)).
Proof. vm_compute. repeat split. Qed.
