(** C12 — Timed waits are exact (Exec::wait_for / ActivitySet::wait_any_for). Statements only.
    The timeout timer is part of the waiting actor's status [SBlocked (BWait h (Some deadline))]; Timer::execute_all is
    [fire_timeout], run after solve() and *before* handle_ended_actions (see [advance]). *)
From SGV Require Import Base.Tactics Kernel.Engine Kernel.EngineProofs.
Local Open Scope Z_scope.

(* when the deadline is reached: if the activity's action finished in this very solve() (completion at the deadline) the
   timer does nothing and the wait completes normally; otherwise the waiter gets TimeoutException (result 1) at that date *)
Theorem C12_wait_for_deadline : forall s p a h dl,
  get_actor p (actors s) = Some a -> a_st a = SBlocked (BWait h (Some dl)) -> dl <= clock s ->
  exists a', get_actor p (actors (fire_timeout s p)) = Some a' /\
    if act_finished s h then a_st a' = SBlocked (BWait h None)
    else a_st a' = SReady 1 (seq s) /\ clock (fire_timeout s p) = clock s.
Proof. exact timeout_spec. Qed.
Print Assumptions C12_wait_for_deadline.

(* never before the deadline *)
Theorem C12_no_timeout_before_deadline : forall s p a h dl,
  get_actor p (actors s) = Some a -> a_st a = SBlocked (BWait h (Some dl)) -> clock s < dl -> fire_timeout s p = s.
Proof. exact timeout_not_before. Qed.
Print Assumptions C12_no_timeout_before_deadline.

(* and the clock cannot pass the deadline (nor the completion date of a running exec) without stopping there *)
Theorem C12_deadline_not_jumped_over : forall s s' d,
  advance s = Some s' -> In d (all_dates s) -> stuck s' = false -> clock s' <= d.
Proof. exact advance_stops_at_earliest. Qed.
Print Assumptions C12_deadline_not_jumped_over.

(* an exec is popped as FINISHED exactly when its completion date is within the precision of the new clock *)
Theorem C12_completion_date : forall s m x dt, h_st x = ARun dt ->
  h_st (pop_act s m x) = if Z.abs (dt - m) <? prec s then AFin m else ARun dt.
Proof. exact exec_pop_spec. Qed.
Print Assumptions C12_completion_date.

(* wait_any_for: at the deadline the timer answers -1 (no "right on time" exception in the code: an activity completing
   exactly at the deadline is reported as a timeout, which the property text allows: "completed before the deadline") *)
Theorem C12_wait_any_deadline : forall s p a hs dl,
  get_actor p (actors s) = Some a -> a_st a = SBlocked (BWaitAny hs (Some dl)) -> dl <= clock s ->
  exists a', get_actor p (actors (fire_timeout s p)) = Some a' /\ a_st a' = SReady (-1) (seq s).
Proof. exact waitany_timeout_spec. Qed.
Print Assumptions C12_wait_any_deadline.

(* whole runs: deadline before / at / after the natural completion (2 s), and wait_any_for *)
Example C12_nonvacuous :
  let S := 4294967296 in
  let '(s, fin) := run 50 (init 4 [[OExecAsync 1 (2*S); OWaitFor 1 (2*S)]; [OExecAsync 2 (2*S); OWaitFor 2 S];
                                   [OExecAsync 3 (2*S); OWaitFor 3 (3*S)]; [OExecAsync 4 S; OExecAsync 5 (2*S); OWaitAny (3*S) [5;4]]]) in
  fin = true /\ halted s = false /\
  In (ERet 1 1 (OWaitFor 1 (2*S)) 0 (2*S) 0 false) (log s) /\ In (ERet 2 1 (OWaitFor 2 S) 0 S 1 false) (log s) /\
  In (ERet 3 1 (OWaitFor 3 (3*S)) 0 (2*S) 0 false) (log s) /\ In (ERet 4 2 (OWaitAny (3*S) [5;4]) 0 S 4 false) (log s).
Proof. vm_compute. repeat split; auto 30. Qed.

(** ------------------------------------------------------------------------------------------------------------------
    Communications and I/Os (model Kernel/TimedComm.v: a CommImpl has no model action until both sides are posted; the
    deadline callback of ActivityImpl::wait_for reads the action the activity has when the timer FIRES). *)
From SGV Require Import Kernel.TimedComm Kernel.TimedCommProofs.

(* END TO END, one timed wait: the visited dates [ms] are any increasing sequence of engine dates after the call that contains
   the deadline and (when not after the deadline) the completion date -- neither is ever jumped over, see
   C12_comm_dates_not_jumped_over -- whatever else happens at other dates.  td = t0 + t.
   The activity already has its action when the wait is issued (I/O, exec, comm whose peer is already there): *)
Theorem C12_wait_for_exact : forall pr oc ms e tc td,
  0 < pr -> incr ms -> separated pr tc ms ->
  waiting e -> e_act e = Some (ARun tc) -> e_dl e = Some td ->
  In td ms -> (tc <= td -> In tc ms) ->
  let e' := ep_run pr oc ms e in
  (tc <= td -> e_res e' = EDone tc /\ e_cst e' = CDone tc) /\
  (td < tc -> e_res e' = ETimeout td /\ (oc = true -> cancelled e')).
Proof. exact wait_exact_running. Qed.
Print Assumptions C12_wait_for_exact.

(* the comm is still unmatched when the wait is issued: the peer posts at ts, the action created then completes at
   tc = ts + d; a completion at the deadline counts as completed although the comm had no action when wait_for was called *)
Theorem C12_wait_for_exact_unmatched : forall pr oc ms e ts td,
  0 < pr -> 0 < e_dur e -> incr ms -> separated pr (ts + e_dur e) ms ->
  waiting e -> e_act e = None -> e_cst e = CWaiting -> e_peer e = Some ts -> e_dl e = Some td ->
  In td ms -> (ts <= td -> In ts ms) -> (ts + e_dur e <= td -> In (ts + e_dur e) ms) ->
  let tc := ts + e_dur e in
  let e' := ep_run pr oc ms e in
  (tc <= td -> e_res e' = EDone tc /\ e_cst e' = CDone tc) /\
  (td < tc -> e_res e' = ETimeout td /\ (oc = true -> cancelled e')).
Proof. exact wait_exact_unmatched. Qed.
Print Assumptions C12_wait_for_exact_unmatched.

Theorem C12_wait_for_never_matched : forall pr oc ms e td,
  incr ms -> waiting e -> e_act e = None -> e_cst e = CWaiting -> e_peer e = None -> e_dl e = Some td -> In td ms ->
  let e' := ep_run pr oc ms e in e_res e' = ETimeout td /\ (oc = true -> cancelled e').
Proof. exact wait_never_matched. Qed.
Print Assumptions C12_wait_for_never_matched.

Theorem C12_wait_untimed : forall pr oc ms e tc,
  0 < pr -> incr ms -> separated pr tc ms -> waiting e -> e_act e = Some (ARun tc) -> e_dl e = None -> In tc ms ->
  e_res (ep_run pr oc ms e) = EDone tc.
Proof. exact wait_untimed_running. Qed.
Print Assumptions C12_wait_untimed.

(* THE ENGINE STEPS the episode is made of ([ep_visit] and the engine share pop_astate / timer_skips / ended_result).
   Timer::execute_all: the callback tests the action of the record as it is in the CURRENT state *)
Theorem C12_comm_deadline_reads_current_action : forall s p a k dl x,
  get_actor p (actors s) = Some a -> a_st a = SBlocked (BWait k (Some dl)) -> dl <= clock s ->
  get_comm k (comms s) = Some x ->
  exists a', get_actor p (actors (fire_timeout s p)) = Some a' /\ clock (fire_timeout s p) = clock s /\
    if timer_skips (c_act x) then a_st a' = SBlocked (BWait k None) /\ comms (fire_timeout s p) = comms s
    else a_st a' = SReady 1 (seq s).
Proof. exact timeout_spec. Qed.
Print Assumptions C12_comm_deadline_reads_current_action.

Theorem C12_comm_no_timeout_before_deadline : forall s p a k dl,
  get_actor p (actors s) = Some a -> a_st a = SBlocked (BWait k (Some dl)) -> clock s < dl -> fire_timeout s p = s.
Proof. exact timeout_not_before. Qed.
Print Assumptions C12_comm_no_timeout_before_deadline.

(* a side posted alone has no action; the post that matches it creates the action with completion date now + duration *)
Theorem C12_comm_unmatched_put_has_no_action : forall s p c d s',
  post_put s p c d = Some s' -> waiting_recv c (comms s) = None ->
  exists x, comms s' = comms s ++ [x] /\ c_id x = c /\ c_snd x = Some p /\ c_rcv x = None /\ c_st x = CWaiting /\ c_act x = None /\ c_wait x = [].
Proof. exact put_unmatched_no_action. Qed.
Print Assumptions C12_comm_unmatched_put_has_no_action.

Theorem C12_comm_unmatched_get_has_no_action : forall s p c s',
  post_get s p c = Some s' -> waiting_send c (comms s) = None ->
  exists x, comms s' = comms s ++ [x] /\ c_id x = c /\ c_rcv x = Some p /\ c_snd x = None /\ c_st x = CWaiting /\ c_act x = None /\ c_wait x = [].
Proof. exact get_unmatched_no_action. Qed.
Print Assumptions C12_comm_unmatched_get_has_no_action.

Theorem C12_comm_get_match_creates_action : forall s p c s' x,
  post_get s p c = Some s' -> waiting_send c (comms s) = Some x -> get_comm (c_key x) (comms s) = Some x ->
  exists x', get_comm (c_key x) (comms s') = Some x' /\ c_st x' = CRunning /\ c_act x' = Some (ARun (clock s + c_dur x)) /\
             c_wait x' = c_wait x /\ clock s' = clock s.
Proof. exact get_matches_creates_action. Qed.
Print Assumptions C12_comm_get_match_creates_action.

Theorem C12_comm_put_match_creates_action : forall s p c d s' x,
  post_put s p c d = Some s' -> waiting_recv c (comms s) = Some x -> get_comm (c_key x) (comms s) = Some x ->
  exists x', get_comm (c_key x) (comms s') = Some x' /\ c_st x' = CRunning /\ c_act x' = Some (ARun (clock s + d)) /\
             c_wait x' = c_wait x /\ clock s' = clock s.
Proof. exact put_matches_creates_action. Qed.
Print Assumptions C12_comm_put_match_creates_action.

(* handle_ended_actions -> finish(): all registered waiters are answered at the current date, 0 if the action FINISHED *)
Theorem C12_comm_finish_answers_waiters : forall s k x r,
  get_comm k (comms s) = Some x -> ended_result (c_act x) = Some r ->
  let s' := end_rec s k in
  clock s' = clock s /\
  (exists x', get_comm k (comms s') = Some x' /\ c_act x' = None /\ c_wait x' = [] /\
              c_st x' = if r =? 0 then CDone (clock s) else if c_io x then CCanceled else CFailed) /\
  (forall q, In q (c_wait x) -> get_actor q (actors s) <> None ->
     exists a' n, get_actor q (actors s') = Some a' /\ a_st a' = SReady r n).
Proof. exact end_rec_spec. Qed.
Print Assumptions C12_comm_finish_answers_waiters.

(* wait_for_or_cancel: after cancel() the activity is out of its mailbox (CANCELED) or its action is FAILED and out of
   the heap; it can never be popped as FINISHED any more (unless it already finished in this very solve) *)
Theorem C12_or_cancel_never_completes : forall p x,
  (c_st x = CWaiting -> c_act x = None /\ c_io x = false) -> (c_st x = CWaiting \/ c_st x = CRunning) ->
  let y := cancel_rec p x in
  (forall dt, c_act y <> Some (ARun dt)) /\ c_act y <> Some AFin \/ c_act x = Some AFin /\ c_act y = Some AFin.
Proof. exact cancel_spec. Qed.
Print Assumptions C12_or_cancel_never_completes.

Theorem C12_or_cancel_unmatched_is_canceled : forall p x, c_st x = CWaiting -> c_io x = false -> c_st (cancel_rec p x) = CCanceled.
Proof. exact cancel_waiting_canceled. Qed.
Print Assumptions C12_or_cancel_unmatched_is_canceled.

Theorem C12_or_cancel_running_action_failed : forall p x dt, c_st x = CRunning -> c_act x = Some (ARun dt) -> c_act (cancel_rec p x) = Some AFailed.
Proof. exact cancel_running_failed. Qed.
Print Assumptions C12_or_cancel_running_action_failed.

(* solve() stops at the earliest pending date; deadlines and completion dates are pending dates *)
Theorem C12_comm_dates_not_jumped_over : forall s s' d,
  advance s = Some s' -> In d (all_dates s) -> stuck s' = false -> clock s' <= d.
Proof. exact advance_stops_at_earliest. Qed.
Print Assumptions C12_comm_dates_not_jumped_over.

Theorem C12_comm_deadline_is_pending : forall s a k dl, In a (actors s) -> a_st a = SBlocked (BWait k (Some dl)) -> In dl (all_dates s).
Proof. exact deadline_is_pending. Qed.
Print Assumptions C12_comm_deadline_is_pending.

Theorem C12_comm_completion_is_pending : forall s x dt, In x (comms s) -> c_act x = Some (ARun dt) -> In dt (all_dates s).
Proof. exact completion_is_pending. Qed.
Print Assumptions C12_comm_completion_is_pending.

Theorem C12_comm_completion_date : forall s m x dt, c_act x = Some (ARun dt) ->
  c_act (pop_comm s m x) = if due (prec s) m dt (c_io x) then Some AFin else Some (ARun dt).
Proof. exact comm_pop_spec. Qed.
Print Assumptions C12_comm_completion_date.

(* non-vacuity. Episode: sender waits from 0 with a 3 s deadline, the receiver posts at 1 s, 2 s payload: completion AT the deadline *)
Example C12_wait_for_exact_unmatched_nonvacuous :
  let S := 4294967296 in
  let e := mkE None (Some (3*S)) (Some S) (2*S) false EWaiting CWaiting in
  let ms := [S; 2*S; 3*S; 4*S] in
  0 < 4 /\ 0 < e_dur e /\ incr ms /\ separated 4 (S + e_dur e) ms /\ waiting e /\ In (3*S) ms /\ In S ms /\
  e_res (ep_run 4 false ms e) = EDone (3*S) /\
  e_res (ep_run 4 true [S; 2*S; 3*S - 4; 3*S] (mkE None (Some (3*S - 4)) (Some S) (2*S) false EWaiting CWaiting)) = ETimeout (3*S - 4).
Proof.
  cbn zeta.
  split; [reflexivity|]. split; [reflexivity|]. split; [vm_compute; auto|].
  split. { intros m Hm Hlt. cbn [e_dur] in *. destruct Hm as [<-|[<-|[<-|[<-|[]]]]]; lia. }
  split; [reflexivity|]. split; [vm_compute; auto|]. split; [vm_compute; auto|].
  split; vm_compute; reflexivity.
Qed.

Example C12_wait_for_exact_nonvacuous :
  let S := 4294967296 in
  let e := mkE (Some (ARun (2*S))) (Some (2*S)) None (2*S) true EWaiting CRunning in
  incr [S; 2*S] /\ separated 4 (2*S) [S; 2*S] /\ e_res (ep_run 4 true [S; 2*S] e) = EDone (2*S) /\
  e_res (ep_run 4 true [S; 2*S] (mkE (Some (ARun (2*S))) (Some S) None (2*S) true EWaiting CRunning)) = ETimeout S /\
  cancelled (ep_run 4 true [S; 2*S] (mkE (Some (ARun (2*S))) (Some S) None (2*S) true EWaiting CRunning)).
Proof.
  cbn zeta.
  split; [vm_compute; auto|].
  split. { intros m Hm Hlt. destruct Hm as [<-|[<-|[]]]; lia. }
  split; [vm_compute; reflexivity|]. split; [vm_compute; reflexivity|].
  vm_compute. left. reflexivity.
Qed.

(* whole runs of the engine model: sender first with the completion at / one precision before the deadline (timeout, then the
   natural completion is observed by an untimed wait); receiver first with Mailbox::get(t) at the deadline; wait_for_or_cancel
   timing out makes the peer fail at that date; I/O at the deadline *)
Example C12_comm_nonvacuous :
  let S := 4294967296 in
  let '(s1, f1) := run 60 (init 4 [[KPut 1 (2*S) false; KWait 1 (3*S) false]; [KSleep S; KGet 1 false; KWait 1 (-1) false]]) in
  let '(s2, f2) := run 60 (init 4 [[KPut 1 (2*S) false; KWait 1 (3*S - 4) false; KWait 1 (-1) false]; [KSleep S; KGet 1 false; KWait 1 (-1) false]]) in
  let '(s3, f3) := run 60 (init 4 [[KSleep S; KPut 1 (2*S) true; KWait 1 (2*S) true]; [KGet 1 true; KWait 1 (3*S) true]]) in
  let '(s4, f4) := run 60 (init 4 [[KPut 1 (2*S) false; KWait 1 (2*S) true; KSleep (4*S)]; [KSleep S; KGet 1 false; KWait 1 (-1) false]]) in
  let '(s5, f5) := run 60 (init 4 [[KIo 2 (2*S); KWait 2 (2*S) false; KIo 3 (2*S); KWait 3 S true]]) in
  f1 = true /\ f2 = true /\ f3 = true /\ f4 = true /\ f5 = true /\
  In (ERet 1 1 0 (3*S) 0) (log s1) /\ In (ERet 2 2 S (3*S) 0) (log s1) /\
  In (ERet 1 1 0 (3*S - 4) 1) (log s2) /\ In (ERet 1 2 (3*S - 4) (3*S) 0) (log s2) /\
  In (ERet 1 1 S (3*S) 0) (log s3) /\ In (ERet 2 0 0 (3*S) 0) (log s3) /\
  In (ERet 1 1 0 (2*S) 1) (log s4) /\ In (ERet 2 2 S (2*S) 3) (log s4) /\
  In (ERet 1 1 0 (2*S) 0) (log s5) /\ In (ERet 1 3 (2*S) (3*S) 1) (log s5).
Proof. vm_compute. repeat split; auto 30. Qed.
