(** C12 — Timed waits are exact (Exec::wait_for / ActivitySet::wait_any_for). Statements only.
    The timeout timer is part of the waiting actor's status [SBlocked (BWait h (Some deadline))]; Timer::execute_all is
    [fire_timeout], run after solve() and *before* handle_ended_actions (see [advance]). *)
From SGV Require Import Base.Tactics Kernel.Engine Kernel.EngineProofs.
Local Open Scope Z_scope.

(* when the deadline is reached: if the activity's action finished in this very solve() (completion at the deadline) the
   timer does nothing and the wait completes normally; otherwise the waiter gets TimeoutException (result 1) at that date *)
Theorem C12_wait_for_deadline : forall s p a h dl,
  get_actor p (actors s) = Some a -> a_st a = SBlocked (BWait h (Some dl)) -> dl <= clock s ->
  exists a', get_actor p (actors (fire_timeout s p)) = Some a' /\
    if act_finished s h then a_st a' = SBlocked (BWait h None)
    else a_st a' = SReady 1 (seq s) /\ clock (fire_timeout s p) = clock s.
Proof. exact timeout_spec. Qed.
Print Assumptions C12_wait_for_deadline.

(* never before the deadline *)
Theorem C12_no_timeout_before_deadline : forall s p a h dl,
  get_actor p (actors s) = Some a -> a_st a = SBlocked (BWait h (Some dl)) -> clock s < dl -> fire_timeout s p = s.
Proof. exact timeout_not_before. Qed.
Print Assumptions C12_no_timeout_before_deadline.

(* and the clock cannot pass the deadline (nor the completion date of a running exec) without stopping there *)
Theorem C12_deadline_not_jumped_over : forall s s' d,
  advance s = Some s' -> In d (all_dates s) -> stuck s' = false -> clock s' <= d.
Proof. exact advance_stops_at_earliest. Qed.
Print Assumptions C12_deadline_not_jumped_over.

(* an exec is popped as FINISHED exactly when its completion date is within the precision of the new clock *)
Theorem C12_completion_date : forall s m x dt, h_st x = ARun dt ->
  h_st (pop_act s m x) = if Z.abs (dt - m) <? prec s then AFin m else ARun dt.
Proof. exact exec_pop_spec. Qed.
Print Assumptions C12_completion_date.

(* wait_any_for: at the deadline the timer answers -1 (no "right on time" exception in the code: an activity completing
   exactly at the deadline is reported as a timeout, which the property text allows: "completed before the deadline") *)
Theorem C12_wait_any_deadline : forall s p a hs dl,
  get_actor p (actors s) = Some a -> a_st a = SBlocked (BWaitAny hs (Some dl)) -> dl <= clock s ->
  exists a', get_actor p (actors (fire_timeout s p)) = Some a' /\ a_st a' = SReady (-1) (seq s).
Proof. exact waitany_timeout_spec. Qed.
Print Assumptions C12_wait_any_deadline.

(* whole runs: deadline before / at / after the natural completion (2 s), and wait_any_for *)
Example C12_nonvacuous :
  let S := 4294967296 in
  let '(s, fin) := run 50 (init 4 [[OExecAsync 1 (2*S); OWaitFor 1 (2*S)]; [OExecAsync 2 (2*S); OWaitFor 2 S];
                                   [OExecAsync 3 (2*S); OWaitFor 3 (3*S)]; [OExecAsync 4 S; OExecAsync 5 (2*S); OWaitAny (3*S) [5;4]]]) in
  fin = true /\ halted s = false /\
  In (ERet 1 1 (OWaitFor 1 (2*S)) 0 (2*S) 0 false) (log s) /\ In (ERet 2 1 (OWaitFor 2 S) 0 S 1 false) (log s) /\
  In (ERet 3 1 (OWaitFor 3 (3*S)) 0 (2*S) 0 false) (log s) /\ In (ERet 4 2 (OWaitAny (3*S) [5;4]) 0 S 4 false) (log s).
Proof. vm_compute. repeat split; auto 30. Qed.
