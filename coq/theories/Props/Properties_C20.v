(** C20 — Isolated activities follow the documented formulas.
    Only statements; proofs live in SGV.Res.NetFormulaProofs.  Rates, sizes and dates are exact rationals. *)
From Coq Require Import QArith Qminmax.
From SGV Require Import Base.Tactics Res.NetFormula Res.NetFormulaProofs.
Local Open Scope Q_scope.

(* W flops on a host of speed S take W/S (each of n <= cores threads computes W on its own core) *)
Theorem C20_exec : forall cores speed flops threads,
  (1 <= threads <= cores)%Z -> 0 < speed -> exec_time cores speed flops threads == flops / speed.
Proof. exact exec_time_single. Qed.
Print Assumptions C20_exec.

(* more threads than cores: the n*W flops share the cores *)
Theorem C20_exec_threads : forall cores speed flops threads,
  (1 <= cores)%Z -> (1 <= threads)%Z -> 0 < speed ->
  exec_time cores speed flops threads == inject_Z threads * flops / (inject_Z (Z.min threads cores) * speed).
Proof. exact exec_time_spec. Qed.
Print Assumptions C20_exec_threads.

Theorem C20_sleep : forall d, timing_precision <= d -> sleep_time d == d.
Proof. exact sleep_time_spec. Qed.
Print Assumptions C20_sleep.

Theorem C20_io : forall r w is_read size, 0 < r -> 0 < w ->
  io_time r w is_read size == size / (if is_read then r else w).
Proof. exact io_time_spec. Qed.
Print Assumptions C20_io.

(* a parallel task of pure computation takes the largest flops/speed ratio of its parts *)
Theorem C20_ptask : forall ps, (forall p, In p ps -> part_ok p) -> ptask_time ps == ptask_spec ps.
Proof. exact ptask_time_spec. Qed.
Print Assumptions C20_ptask.

Theorem C20_ptask_spec_is_largest : forall ps p, In p ps -> 0 < p_flops p -> p_flops p / p_speed p <= ptask_spec ps.
Proof. exact ptask_spec_is_max. Qed.
Print Assumptions C20_ptask_spec_is_largest.

(* what communicate -> set_bounds -> set_variable -> expand -> solve -> completion amounts to, for every
   factor table, gamma, cross-traffic setting, size and non-empty route:
     T = L*latf(s) + s / (bwf(s) * min(B, gamma/(2L)))      B = smallest bandwidth/weight, cross-traffic included *)
Theorem C20_comm_model_formula : forall c size l r back,
  links_ok (l :: r) -> comm_time c size (l :: r) back == comm_closed c size (l :: r) back.
Proof. exact comm_time_closed. Qed.
Print Assumptions C20_comm_model_formula.

(* without cross-traffic B is the smallest bandwidth of the route *)
Theorem C20_beff_no_crosstraffic : forall l r back, beff false (l :: r) back == qmin_list (f_bw l) (map f_bw r).
Proof. exact beff_no_crosstraffic. Qed.
Print Assumptions C20_beff_no_crosstraffic.

(* the formula of the property text,  L*latf + s / min(B*bwf, gamma/(2L)),  holds where the TCP-gamma bound is off,
   or bwf = 1, or the flow is bandwidth-bound in both readings.
   FULL STATEMENT (not provable, see C20_comm_documented_refuted): the same without [doc_side]. Missing: with
   bwf <> 1 and the gamma bound binding the code yields bwf*gamma/(2L) (KNOWN_FINDINGS comm-gamma-bound-scaled). *)
Theorem C20_comm_documented_partial : forall c size l r back,
  links_ok (l :: r) -> doc_side c size (l :: r) back = true ->
  comm_time c size (l :: r) back == comm_documented c size (l :: r) back.
Proof. exact comm_documented_partial. Qed.
Print Assumptions C20_comm_documented_partial.

Theorem C20_comm_documented_refuted :
  exists c size fwd back, links_ok fwd /\ fwd <> [] /\ ~ comm_time c size fwd back == comm_documented c size fwd back.
Proof. exact comm_documented_refuted. Qed.
Print Assumptions C20_comm_documented_refuted.

(* hypotheses are satisfiable on non-trivial inputs *)
Definition ex_cfg : netcfg :=
  {| lat_default := 1; lat_tbl := [(0%Z, 2 # 1); (1000%Z, 3 # 1)]; bw_default := 1; bw_tbl := [(0%Z, 1 # 2); (1000%Z, 9 # 10)];
     gamma := 4194304; crosstraffic := true |}.
Definition ex_route : list flink :=
  [ {| f_bw := 1000000; f_lat := 1 # 1000; f_pol := Shared; f_inback := true |};
    {| f_bw := 500000; f_lat := 1 # 500; f_pol := SplitDuplex; f_inback := true |} ].
Example C20_comm_nonvacuous :
  doc_side ex_cfg 5000 ex_route [ {| b_bw := 100000000; b_fat := false |} ] = true /\
  gamma_active ex_cfg (total_latency ex_route) = true /\
  Qeq_bool (comm_time ex_cfg 5000 ex_route [ {| b_bw := 100000000; b_fat := false |} ]) ((9 # 1000) + 5000 / ((9 # 10) * 500000)) = true.
Proof. vm_compute. repeat split. Qed.
Example C20_ptask_nonvacuous :
  Qeq_bool (ptask_time [ {| p_speed := 10; p_cores := 1; p_flops := 30 |}; {| p_speed := 5; p_cores := 4; p_flops := 40 |};
                         {| p_speed := 5; p_cores := 1; p_flops := 0 |} ]) 8 = true.
Proof. vm_compute. reflexivity. Qed.
Example C20_exec_nonvacuous : Qeq_bool (exec_time 2 1000 5000 4) 10 = true /\ Qeq_bool (exec_time 4 1000 5000 2) 5 = true.
Proof. vm_compute. split; reflexivity. Qed.
