(** C15 — Sharing solvers never exceed capacities.
    Only statements.  Model: SGV.Lmm.Maxmin (MaxMin::maxmin_solve of src/kernel/lmm/maxmin.cpp at precision 0, on a snapshot of
    the enabled part of a system); proofs in SGV.Lmm.MaxminProofs; the "disabled/suspended => rate 0" half rests on the
    System model of C18 (a variable whose requested penalty is 0 is not enabled, hence absent from every snapshot, and
    disable_var resets its value).  fairbottleneck and bmf have no algorithm model: their outputs are judged by the checker
    of C15_oracle_sound_complete. *)
From SGV Require Import Base.Tactics Lmm.System Lmm.SystemProofs Lmm.Maxmin Lmm.MaxminProofs.
From Coq Require Import QArith.
Local Open Scope Q_scope.

Definition snapshot_ok (s : msys) : Prop :=
  (forall v, 0 < pen s v) /\ (forall c e, In e (m_elems (cn s c)) -> 0 <= snd e) /\
  (forall c, 0 < m_bound (cn s c) \/ m_elems (cn s c) = []) /\ (forall c, 0 <= m_bound (cn s c)).

(* whatever the number of rounds performed (no fuel condition): shared constraints *)
Theorem C15_maxmin_shared_capacity_partial : forall s fuel c, snapshot_ok s ->
  m_shared (cn s c) = true -> load (m_elems (cn s c)) (st_val (rounds fuel s (init s))) <= m_bound (cn s c).
Proof. intros s fuel c [A [B [C D]]]. apply (rounds_feasible s A B C D fuel). Qed.
Print Assumptions C15_maxmin_shared_capacity_partial.

Theorem C15_maxmin_fatpipe_capacity_partial : forall s fuel c e, snapshot_ok s ->
  m_shared (cn s c) = false -> In e (m_elems (cn s c)) -> snd e * st_val (rounds fuel s (init s)) (fst e) <= m_bound (cn s c).
Proof. intros s fuel c e [A [B [C D]]]. apply (rounds_feasible s A B C D fuel). Qed.
Print Assumptions C15_maxmin_fatpipe_capacity_partial.

Theorem C15_maxmin_value_in_bound_partial : forall s fuel v, snapshot_ok s ->
  let x := st_val (rounds fuel s (init s)) v in 0 <= x /\ (0 < vbound s v -> x <= vbound s v).
Proof. intros s fuel v [A [B [C D]]]. apply (rounds_feasible s A B C D fuel). Qed.
Print Assumptions C15_maxmin_value_in_bound_partial.
(* "_partial": capacities must be positive (a constraint of capacity 0 that still has consuming enabled variables is the
   recorded finding maxmin-zero-capacity: the code skips it before resetting the values); full statement = the same
   without the third clause of snapshot_ok. *)

(* after any history, a variable whose last requested penalty is 0 is neither enabled nor staged *)
Theorem C15_penalty0_disabled : forall l v, let s := run_ops sys0 l in
  qpos (v_want (s_var s v)) = false -> qpos (v_pen (s_var s v)) = false /\ qpos (v_staged (s_var s v)) = false.
Proof. exact penalty0_not_running. Qed.
Print Assumptions C15_penalty0_disabled.

(* the pinned update_variable_penalty resumed a suspended staged variable; the repaired one does not *)
Theorem C15_pinned_code_refuted :
  resumed_while_suspended (fold_left step_pinned witness_c15 sys0) 1 = true /\ resumed_while_suspended (run_ops sys0 witness_c15) 1 = false.
Proof. exact pinned_resumes_suspended. Qed.
Print Assumptions C15_pinned_code_refuted.

(* the checker applied to every solve() of the three real solvers decides the inequalities of the statement (tolerance tol) *)
Theorem C15_oracle_sound_complete : forall tol s val, alloc_feasible_b tol s val = true <-> alloc_feasible tol s val.
Proof. exact alloc_feasible_b_ok. Qed.
Print Assumptions C15_oracle_sound_complete.

(* non-vacuity: a snapshot with a shared and a fat-pipe constraint, penalties, weights < 1 and a bound; the model's answer *)
Definition ex_sys : msys :=
  mkMsys [mkMcn 3 true [(0%nat, 1); (1%nat, 1); (2%nat, 1 # 2)]; mkMcn 8 false [(1%nat, 2); (2%nat, 1)]]
         [mkMvar 1 (-1); mkMvar 2 (1 # 2); mkMvar (1 # 2) (-1)].
Example C15_nonvacuous :
  alloc_feasible_b 0 ex_sys (st_val (maxmin_solve ex_sys)) = true /\
  Qred (st_val (maxmin_solve ex_sys) 0%nat) = 5 # 4 /\ Qred (st_val (maxmin_solve ex_sys) 1%nat) = 1 # 2 /\
  Qred (st_val (maxmin_solve ex_sys) 2%nat) = 5 # 2 /\ any_light ex_sys (maxmin_solve ex_sys) = false.
Proof. vm_compute. repeat split; reflexivity. Qed.
Example C15_snapshot_ok_nonvacuous : forall c e, In e (m_elems (cn ex_sys c)) -> 0 <= snd e.
Proof.
  intros c e. destruct c as [|[|c]]; cbn; [| |destruct c; cbn; tauto]; intros H;
    repeat (destruct H as [H|H]; [subst e; cbn; unfold Qle; cbn; lia|]); destruct H.
Qed.
