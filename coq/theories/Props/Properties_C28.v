(** C28 — MPI point-to-point matching and non-overtaking.  Only statements; proofs in SGV.Smpi.MatchProofs. *)
From SGV Require Import Base.Tactics Smpi.Match Smpi.MatchProofs.
Local Open Scope Z_scope.

(* a receive matches a message iff communicator, source and tag are compatible, wildcards included
   (ANY_SOURCE only for a sender of the receiver's group, ANY_TAG only for tags >= 0) *)
Theorem C28_match_iff : forall s r g,
  (exists v, match_common s r g = Some v) <-> comm_ok s r /\ src_ok s r g /\ tag_ok s r.
Proof. exact match_iff. Qed.
Print Assumptions C28_match_iff.

Theorem C28_no_cross_comm : forall s r g,
  comm r <> UNDEFINED -> comm s <> UNDEFINED -> comm r <> comm s -> match_common s r g = None.
Proof. exact no_cross_comm. Qed.
Print Assumptions C28_no_cross_comm.

(* on a match the status carries the sender's source and tag, and the truncation flag is raised exactly when a
   non-probe receive is smaller than the message *)
Theorem C28_truncation_flag : forall s r g a b t, match_common s r g = Some (a, b, t) ->
  a = src s /\ b = tag s /\ (t = true <-> probe r = false /\ size r < size s).
Proof. exact status_exact. Qed.
Print Assumptions C28_truncation_flag.

(* FULL STATEMENT (target): messages of one sender on one communicator that match a receive are received in send
   order whatever mailbox (small/large) they went to.
   PROVED HERE: for one (source, destination, tag) class - the granularity of the message_id_ counters - whatever each
   receive finds pending and in whichever order it scans the two mailboxes, match_recv accepts the messages in send
   order (ids c, c+1, ...), and a pending next-in-order message is always found.
   MISSING: (1) a wildcard-tag receive over messages of different tags that sit in different mailboxes (counters are
   per tag); (2) the receive-posted-first path, where match_send does not look at the counters.  Both are judged on
   real runs by the oracle of checks/C28.py. *)
Theorem C28_non_overtaking_partial : forall scans c,
  receive_all c scans = map (fun k => c + Z.of_nat k) (seq 0 (length (receive_all c scans))).
Proof. intros. apply receive_all_in_order. Qed.
Print Assumptions C28_non_overtaking_partial.

Theorem C28_next_message_found : forall c scan, In c scan -> pick c scan = Some c.
Proof. exact pick_finds. Qed.
Print Assumptions C28_next_message_found.

Example C28_nonvacuous :
  match_common (mkReq 0 3 7 100 false) (mkReq 0 ANY_SOURCE ANY_TAG 64 false) true = Some (3, 7, true) /\
  match_common (mkReq 0 3 (-2) 100 false) (mkReq 0 ANY_SOURCE ANY_TAG 64 false) true = None /\
  receive_all 0 [[1; 0]; [2]; [2; 1]; [2]] = [0; 1; 2].
Proof. vm_compute. repeat split; reflexivity. Qed.
