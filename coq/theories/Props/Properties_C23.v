(** C23 — Energy accounting integrates the power model.
    Only statements; proofs live in SGV.Res.EnergyProofs. *)
From Coq Require Import QArith Qminmax.
From SGV Require Import Base.Tactics Res.NetFormula Res.Energy Res.EnergyProofs.
Local Open Scope Q_scope.

(* The timeline is any list of periods during which on/off, pstate and load are constant; HostEnergy::update is called
   at the end of every period (seeing the host as it is afterwards, and the load as it was) and any number of times in
   between.  Then total_energy_ grows by exactly  sum P(state_i, load_i) * duration_i. *)
Theorem C23_integral : forall c ps t s final,
  Forall durations_ok ps -> e_pstate s = first_state ps final -> e_last s == t ->
  e_total (run c s (timeline_calls t ps final)) == e_total s + energy_spec c ps.
Proof. exact energy_integral. Qed.
Print Assumptions C23_integral.

(* reported energy never decreases: for ANY sequence of update calls (no hypothesis on the dates) *)
Theorem C23_monotone : forall c ks s, cfg_ok c -> e_total s <= e_total (run c s ks).
Proof. exact energy_monotone. Qed.
Print Assumptions C23_monotone.

Theorem C23_off : forall c ps load, watts c (st_of false ps) load = h_off c.
Proof. exact watts_off. Qed.
Print Assumptions C23_off.

Theorem C23_idle : forall c ps r load, (0 <= ps)%Z -> nth_error (h_ranges c) (Z.to_nat ps) = Some r ->
  0 < nth (Z.to_nat ps) (h_speeds c) 0 -> (1 <= h_cores c)%Z -> load == 0 ->
  watts c (st_of true ps) load == p_idle r.
Proof. exact watts_idle. Qed.
Print Assumptions C23_idle.

(* epsilon + load * (max - epsilon), load = used fraction of the cores *)
Theorem C23_busy : forall c ps r load, (0 <= ps)%Z -> nth_error (h_ranges c) (Z.to_nat ps) = Some r ->
  let speed := nth (Z.to_nat ps) (h_speeds c) 0 in
  let frac := load / (speed * inject_Z (h_cores c)) in
  0 < speed -> (1 <= h_cores c)%Z -> 0 < load -> frac <= 1 ->
  watts c (st_of true ps) load == p_eps r + frac * (p_max r - p_eps r).
Proof. exact watts_busy. Qed.
Print Assumptions C23_busy.

(* links: updates at the dates where the load changes integrate idle + (busy - idle) * load / bandwidth *)
Theorem C23_link_integral : forall c (samples : list (Q * Q * Q)) s,
  le_total (fold_left (fun st x => link_update c st (le_last st + fst (fst x)) (snd (fst x)) (snd x)) samples s) ==
  le_total s + fold_right (fun x e => link_power c (snd (fst x)) (snd x) * fst (fst x) + e) 0 samples.
Proof. exact link_integral. Qed.
Print Assumptions C23_link_integral.

(* hypotheses are satisfiable: 2 pstates, 4 cores; busy 2 s (two calls), off 3 s, idle at pstate 1 for 1 s *)
Definition ex_cfg : hcfg :=
  {| h_ranges := [ {| p_idle := 100; p_eps := 120; p_max := 200 |}; {| p_idle := 90; p_eps := 100; p_max := 150 |} ];
     h_off := 10; h_speeds := [1000; 500]; h_cores := 4 |}.
Definition ex_tl : list period :=
  [ {| s_on := true; s_ps := 0%Z; s_load := 2000; s_first := 1; s_more := [1] |};
    {| s_on := false; s_ps := 0%Z; s_load := 0; s_first := 3; s_more := [] |};
    {| s_on := true; s_ps := 1%Z; s_load := 0; s_first := 1; s_more := [0; 0] |} ].
Example C23_nonvacuous :
  Forall durations_ok ex_tl /\ cfg_ok ex_cfg /\
  Qeq_bool (e_total (run ex_cfg {| e_pstate := 0; e_total := 0; e_last := 0 |} (timeline_calls 0 ex_tl (true, 1%Z))))
           (160 * 2 + 10 * 3 + 90 * 1) = true.
Proof.
  split; [|split; [|vm_compute; reflexivity]].
  - repeat constructor; cbn; discriminate.
  - split; [cbn; discriminate|]. repeat constructor; cbn; discriminate.
Qed.
