(** C24 — Hierarchical routes are composed correctly.
    Only statements; proofs live in SGV.Routing.GlobalProofs.  Model: SGV.Routing.Global (get_global_route_with_netzones,
    find_common_ancestors, get_interzone_route) over abstract local routes [local zone src dst], and SGV.Routing.Bypass
    (get_bypass_route and the recursion through the bypass gateways) over abstract bypass tables [bp zone key1 key2];
    the Vivaldi coordinate term is not modelled. *)
From SGV Require Import Base.Tactics Routing.Global Routing.GlobalProofs Routing.Bypass Routing.BypassProofs.
Local Open Scope Z_scope.

(* for every zone tree, every assignment of gateways and every family of local routes: the route the code computes is
   up(src) ++ the route of the lowest common ancestor between the two child zones ++ down(dst), where up/down are the
   local routes of the zones crossed, through the gateways, in travel order (up_spec / down_spec in Global.v) *)
Theorem C24_composition : forall parent znp zgw enz is_zone local depth src dst,
  global_route parent znp zgw enz is_zone local depth false src dst =
  global_spec parent znp zgw enz is_zone local depth src dst.
Proof. exact global_route_composition. Qed.
Print Assumptions C24_composition.

(* the loop of get_interzone_route (prepend what each zone adds) yields the segments in travel order *)
Theorem C24_interzone_up : forall znp zgw enz is_zone local path np gw acc,
  iz_up znp zgw enz is_zone local false path np gw acc =
  omap (fun s => seg_app s acc) (up_spec znp zgw enz is_zone local path np gw).
Proof. exact iz_up_spec. Qed.
Print Assumptions C24_interzone_up.
Theorem C24_interzone_down : forall znp zgw enz is_zone local path np gw acc,
  iz_down znp zgw enz is_zone local path np gw acc =
  omap (fun s => seg_app acc s) (down_spec znp zgw enz is_zone local path np gw).
Proof. exact iz_down_spec. Qed.
Print Assumptions C24_interzone_down.

(* latency = sum of the links' latencies, provided every zone's local route has that property *)
Theorem C24_latency_sum : forall parent znp zgw enz is_zone local depth lat,
  (forall z a b, lr_ok (local z a b) = true -> lr_lat (local z a b) = lat_sum lat (lr_links (local z a b))) ->
  forall src dst ls l,
  global_route parent znp zgw enz is_zone local depth false src dst = Some (ls, l) -> l = lat_sum lat ls.
Proof. exact global_latency_sum. Qed.
Print Assumptions C24_latency_sum.

(* a route declared symmetrical is stored reversed (split-duplex links swapped) for the opposite direction *)
Theorem C24_symmetric_reversed : forall back u v links,
  In (u, v, links) (declare_sym back u v links) /\ In (v, u, rev (map back links)) (declare_sym back u v links) /\
  ((forall x, back (back x) = x) -> declare_sym back v u (rev (map back links)) = [(v, u, rev (map back links)); (u, v, links)]).
Proof. exact declare_sym_reversed. Qed.
Print Assumptions C24_symmetric_reversed.

(* the code as pinned (segments inserted with rbegin()/rend() on the way up) violates the statement: 3-level witness *)
Theorem C24_pinned_refuted :
  wit_route true = Some ([1; 20; 10; 100; 200; 3], 334) /\ wit_route false = Some ([1; 10; 20; 100; 200; 3], 334).
Proof. exact pinned_refuted. Qed.
Print Assumptions C24_pinned_refuted.

(* ------------------------------------------------------------------------------------------------ bypass routes *)

(* which bypass is used.  [ps]/[pd] are the chains of zones from each endpoint up to (excluding, unless the endpoint
   sits directly in it) the common ancestor [this], innermost first, of ANY two lengths; a bypass is [declared] for the
   index pair (i, j) when both indices are inside the chains and this's table has the key {ps[i], pd[j]}.  The search
   returns the declared pair of least [rank]: smallest max(i, j) first; for equal max = m the order is
   (0,m) (m,0) (1,m) (m,1) ... (m,m) *)
Theorem C24_bypass_winner : forall znp bp this ps pd k1 k2 b,
  bp_search znp bp this ps pd = Some (k1, k2, b) ->
  exists i j, declared znp bp this ps pd i j /\
    k1 = znp (nth i ps (-1)) /\ k2 = znp (nth j pd (-1)) /\ b = bp this k1 k2 /\
    forall i' j', declared znp bp this ps pd i' j' -> (i', j') = (i, j) \/ rank_lt (i, j) (i', j').
Proof. exact bp_search_winner. Qed.
Print Assumptions C24_bypass_winner.

(* a bypass declared between two zones of the chains is never missed, whatever the two depths *)
Theorem C24_bypass_never_missed : forall znp bp this ps pd,
  bp_search znp bp this ps pd = None <-> forall i j, ~ declared znp bp this ps pd i j.
Proof. exact bp_search_none. Qed.
Print Assumptions C24_bypass_never_missed.

(* the route with bypass routes, soundness: whatever the model of get_global_route_with_netzones returns (with any
   fuel: the result is not a fuel artefact) satisfies the fuel-free declarative [route_spec]: when no bypass applies in
   the common ancestor it is the composition of C24_composition; otherwise, for the winning bypass (k1, k2, b) of
   [find_bypass] (host-level key {src, dst} when both endpoints sit in the common ancestor, else C24_bypass_winner),
   it is  route(src -> b's source gateway) ++ b's links ++ route(b's destination gateway -> dst), each end empty
   when the endpoint is the key itself, and both ends routes in the same sense (they may use bypasses further down) *)
Theorem C24_bypass_composition : forall parent znp zgw enz is_zone local depth bp prepends fuel src dst s,
  groute parent znp zgw enz is_zone local depth bp prepends false fuel src dst nilseg = Some s ->
  route_spec parent znp zgw enz is_zone local depth bp src dst s.
Proof. exact groute_sound. Qed.
Print Assumptions C24_bypass_composition.

(* completeness: every declarative route is the one computed, for every sufficiently large fuel *)
Theorem C24_bypass_composition_complete : forall parent znp zgw enz is_zone local depth bp prepends src dst s,
  route_spec parent znp zgw enz is_zone local depth bp src dst s ->
  exists fuel, forall fuel', (fuel <= fuel')%nat ->
    groute parent znp zgw enz is_zone local depth bp prepends false fuel' src dst nilseg = Some s.
Proof. exact groute_complete. Qed.
Print Assumptions C24_bypass_composition_complete.

(* without declared bypass routes the route is the one of C24_composition *)
Theorem C24_bypass_none_declared : forall parent znp zgw enz is_zone local depth bp prepends fuel src dst,
  (forall z a b, lr_ok (bp z a b) = false) ->
  groute parent znp zgw enz is_zone local depth bp prepends false (S fuel) src dst nilseg =
  global_route parent znp zgw enz is_zone local depth false src dst.
Proof. exact groute_no_bypass. Qed.
Print Assumptions C24_bypass_none_declared.

(* latency = sum of the links' latencies also through bypass routes *)
Theorem C24_bypass_latency_sum : forall parent znp zgw enz is_zone local depth bp prepends lat,
  (forall z a b, lr_ok (local z a b) = true -> lr_lat (local z a b) = lat_sum lat (lr_links (local z a b))) ->
  (forall z a b, lr_ok (bp z a b) = true -> lr_lat (bp z a b) = lat_sum lat (lr_links (bp z a b))) ->
  forall fuel src dst ls l,
  groute parent znp zgw enz is_zone local depth bp prepends false fuel src dst nilseg = Some (ls, l) -> l = lat_sum lat ls.
Proof. exact groute_latency_sum. Qed.
Print Assumptions C24_bypass_latency_sum.

(* endpoints at unequal depths (hA1 two zones below T, hB one): the bypass A -> B, index pair (1, 0), is used; without it
   the declared route.  The code as pinned handed the links found so far to the local route that completes the bypass:
   a Dijkstra zone put its links in front (reproduced on the real code and repaired) *)
Theorem C24_bypass_pinned_refuted :
  bw_route bw_bypass false = Some ([1; 2; 20; 3], 26) /\
  bw_route [] false = Some ([1; 2; 10; 3], 16) /\
  bw_route bw_bypass true = Some ([3; 1; 2; 20], 26).
Proof. exact bypass_witness. Qed.
Print Assumptions C24_bypass_pinned_refuted.

Example C24_bypass_nonvacuous :
  bp_search bw_znp (lookup bw_bypass) 0 [2; 1] [3] = Some (5, 7, mklr true [20] 20 2 4) /\
  declared bw_znp (lookup bw_bypass) 0 [2; 1] [3] 1 0 /\
  route_spec bw_parent bw_znp (fun _ => -1) bw_enz (fun p => 5 <=? p) (lookup bw_local) 5 (lookup bw_bypass) 0 3
             ([1; 2; 20; 3], 26).
Proof.
  split; [vm_compute; reflexivity|]. split; [vm_compute; repeat split; lia|].
  apply (groute_sound _ _ _ _ _ _ _ _ (fun z => z =? 3) 6). vm_compute. reflexivity.
Qed.
Example C24_bypass_latency_nonvacuous :
  let lat := fun x => x in
  (forall z a b, lr_ok (lookup bw_local z a b) = true -> lr_lat (lookup bw_local z a b) = lat_sum lat (lr_links (lookup bw_local z a b))) /\
  (forall z a b, lr_ok (lookup bw_bypass z a b) = true -> lr_lat (lookup bw_bypass z a b) = lat_sum lat (lr_links (lookup bw_bypass z a b))).
Proof.
  split; intros z a b; unfold bw_local, bw_bypass; simpl;
    repeat (match goal with |- context [if ?c then _ else _] => destruct c end; simpl; try discriminate; try reflexivity).
Qed.

Example C24_nonvacuous :
  global_spec wit_parent wit_znp (fun _ => -1) wit_enz (fun p => 5 <=? p) (lookup wit_local) 5 0 3
  = Some ([1; 10; 20; 100; 200; 3], 334).
Proof. vm_compute. reflexivity. Qed.
