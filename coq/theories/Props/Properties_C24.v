(** C24 — Hierarchical routes are composed correctly.
    Only statements; proofs live in SGV.Routing.GlobalProofs.  Model: SGV.Routing.Global (get_global_route_with_netzones,
    find_common_ancestors, get_interzone_route) over abstract local routes [local zone src dst]; bypass routes and the
    Vivaldi coordinate term are not modelled. *)
From SGV Require Import Base.Tactics Routing.Global Routing.GlobalProofs.
Local Open Scope Z_scope.

(* for every zone tree, every assignment of gateways and every family of local routes: the route the code computes is
   up(src) ++ the route of the lowest common ancestor between the two child zones ++ down(dst), where up/down are the
   local routes of the zones crossed, through the gateways, in travel order (up_spec / down_spec in Global.v) *)
Theorem C24_composition : forall parent znp zgw enz is_zone local depth src dst,
  global_route parent znp zgw enz is_zone local depth false src dst =
  global_spec parent znp zgw enz is_zone local depth src dst.
Proof. exact global_route_composition. Qed.
Print Assumptions C24_composition.

(* the loop of get_interzone_route (prepend what each zone adds) yields the segments in travel order *)
Theorem C24_interzone_up : forall znp zgw enz is_zone local path np gw acc,
  iz_up znp zgw enz is_zone local false path np gw acc =
  omap (fun s => seg_app s acc) (up_spec znp zgw enz is_zone local path np gw).
Proof. exact iz_up_spec. Qed.
Print Assumptions C24_interzone_up.
Theorem C24_interzone_down : forall znp zgw enz is_zone local path np gw acc,
  iz_down znp zgw enz is_zone local path np gw acc =
  omap (fun s => seg_app acc s) (down_spec znp zgw enz is_zone local path np gw).
Proof. exact iz_down_spec. Qed.
Print Assumptions C24_interzone_down.

(* latency = sum of the links' latencies, provided every zone's local route has that property *)
Theorem C24_latency_sum : forall parent znp zgw enz is_zone local depth lat,
  (forall z a b, lr_ok (local z a b) = true -> lr_lat (local z a b) = lat_sum lat (lr_links (local z a b))) ->
  forall src dst ls l,
  global_route parent znp zgw enz is_zone local depth false src dst = Some (ls, l) -> l = lat_sum lat ls.
Proof. exact global_latency_sum. Qed.
Print Assumptions C24_latency_sum.

(* a route declared symmetrical is stored reversed (split-duplex links swapped) for the opposite direction *)
Theorem C24_symmetric_reversed : forall back u v links,
  In (u, v, links) (declare_sym back u v links) /\ In (v, u, rev (map back links)) (declare_sym back u v links) /\
  ((forall x, back (back x) = x) -> declare_sym back v u (rev (map back links)) = [(v, u, rev (map back links)); (u, v, links)]).
Proof. exact declare_sym_reversed. Qed.
Print Assumptions C24_symmetric_reversed.

(* the code as pinned (segments inserted with rbegin()/rend() on the way up) violates the statement: 3-level witness *)
Theorem C24_pinned_refuted :
  wit_route true = Some ([1; 20; 10; 100; 200; 3], 334) /\ wit_route false = Some ([1; 10; 20; 100; 200; 3], 334).
Proof. exact pinned_refuted. Qed.
Print Assumptions C24_pinned_refuted.

Example C24_nonvacuous :
  global_spec wit_parent wit_znp (fun _ => -1) wit_enz (fun p => 5 <=? p) (lookup wit_local) 5 0 3
  = Some ([1; 10; 20; 100; 200; 3], 334).
Proof. vm_compute. reflexivity. Qed.
