(** C33 — Cartesian topologies follow MPI rules.
    Only statements; proofs live in SGV.Smpi.TopoProofs / TopoSubProofs.  All theorems hold for every number of
    dimensions and every extent (no bound); [allpos dims] = every extent is positive. *)
From SGV Require Import Base.Tactics Smpi.Topo Smpi.TopoProofs Smpi.TopoSubProofs.
Local Open Scope Z_scope.

(* Cart_coords then Cart_rank is the identity on ranks *)
Theorem C33_rank_coords_inverse : forall dims pers r,
  allpos dims -> length pers = length dims -> 0 <= r < prodl dims ->
  rank dims pers (coords (prodl dims) dims r) = Some r.
Proof. exact rank_coords. Qed.
Print Assumptions C33_rank_coords_inverse.

(* Cart_rank then Cart_coords is the identity on in-range coordinates, and the rank is a valid one:
   together with the previous theorem, a bijection between [0, prod dims) and the coordinate box *)
Theorem C33_coords_rank_inverse : forall dims pers cs,
  allpos dims -> length pers = length dims -> inrange dims cs ->
  exists r, rank dims pers cs = Some r /\ 0 <= r < prodl dims /\ coords (prodl dims) dims r = cs.
Proof. exact coords_rank. Qed.
Print Assumptions C33_coords_rank_inverse.

(* arbitrary coordinates: [norm] is MPI's rule (periodic dimensions are taken modulo the extent, the others must be
   in range); the rank returned is the one whose coordinates are the wrapped ones, an error otherwise *)
Theorem C33_rank_periodic_wrap : forall dims pers cs,
  allpos dims -> length pers = length dims -> length cs = length dims ->
  match rank dims pers cs with
  | Some r => exists l, norm dims pers cs = Some l /\ 0 <= r < prodl dims /\ coords (prodl dims) dims r = l
  | None => norm dims pers cs = None
  end.
Proof. exact rank_wrap. Qed.
Print Assumptions C33_rank_periodic_wrap.

(* Cart_shift on the process of rank r, any direction k, any displacement: (source, dest) are MPI's neighbours.
   [target … x] = the rank whose k-th coordinate is x (mod the extent when periodic), MPI_PROC_NULL when the
   dimension is not periodic and x falls off the edge *)
Theorem C33_shift : forall dims pers r t k disp,
  allpos dims -> length pers = length dims -> 0 <= r < prodl dims -> (k < length dims)%nat ->
  cart_create dims pers r = Some t ->
  let cs := coords (prodl dims) dims r in
  shift t r k disp = Some (target dims pers cs k (nth k cs 0 - disp), target dims pers cs k (nth k cs 0 + disp)).
Proof. exact shift_spec. Qed.
Print Assumptions C33_shift.

(* … and when it is not PROC_NULL the neighbour is a valid rank whose coordinates differ only in direction k *)
Theorem C33_shift_neighbour_coords : forall dims pers cs k x,
  allpos dims -> inrange dims cs -> (k < length dims)%nat ->
  (nth k pers false = true \/ 0 <= x < nth k dims 0) ->
  let r' := target dims pers cs k x in
  0 <= r' < prodl dims /\ coords (prodl dims) dims r' = upd k (x mod nth k dims 0) cs.
Proof. exact target_coords. Qed.
Print Assumptions C33_shift_neighbour_coords.

(* Dims_create (repaired code): the product is the number of nodes and given entries are kept *)
Theorem C33_dims_create_product : forall nnodes dims res,
  1 <= nnodes -> dims_create nnodes dims = DC_ok res -> prodl res = nnodes /\ respects dims res.
Proof. exact dims_create_ok. Qed.
Print Assumptions C33_dims_create_product.

(* the fuel given to the factorisation loops of the model always suffices *)
Theorem C33_dims_create_terminates : forall fixed nnodes dims, dims_create_gen fixed nnodes dims <> DC_fuel.
Proof. exact dims_create_no_fuel. Qed.
Print Assumptions C33_dims_create_terminates.

(* Cart_sub (repaired code), seen from the process of rank r of the old communicator: the new topology has exactly
   the kept extents and periods, the process' coordinates are its kept old coordinates, they are the coordinates of
   its rank in the new communicator (Comm::split by dropped coordinates, key = old rank), whose size is the product
   of the kept extents *)
Theorem C33_sub_keeps_dims : forall dims pers rem r,
  allpos dims -> length rem = length dims -> 0 <= r < prodl dims ->
  let nd := select rem dims in
  let cs := select rem (coords (prodl dims) dims r) in
  sub dims pers rem r = Some {| c_nn := prodl nd; c_dims := nd; c_pers := select rem pers; c_pos := cs |}
  /\ sub_size dims rem r = prodl nd
  /\ 0 <= sub_rank dims rem r < prodl nd
  /\ coords (prodl nd) nd (sub_rank dims rem r) = cs.
Proof. exact sub_spec. Qed.
Print Assumptions C33_sub_keeps_dims.

(* the code as pinned violates the statement; the witnesses are the replays of the findings *)
Theorem C33_sub_pinned_refuted :
  exists dims pers rem r, allpos dims /\ 0 <= r < prodl dims /\
    option_map c_dims (sub_orig dims pers rem r) <> Some (select rem dims).
Proof. exact sub_orig_refuted. Qed.
Print Assumptions C33_sub_pinned_refuted.

Theorem C33_dims_create_pinned_refuted :
  exists nnodes dims res, 1 <= nnodes /\ dims_create_orig nnodes dims = DC_ok res /\ prodl res <> nnodes.
Proof. exact dims_create_orig_refuted. Qed.
Print Assumptions C33_dims_create_pinned_refuted.

(* hypotheses are satisfiable on non-trivial instances *)
Example C33_nonvacuous :
  allpos [2; 3; 4] /\ inrange [2; 3; 4] [1; 2; 3] /\
  rank [2; 3; 4] [false; true; false] [1; 5; 3] = Some 23 /\
  coords 24 [2; 3; 4] 23 = [1; 2; 3] /\
  option_map (fun t => (shift t 23 1 2, shift t 23 0 1)) (cart_create [2; 3; 4] [false; true; false] 23)
    = Some (Some (15, 19), Some (11, PROC_NULL)) /\
  dims_create 60 [0; 5; 0] = DC_ok [4; 5; 3] /\
  option_map c_pos (sub [2; 3; 4] [false; true; false] [true; false; true] 23) = Some [1; 3].
Proof. cbn [allpos inrange]. repeat split; try lia; vm_compute; reflexivity. Qed.
