(** C03 — Simulated time is monotone and events happen exactly at their date.
    Statements only; proofs live in SGV.Kernel.EngineProofs. Time is an integer number of ticks (any common denominator
    of the durations of a program), [prec] = precision/timing in ticks. A run is [run fuel (init prec progs)];
    theorems hold for every fuel, i.e. for every prefix of every execution of every program. *)
From Coq Require Import Sorted.
From SGV Require Import Base.Tactics Kernel.Engine Kernel.EngineProofs.
Local Open Scope Z_scope.

(* the clock never decreases, from any state and over any number of scheduling rounds *)
Theorem C03_clock_monotone : forall fuel s s' ended, run fuel s = (s', ended) -> clock s <= clock s'.
Proof. exact run_monotone. Qed.
Print Assumptions C03_clock_monotone.

(* it only moves in solve(); every sub-round (actors running, simcalls, ended actions) happens at a constant date *)
Theorem C03_clock_changes_only_in_solve : forall s, clock (subround s) = clock s.
Proof. exact subround_same_clock. Qed.
Print Assumptions C03_clock_changes_only_in_solve.

(* every observation of every run: t0 <= t1; sleep_for(d<=0) returns at once; sleep_for(d>0) that was not disturbed by a
   suspension returns at t1 with t1 <= t0 + clamp d < t1 + prec (clamp = CpuCas01::sleep: max d prec), i.e. never after
   its date and less than the precision before it; the log is time-ordered and nothing is dated after the clock *)
Theorem C03_sleep_exact_and_log_ordered : forall fuel prec progs s ended,
  run fuel (init prec progs) = (s, ended) ->
  Forall (entry_ok prec) (log s) /\ StronglySorted not_before (log s) /\ Forall (le_clock (clock s)) (log s).
Proof. exact run_entries_ok. Qed.
Print Assumptions C03_sleep_exact_and_log_ordered.

(* corollary in plain words for one entry *)
Theorem C03_sleep_exact : forall fuel prec progs s ended p i d t0 t1 r,
  run fuel (init prec progs) = (s, ended) -> In (ERet p i (OSleep d) t0 t1 r false) (log s) ->
  (d <= 0 -> t1 = t0) /\ (0 < d -> t1 <= t0 + Z.max d prec < t1 + prec).
Proof.
  intros fuel prec progs s ended p i d t0 t1 r H Hin. apply run_entries_ok in H. destruct H as (H & _).
  eapply Forall_forall in H; eauto. simpl in H. destruct H as (_ & H1 & H2). split; auto.
  intros Hd. specialize (H2 Hd eq_refl). unfold clamp in H2. apply Z.ltb_lt in Hd. rewrite Hd in H2. exact H2.
Qed.
Print Assumptions C03_sleep_exact.

(* solve() stops at the earliest pending date: a kill timer, a timeout timer or the end of an action is never jumped
   over (it fires in the round where clock = its date, Timer::execute_all firing dates <= clock) *)
Theorem C03_no_date_jumped_over : forall s s' d,
  advance s = Some s' -> In d (all_dates s) -> stuck s' = false -> clock s' <= d.
Proof. exact advance_stops_at_earliest. Qed.
Print Assumptions C03_no_date_jumped_over.

Theorem C03_advance_monotone : forall s s', advance s = Some s' -> clock s <= clock s'.
Proof. exact advance_monotone. Qed.
Print Assumptions C03_advance_monotone.

(* non-vacuity: sleep 1 s, then a sub-precision sleep (2 ticks, precision 4), then sleep 0; a kill time at 3 s *)
Example C03_nonvacuous :
  let '(s, fin) := run 50 (init 4 [[OSleep 4294967296; OSleep 2; OSleep 0]; [OOnExit 7; OSetKillTime 12884901888; OSleep 21474836480]]) in
  fin = true /\ halted s = false /\ clock s = 12884901888 /\
  In (ERet 1 1 (OSleep 2) 4294967296 4294967300 0 false) (log s) /\ In (EExit 2 7 12884901888 true) (log s).
Proof. vm_compute. repeat split; auto 20. Qed.
