(** C32 — Groups and communicators follow MPI rules.
    Only statements; proofs live in SGV.Smpi.GroupProofs{,2,3}.  A group is the list of its members in rank order;
    all theorems hold for groups and worlds of any size.  [mem a g] = membership test. *)
From SGV Require Import Base.Tactics Smpi.Group Smpi.GroupProofs Smpi.GroupProofs2 Smpi.GroupProofs3.
From Coq Require Import Permutation Sorting.Sorted.
Local Open Scope Z_scope.

(* union: all of the first group, then the members of the second that are not in the first, in their order *)
Theorem C32_union : forall g1 g2, group_union g1 g2 = g1 ++ filter (fun a => negb (mem a g1)) g2.
Proof. exact union_spec. Qed.
Print Assumptions C32_union.

(* intersection (repaired code): members of the first group that are in the second, ordered as in the FIRST group *)
Theorem C32_intersection_first_order : forall g1 g2, intersection g1 g2 = filter (fun a => mem a g2) g1.
Proof. exact intersection_spec. Qed.
Print Assumptions C32_intersection_first_order.

Theorem C32_difference_first_order : forall g1 g2, difference g1 g2 = filter (fun a => negb (mem a g2)) g1.
Proof. exact difference_spec. Qed.
Print Assumptions C32_difference_first_order.

(* the results are groups again (no duplicate) and have the set-theoretic members *)
Theorem C32_union_NoDup : forall g1 g2, NoDup g1 -> NoDup g2 ->
  NoDup (group_union g1 g2) /\ (forall a, In a (group_union g1 g2) <-> In a g1 \/ In a g2).
Proof. intros g1 g2 H1 H2. split; [apply union_NoDup; assumption|intros; apply union_members]. Qed.
Print Assumptions C32_union_NoDup.

(* incl: rank i of the new group is the process of rank ranks[i] of the old one; no duplicates *)
Theorem C32_incl : forall g ranks, NoDup g -> valid_ranks g ranks ->
  g_size (incl g ranks) = Z.of_nat (length ranks) /\
  (forall i, 0 <= i < Z.of_nat (length ranks) -> g_actor (incl g ranks) i = g_actor g (nth (Z.to_nat i) ranks (-1))) /\
  NoDup (incl g ranks).
Proof. intros g ranks Hg Hv. destruct (incl_spec g ranks Hv). repeat split; try assumption. apply incl_NoDup; assumption. Qed.
Print Assumptions C32_incl.

(* excl (as PMPI_Group_excl does it, shortcuts included): the members whose rank is not listed, order preserved *)
Theorem C32_excl : forall g ranks, valid_ranks g ranks ->
  p_excl g ranks = keep_from 0 (fun i => negb (mem i ranks)) g.
Proof. exact p_excl_spec. Qed.
Print Assumptions C32_excl.

(* range_incl / range_excl: the triplet (first, last, stride) denotes first, first+stride, ...,
   first + floor((last-first)/stride)*stride; the loops never run out of fuel on valid triplets *)
Theorem C32_range_incl : forall g ranges, Forall (valid_range (g_size g)) ranges ->
  range_incl g ranges = Some (incl g (flat_map range_spec ranges)).
Proof. exact range_incl_spec. Qed.
Print Assumptions C32_range_incl.

Theorem C32_range_excl : forall g ranges, Forall (valid_range (g_size g)) ranges ->
  range_excl g ranges = Some (keep_from 0 (fun i => negb (mem i (flat_map range_spec ranges))) g).
Proof. exact range_excl_spec. Qed.
Print Assumptions C32_range_excl.

(* Group_rank / translate_ranks: the rank of a member is its position, MPI_UNDEFINED for a non-member;
   translate_ranks answers, for each rank of group1, the rank of that process in group2 *)
Theorem C32_rank : forall g a,
  (In a g -> 0 <= g_rank g a < g_size g /\ g_actor g (g_rank g a) = a) /\ (~ In a g -> g_rank g a = UNDEF).
Proof. exact g_rank_spec. Qed.
Print Assumptions C32_rank.

Theorem C32_translate : forall g1 g2 ranks,
  Forall (fun r => r = PNULL \/ 0 <= r < g_size g1) ranks ->
  translate g1 ranks g2 = Some (map (fun r => if r =? PNULL then PNULL else g_rank g2 (g_actor g1 r)) ranks).
Proof. exact translate_spec. Qed.
Print Assumptions C32_translate.

(* compare: IDENT iff same members in the same order, SIMILAR iff same members in another order, else UNEQUAL *)
Theorem C32_compare : forall g1 g2, NoDup g1 -> NoDup g2 ->
  (compare g1 g2 = IDENT /\ g1 = g2) \/
  (compare g1 g2 = SIMILAR /\ Permutation g1 g2 /\ g1 <> g2) \/
  (compare g1 g2 = UNEQUAL /\ ~ Permutation g1 g2).
Proof. exact compare_spec. Qed.
Print Assumptions C32_compare.

(* Comm_split, seen from rank r with a defined colour: the new communicator contains exactly the ranks of that colour,
   once each, ordered by key and then by old rank.  [cks] = the (colour, key) of every rank *)
Theorem C32_split_order : forall cks r, 0 <= r < Z.of_nat (length cks) -> col cks r <> UNDEF ->
  exists l, split_ranks cks r = Some l /\ NoDup l /\
    (forall j, In j l <-> 0 <= j < Z.of_nat (length cks) /\ col cks j = col cks r) /\
    StronglySorted (fun a b => ple (key cks a, a) (key cks b, b)) l.
Proof. exact split_spec. Qed.
Print Assumptions C32_split_order.

(* the code as pinned orders the intersection as the second group *)
Theorem C32_intersection_pinned_refuted :
  exists g1 g2, NoDup g1 /\ NoDup g2 /\ intersection_orig g1 g2 <> filter (fun a => mem a g2) g1.
Proof. exact intersection_orig_refuted. Qed.
Print Assumptions C32_intersection_pinned_refuted.

Example C32_nonvacuous :
  valid_ranks [10; 11; 12; 13; 14] [4; 0; 2] /\ incl [10; 11; 12; 13; 14] [4; 0; 2] = [14; 10; 12] /\
  Forall (valid_range 6) [(4, 0, -3); (5, 5, 1)] /\ range_incl [0; 1; 2; 3; 4; 5] [(4, 0, -3); (5, 5, 1)] = Some [4; 1; 5] /\
  intersection [0; 1; 2; 5] [5; 2; 1; 7] = [1; 2; 5] /\ compare [0; 1; 2] [2; 1; 0] = SIMILAR /\
  split_ranks [(1, 5); (0, 5); (1, 2); (UNDEF, 9); (0, 1); (1, 0)] 0 = Some [5; 2; 0].
Proof.
  unfold valid_ranks, valid_range. repeat split; try (vm_compute; reflexivity);
    repeat constructor; cbn; try lia; intuition lia.
Qed.
