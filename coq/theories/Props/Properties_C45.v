(** C45 — Random draws are in range, unbiased and portable (src/xbt/random.cpp, XbtRandom).
    Only statements; proofs live in SGV.Xbt.RandomProofs.  [limit_of r] is the rejection bound
    max() - max() % range for a range of r values, [accept r v] what a raw 32-bit output v becomes (rejected / residue),
    [draw_int vals min max] is XbtRandom::uniform_int run on the stream [vals] of raw generator outputs. *)
From SGV Require Import Base.Tactics Xbt.Random Xbt.RandomProofs.
From Coq Require Import QArith.
Local Open Scope Z_scope.

(* for ALL ranges of 1 .. 2^32-1 values: the bound is a positive multiple of the range, and more than half of the
   raw outputs are accepted (so the loop ends with probability 1) *)
Theorem C45_limit_multiple : forall r, 1 <= r <= GMAX ->
  (r | limit_of r) /\ 0 < limit_of r <= GMAX /\ GMAX < 2 * limit_of r.
Proof. exact limit_multiple. Qed.
Print Assumptions C45_limit_multiple.

(* unbiased: the raw outputs that yield residue k are exactly k + j*r for 0 <= j < limit/r — the same number
   limit/r of preimages for every k *)
Theorem C45_unbiased : forall r k v, 1 <= r <= GMAX -> 0 <= k < r -> 0 <= v ->
  (accept r v = Some k <-> exists j, 0 <= j < limit_of r / r /\ v = k + j * r).
Proof. exact unbiased. Qed.
Print Assumptions C45_unbiased.

(* uniform_int returns min + residue of the first accepted raw output (unsigned/unsigned long/int casts included) *)
Theorem C45_draw_is_first_accepted : forall vals min max x rest,
  is_int min -> is_int max -> min <= max -> max - min < GMAX ->
  draw_int vals min max = Some (x, rest) ->
  exists rejected v, vals = rejected ++ v :: rest /\
    Forall (fun w => accept (max - min + 1) w = None) rejected /\ accept (max - min + 1) v = Some (x - min).
Proof. exact draw_int_spec. Qed.
Print Assumptions C45_draw_is_first_accepted.

Theorem C45_in_range : forall vals min max x rest,
  is_int min -> is_int max -> min <= max -> Forall raw vals ->
  draw_int vals min max = Some (x, rest) -> min <= x <= max.
Proof. exact draw_int_in_range. Qed.
Print Assumptions C45_in_range.

(* min = INT_MIN, max = INT_MAX: no rejection, a bijection of the 2^32 raw outputs *)
Theorem C45_full_range_case : forall v rest, raw v ->
  draw_int (v :: rest) INT_MIN INT_MAX = Some (v - 2 ^ 31, rest).
Proof. exact full_range_case. Qed.
Print Assumptions C45_full_range_case.

(* the draw is defined as soon as the stream holds one acceptable raw output (stream exhaustion is the only None) *)
Theorem C45_draw_defined : forall vals min max, is_int min -> is_int max -> min <= max ->
  Exists (fun v => v < limit_of (max - min + 1)) vals -> vals <> [] -> draw_int vals min max <> None.
Proof. exact draw_int_total. Qed.
Print Assumptions C45_draw_defined.

(* uniform_real: numerator in [0, divisor - 1], hence min + (max - min) * numerator / divisor in [min, max) — over Q;
   the binary64 evaluation of that expression is checked by the correspondence only (partial) *)
Theorem C45_real_in_range_partial : forall vals n rest mn mx,
  Forall raw vals -> draw_numerator vals = Some (n, rest) -> (mn <= mx)%Q ->
  0 <= n < GMAX /\ (mn <= real_q mn mx n)%Q /\ (real_q mn mx n <= mx)%Q /\ ((mn < mx)%Q -> (real_q mn mx n < mx)%Q).
Proof.
  intros vals n rest mn mx F D Hle. pose proof (numerator_range _ _ _ F D) as Hn.
  split; [exact Hn|]. now apply real_in_range.
Qed.
Print Assumptions C45_real_in_range_partial.

(* hypotheses are satisfiable: range of 6 values, a rejected raw output followed by an accepted one *)
Example C45_nonvacuous :
  limit_of 6 = 4294967292 /\ accept 6 4294967293 = None /\ accept 6 4294967291 = Some 5 /\
  draw_int [4294967293; 4294967291; 7] 1 6 = Some (6, [7]) /\
  draw_int [7] INT_MIN INT_MAX = Some (7 - 2 ^ 31, []) /\
  draw_numerator [4294967295; 12] = Some (12, []).
Proof. vm_compute. repeat split; reflexivity. Qed.

(* the sequence is defined by the model alone: first outputs of MT19937 seeded with 5489 *)
Example C45_mt19937_reference : run_c45_raw [5489; 3] = [3499211612; 581869302; 3890346734].
Proof. vm_compute. reflexivity. Qed.
