(** C34 — RMA windows behave like shared memory under their locks.
    Only statements; proofs live in SGV.Smpi.RmaProofs.  PARTIAL: the request machinery of smpi_win.cpp is not modelled,
    only the effect of each operation on window memory; the model is tied to the implementation by running generated
    programs (harness/smpi_c34.c) whose epochs are checked, by the verified commute_b, to have a unique result. *)
From SGV Require Import Base.Tactics Smpi.Rma Smpi.RmaProofs.
From Coq Require Import Permutation.
Local Open Scope Z_scope.

(* the memory of a window depends only on the operations addressed to it, in their order *)
Theorem C34_window_sees_its_operations : forall tr m t x, exec tr m t x = exec (proj t tr) m t x.
Proof. intros; apply exec_proj_gen; reflexivity. Qed.
Print Assumptions C34_window_sees_its_operations.

(* exclusive locks: if every target sees its critical sections one after the other in lock-acquisition order, whatever
   the interleaving of operations on different targets, the final memory is that of the serial execution *)
Theorem C34_exclusive_serial : forall tr secs m,
  well_targeted secs ->
  (forall t, proj t tr = flat_map (fun s => if fst s =? t then snd s else []) secs) ->
  meq (exec tr m) (exec (serial_of secs) m).
Proof.
  intros tr secs m Hw H. apply exclusive_serial. intros t. rewrite H. symmetry. now apply proj_serial.
Qed.
Print Assumptions C34_exclusive_serial.

(* fence / lock_all epochs: pairwise commuting operations give an order-independent memory *)
Theorem C34_commuting_epoch : forall l l', Permutation l l' ->
  (forall a b, In a l -> In b l -> commute a b) -> forall m, meq (exec l m) (exec l' m).
Proof. exact commuting_epoch. Qed.
Print Assumptions C34_commuting_epoch.

(* the decidable criterion (different targets, disjoint written cells, or accumulates with the same
   associative-commutative operator) implies commutation *)
Theorem C34_commute_b_sound : forall a b, commute_b a b = true -> commute a b.
Proof. exact commute_b_sound. Qed.
Print Assumptions C34_commute_b_sound.

(* hence the expected memory of every generated epoch is unique *)
Theorem C34_checked_epoch_order_independent : forall l l', all_commute_b l = true -> Permutation l l' ->
  forall m, meq (exec l m) (exec l' m).
Proof. exact checked_epoch_order_independent. Qed.
Print Assumptions C34_checked_epoch_order_independent.

(* non-vacuity: two origins accumulate SUM into overlapping cells of rank 1 while a third puts elsewhere *)
Example C34_nonvacuous :
  let a := mkop 2 1 0 0 [5; 6] 0 in let b := mkop 3 1 1 0 [7; 8] 0 in let c := mkop 0 1 4 5 [9] 0 in
  all_commute_b [a; b; c] = true /\
  map (exec [a; b; c] init_mem 1) [0; 1; 2; 3; 4] = [105; 114; 110; 103; 9] /\
  map (exec [c; b; a] init_mem 1) [0; 1; 2; 3; 4] = [105; 114; 110; 103; 9] /\
  commute_b (mkop 0 1 0 5 [1] 0) (mkop 0 1 0 5 [2] 0) = false.
Proof. vm_compute. repeat split. Qed.
Example C34_exclusive_nonvacuous :
  let s1 := (1, [mkop 0 1 0 5 [7] 0; mkop 2 1 0 1 [3] 0]) in let s2 := (2, [mkop 0 2 0 5 [1] 0]) in
  let s3 := (1, [mkop 4 1 0 5 [50] 21]) in
  let tr := [mkop 0 1 0 5 [7] 0; mkop 0 2 0 5 [1] 0; mkop 2 1 0 1 [3] 0; mkop 4 1 0 5 [50] 21] in
  (forall t, proj t tr = flat_map (fun s => if fst s =? t then snd s else []) [s1; s2; s3]) /\
  exec tr init_mem 1 0 = 50.
Proof.
  cbn zeta. split; [| vm_compute; reflexivity].
  intros t. destruct (Z.eq_dec t 1) as [-> | N1]; [vm_compute; reflexivity |].
  destruct (Z.eq_dec t 2) as [-> | N2]; [vm_compute; reflexivity |].
  unfold proj, on_target. cbn [filter flat_map otgt fst snd].
  rewrite !(proj2 (Z.eqb_neq 1 t)), !(proj2 (Z.eqb_neq 2 t)) by lia. reflexivity.
Qed.
