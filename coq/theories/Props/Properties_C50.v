(** C50 — Legacy xbt containers behave like their models.
    Only statements.  Models: SGV.Xbt.Dynar (dynar.cpp), SGV.Xbt.Dict (dict.cpp, dict_cursor.c);
    proofs: SGV.Xbt.DynarProofs, SGV.Xbt.DictProofs. *)
From SGV Require Import Base.Tactics Xbt.Dynar Xbt.DynarProofs Xbt.Dict Xbt.DictProofs.
From Coq Require Import Sorted Permutation.
Local Open Scope Z_scope.

(** * xbt_dynar is a growable array *)
(* every operation (push, pop, shift, unshift, insert_at, remove_at, get, set_at with zero-filled growth, length,
   member, sort, reset, foreach/map) commutes with the abstraction to a plain list, keeps used <= size, and is
   stopped by an xbt_assert exactly when the list operation is undefined; for any content of freshly allocated cells *)
Theorem C50_dynar_refines_list : forall junk d o,
  DynarProofs.Inv d -> refines (Dynar.step junk d o) (spec_step (abs d) o).
Proof. exact dynar_refines_list. Qed.
Print Assumptions C50_dynar_refines_list.

(* an insertion beyond the end is undefined on a list; the model (and the C code since the fix: commit) stops there.
   The pinned code did not: push 1; insert_at(5, 9) gave length 2, contents [1, 0], the 9 written out of bounds. *)
Example C50_insert_beyond_end_is_stopped : forall junk,
  Dynar.step junk (mkD [1%Z; 7%Z] 1) (InsertAt 5 9) = None /\ spec_step [1%Z] (InsertAt 5 9) = None.
Proof. intro junk. split; reflexivity. Qed.

(* whole histories of any length: same answers, stopped at the same operation, final contents related *)
Theorem C50_dynar_history_refines : forall junk ops d, DynarProofs.Inv d ->
  match run_c junk d ops, run_s (abs d) ops with
  | Some (d', rs), Some (l', rs') => DynarProofs.Inv d' /\ abs d' = l' /\ rs = rs'
  | None, None => True
  | _, _ => False
  end.
Proof. exact dynar_history_refines. Qed.
Print Assumptions C50_dynar_history_refines.

Theorem C50_dynar_capacity : forall junk ops d' rs,
  run_c junk (mkD [] 0) ops = Some (d', rs) -> (used d' <= size d')%nat.
Proof.
  intros junk ops d' rs H. pose proof (dynar_history_refines junk ops (mkD [] 0) DynarProofs.empty_inv) as R. rewrite H in R.
  destruct (run_s (abs (mkD [] 0)) ops) as [[l rs']|]; [|contradiction]. exact (proj1 R).
Qed.
Print Assumptions C50_dynar_capacity.

(* the sort of the specification is a sort: ordered permutation *)
Theorem C50_sort_is_sorted_permutation : forall l, Sorted Z.le (isort l) /\ Permutation (isort l) l.
Proof. intro l. split; [apply isort_sorted|apply isort_perm]. Qed.
Print Assumptions C50_sort_is_sorted_permutation.

(** * xbt_dict is a finite map, for ANY hash function and any key type with a correct equality test *)
Section AnyHash.
Variable K : Type.
Variable keqb : K -> K -> bool.
Variable hash : K -> Z.
Hypothesis keqb_eq : forall a b, keqb a b = true <-> a = b.
Hypothesis hash_nonneg : forall k, 0 <= hash k.

Theorem C50_dict_refines_map :
  (* the empty dict *)
  (DInv K hash (empty K) /\ forall k, get K keqb hash (empty K) k = None) /\
  (* set: invariant kept (through any number of rehashes), functional update, count *)
  (forall d k v, DInv K hash d ->
     DInv K hash (set K keqb hash d k v)
     /\ get K keqb hash (set K keqb hash d k v) k = Some v
     /\ (forall k', k' <> k -> get K keqb hash (set K keqb hash d k v) k' = get K keqb hash d k')
     /\ count K (set K keqb hash d k v) = count K d + match get K keqb hash d k with Some _ => 0 | None => 1 end) /\
  (* remove: fails exactly on absent keys, otherwise removes that binding only *)
  (forall d k, DInv K hash d ->
     match remove K keqb hash d k with
     | None => get K keqb hash d k = None
     | Some d' => get K keqb hash d k <> None /\ DInv K hash d' /\ get K keqb hash d' k = None
                  /\ (forall k', k' <> k -> get K keqb hash d' k' = get K keqb hash d k')
                  /\ count K d' = count K d - 1
     end) /\
  (* cursor enumeration: every binding exactly once; length = number of bindings *)
  (forall d, DInv K hash d ->
     NoDup (map fst (enumerate K d))
     /\ (forall k v, In (k, v) (enumerate K d) <-> get K keqb hash d k = Some v)
     /\ count K d = Z.of_nat (length (enumerate K d))).
Proof.
  split; [split; [apply empty_inv|apply get_empty; assumption]|]. split; [|split].
  - intros d k v HI. split; [apply set_inv; assumption|]. split; [apply get_set_same; assumption|].
    split; [intros; apply get_set_other; assumption|apply count_set; assumption].
  - intros d k HI. apply remove_spec; assumption.
  - intros d HI. apply enumerate_spec; assumption.
Qed.

(* resizing preserves the contents *)
Theorem C50_dict_rehash_preserves : forall d, DInv K hash d ->
  DInv K hash (rehash K hash d) /\ (forall k, get K keqb hash (rehash K hash d) k = get K keqb hash d k)
  /\ count K (rehash K hash d) = count K d /\ tsize K (rehash K hash d) = 2 * tsize K d.
Proof.
  intros d HI. destruct (rehash_inv K hash hash_nonneg d HI) as (H1 & H2 & H3).
  split; [exact H1|]. split; [|split; [exact H3|]].
  - intro k. apply option_ext. intro v.
    rewrite (get_iff K keqb hash keqb_eq hash_nonneg _ _ _ H1), (get_iff K keqb hash keqb_eq hash_nonneg _ _ _ HI). apply H2.
  - unfold tsize, rehash. cbn [table]. rewrite app_length, stay_cells_length, twin_cells_length. lia.
Qed.
End AnyHash.
Print Assumptions C50_dict_refines_map.
Print Assumptions C50_dict_rehash_preserves.

(* the instance run against the C library (byte-string keys, djb2) satisfies the hypotheses *)
Theorem C50_instance_ok : (forall a b, leqb a b = true <-> a = b) /\ (forall s, 0 <= djb2 s).
Proof. split; [exact leqb_eq|exact djb2_nonneg]. Qed.
Print Assumptions C50_instance_ok.

(* non-vacuous: a history that grows, shrinks, sorts; a dict forced through a rehash by a constant hash is still a map *)
Example C50_nonvacuous_dynar :
  run_s [] [Push 3; Push 1; Unshift 7; InsertAt 1 9; SetAt 6 5; Sort; Pop; RemoveAt 0; Shift; Get 1; Enumerate]
  = Some ([1; 3; 5; 7], [[]; []; []; []; []; []; [9]; [0]; [0]; [3]; [1; 3; 5; 7]]).
Proof. vm_compute. reflexivity. Qed.
Example C50_nonvacuous_dict :
  let d := fold_left (fun d i => sset d [Z.of_nat i] (Z.of_nat i)) (seq 0 200) (empty (list Z)) in
  tsize _ d = 256 /\ count _ d = 200 /\ sget d [150] = Some 150 /\ sget d [200] = None.
Proof. vm_compute. repeat split; reflexivity. Qed.
