(** C27 — Values with units are parsed to the documented magnitudes.
    Only statements; proofs live in SGV.Xbt.UnitsProofs.  [table]/[default_unit]/[parse_impl] are built from
    Gen/UnitsTable.v, which gen/units.py regenerates from src/xbt/xbt_parse_units.cpp on every run;
    [doc_units]/[doc_default] are the hand-written documented units (SI and IEC prefixes, bits = 1/8 byte). *)
From SGV Require Import Base.Tactics Xbt.Strtod Xbt.Units Xbt.UnitsProofs.
From Coq Require Import QArith.
Local Open Scope Z_scope.

(* the unit table the source builds (constructor mirrored on the regenerated tuples) is, as a finite map over ALL
   strings, the documented one: same units, same multipliers, nothing else accepted *)
Theorem C27_table_is_documented : forall kind u, lookup (table kind) u = lookup (doc_units kind) u.
Proof. exact table_is_documented. Qed.
Print Assumptions C27_table_is_documented.

Theorem C27_default_unit_is_documented : forall kind, default_unit kind = doc_default kind.
Proof. exact default_is_documented. Qed.
Print Assumptions C27_default_unit_is_documented.

(* every decimal number (spaces, sign, digits, '.', digits, exponent: all lengths) followed by any documented unit
   of the kind is converted to value(number) * documented multiplier — exact rational arithmetic *)
Theorem C27_value : forall kind d u m,
  wf d -> erange (dvalue d) = false -> lookup (doc_units kind) u = Some m ->
  parse_impl kind (render d ++ u) = Val (dvalue d) m.
Proof. exact value_with_unit. Qed.
Print Assumptions C27_value.

(* a number without unit takes the default unit of the kind *)
Theorem C27_value_default_unit : forall kind d m,
  wf d -> erange (dvalue d) = false -> lookup (doc_units kind) (doc_default kind) = Some m ->
  parse_impl kind (render d) = Val (dvalue d) m.
Proof. exact value_default_unit. Qed.
Print Assumptions C27_value_default_unit.

(* a suffix that is not a documented unit of the kind is rejected (suffixes that strtod would read as more of the
   number — starting with a digit, '.', 'x', a sign, a space or an exponent — are excluded by unit_shape) *)
Theorem C27_unknown_unit_rejected : forall kind d u,
  wf d -> unit_shape u = true -> u <> [] -> lookup (doc_units kind) u = None ->
  parse_impl kind (render d ++ u) = Reject.
Proof. exact unknown_unit_rejected. Qed.
Print Assumptions C27_unknown_unit_rejected.

(* malformed numbers: a string that does not start with a digit, ".digit", inf or nan (after spaces and a sign) *)
Theorem C27_no_number_rejected : forall kind s, starts_number s = false -> parse_impl kind s = Reject.
Proof. exact no_number_rejected. Qed.
Print Assumptions C27_no_number_rejected.

(* numbers outside binary64's range (errno = ERANGE) are rejected whatever the unit *)
Theorem C27_range_rejected : forall kind d u,
  wf d -> unit_shape u = true -> erange (dvalue d) = true -> parse_impl kind (render d ++ u) = Reject.
Proof. exact range_rejected. Qed.
Print Assumptions C27_range_rejected.

(* the oracle run on the implementation's observations accepts only conforming ones *)
Theorem C27_oracle_sound : forall kind s o, c27_ok kind s o = true -> conforms (parse_impl kind s) o.
Proof. exact oracle_sound. Qed.
Print Assumptions C27_oracle_sound.

(* hypotheses are satisfiable: " -12.50e+3" followed by "kBps" *)
Example C27_nonvacuous :
  let d := {| d_sp := [32]; d_sign := Some true; d_ip := [49; 50]; d_dot := true; d_fp := [53; 48];
              d_exp := Some (101, Some false, [51]) |} in
  wf d /\ erange (dvalue d) = false /\ lookup (doc_units 2) [107; 66; 112; 115] = Some (1000 # 1) /\
  parse_impl 2 (render d ++ [107; 66; 112; 115]) = Val (-12500 # 1) (1000 # 1) /\
  unit_shape [75; 66; 112; 115] = true /\ lookup (doc_units 2) [75; 66; 112; 115] = None /\
  starts_number [46; 66] = false.
Proof. cbv zeta. unfold wf, all. cbn [d_sp d_sign d_ip d_dot d_fp d_exp]. repeat split; try discriminate; vm_compute; reflexivity. Qed.

(* range: "1e309" is rejected; hexadecimal floats and inf are numbers for strtod and the model says so *)
Example C27_range_nonvacuous :
  let d := {| d_sp := []; d_sign := None; d_ip := [49]; d_dot := false; d_fp := []; d_exp := Some (101, None, [51; 48; 57]) |} in
  wf d /\ erange (dvalue d) = true.
Proof. cbv zeta. unfold wf, all. cbn [d_sp d_sign d_ip d_dot d_fp d_exp]. repeat split; try discriminate; vm_compute; reflexivity. Qed.
Example C27_hex_accepted : parse_impl 1 [48; 120; 49; 46; 56; 112; 49; 75; 105; 66] = Val (3 # 1) (1024 # 1).
Proof. vm_compute. reflexivity. Qed.
Example C27_inf_accepted : parse_impl 0 [45; 105; 110; 102; 115] = Inf true.
Proof. vm_compute. reflexivity. Qed.
