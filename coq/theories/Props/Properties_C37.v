(** C37 — Trace replay reproduces the online simulated time: the codec core.
    Only statements; proofs live in SGV.Smpi.TiCodecProofs.

    [encode fixed n c] = (action name, argument tokens) of the TI line the tracer writes for call [c] in a world of [n]
    ranks; [decode dflt n name tokens] = the arguments the replay parser of that action reads.  [fixed = true] is the
    code of the current tree (three repairs), [fixed = false] the pinned code.  The equality of the simulated dates
    themselves is established by the correspondence runs of checks/C37.py, not by a theorem. *)
From SGV Require Import Base.Tactics Smpi.TiCodec Smpi.TiCodecProofs.
Local Open Scope Z_scope.

(* every supported call, all argument values in the ranges of the C prototypes, any number of ranks >= 2, whatever the
   default datatype: the replay parser reads back exactly the call that was traced *)
Theorem C37_roundtrip : forall dflt n c,
  wf n c = true ->
  decode dflt n (fst (encode true n c)) (snd (encode true n c)) = Some (norm n c).
Proof. exact roundtrip_fixed. Qed.
Print Assumptions C37_roundtrip.

(* the line grammar is unambiguous: two calls printing the same line are the same replay action *)
Theorem C37_encode_injective : forall n c1 c2,
  wf n c1 = true -> wf n c2 = true -> encode true n c1 = encode true n c2 -> norm n c1 = norm n c2.
Proof. exact encode_injective. Qed.
Print Assumptions C37_encode_injective.

(* the pinned code round-trips only under the side condition it silently assumed (receive counts > 0, amounts with at
   most 6 significant digits, no MPI_Reduce_scatter_block) *)
Theorem C37_roundtrip_pinned_partial : forall dflt n c,
  wf n c = true -> wf_pinned c = true ->
  decode dflt n (fst (encode false n c)) (snd (encode false n c)) = Some (norm n c).
Proof. exact roundtrip_pinned_partial. Qed.
Print Assumptions C37_roundtrip_pinned_partial.

(* and fails outside it: the three witnesses are replayed on the real code by the corpus of checks/C37.py *)
Theorem C37_pinned_gather_refuted :
  exists n c, wf n c = true /\
    decode 6 n (fst (encode false n c)) (snd (encode false n c)) <> Some (norm n c) /\
    decode 6 n (fst (encode false n c)) (snd (encode false n c)) = Some (CGather 100 2 0 0 6).
Proof. exact pinned_gather_refuted. Qed.
Print Assumptions C37_pinned_gather_refuted.

Theorem C37_pinned_sleep_refuted :
  exists n c, wf n c = true /\
    decode 6 n (fst (encode false n c)) (snd (encode false n c)) = Some (CSleep 1234570) /\ norm n c = CSleep 1234567.
Proof. exact pinned_sleep_refuted. Qed.
Print Assumptions C37_pinned_sleep_refuted.

Theorem C37_pinned_rsblock_refuted :
  exists n c, wf n c = true /\
    decode 6 n (fst (encode false n c)) (snd (encode false n c)) = Some (CReducescatter [0; 0; 0; 0] 0 0) /\
    norm n c = CReducescatter [5; 5; 5; 5] 0 0.
Proof. exact pinned_rsblock_refuted. Qed.
Print Assumptions C37_pinned_rsblock_refuted.

Theorem C37_pinned_print_ambiguous :
  exists d1 d2, d1 <> d2 /\ print false d1 = print false d2 /\
    d1 = snd (trace false 4 (CGather 100 0 2 0 0)) /\ d2 = Coll 0 (-1) 100 2 (Some 0) None.
Proof. exact pinned_print_ambiguous. Qed.
Print Assumptions C37_pinned_print_ambiguous.

(* hypotheses are satisfiable on non-trivial calls, including the regions the pinned code got wrong *)
Example C37_roundtrip_nonvacuous :
  wf 4 (CAlltoallv 10 [1; 2; 3; 4] 28 [1; 5; 9; 13] 6 6) = true /\
  wf 4 (CGather 100 0 2 0 0) = true /\ wf 4 (CRsBlock 5 0) = true /\ wf 4 (CSleep 1234567) = true /\
  snd (encode true 4 (CGather 100 0 2 0 0)) = [TI 100; TI 0; TI 2; TI 0; TI 0] /\
  decode 6 4 KGather [TI 100; TI 0; TI 2; TI 0; TI 0] = Some (CGather 100 0 2 0 0).
Proof. repeat split; vm_compute; reflexivity. Qed.
Example C37_injective_nonvacuous :
  wf 3 (CGatherv 7 [0; 0; 0] 1 0 0) = true /\ wf 3 (CBcast 5000 2 0) = true /\
  encode true 3 (CGatherv 7 [0; 0; 0] 1 0 0) <> encode true 3 (CBcast 5000 2 0).
Proof. repeat split; vm_compute; discriminate. Qed.
Example C37_pinned_partial_nonvacuous :
  wf 4 (CGather 100 100 2 0 0) = true /\ wf_pinned (CGather 100 100 2 0 0) = true /\
  wf_pinned (CSleep 250000) = true /\ wf_pinned (CSleep 1234567) = false.
Proof. repeat split; vm_compute; reflexivity. Qed.
