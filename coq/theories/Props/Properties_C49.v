(** C49 — Parallel map processes each element exactly once.
    Only statements.  Model: SGV.Xbt.Parmap (small-step interleaving model of src/xbt/parmap.hpp: shared common_index
    (fetch_add), thread_counter, work_round; master and workers as program counters); proofs: SGV.Xbt.ParmapProofs.
    Schedules are lists of events [Step t] (thread t does its next atomic step) and [Spurious t] (the blocking wait
    thread t is in -- futex_wait, condition_variable::wait, a poll of the busy-wait loop -- returns although nobody woke
    it: EINTR, EAGAIN, spurious wake-up).  Waits are not atomic awaits: load + test, then block, then (in the code as
    written) load + test again.  Assumption of the model: sequentially consistent atomics (no relaxed-memory
    reordering); lost wake-ups (liveness) are not modelled. *)
From SGV Require Import Base.Tactics Xbt.Parmap Xbt.ParmapProofs.
From Coq Require Import Permutation.

(* for ANY schedule (any interleaving of the atomic steps of any number of threads, with spurious returns of the
   blocking waits of the master and of the workers anywhere in it), any number of workers, any
   sequence of apply() calls on vectors of any lengths: in every apply() that has returned, the multiset of indices the
   function was applied to is exactly {0..n-1} *)
Theorem C49_each_once_per_round : forall nw applies sched,
  Forall (fun d => Permutation (snd d) (seq 0 (fst d))) (done (run sched (init nw applies))).
Proof. exact each_once_per_round. Qed.
Print Assumptions C49_each_once_per_round.

(* the same in terms of the per-element counters the driver observes on the real Parmap *)
Theorem C49_counters_all_one : forall nw applies sched d,
  In d (done (run sched (init nw applies))) -> counts (fst d) (snd d) = repeat 1 (fst d).
Proof. exact counts_all_one. Qed.
Print Assumptions C49_counters_all_one.

(* the oracle run on the implementation's counters accepts exactly the all-ones vectors *)
Theorem C49_oracle_is_spec : forall v, each_once v = true <-> v = repeat 1 (length v).
Proof. exact each_once_spec. Qed.
Print Assumptions C49_oracle_is_spec.

(* repeated applies: when apply() has returned, every worker has signalled that round and waits for the next one
   (so the master never publishes round k+1 while a worker is still inside round k) ... *)
Theorem C49_round_barrier : forall nw applies sched,
  let s := run sched (init nw applies) in
  mpc s = MIdle -> Forall (idle_at (wr s)) (ws s).
Proof. exact round_barrier. Qed.
Print Assumptions C49_round_barrier.

(* the two theorems above spelled out for a schedule that contains a spurious wake-up of any thread at any point *)
Theorem C49_spurious_wakeups_harmless : forall nw applies sched1 t sched2,
  let s := run (sched1 ++ Spurious t :: sched2) (init nw applies) in
  Forall (fun d => Permutation (snd d) (seq 0 (fst d))) (done s) /\ (mpc s = MIdle -> Forall (idle_at (wr s)) (ws s)).
Proof. intros nw applies sched1 t sched2. split; [apply each_once_per_round|apply round_barrier]. Qed.
Print Assumptions C49_spurious_wakeups_harmless.

(* they depend on the re-check after every wait: were master_wait() a single, non-rechecked wait
   (`if (count < num_workers) futex_wait(...)`), a spurious return (EINTR) lets apply() return while a worker is still
   inside the user function -- at that time the element has been processed 0 times ... *)
Theorem C49_single_wait_refuted : exists nw applies sched d,
  In d (done (run_v single_master_wait sched (init nw applies))) /\
  ~ Permutation (snd d) (seq 0 (fst d)) /\ counts (fst d) (snd d) <> repeat 1 (fst d).
Proof. exact each_once_single_wait_refuted. Qed.
Print Assumptions C49_single_wait_refuted.
(* ... even without any spurious event, with 3 threads: FUTEX_WAIT returns at once (EAGAIN) when another worker
   incremented the counter between the master's load and the system call ... *)
Theorem C49_single_wait_refuted_no_spurious : exists nw applies sched d,
  Forall (fun e => match e with Step _ => True | Spurious _ => False end) sched /\
  In d (done (run_v single_master_wait sched (init nw applies))) /\ counts (fst d) (snd d) <> repeat 1 (fst d).
Proof. exact each_once_single_wait_refuted_no_spurious. Qed.
Print Assumptions C49_single_wait_refuted_no_spurious.
(* ... and the barrier between rounds is lost too (master or worker side) *)
Theorem C49_round_barrier_single_wait_refuted : exists nw applies sched,
  let s := run_v single_master_wait sched (init nw applies) in
  mpc s = MIdle /\ ~ Forall (idle_at (wr s)) (ws s).
Proof. exact round_barrier_single_wait_refuted. Qed.
Print Assumptions C49_round_barrier_single_wait_refuted.
Theorem C49_round_barrier_single_worker_wait_refuted : exists nw applies sched,
  let s := run_v single_worker_wait sched (init nw applies) in
  mpc s = MIdle /\ ~ Forall (idle_at (wr s)) (ws s).
Proof. exact round_barrier_single_worker_wait_refuted. Qed.
Print Assumptions C49_round_barrier_single_worker_wait_refuted.

(* ... and the completed apply() calls are the requested ones, in order, each once *)
Theorem C49_rounds_in_order : forall nw applies sched,
  let s := run sched (init nw applies) in
  rev (map fst (done s)) ++ pending s ++ todo s = applies.
Proof. exact rounds_in_order. Qed.
Print Assumptions C49_rounds_in_order.

(* non-vacuous: schedules that complete every apply() exist (here 3 threads, vectors of 5, 0 and 3 elements, an
   irregular schedule followed by round-robin): 3 rounds done, every counter is 1 *)
Example C49_nonvacuous :
  run_c49 [3; 3; 5; 0; 3; 1; 1; 2; 0; 0; 0; 2; 2; 1; 0; 0; 2; 1; 1; 1; 0; 2; 0; 0; 1]%Z
  = [3; 5; 1; 1; 1; 1; 1; 0; 3; 1; 1; 1]%Z.
Proof. vm_compute. reflexivity. Qed.

(* the same case with spurious returns (negative numbers: -1 master, -2/-3 the workers) sprinkled in, some of them while
   the thread is really blocked (the master after its last element, a worker before the first round): same result *)
Example C49_nonvacuous_spurious :
  run_c49 [3; 3; 5; 0; 3; 1; 1; -2; 1; -2; 2; 0; 0; 0; 2; 2; -3; 1; 0; 0; 2; 1; 0; 0; 0; 0; 0; 0; 0; 0; -1; 0; -1; 1; 1; 0; -2; 2; 0; 0; 1; -1; -3]%Z
  = [3; 5; 1; 1; 1; 1; 1; 0; 3; 1; 1; 1]%Z.
Proof. vm_compute. reflexivity. Qed.
