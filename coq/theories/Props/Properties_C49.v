(** C49 — Parallel map processes each element exactly once.
    Only statements.  Model: SGV.Xbt.Parmap (small-step interleaving model of src/xbt/parmap.hpp: shared common_index
    (fetch_add), thread_counter, work_round; master and workers as program counters); proofs: SGV.Xbt.ParmapProofs.
    Assumption of the model: sequentially consistent atomics; futex / condition variable / busy waiting are all
    "proceed only when the condition holds" (no lost wake-up, no relaxed-memory reordering). *)
From SGV Require Import Base.Tactics Xbt.Parmap Xbt.ParmapProofs.
From Coq Require Import Permutation.

(* for ANY schedule (any interleaving of the atomic steps of any number of threads), any number of workers, any
   sequence of apply() calls on vectors of any lengths: in every apply() that has returned, the multiset of indices the
   function was applied to is exactly {0..n-1} *)
Theorem C49_each_once_per_round : forall nw applies sched,
  Forall (fun d => Permutation (snd d) (seq 0 (fst d))) (done (run sched (init nw applies))).
Proof. exact each_once_per_round. Qed.
Print Assumptions C49_each_once_per_round.

(* the same in terms of the per-element counters the driver observes on the real Parmap *)
Theorem C49_counters_all_one : forall nw applies sched d,
  In d (done (run sched (init nw applies))) -> counts (fst d) (snd d) = repeat 1 (fst d).
Proof. exact counts_all_one. Qed.
Print Assumptions C49_counters_all_one.

(* the oracle run on the implementation's counters accepts exactly the all-ones vectors *)
Theorem C49_oracle_is_spec : forall v, each_once v = true <-> v = repeat 1 (length v).
Proof. exact each_once_spec. Qed.
Print Assumptions C49_oracle_is_spec.

(* repeated applies: when apply() has returned, every worker has signalled that round and waits for the next one
   (so the master never publishes round k+1 while a worker is still inside round k) ... *)
Theorem C49_round_barrier : forall nw applies sched,
  let s := run sched (init nw applies) in
  mpc s = MIdle -> Forall (idle_at (wr s)) (ws s).
Proof. exact round_barrier. Qed.
Print Assumptions C49_round_barrier.

(* ... and the completed apply() calls are the requested ones, in order, each once *)
Theorem C49_rounds_in_order : forall nw applies sched,
  let s := run sched (init nw applies) in
  rev (map fst (done s)) ++ pending s ++ todo s = applies.
Proof. exact rounds_in_order. Qed.
Print Assumptions C49_rounds_in_order.

(* non-vacuous: schedules that complete every apply() exist (here 3 threads, vectors of 5, 0 and 3 elements, an
   irregular schedule followed by round-robin): 3 rounds done, every counter is 1 *)
Example C49_nonvacuous :
  run_c49 [3; 3; 5; 0; 3; 1; 1; 2; 0; 0; 0; 2; 2; 1; 0; 0; 2; 1; 1; 1; 0; 2; 0; 0; 1]%Z
  = [3; 5; 1; 1; 1; 1; 1; 0; 3; 1; 1; 1]%Z.
Proof. vm_compute. reflexivity. Qed.
