(** C11 — Actor lifecycle (join, on_exit, daemons, kill time, suspend/resume). Statements only. *)
From Coq Require Import Sorted.
From SGV Require Import Base.Tactics Kernel.Engine Kernel.EngineProofs.
Local Open Scope Z_scope.

(* whatever the reason an actor ends for ([terminate] is the only way to SDead: normal return, kill, kill_all, exit,
   kill time, daemon sweep, deadlock), its on_exit callbacks run exactly once each, most recently registered first, at
   the current date, followed by the termination signal *)
Theorem C11_on_exit_once_reverse : forall s p a failed,
  get_actor p (actors s) = Some a ->
  log (terminate s p failed) = ETerm p (clock s) :: rev (exits p (clock s) failed (a_onexit a)) ++ log s.
Proof. exact terminate_spec. Qed.
Print Assumptions C11_on_exit_once_reverse.

(* ... and a dead actor has no callback, no kill timer and is no daemon any more *)
Theorem C11_dead_is_clean : forall a,
  a_st (bury a) = SDead /\ a_onexit (bury a) = [] /\ a_daemon (bury a) = false /\ a_kill (bury a) = None.
Proof. exact bury_spec. Qed.
Print Assumptions C11_dead_is_clean.

(* a suspended actor that gets scheduled executes nothing and observes nothing: it is parked until resume() *)
Theorem C11_suspended_no_progress : forall s p a r n,
  get_actor p (actors s) = Some a -> a_st a = SReady r n -> a_susp a = true ->
  log (run_actor s p) = log s /\ clock (run_actor s p) = clock s /\
  exists a', get_actor p (actors (run_actor s p)) = Some a' /\ a_st a' = SParked r /\ a_prog a' = a_prog a /\ a_idx a' = a_idx a.
Proof. exact suspended_no_progress. Qed.
Print Assumptions C11_suspended_no_progress.

(* kill time / join timeout: the clock never jumps over a pending date, and the kill timer fires as soon as date <= clock *)
Theorem C11_kill_time_not_jumped_over : forall s s' d,
  advance s = Some s' -> In d (all_dates s) -> stuck s' = false -> clock s' <= d.
Proof. exact advance_stops_at_earliest. Qed.
Print Assumptions C11_kill_time_not_jumped_over.

(* observations of whole runs are time-ordered and never dated after the clock (so nothing is observed after a death) *)
Theorem C11_log_ordered : forall fuel prec progs s ended,
  run fuel (init prec progs) = (s, ended) ->
  Forall (entry_ok prec) (log s) /\ StronglySorted not_before (log s) /\ Forall (le_clock (clock s)) (log s).
Proof. exact run_entries_ok. Qed.
Print Assumptions C11_log_ordered.

(* the code's defect (KNOWN_FINDINGS resume-reschedules-running-actor): suspend and resume of one actor handled in the same
   scheduling round; the model stops there with [race] set. Replayed on the real code: sleep_for(5 s) returns at once. *)
Theorem C11_resume_race_witness :
  race (fst (run 50 (init 4 [[OYield; OSleep 21474836480; OSleep 4294967296]; [OSuspend 1]; [OResume 1]]))) = true.
Proof. vm_compute. reflexivity. Qed.
Print Assumptions C11_resume_race_witness.

(* whole runs: join with timeout vs. death, on_exit order, daemon sweep, kill time, suspension *)
Example C11_nonvacuous :
  let S := 4294967296 in
  let '(s, fin) := run 80 (init 4 [[OOnExit 1; OOnExit 2; OSleep (2*S)]; [OJoin 1 (3*S); OJoin 1 (-1)]; [OJoin 1 S];
                                   [ODaemonize; OOnExit 9; OSleep (50*S)]; [OSetKillTime (4*S); OSleep (9*S)];
                                   [OSleep S; OSuspend 5; OSleep S; OResume 5]]) in
  fin = true /\ halted s = false /\ clock s = 4*S /\
  In (ERet 2 0 (OJoin 1 (3*S)) 0 (2*S) 0 false) (log s) /\ In (ERet 3 0 (OJoin 1 S) 0 S 0 false) (log s) /\
  In (EExit 4 9 (4*S) true) (log s) /\ In (ETerm 5 (4*S)) (log s).
Proof. vm_compute. repeat split; auto 60. Qed.
