(** C11 — Actor lifecycle (join, on_exit, daemons, kill time, suspend/resume). Statements only. *)
From Coq Require Import Sorted.
From SGV Require Import Base.Tactics Kernel.Engine Kernel.EngineProofs.
Local Open Scope Z_scope.

(* whatever the reason an actor ends for ([terminate] is the only way to SDead: normal return, kill, kill_all, exit,
   kill time, daemon sweep, deadlock), its on_exit callbacks run exactly once each, most recently registered first, at
   the current date, followed by the termination signal *)
Theorem C11_on_exit_once_reverse : forall s p a failed,
  get_actor p (actors s) = Some a ->
  log (terminate s p failed) = ETerm p (clock s) :: rev (exits p (clock s) failed (a_onexit a)) ++ log s.
Proof. exact terminate_spec. Qed.
Print Assumptions C11_on_exit_once_reverse.

(* ... and a dead actor has no callback, no kill timer and is no daemon any more *)
Theorem C11_dead_is_clean : forall a,
  a_st (bury a) = SDead /\ a_onexit (bury a) = [] /\ a_daemon (bury a) = false /\ a_kill (bury a) = None.
Proof. exact bury_spec. Qed.
Print Assumptions C11_dead_is_clean.

(* a suspended actor that gets scheduled executes nothing and observes nothing: it is parked until resume() *)
Theorem C11_suspended_no_progress : forall s p a r n,
  get_actor p (actors s) = Some a -> a_st a = SReady r n -> a_susp a = true ->
  log (run_actor s p) = log s /\ clock (run_actor s p) = clock s /\
  exists a', get_actor p (actors (run_actor s p)) = Some a' /\ a_st a' = SParked r /\ a_prog a' = a_prog a /\ a_idx a' = a_idx a.
Proof. exact suspended_no_progress. Qed.
Print Assumptions C11_suspended_no_progress.

(* kill time / join timeout: the clock never jumps over a pending date, and the kill timer fires as soon as date <= clock *)
Theorem C11_kill_time_not_jumped_over : forall s s' d,
  advance s = Some s' -> In d (all_dates s) -> stuck s' = false -> clock s' <= d.
Proof. exact advance_stops_at_earliest. Qed.
Print Assumptions C11_kill_time_not_jumped_over.

(* observations of whole runs are time-ordered and never dated after the clock (so nothing is observed after a death) *)
Theorem C11_log_ordered : forall fuel prec progs s ended,
  run fuel (init prec progs) = (s, ended) ->
  Forall (entry_ok prec) (log s) /\ StronglySorted not_before (log s) /\ Forall (le_clock (clock s)) (log s).
Proof. exact run_entries_ok. Qed.
Print Assumptions C11_log_ordered.

(* the code's defect (KNOWN_FINDINGS resume-reschedules-running-actor): suspend and resume of one actor handled in the same
   scheduling round; the model stops there with [race] set. Replayed on the real code: sleep_for(5 s) returns at once. *)
Theorem C11_resume_race_witness :
  race (fst (run 50 (init 4 [[OYield; OSleep 21474836480; OSleep 4294967296]; [OSuspend 1]; [OResume 1]]))) = true.
Proof. vm_compute. reflexivity. Qed.
Print Assumptions C11_resume_race_witness.

(* whole runs: join with timeout vs. death, on_exit order, daemon sweep, kill time, suspension *)
Example C11_nonvacuous :
  let S := 4294967296 in
  let '(s, fin) := run 80 (init 4 [[OOnExit 1; OOnExit 2; OSleep (2*S)]; [OJoin 1 (3*S); OJoin 1 (-1)]; [OJoin 1 S];
                                   [ODaemonize; OOnExit 9; OSleep (50*S)]; [OSetKillTime (4*S); OSleep (9*S)];
                                   [OSleep S; OSuspend 5; OSleep S; OResume 5]]) in
  fin = true /\ halted s = false /\ clock s = 4*S /\
  In (ERet 2 0 (OJoin 1 (3*S)) 0 (2*S) 0 false) (log s) /\ In (ERet 3 0 (OJoin 1 S) 0 S 0 false) (log s) /\
  In (EExit 4 9 (4*S) true) (log s) /\ In (ETerm 5 (4*S)) (log s).
Proof. vm_compute. repeat split; auto 60. Qed.

(** ------------------------------------------------------------------------------------------------------------------
    Auto-restart after a host reboot (model SGV.Kernel.Restart: host turn_off/turn_on, boot records, on_exit vectors as an
    explicit heap so that sharing between an actor and a record is expressible). All statements are about every history
    of kernel events (any number of reboots, registrations, kills, in any order). *)
From SGV Require Import Kernel.Restart Kernel.RestartProofs.

(* C11_restart: in every reachable state, for every actor (= incarnation) ever created: nothing of its callbacks has run
   while it lives; once it has ended, the callbacks observed in it are exactly the content of its own vector, each once,
   the most recently registered first, all at the date of its end -- whatever happened afterwards (later incarnations,
   reboots, registrations). An actor that does not exist yet has run nothing. *)
Theorem C11_restart : forall s a,
  reachable s -> In a (actors s) ->
  rev (exits (a_pid a) (log s)) =
    if a_alive a then [] else map (fun c => (c, a_end a)) (rev (lookup (a_pid a) (heap s))).
Proof. exact restart_exits. Qed.
Print Assumptions C11_restart.

Theorem C11_restart_nothing_before_creation : forall s p, reachable s -> next_pid s <= p -> exits p (log s) = [].
Proof. exact restart_no_exit_of_unborn. Qed.
Print Assumptions C11_restart_nothing_before_creation.

(* what "its own vector" contains: it changes only by a registration on that very actor while it lives -- never by a
   registration on another incarnation, a reboot, a death *)
Theorem C11_restart_callbacks_private : forall s e p,
  reachable s -> p < next_pid s ->
  lookup p (heap (kstep false s e)) =
    match e with
    | KOnExit q tag => if (q =? p) && alive_in s p then lookup p (heap s) ++ [tag] else lookup p (heap s)
    | _ => lookup p (heap s)
    end.
Proof. exact restart_private. Qed.
Print Assumptions C11_restart_callbacks_private.

(* ... and a re-created actor (HostImpl::turn_on folds this over the boot records) starts, in a vector of its own, with a
   copy of the recorded vector, with the recorded code and host, auto-restart again *)
Theorem C11_restart_recreates_recorded : forall s g,
  reachable s -> host_is_on (g_host g) s = true -> (forall o, g_list g = Some o -> o < next_pid s) ->
  let s' := create_arg false s g in
  lookup (next_pid s) (heap s') = match g_list g with Some o => lookup o (heap s) | None => [] end /\
  exists a, get_actor (next_pid s) (actors s') = Some a /\ a_alive a = true /\ a_list a = Some (next_pid s) /\
            a_code a = g_code g /\ a_host a = g_host g /\ (g_auto g = true -> a_auto a = true).
Proof. exact restart_recreate. Qed.
Print Assumptions C11_restart_recreates_recorded.

(* the record made by set_auto_restart shares the vector of the calling actor (the only sharing there is) *)
Theorem C11_restart_record : forall s p a x,
  reachable s -> get_actor p (actors s) = Some a -> a_alive a = true -> a_auto a = false ->
  get_host (a_host a) (hosts s) = Some x ->
  get_host (a_host a) (hosts (kstep false s (KSetAuto p))) =
    Some (mkH (h_id x) (h_on x) (h_boot x ++ [mkG (a_code a) (a_host a) true (Some p) (a_kill a)])).
Proof. exact restart_record. Qed.
Print Assumptions C11_restart_record.

Theorem C11_restart_no_sharing_between_actors : forall s,
  reachable s ->
  NoDup (map a_pid (actors s)) /\
  forall a, In a (actors s) -> a_list a = if a_alive a then Some (a_pid a) else None.
Proof. exact restart_no_sharing. Qed.
Print Assumptions C11_restart_no_sharing_between_actors.

(* [c11_demo]: three reboots of an auto-restart actor (callbacks 100, 101 registered by main before / after
   set_auto_restart; the restarted incarnations register 11 then 12, 21, 31) *)
Example C11_restart_nonvacuous :
  let s := krun false (kinit 1) c11_demo in
  map a_pid (actors s) = [1; 2; 3; 4; 5] /\ forallb (fun a => negb (a_alive a)) (actors s) = true /\
  rev (exits 3 (log s)) = [(12, 12); (11, 12); (101, 12); (100, 12)] /\
  rev (exits 4 (log s)) = [(21, 20); (101, 20); (100, 20)] /\
  rev (exits 5 (log s)) = [(31, 28); (101, 28); (100, 28)].
Proof. vm_compute. repeat split. Qed.

(* the statement is not a tautology of the modelling style: with "actor->on_exit = args->on_exit" in create(ProcessArg* )
   (share instead of copy) the callback registered once, by the second incarnation, runs again in the third and fourth *)
Theorem C11_restart_share_variant_refuted :
  let s := krun true (kinit 1) c11_demo in
  rev (exits 4 (log s)) = [(21, 20); (12, 20); (11, 20); (101, 20); (100, 20)] /\
  rev (exits 5 (log s)) = [(31, 28); (21, 28); (12, 28); (11, 28); (101, 28); (100, 28)].
Proof. vm_compute. split; reflexivity. Qed.
Print Assumptions C11_restart_share_variant_refuted.
