Require Import ExtrOcamlBasic.
Require Import SGV.Res.Action.
Require Import SGV.Res.Share.
Extraction "c21_model.ml" run_c21_trace run_c21_share run_c19_dates.
