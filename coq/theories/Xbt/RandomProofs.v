(** C45 — proofs about Xbt/Random.v (the rejection bound, unbiasedness, ranges with the casts). *)
From SGV Require Import Base.Tactics Xbt.Random.
From Coq Require Import QArith Lqa.
Local Open Scope Z_scope.

Definition INT_MIN : Z := - 2 ^ 31.
Definition INT_MAX : Z := 2 ^ 31 - 1.
Definition is_int (x : Z) : Prop := INT_MIN <= x <= INT_MAX.
Definition raw (v : Z) : Prop := 0 <= v < W32.

Ltac unf := unfold is_int, raw, accept, result_of, range_of, limit_of, to_int32, to_ulong in *;
  unfold GMAX, W32, W64, INT_MIN, INT_MAX in *;
  change (2 ^ 32) with 4294967296 in *; change (2 ^ 31) with 2147483648 in *;
  change (2 ^ 64) with 18446744073709551616 in *.
Ltac ifs := repeat match goal with |- context [if ?b then _ else _] => let E := fresh "E" in destruct b eqn:E end.

(** * the rejection bound, for every 32-bit range *)
Lemma limit_is_multiple : forall r, 1 <= r <= GMAX -> limit_of r = r * (GMAX / r).
Proof. intros r H. unf. pose proof (Z.div_mod (2 ^ 32 - 1) r). lia. Qed.

Lemma limit_multiple : forall r, 1 <= r <= GMAX ->
  (r | limit_of r) /\ 0 < limit_of r <= GMAX /\ GMAX < 2 * limit_of r.
Proof.
  intros r H. rewrite limit_is_multiple by exact H. unfold GMAX in *.
  assert (Hq : 1 <= (2 ^ 32 - 1) / r) by (apply Z.div_le_lower_bound; lia).
  pose proof (Z.mul_div_le (2 ^ 32 - 1) r ltac:(lia)).
  pose proof (Z.mul_succ_div_gt (2 ^ 32 - 1) r ltac:(lia)).
  split; [exists ((2 ^ 32 - 1) / r); lia|]. nia.
Qed.

Lemma limit_div : forall r, 1 <= r <= GMAX -> limit_of r / r = GMAX / r.
Proof. intros r H. rewrite limit_is_multiple by exact H. rewrite Z.mul_comm. apply Z.div_mul. lia. Qed.

(** * unbiasedness: the raw outputs mapped to k are exactly k + j·r for 0 <= j < limit/r *)
Lemma accept_range : forall r v k, 1 <= r -> accept r v = Some k -> 0 <= k < r.
Proof.
  intros r v k Hr H. unfold accept in H. destruct (limit_of r <=? v); [discriminate|]. inv H.
  apply Z.mod_pos_bound. lia.
Qed.

Lemma unbiased : forall r k v, 1 <= r <= GMAX -> 0 <= k < r -> 0 <= v ->
  (accept r v = Some k <-> exists j, 0 <= j < limit_of r / r /\ v = k + j * r).
Proof.
  intros r k v Hr Hk Hv. rewrite limit_div by exact Hr. unfold accept.
  rewrite limit_is_multiple by exact Hr. set (q := GMAX / r).
  split.
  - destruct (r * q <=? v) eqn:E; [discriminate|]. intro H. inv H. apply Z.leb_gt in E.
    exists (v / r). pose proof (Z.div_mod v r ltac:(lia)). pose proof (Z.mod_pos_bound v r ltac:(lia)).
    split; [|lia]. split; [apply Z.div_pos; lia|]. apply Z.div_lt_upper_bound; lia.
  - intros (j & Hj & ->). destruct (r * q <=? k + j * r) eqn:E.
    + apply Z.leb_le in E. nia.
    + f_equal. rewrite Z.mod_add by lia. apply Z.mod_small. lia.
Qed.

(** * the conversions *)
Lemma range_of_exact : forall min max, is_int min -> is_int max -> min <= max -> range_of min max = max - min.
Proof. intros min max H1 H2 H. unf. lia. Qed.

Lemma result_exact : forall v r min max, is_int min -> is_int max -> min <= max -> r = max - min + 1 ->
  result_of v r min = min + v mod r /\ min <= min + v mod r <= max.
Proof.
  intros v r min max H1 H2 H ->. pose proof (Z.mod_pos_bound v (max - min + 1) ltac:(lia)) as Hm.
  set (k := v mod (max - min + 1)) in *. unf. fold k. clearbody k. ifs; lia.
Qed.

Lemma full_range_value : forall v min, raw v -> min = INT_MIN -> to_int32 ((v + to_ulong min) mod W64) = v - 2 ^ 31.
Proof. intros v min Hv ->. unf. ifs; lia. Qed.

(** * draw_int: the first accepted raw output decides, whatever the stream *)
Lemma reject_loop_spec : forall limit vals v rest,
  reject_loop vals limit = Some (v, rest) ->
  exists rejected, vals = rejected ++ v :: rest /\ Forall (fun w => limit <= w) rejected /\ v < limit.
Proof.
  induction vals as [|w vals IH]; cbn; intros v rest H; [discriminate|].
  destruct (limit <=? w) eqn:E.
  - apply IH in H as (rej & -> & F & L). exists (w :: rej). split; [reflexivity|]. split; [|exact L].
    constructor; [now apply Z.leb_le|exact F].
  - inv H. exists []. split; [reflexivity|]. split; [constructor|now apply Z.leb_gt].
Qed.

Lemma draw_int_spec : forall vals min max x rest,
  is_int min -> is_int max -> min <= max -> max - min < GMAX ->
  draw_int vals min max = Some (x, rest) ->
  exists rejected v, vals = rejected ++ v :: rest /\
    Forall (fun w => accept (max - min + 1) w = None) rejected /\ accept (max - min + 1) v = Some (x - min).
Proof.
  intros vals min max x rest H1 H2 H Hlt D. unfold draw_int in D. rewrite range_of_exact in D by assumption.
  destruct (max - min =? GMAX) eqn:E; [apply Z.eqb_eq in E; lia|].
  destruct (reject_loop vals (limit_of (max - min + 1))) as [[v rest']|] eqn:R; [|discriminate]. inv D.
  apply reject_loop_spec in R as (rej & -> & F & L). exists rej, v. split; [reflexivity|]. split.
  - eapply Forall_impl; [|exact F]. intros w Hw. unfold accept. apply Z.leb_le in Hw. now rewrite Hw.
  - unfold accept. apply Z.leb_gt in L. rewrite L. f_equal.
    destruct (result_exact v (max - min + 1) min max H1 H2 H eq_refl) as [-> _]. lia.
Qed.

Lemma draw_int_in_range : forall vals min max x rest,
  is_int min -> is_int max -> min <= max -> Forall raw vals ->
  draw_int vals min max = Some (x, rest) -> min <= x <= max.
Proof.
  intros vals min max x rest H1 H2 H Hraw D. unfold draw_int in D. rewrite range_of_exact in D by assumption.
  destruct (max - min =? GMAX) eqn:E.
  - apply Z.eqb_eq in E. destruct vals as [|v vals]; [discriminate|]. inv D. inv Hraw.
    assert (min = INT_MIN) by (unf; lia). rewrite full_range_value by assumption. unf. lia.
  - destruct (reject_loop vals (limit_of (max - min + 1))) as [[v rest']|]; [|discriminate]. inv D.
    destruct (result_exact v (max - min + 1) min max H1 H2 H eq_refl) as [-> ?]. assumption.
Qed.

Lemma full_range_case : forall v rest, raw v ->
  draw_int (v :: rest) INT_MIN INT_MAX = Some (v - 2 ^ 31, rest).
Proof.
  intros v rest Hv. unfold draw_int.
  replace (range_of INT_MIN INT_MAX =? GMAX) with true by (vm_compute; reflexivity).
  now rewrite full_range_value.
Qed.

(* the loop ends as soon as the stream holds an acceptable value: more than half of the raw outputs are *)
Lemma draw_int_total : forall vals min max, is_int min -> is_int max -> min <= max ->
  Exists (fun v => v < limit_of (max - min + 1)) vals -> vals <> [] -> draw_int vals min max <> None.
Proof.
  intros vals min max H1 H2 H Hex Hne. unfold draw_int. rewrite range_of_exact by assumption.
  destruct (max - min =? GMAX); [destruct vals; congruence|].
  assert (R : reject_loop vals (limit_of (max - min + 1)) <> None).
  { clear Hne. induction Hex as [v vals Hv|v vals Hex IH]; cbn [reject_loop].
    - apply Z.leb_gt in Hv. rewrite Hv. discriminate.
    - destruct (limit_of (max - min + 1) <=? v); [exact IH|discriminate]. }
  destruct (reject_loop vals (limit_of (max - min + 1))) as [[v rest]|]; congruence.
Qed.

(** * uniform_real *)
Lemma numerator_range : forall vals n rest, Forall raw vals -> draw_numerator vals = Some (n, rest) -> 0 <= n < GMAX.
Proof.
  induction vals as [|v vals IH]; cbn; intros n rest F H; [discriminate|].
  match type of H with (if ?b then _ else _) = _ => destruct b eqn:E end.
  - inv F. eapply IH; eauto.
  - injection H as <- <-. apply Z.eqb_neq in E. inv F. unf. lia.
Qed.

(* min + (max - min) * numerator / divisor, exact *)
Definition real_q (mn mx : Q) (n : Z) : Q := (mn + (mx - mn) * (n # 4294967295))%Q.

Lemma real_in_range : forall mn mx n, (mn <= mx)%Q -> 0 <= n < GMAX ->
  (mn <= real_q mn mx n)%Q /\ (real_q mn mx n <= mx)%Q /\ ((mn < mx)%Q -> (real_q mn mx n < mx)%Q).
Proof.
  intros mn mx n Hle Hn. unfold real_q. set (t := (n # 4294967295)%Q).
  assert (T0 : (0 <= t)%Q) by (unfold t, Qle; cbn; lia).
  assert (T1 : (t < 1)%Q) by (unfold t, Qlt, GMAX in *; cbn; lia).
  clearbody t.
  assert (P0 : (0 <= (mx - mn) * t)%Q) by (apply Qmult_le_0_compat; lra).
  assert (P1 : (0 <= (mx - mn) * (1 - t))%Q) by (apply Qmult_le_0_compat; lra).
  split; [lra|]. split; [lra|]. intro Hlt.
  assert (P2 : (0 < (mx - mn) * (1 - t))%Q) by (apply Qmult_lt_0_compat; lra).
  lra.
Qed.
