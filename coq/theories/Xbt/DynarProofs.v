(** C50 — xbt_dynar refines a plain list: every operation of the model of dynar.cpp commutes with the abstraction
    [abs d = firstn (used d) (data d)], whatever xbt_realloc leaves in fresh cells. *)
From SGV Require Import Base.Tactics Xbt.Dynar.
From Coq Require Import Sorted Permutation.
Local Open Scope Z_scope.

Definition Inv (d : dynar) : Prop := (used d <= size d)%nat.

(** * list helpers *)
Lemma firstn_app_all : forall (A : Type) (x y : list A) n, length x = n -> firstn n (x ++ y) = x.
Proof.
  intros A x y n H. subst n. rewrite <- (Nat.add_0_r (length x)). rewrite firstn_app_2. cbn. apply app_nil_r.
Qed.
Lemma firstn_app_le : forall (A : Type) (x y : list A) n, (n <= length x)%nat -> firstn n (x ++ y) = firstn n x.
Proof.
  intros A x y n H. rewrite firstn_app. replace (n - length x)%nat with 0%nat by lia. cbn. apply app_nil_r.
Qed.
Lemma nth_firstn' : forall (l : list Z) n i d, (i < n)%nat -> nth i (firstn n l) d = nth i l d.
Proof.
  induction l as [|x r IH]; intros n i d H.
  - rewrite firstn_nil. reflexivity.
  - destruct n; [lia|]. destruct i; cbn; [reflexivity|]. apply IH. lia.
Qed.
Lemma last_nth' : forall (l : list Z) d, last l d = nth (length l - 1) l d.
Proof.
  induction l as [|x r IH]; intro d; [reflexivity|].
  destruct r as [|y r']; [reflexivity|].
  change (last (x :: y :: r') d) with (last (y :: r') d). rewrite IH. cbn [length].
  replace (S (S (length r')) - 1)%nat with (S (length (y :: r') - 1)) by (cbn [length]; lia). reflexivity.
Qed.

(** * sorting *)
Lemma ins_length : forall x l, length (ins x l) = S (length l).
Proof. induction l as [|y r IH]; cbn; [reflexivity|]. destruct (x <=? y); cbn; lia. Qed.
Lemma isort_length : forall l, length (isort l) = length l.
Proof. induction l as [|x r IH]; cbn; [reflexivity|]. rewrite ins_length. lia. Qed.
Lemma ins_perm : forall x l, Permutation (ins x l) (x :: l).
Proof.
  induction l as [|y r IH]; cbn; [apply Permutation_refl|].
  destruct (x <=? y); [apply Permutation_refl|].
  eapply perm_trans; [apply perm_skip; exact IH|apply perm_swap].
Qed.
Lemma isort_perm : forall l, Permutation (isort l) l.
Proof.
  induction l as [|x r IH]; cbn; [constructor|].
  eapply perm_trans; [apply ins_perm|apply perm_skip; exact IH].
Qed.
Lemma ins_sorted : forall x l, Sorted Z.le l -> Sorted Z.le (ins x l).
Proof.
  induction l as [|y r IH]; intro H; cbn; [repeat constructor|].
  destruct (x <=? y) eqn:E.
  - constructor; [exact H|constructor; lia].
  - inv H. constructor; [apply IH; assumption|].
    destruct r as [|z r']; cbn; [constructor; lia|].
    destruct (x <=? z); constructor; try lia. inv H3. assumption.
Qed.
Lemma isort_sorted : forall l, Sorted Z.le (isort l).
Proof. induction l as [|x r IH]; cbn; [constructor|]. apply ins_sorted. exact IH. Qed.

(** * expansion keeps the used part *)
Lemma expand_props : forall junk d nb, Inv d ->
  exists k, data (expand junk d nb) = data d ++ repeat junk k /\ used (expand junk d nb) = used d
            /\ (nb <= size (expand junk d nb))%nat.
Proof.
  intros junk d nb HI. unfold expand. destruct (Nat.ltb (size d) nb) eqn:E.
  - apply Nat.ltb_lt in E.
    set (ns := if Nat.ltb (2 * (size d + 1)) nb then nb else (2 * (size d + 1))%nat).
    assert (Hns : (nb <= ns /\ size d < ns)%nat).
    { unfold ns. destruct (Nat.ltb (2 * (size d + 1)) nb) eqn:E2; [apply Nat.ltb_lt in E2|apply Nat.ltb_ge in E2]; lia. }
    unfold resize. destruct (Nat.eqb ns (size d)) eqn:E3; [apply Nat.eqb_eq in E3; lia|].
    exists (ns - size d)%nat. cbn [data used]. unfold size in *. rewrite firstn_all2 by lia.
    repeat split. cbn [data]. rewrite app_length, repeat_length. lia.
  - apply Nat.ltb_ge in E. exists 0%nat. cbn [repeat]. rewrite app_nil_r. repeat split. exact E.
Qed.

(** * the three core operations on the raw array *)
Lemma insert_raw : forall (a : list Z) u idx v,
  (idx <= u)%nat -> (u + 1 <= length a)%nat ->
  let a' := firstn idx a ++ v :: firstn (u - idx) (skipn idx a) ++ skipn (u + 1) a in
  length a' = length a /\
  firstn (u + 1) a' = firstn idx (firstn u a) ++ v :: skipn idx (firstn u a).
Proof.
  intros a u idx v Hi Hu. cbn zeta.
  assert (L1 : length (firstn idx a) = idx) by (apply firstn_length_le; lia).
  assert (L2 : length (firstn (u - idx) (skipn idx a)) = (u - idx)%nat)
    by (apply firstn_length_le; rewrite skipn_length; lia).
  split.
  - rewrite app_length. cbn [length]. rewrite app_length, L1, L2, skipn_length. lia.
  - rewrite firstn_firstn. replace (Nat.min idx u) with idx by lia. rewrite skipn_firstn_comm.
    replace (firstn idx a ++ v :: firstn (u - idx) (skipn idx a) ++ skipn (u + 1) a)
      with ((firstn idx a ++ v :: firstn (u - idx) (skipn idx a)) ++ skipn (u + 1) a)
      by (rewrite <- app_assoc; reflexivity).
    apply firstn_app_all. rewrite app_length. cbn [length]. rewrite L1, L2. lia.
Qed.

Lemma remove_raw : forall (a : list Z) u idx,
  (idx < u)%nat -> (u <= length a)%nat ->
  let a' := firstn idx a ++ firstn (u - 1 - idx) (skipn (idx + 1) a) ++ skipn (u - 1) a in
  length a' = length a /\
  firstn (u - 1) a' = firstn idx (firstn u a) ++ skipn (S idx) (firstn u a).
Proof.
  intros a u idx Hi Hu. cbn zeta.
  assert (L1 : length (firstn idx a) = idx) by (apply firstn_length_le; lia).
  assert (L2 : length (firstn (u - 1 - idx) (skipn (idx + 1) a)) = (u - 1 - idx)%nat)
    by (apply firstn_length_le; rewrite skipn_length; lia).
  split.
  - rewrite !app_length, L1, L2, skipn_length. lia.
  - rewrite firstn_firstn. replace (Nat.min idx u) with idx by lia. rewrite skipn_firstn_comm.
    replace (idx + 1)%nat with (S idx) by lia. replace (u - 1 - idx)%nat with (u - S idx)%nat by lia.
    rewrite app_assoc. apply firstn_app_all. rewrite app_length, L1.
    replace (idx + 1)%nat with (S idx) in L2 by lia. replace (u - 1 - idx)%nat with (u - S idx)%nat in L2 by lia.
    rewrite L2. lia.
Qed.

Lemma set_raw_inside : forall (a : list Z) u idx v,
  (idx < u)%nat -> (u <= length a)%nat ->
  let a' := firstn idx a ++ v :: skipn (idx + 1) a in
  length a' = length a /\
  firstn u a' = firstn idx (firstn u a) ++ v :: skipn (S idx) (firstn u a).
Proof.
  intros a u idx v Hi Hu. cbn zeta.
  assert (L1 : length (firstn idx a) = idx) by (apply firstn_length_le; lia).
  split.
  - rewrite app_length. cbn [length]. rewrite L1, skipn_length. lia.
  - rewrite firstn_firstn. replace (Nat.min idx u) with idx by lia. rewrite skipn_firstn_comm.
    rewrite firstn_app, L1. rewrite (firstn_all2 (firstn idx a)) by lia.
    replace (u - idx)%nat with (S (u - S idx)) by lia. cbn [firstn].
    replace (idx + 1)%nat with (S idx) by lia. reflexivity.
Qed.

Lemma set_raw_beyond : forall (a : list Z) u idx v,
  (u <= idx)%nat -> (idx + 1 <= length a)%nat ->
  let a' := firstn u a ++ repeat 0 (idx - u) ++ v :: skipn (idx + 1) a in
  length a' = length a /\
  firstn (idx + 1) a' = firstn u a ++ repeat 0 (idx - u) ++ [v].
Proof.
  intros a u idx v Hi Hu. cbn zeta.
  assert (L1 : length (firstn u a) = u) by (apply firstn_length_le; lia).
  split.
  - rewrite !app_length. cbn [length]. rewrite L1, repeat_length, skipn_length. lia.
  - replace (firstn u a ++ repeat 0 (idx - u) ++ v :: skipn (idx + 1) a)
      with ((firstn u a ++ repeat 0 (idx - u) ++ [v]) ++ skipn (idx + 1) a)
      by (rewrite <- !app_assoc; reflexivity).
    apply firstn_app_all. rewrite !app_length. cbn [length]. rewrite L1, repeat_length. lia.
Qed.

Lemma abs_length : forall d, Inv d -> length (abs d) = used d.
Proof. intros d H. unfold abs. apply firstn_length_le. exact H. Qed.

Lemma insert_at_refines : forall junk d idx v, Inv d ->
  match insert_at junk d idx v with
  | Some d' => (idx <= length (abs d))%nat /\ Inv d' /\ abs d' = firstn idx (abs d) ++ v :: skipn idx (abs d)
  | None => (length (abs d) < idx)%nat
  end.
Proof.
  intros junk d idx v HI. unfold insert_at. rewrite (abs_length d HI).
  destruct (Nat.ltb (used d) idx) eqn:E; [apply Nat.ltb_lt in E; exact E|apply Nat.ltb_ge in E].
  destruct (expand_props junk d (used d + 1) HI) as (k & Hd & Hu & Hs).
  unfold size in Hs. set (a := data (expand junk d (used d + 1))) in *.
  destruct (insert_raw a (used d) idx v E Hs) as [Hl Hf]. cbn zeta in Hl, Hf.
  split; [exact E|]. split.
  - unfold Inv, size. cbn [data used]. rewrite Hl. exact Hs.
  - unfold abs at 1. cbn [data used]. rewrite Hf. unfold abs.
    replace (firstn (used d) a) with (firstn (used d) (data d)); [reflexivity|].
    rewrite Hd. symmetry. apply firstn_app_le. exact HI.
Qed.

Lemma remove_at_refines : forall d idx, Inv d ->
  match remove_at d idx with
  | Some (d', x) => (idx < length (abs d))%nat /\ Inv d' /\ abs d' = firstn idx (abs d) ++ skipn (S idx) (abs d)
                    /\ x = nth idx (abs d) 0
  | None => (length (abs d) <= idx)%nat
  end.
Proof.
  intros d idx HI. unfold remove_at. rewrite (abs_length d HI).
  destruct (Nat.ltb idx (used d)) eqn:E; [apply Nat.ltb_lt in E|apply Nat.ltb_ge in E; exact E].
  destruct (remove_raw (data d) (used d) idx E HI) as [Hl Hf]. cbn zeta in Hl, Hf.
  split; [exact E|]. split; [|split].
  - unfold Inv, size. cbn [data used]. rewrite Hl. unfold Inv, size in HI. lia.
  - unfold abs at 1. cbn [data used]. rewrite Hf. reflexivity.
  - unfold abs. symmetry. apply nth_firstn'. exact E.
Qed.

Lemma set_at_refines : forall junk d idx v, Inv d ->
  Inv (set_at junk d idx v) /\
  abs (set_at junk d idx v) =
    if Nat.ltb idx (length (abs d)) then firstn idx (abs d) ++ v :: skipn (S idx) (abs d)
    else abs d ++ repeat 0 (idx - length (abs d)) ++ [v].
Proof.
  intros junk d idx v HI. unfold set_at. rewrite (abs_length d HI).
  destruct (Nat.leb (used d) idx) eqn:E.
  - apply Nat.leb_le in E. replace (Nat.ltb idx (used d)) with false by (symmetry; apply Nat.ltb_ge; exact E).
    destruct (expand_props junk d (idx + 1) HI) as (k & Hd & Hu & Hs).
    unfold size in Hs. set (a := data (expand junk d (idx + 1))) in *.
    destruct (set_raw_beyond a (used d) idx v E Hs) as [Hl Hf]. cbn zeta in Hl, Hf. split.
    + unfold Inv, size. cbn [data used]. rewrite Hl. exact Hs.
    + unfold abs at 1. cbn [data used]. rewrite Hf. unfold abs.
      replace (firstn (used d) a) with (firstn (used d) (data d)); [reflexivity|].
      rewrite Hd. symmetry. apply firstn_app_le. exact HI.
  - apply Nat.leb_gt in E. replace (Nat.ltb idx (used d)) with true by (symmetry; apply Nat.ltb_lt; exact E).
    destruct (set_raw_inside (data d) (used d) idx v E HI) as [Hl Hf]. cbn zeta in Hl, Hf. split.
    + unfold Inv, size. cbn [data used]. rewrite Hl. exact HI.
    + unfold abs at 1. cbn [data used]. rewrite Hf. reflexivity.
Qed.

(** * the refinement theorem *)
Definition refines (c : option (dynar * list Z)) (s : option (list Z * list Z)) : Prop :=
  match c, s with
  | Some (d', r), Some (l', r') => Inv d' /\ abs d' = l' /\ r = r'
  | None, None => True
  | _, _ => False
  end.

Theorem dynar_refines_list : forall junk d o, Inv d -> refines (step junk d o) (spec_step (abs d) o).
Proof.
  intros junk d o HI. pose proof (abs_length d HI) as HL.
  destruct o as [v| | |v|i v|i|i|i v| |v| | |]; cbn [step spec_step]; unfold refines.
  - (* push *)
    pose proof (insert_at_refines junk d (used d) v HI) as H.
    destruct (insert_at junk d (used d) v) as [d'|]; [|lia].
    destruct H as (_ & H1 & H2). repeat split; [exact H1|].
    rewrite H2, <- HL, firstn_all, skipn_all. reflexivity.
  - (* pop *)
    destruct (Nat.eqb (used d) 0) eqn:E.
    + apply Nat.eqb_eq in E. destruct (abs d); [exact I|cbn [length] in HL; lia].
    + apply Nat.eqb_neq in E. pose proof (remove_at_refines d (used d - 1) HI) as H.
      destruct (remove_at d (used d - 1)) as [[d' x]|]; [|lia].
      destruct H as (_ & H1 & H2 & H3).
      destruct (abs d) as [|y r] eqn:Ea; [cbn [length] in HL; lia|]. rewrite <- Ea in *.
      repeat split; [exact H1| |].
      * rewrite H2. replace (S (used d - 1)) with (length (abs d)) by lia. rewrite skipn_all, app_nil_r.
        rewrite removelast_firstn_len. f_equal. lia.
      * rewrite H3, last_nth'. f_equal. f_equal. lia.
  - (* shift *)
    pose proof (remove_at_refines d 0 HI) as H.
    destruct (remove_at d 0) as [[d' x]|].
    + destruct H as (H0 & H1 & H2 & H3). destruct (abs d) as [|y r]; [cbn [length] in H0; lia|].
      cbn in H2, H3. subst. repeat split; assumption.
    + destruct (abs d); [exact I|cbn [length] in H; lia].
  - (* unshift *)
    pose proof (insert_at_refines junk d 0 v HI) as H.
    destruct (insert_at junk d 0 v) as [d'|]; [|lia].
    destruct H as (_ & H1 & H2). repeat split; [exact H1|]. rewrite H2. reflexivity.
  - (* insert_at *)
    pose proof (insert_at_refines junk d i v HI) as H.
    destruct (insert_at junk d i v) as [d'|].
    + destruct H as (H0 & H1 & H2). replace (Nat.leb i (length (abs d))) with true by (symmetry; apply Nat.leb_le; exact H0).
      repeat split; assumption.
    + replace (Nat.leb i (length (abs d))) with false by (symmetry; apply Nat.leb_gt; exact H). exact I.
  - (* remove_at *)
    pose proof (remove_at_refines d i HI) as H.
    destruct (remove_at d i) as [[d' x]|].
    + destruct H as (H0 & H1 & H2 & H3). replace (Nat.ltb i (length (abs d))) with true by (symmetry; apply Nat.ltb_lt; exact H0).
      repeat split; try assumption. f_equal. exact H3.
    + replace (Nat.ltb i (length (abs d))) with false by (symmetry; apply Nat.ltb_ge; exact H). exact I.
  - (* get *)
    rewrite HL. destruct (Nat.ltb i (used d)) eqn:E; [|exact I].
    apply Nat.ltb_lt in E. repeat split; [exact HI|]. f_equal. unfold abs. symmetry. apply nth_firstn'. exact E.
  - (* set_at *)
    destruct (set_at_refines junk d i v HI) as [H1 H2].
    destruct (Nat.ltb i (length (abs d))); repeat split; assumption.
  - (* length *) repeat split; [exact HI|]. rewrite HL. reflexivity.
  - (* member *) repeat split. exact HI.
  - (* sort *)
    repeat split.
    + unfold Inv, size. cbn [data used]. rewrite app_length, isort_length, skipn_length.
      unfold Inv, size in HI. rewrite firstn_length_le by exact HI. lia.
    + unfold abs at 1. cbn [data used]. apply firstn_app_all. rewrite isort_length. exact HL.
  - (* reset *) repeat split. unfold Inv. cbn [used]. lia.
  - (* enumerate *) repeat split. exact HI.
Qed.

(* whole histories: the dynar and the list stay related, stop at the same operation, give the same answers *)
Fixpoint run_c (junk : Z) (d : dynar) (ops : list op) : option (dynar * list (list Z)) :=
  match ops with
  | [] => Some (d, [])
  | o :: r => match step junk d o with
              | Some (d', res) => match run_c junk d' r with Some (d'', rs) => Some (d'', res :: rs) | None => None end
              | None => None
              end
  end.
Fixpoint run_s (l : list Z) (ops : list op) : option (list Z * list (list Z)) :=
  match ops with
  | [] => Some (l, [])
  | o :: r => match spec_step l o with
              | Some (l', res) => match run_s l' r with Some (l'', rs) => Some (l'', res :: rs) | None => None end
              | None => None
              end
  end.

Theorem dynar_history_refines : forall junk ops d, Inv d ->
  match run_c junk d ops, run_s (abs d) ops with
  | Some (d', rs), Some (l', rs') => Inv d' /\ abs d' = l' /\ rs = rs'
  | None, None => True
  | _, _ => False
  end.
Proof.
  intros junk ops. induction ops as [|o r IH]; intros d HI; cbn [run_c run_s].
  - repeat split. exact HI.
  - pose proof (dynar_refines_list junk d o HI) as H. unfold refines in H.
    destruct (step junk d o) as [[d1 res]|]; destruct (spec_step (abs d) o) as [[l1 res']|]; try contradiction; [|exact I].
    destruct H as (H1 & H2 & H3). subst l1 res'. specialize (IH d1 H1).
    destruct (run_c junk d1 r) as [[d2 rs]|]; destruct (run_s (abs d1) r) as [[l2 rs']|]; try contradiction; [|exact I].
    destruct IH as (I1 & I2 & I3). subst. repeat split. exact I1.
Qed.

Lemma empty_inv : Inv (mkD [] 0).
Proof. unfold Inv, size. cbn. lia. Qed.
