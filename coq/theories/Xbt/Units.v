(** C27 — values with units (src/xbt/xbt_parse_units.cpp).  Model only.
    [unit_scale]/[table] mirror the constructor on the generator tuples regenerated from the source (Gen/UnitsTable.v);
    [doc_units] is the hand-written specification (what the documentation promises: SI / IEC prefixes);
    [parse_with] mirrors xbt_parse_get_value_with_unit with exact rational arithmetic. *)
From SGV Require Import Base.Tactics Xbt.Strtod Gen.UnitsTable.
From Coq Require Import QArith String Ascii.
Local Open Scope Z_scope.

Fixpoint str_eqb (a b : str) : bool :=
  match a, b with
  | [], [] => true
  | x :: a', y :: b' => (x =? y) && str_eqb a' b'
  | _, _ => false
  end.

(* std::unordered_map::find on a map filled by emplace (first insertion of a key wins) *)
Fixpoint lookup (t : list (str * Q)) (u : str) : option Q :=
  match t with
  | [] => None
  | (k, v) :: r => if str_eqb k u then Some v else lookup r u
  end.

(** the constructor unit_scale::unit_scale(initializer_list<tuple<unit, value, base, abbrev>>) *)
Fixpoint emplace_prefixes (unit : str) (value mult : Q) (prefixes : list str) : list (str * Q) :=
  match prefixes with
  | [] => []
  | p :: ps => let v := Qred (value * mult) in (p ++ unit, v) :: emplace_prefixes unit v mult ps
  end.
Definition unit_scale (gens : list (str * Q * Z * bool)) : list (str * Q) :=
  flat_map (fun g => match g with (unit, value, base, abbrev) =>
              match gen_mult base with
              | Some mult => (unit, Qred value) :: emplace_prefixes unit value mult (gen_prefixes base abbrev)
              | None => []      (* THROW_IMPOSSIBLE: never with the generated tuples, see table_bases_known *)
              end end) gens.

(* kinds: 0 time, 1 size, 2 bandwidth, 3 speed *)
Definition table (k : Z) : list (str * Q) :=
  if k =? 0 then map (fun p => (fst p, Qred (snd p))) gen_pairs_time ++ unit_scale gen_tuples_time
  else if k =? 1 then map (fun p => (fst p, Qred (snd p))) gen_pairs_size ++ unit_scale gen_tuples_size
  else if k =? 2 then map (fun p => (fst p, Qred (snd p))) gen_pairs_bandwidth ++ unit_scale gen_tuples_bandwidth
  else map (fun p => (fst p, Qred (snd p))) gen_pairs_speed ++ unit_scale gen_tuples_speed.
Definition default_unit (k : Z) : str :=
  if k =? 0 then gen_default_time else if k =? 1 then gen_default_size
  else if k =? 2 then gen_default_bandwidth else gen_default_speed.

(** the specification: documented units and multipliers *)
Definition S (x : string) : str := map (fun a => Z.of_N (N_of_ascii a)) (list_ascii_of_string x).

Definition si_symbols : list (str * Q) := Eval vm_compute in
  [(S "k", inject_Z (10 ^ 3)); (S "M", inject_Z (10 ^ 6)); (S "G", inject_Z (10 ^ 9)); (S "T", inject_Z (10 ^ 12));
   (S "P", inject_Z (10 ^ 15)); (S "E", inject_Z (10 ^ 18)); (S "Z", inject_Z (10 ^ 21)); (S "Y", inject_Z (10 ^ 24))].
Definition iec_symbols : list (str * Q) := Eval vm_compute in
  [(S "Ki", inject_Z (2 ^ 10)); (S "Mi", inject_Z (2 ^ 20)); (S "Gi", inject_Z (2 ^ 30)); (S "Ti", inject_Z (2 ^ 40));
   (S "Pi", inject_Z (2 ^ 50)); (S "Ei", inject_Z (2 ^ 60)); (S "Zi", inject_Z (2 ^ 70)); (S "Yi", inject_Z (2 ^ 80))].
(* spelled-out decimal prefixes as SimGrid writes them ("zeta" with one t) *)
Definition si_names : list (str * Q) := Eval vm_compute in
  [(S "kilo", inject_Z (10 ^ 3)); (S "mega", inject_Z (10 ^ 6)); (S "giga", inject_Z (10 ^ 9));
   (S "tera", inject_Z (10 ^ 12)); (S "peta", inject_Z (10 ^ 15)); (S "exa", inject_Z (10 ^ 18));
   (S "zeta", inject_Z (10 ^ 21)); (S "yotta", inject_Z (10 ^ 24))].

Definition with_prefixes (prefixes : list (str * Q)) (base : str) (v : Q) : list (str * Q) :=
  (base, Qred v) :: map (fun p => (fst p ++ base, Qred (v * snd p))) prefixes.

Definition doc_time : list (str * Q) := Eval vm_compute in
    [(S "w", inject_Z (60 * 60 * 24 * 7)); (S "d", inject_Z (60 * 60 * 24)); (S "h", inject_Z (60 * 60));
     (S "m", inject_Z 60); (S "s", inject_Z 1);
     (S "ms", 1 # 1000); (S "us", 1 # 1000000); (S "ns", 1 # 1000000000); (S "ps", 1 # 1000000000000)].
Definition doc_size : list (str * Q) := Eval vm_compute in
    with_prefixes iec_symbols (S "b") (1 # 8) ++ with_prefixes si_symbols (S "b") (1 # 8) ++
    with_prefixes iec_symbols (S "B") 1 ++ with_prefixes si_symbols (S "B") 1.
Definition doc_bandwidth : list (str * Q) := Eval vm_compute in
    with_prefixes iec_symbols (S "bps") (1 # 8) ++ with_prefixes si_symbols (S "bps") (1 # 8) ++
    with_prefixes iec_symbols (S "Bps") 1 ++ with_prefixes si_symbols (S "Bps") 1.
Definition doc_speed : list (str * Q) := Eval vm_compute in
    with_prefixes si_symbols (S "f") 1 ++ with_prefixes si_names (S "flops") 1.
Definition doc_units (k : Z) : list (str * Q) :=
  if k =? 0 then doc_time else if k =? 1 then doc_size else if k =? 2 then doc_bandwidth else doc_speed.
Definition dflt_s : str := Eval vm_compute in S "s".
Definition dflt_B : str := Eval vm_compute in S "B".
Definition dflt_Bps : str := Eval vm_compute in S "Bps".
Definition dflt_f : str := Eval vm_compute in S "f".
Definition doc_default (k : Z) : str :=
  if k =? 0 then dflt_s else if k =? 1 then dflt_B else if k =? 2 then dflt_Bps else dflt_f.

(** xbt_parse_get_value_with_unit, exact arithmetic.  [Val v m] stands for the product v·m. *)
Inductive outcome :=
| Reject                       (* ParseError thrown *)
| Val (v m : Q)
| Inf (neg : bool)
| NaN.

Definition parse_with (t : list (str * Q)) (dflt : str) (s : str) : outcome :=
  let unit_of rest := match rest with [] => dflt | _ => rest end in
  match strtod s with
  | NumNone => Reject                                         (* "cannot parse number" *)
  | NumFin q rest =>
      if erange q then Reject                                 (* "value out of range" *)
      else match lookup t (unit_of rest) with
           | None => Reject                                   (* "unknown unit" *)
           | Some m => Val q m
           end
  | NumInf neg rest =>
      match lookup t (unit_of rest) with None => Reject | Some _ => Inf neg end
  | NumNan rest =>
      match lookup t (unit_of rest) with None => Reject | Some _ => NaN end
  end.

Definition parse_impl (k : Z) (s : str) : outcome := parse_with (table k) (default_unit k) s.
Definition parse_doc (k : Z) (s : str) : outcome := parse_with (doc_units k) (doc_default k) s.

(** decidable equivalence of two association lists as finite maps *)
Definition oq_eqb (a b : option Q) : bool :=
  match a, b with
  | None, None => true
  | Some x, Some y => (Qnum x =? Qnum y) && Pos.eqb (Qden x) (Qden y)
  | _, _ => false
  end.
Definition maps_agree_on (t1 t2 : list (str * Q)) : bool :=
  forallb (fun kv => oq_eqb (lookup t1 (fst kv)) (lookup t2 (fst kv))) t1.
Definition maps_equiv_b (t1 t2 : list (str * Q)) : bool := maps_agree_on t1 t2 && maps_agree_on t2 t1.

(** a unit string that strtod cannot take for the continuation of a decimal number *)
Definition unit_shape (u : str) : bool :=
  match u with
  | [] => true
  | c :: r =>
      negb (is_digit c) && negb (is_dot c) && negb (is_x c) && negb (is_space c) && negb (is_sign c) &&
      (if is_e c then
         match r with
         | [] => true
         | d :: r' => negb (is_digit d) &&
                      (if is_sign d then match r' with [] => true | d2 :: _ => negb (is_digit d2) end else true)
         end
       else true)
  end.

(** the oracle: judge an observation of the implementation against the specification.
    observation: ORej | OVal r | OInf neg | ONan *)
Inductive obs := ORej | OVal (r : Q) | OInf (neg : bool) | ONan.

Definition close (r x : Q) : bool :=                 (* |r - x| <= 2^-50 |x|, or <= 2^-1073 in the subnormal range *)
  Qle_bool (Qabs_ (r - x)%Q * inject_Z (2 ^ 50))%Q (Qabs_ x) ||
  Qle_bool (Qabs_ (r - x)%Q * inject_Z (2 ^ 1073))%Q 1.
Definition huge (x : Q) : bool := Qle_bool (inject_Z (2 ^ 1023)) (Qabs_ x).

Definition c27_ok (k : Z) (s : str) (o : obs) : bool :=
  match parse_doc k s, o with
  | Reject, ORej => true
  | Val v m, OVal r =>
      let x := (v * m)%Q in
      if representable v && representable m && representable x then Qeq_bool r x else close r x
  | Val v m, OInf neg => huge (v * m)%Q && Bool.eqb neg (negb (Qle_bool 0 (v * m)%Q))
  | Inf n, OInf n' => Bool.eqb n n'
  | NaN, ONan => true
  | _, _ => false
  end.

(** entry points for the extracted driver.  input: kind, then the character codes of the string *)
Definition enc_q (q : Q) : list Z := let q' := Qred q in [Qnum q'; Zpos (Qden q')].
Definition enc_outcome (o : outcome) : list Z :=
  match o with
  | Reject => [0]
  | Val v m => 1 :: enc_q (v * m)%Q ++ [if representable v && representable m && representable (v * m)%Q then 1 else 0]
  | Inf neg => [2; if neg then 1 else 0]
  | NaN => [3]
  end.
Definition run_c27_impl (inp : list Z) : list Z :=
  match inp with k :: s => enc_outcome (parse_impl k s) | [] => [-1] end.
Definition run_c27_doc (inp : list Z) : list Z :=
  match inp with k :: s => enc_outcome (parse_doc k s) | [] => [-1] end.
(* input: kind, n, n codes, then the observation: 0 | 1 m e (value m·2^e) | 2 neg | 3 *)
Definition run_c27_ok (inp : list Z) : list Z :=
  match inp with
  | k :: n :: r =>
      let '(s, o) := take_n (Z.to_nat n) r in
      match o with
      | [0] => [if c27_ok k s ORej then 1 else 0]
      | [1; m; e] => [if c27_ok k s (OVal (scale 2 m e)) then 1 else 0]
      | [2; neg] => [if c27_ok k s (OInf (neg =? 1)) then 1 else 0]
      | [3] => [if c27_ok k s ONan then 1 else 0]
      | _ => [-1]
      end
  | _ => [-1]
  end.
(* the regenerated table of a kind, as  n, then per entry: len codes num den *)
Definition run_c27_table (inp : list Z) : list Z :=
  match inp with
  | k :: _ => flat_map (fun kv => len (fst kv) :: fst kv ++ enc_q (snd kv)) (table k)
  | [] => [-1]
  end.
Definition run_c27_doctable (inp : list Z) : list Z :=
  match inp with
  | k :: _ => flat_map (fun kv => len (fst kv) :: fst kv ++ enc_q (snd kv)) (doc_units k)
  | [] => [-1]
  end.
