(** C49 — small-step concurrent model of simgrid::xbt::Parmap (src/xbt/parmap.hpp).  Model only.
    Threads: the master (caller of apply(), worker 0) and [length ws] worker threads.  Shared variables:
    common_index [ci], thread_counter [tc], work_round [wr], the data length [len].  Every step is one access to a
    shared variable (fetch_add, store, load in a wait loop) or one application of the user function; a schedule is
    any list of thread numbers (0 = master, k+1 = worker k); scheduling a thread whose wait condition is false changes
    nothing (futex / condition variable / busy waiting all reduce to "proceed only when the condition holds").
    Atomics are sequentially consistent: relaxed-memory reorderings and lost futex wake-ups are not modelled. *)
From SGV Require Import Base.Tactics.

(* worker_main: round++ ; worker_wait(round) ; work() = { fetch_add ; test/apply }* ; worker_signal *)
Inductive wpc_t := WStart | WWait | WFetch | WGot (i : nat) | WSignal.
(* apply(): common_index = 0 ; thread_counter = 1 ; work_round++ ; work() ; master_wait *)
Inductive mpc_t := MIdle | M1 | M2 | MFetch | MGot (i : nat) | MWait.

Record worker := mkW { wpc : wpc_t; wround : nat }.
Record state := mkS {
  ci : nat; tc : nat; wr : nat; len : nat;
  mpc : mpc_t; ws : list worker;
  applied : list nat;               (* indices the user function was applied to in the current apply() *)
  done : list (nat * list nat);     (* completed apply() calls, latest first: data length and applied indices *)
  todo : list nat }.                (* data lengths of the apply() calls still to come *)

Definition upd (k : nat) (w : worker) (l : list worker) : list worker := firstn k l ++ w :: skipn (S k) l.

Definition step_master (s : state) : state :=
  match mpc s with
  | MIdle =>
      match todo s with
      | [] => s
      | n :: r => mkS 0 (tc s) (wr s) n M1 (ws s) [] (done s) r          (* common_data = &data; common_index = 0 *)
      end
  | M1 => mkS (ci s) 1 (wr s) (len s) M2 (ws s) (applied s) (done s) (todo s)             (* thread_counter = 1 *)
  | M2 => mkS (ci s) (tc s) (S (wr s)) (len s) MFetch (ws s) (applied s) (done s) (todo s) (* work_round++ *)
  | MFetch => mkS (S (ci s)) (tc s) (wr s) (len s) (MGot (ci s)) (ws s) (applied s) (done s) (todo s)
  | MGot i =>
      if Nat.ltb i (len s)
      then mkS (ci s) (tc s) (wr s) (len s) MFetch (ws s) (i :: applied s) (done s) (todo s)
      else mkS (ci s) (tc s) (wr s) (len s) MWait (ws s) (applied s) (done s) (todo s)
  | MWait =>                                                   (* master_wait: thread_counter >= num_workers *)
      if Nat.leb (S (length (ws s))) (tc s)
      then mkS (ci s) (tc s) (wr s) (len s) MIdle (ws s) [] ((len s, applied s) :: done s) (todo s)
      else s
  end.

Definition step_worker (s : state) (k : nat) : state :=
  match nth_error (ws s) k with
  | None => s
  | Some w =>
      match wpc w with
      | WStart => mkS (ci s) (tc s) (wr s) (len s) (mpc s) (upd k (mkW WWait (S (wround w))) (ws s))
                      (applied s) (done s) (todo s)
      | WWait =>                                                (* worker_wait: work_round == round *)
          if Nat.eqb (wr s) (wround w)
          then mkS (ci s) (tc s) (wr s) (len s) (mpc s) (upd k (mkW WFetch (wround w)) (ws s))
                   (applied s) (done s) (todo s)
          else s
      | WFetch => mkS (S (ci s)) (tc s) (wr s) (len s) (mpc s) (upd k (mkW (WGot (ci s)) (wround w)) (ws s))
                      (applied s) (done s) (todo s)
      | WGot i =>
          if Nat.ltb i (len s)
          then mkS (ci s) (tc s) (wr s) (len s) (mpc s) (upd k (mkW WFetch (wround w)) (ws s))
                   (i :: applied s) (done s) (todo s)
          else mkS (ci s) (tc s) (wr s) (len s) (mpc s) (upd k (mkW WSignal (wround w)) (ws s))
                   (applied s) (done s) (todo s)
      | WSignal => mkS (ci s) (S (tc s)) (wr s) (len s) (mpc s) (upd k (mkW WStart (wround w)) (ws s))
                       (applied s) (done s) (todo s)             (* thread_counter++ *)
      end
  end.

Definition step (s : state) (t : nat) : state :=
  match t with O => step_master s | S k => step_worker s k end.
Definition run (sched : list nat) (s : state) : state := fold_left step sched s.

(* Parmap(num_workers, mode): num_workers - 1 threads are created, each starts worker_main with round = 0 *)
Definition init (num_workers : nat) (applies : list nat) : state :=
  mkS 0 0 0 0 MIdle (repeat (mkW WStart 0) (num_workers - 1)) [] [] applies.

(** observation of a completed apply(): how many times each element was processed *)
Definition counts (n : nat) (log : list nat) : list nat :=
  map (fun j => length (filter (Nat.eqb j) log)) (seq 0 n).
(* the oracle: every element exactly once *)
Definition each_once (cnt : list nat) : bool := forallb (Nat.eqb 1) cnt.

(** executable entry point: num_workers nrounds n1..nk sched..  (thread numbers; the schedule is followed by
    round-robin steps until every apply() has returned or the fuel is spent).
    Output: number of completed apply() calls, then for each (oldest first) n followed by the n counters. *)
Fixpoint round_robin (fuel : nat) (nthreads : nat) (t : nat) (s : state) : state :=
  match fuel with
  | O => s
  | S f =>
      match mpc s, todo s with
      | MIdle, [] => s
      | _, _ => round_robin f nthreads (if Nat.eqb (S t) nthreads then 0 else S t) (step s t)
      end
  end.

Definition run_c49 (l : list Z) : list Z :=
  match l with
  | nw :: nr :: r =>
      let '(ns, sched) := take_n (Z.to_nat nr) r in
      let applies := map Z.to_nat ns in
      let s0 := init (Z.to_nat nw) applies in
      let s1 := run (map Z.to_nat sched) s0 in
      let fuel := (Z.to_nat nw * (4 * fold_left Nat.add applies 0 + 40 * (length applies + 1) + 40))%nat in
      let s2 := round_robin fuel (Z.to_nat nw) 0 s1 in
      Z.of_nat (length (done s2)) ::
      flat_map (fun d => Z.of_nat (fst d) :: map Z.of_nat (counts (fst d) (snd d))) (rev (done s2))
  | _ => []
  end.
