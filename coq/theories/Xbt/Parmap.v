(** C49 — small-step concurrent model of simgrid::xbt::Parmap (src/xbt/parmap.hpp).  Model only.
    Threads: the master (caller of apply(), worker 0) and [length ws] worker threads.  Shared variables:
    common_index [ci], thread_counter [tc], work_round [wr], the data length [len].  Every step is one access to a
    shared variable (fetch_add, store, load in a wait loop), one application of the user function, or the return of a
    blocking wait.  A schedule is any list of events [Step t] / [Spurious t] (t = 0: master, k+1: worker k).

    Waiting (master_wait, worker_wait) is NOT an atomic await: as in the source it is
        x = load(var); while (!cond(x)) { block(var, x); x = load(var); }
    [MWait]/[WWait] is the load + test, [MBlock x]/[WBlock x] is the thread inside futex_wait(var, x) (or inside
    condition_variable::wait, or between two polls of the busy-wait loop).  [Step t] on a blocked thread makes the wait
    return only if var <> x (FUTEX_WAIT returns EAGAIN at once when the value already differs, and a FUTEX_WAKE is only
    ever issued after the variable changed); [Spurious t] makes the wait return unconditionally, at any time (EINTR
    when a signal handler ran in the thread, spurious wake-ups of condition variables, a poll of the busy-wait loop).
    What happens when the wait returns is the code under study, so it is a parameter [variant]: [as_written] goes back
    to the load + test (the `while` loops of parmap.hpp); [m_loop := false] / [w_loop := false] describe a single
    non-rechecked wait (`if (!cond) block();`), kept only to show that the theorems are sensitive to it.
    Atomics are sequentially consistent: relaxed-memory reorderings and lost futex wake-ups (liveness) are not modelled. *)
From SGV Require Import Base.Tactics.

(* worker_main: round++ ; worker_wait(round) ; work() = { fetch_add ; test/apply }* ; worker_signal *)
Inductive wpc_t := WStart | WWait | WBlock (r : nat) | WFetch | WGot (i : nat) | WSignal.
(* apply(): common_index = 0 ; thread_counter = 1 ; work_round++ ; work() ; master_wait *)
Inductive mpc_t := MIdle | M1 | M2 | MFetch | MGot (i : nat) | MWait | MBlock (c : nat).

Record worker := mkW { wpc : wpc_t; wround : nat }.
Record state := mkS {
  ci : nat; tc : nat; wr : nat; len : nat;
  mpc : mpc_t; ws : list worker;
  applied : list nat;               (* indices the user function was applied to in the current apply() *)
  done : list (nat * list nat);     (* completed apply() calls, latest first: data length and applied indices *)
  todo : list nat }.                (* data lengths of the apply() calls still to come *)

Definition upd (k : nat) (w : worker) (l : list worker) : list worker := firstn k l ++ w :: skipn (S k) l.

(* the code run when a blocking wait returns: loop back to the test (parmap.hpp) or carry on without re-checking *)
Record variant := mkV { m_loop : bool; w_loop : bool }.
Definition as_written : variant := mkV true true.

Definition set_mpc (s : state) (p : mpc_t) : state :=
  mkS (ci s) (tc s) (wr s) (len s) p (ws s) (applied s) (done s) (todo s).
(* apply() returns: what was processed so far is what the caller observes *)
Definition master_return (s : state) : state :=
  mkS (ci s) (tc s) (wr s) (len s) MIdle (ws s) [] ((len s, applied s) :: done s) (todo s).
(* futex_wait(&thread_counter, c) / done_cond.wait / yield returns in the master *)
Definition wake_master (v : variant) (s : state) : state :=
  match mpc s with
  | MBlock _ => if m_loop v then set_mpc s MWait else master_return s
  | _ => s
  end.

Definition step_master (v : variant) (s : state) : state :=
  match mpc s with
  | MIdle =>
      match todo s with
      | [] => s
      | n :: r => mkS 0 (tc s) (wr s) n M1 (ws s) [] (done s) r          (* common_data = &data; common_index = 0 *)
      end
  | M1 => mkS (ci s) 1 (wr s) (len s) M2 (ws s) (applied s) (done s) (todo s)             (* thread_counter = 1 *)
  | M2 => mkS (ci s) (tc s) (S (wr s)) (len s) MFetch (ws s) (applied s) (done s) (todo s) (* work_round++ *)
  | MFetch => mkS (S (ci s)) (tc s) (wr s) (len s) (MGot (ci s)) (ws s) (applied s) (done s) (todo s)
  | MGot i =>
      if Nat.ltb i (len s)
      then mkS (ci s) (tc s) (wr s) (len s) MFetch (ws s) (i :: applied s) (done s) (todo s)
      else mkS (ci s) (tc s) (wr s) (len s) MWait (ws s) (applied s) (done s) (todo s)
  | MWait =>                                  (* master_wait: count = thread_counter.load(); count < num_workers ? *)
      if Nat.leb (S (length (ws s))) (tc s) then master_return s else set_mpc s (MBlock (tc s))
  | MBlock c =>                                              (* inside futex_wait(&thread_counter, c) *)
      if Nat.eqb (tc s) c then s else wake_master v s
  end.

Definition set_w (s : state) (k : nat) (w : worker) : state :=
  mkS (ci s) (tc s) (wr s) (len s) (mpc s) (upd k w (ws s)) (applied s) (done s) (todo s).
(* futex_wait(&work_round, r) / ready_cond.wait / yield returns in worker k *)
Definition wake_worker (v : variant) (s : state) (k : nat) : state :=
  match nth_error (ws s) k with
  | None => s
  | Some w =>
      match wpc w with
      | WBlock _ => set_w s k (mkW (if w_loop v then WWait else WFetch) (wround w))
      | _ => s
      end
  end.

Definition step_worker (v : variant) (s : state) (k : nat) : state :=
  match nth_error (ws s) k with
  | None => s
  | Some w =>
      match wpc w with
      | WStart => mkS (ci s) (tc s) (wr s) (len s) (mpc s) (upd k (mkW WWait (S (wround w))) (ws s))
                      (applied s) (done s) (todo s)
      | WWait =>                                 (* worker_wait: round = work_round.load(); round != expected ? *)
          if Nat.eqb (wr s) (wround w)
          then mkS (ci s) (tc s) (wr s) (len s) (mpc s) (upd k (mkW WFetch (wround w)) (ws s))
                   (applied s) (done s) (todo s)
          else set_w s k (mkW (WBlock (wr s)) (wround w))
      | WBlock r =>                                             (* inside futex_wait(&work_round, r) *)
          if Nat.eqb (wr s) r then s else wake_worker v s k
      | WFetch => mkS (S (ci s)) (tc s) (wr s) (len s) (mpc s) (upd k (mkW (WGot (ci s)) (wround w)) (ws s))
                      (applied s) (done s) (todo s)
      | WGot i =>
          if Nat.ltb i (len s)
          then mkS (ci s) (tc s) (wr s) (len s) (mpc s) (upd k (mkW WFetch (wround w)) (ws s))
                   (i :: applied s) (done s) (todo s)
          else mkS (ci s) (tc s) (wr s) (len s) (mpc s) (upd k (mkW WSignal (wround w)) (ws s))
                   (applied s) (done s) (todo s)
      | WSignal => mkS (ci s) (S (tc s)) (wr s) (len s) (mpc s) (upd k (mkW WStart (wround w)) (ws s))
                       (applied s) (done s) (todo s)             (* thread_counter++ *)
      end
  end.

(* scheduler events: thread t executes its next atomic step / the blocking wait of thread t returns spuriously *)
Inductive ev := Step (t : nat) | Spurious (t : nat).
Definition step (v : variant) (s : state) (e : ev) : state :=
  match e with
  | Step O => step_master v s
  | Step (S k) => step_worker v s k
  | Spurious O => wake_master v s
  | Spurious (S k) => wake_worker v s k
  end.
Definition run_v (v : variant) (sched : list ev) (s : state) : state := fold_left (step v) sched s.
Definition run : list ev -> state -> state := run_v as_written.

(* Parmap(num_workers, mode): num_workers - 1 threads are created, each starts worker_main with round = 0 *)
Definition init (num_workers : nat) (applies : list nat) : state :=
  mkS 0 0 0 0 MIdle (repeat (mkW WStart 0) (num_workers - 1)) [] [] applies.

(** observation of a completed apply(): how many times each element was processed *)
Definition counts (n : nat) (log : list nat) : list nat :=
  map (fun j => length (filter (Nat.eqb j) log)) (seq 0 n).
(* the oracle: every element exactly once *)
Definition each_once (cnt : list nat) : bool := forallb (Nat.eqb 1) cnt.

(** executable entry point: num_workers nrounds n1..nk sched..  (t >= 0: Step t, t < 0: Spurious (-t-1); the schedule
    is followed by round-robin steps until every apply() has returned or the fuel is spent).
    Output: number of completed apply() calls, then for each (oldest first) n followed by the n counters. *)
Fixpoint round_robin (fuel : nat) (nthreads : nat) (t : nat) (s : state) : state :=
  match fuel with
  | O => s
  | S f =>
      match mpc s, todo s with
      | MIdle, [] => s
      | _, _ => round_robin f nthreads (if Nat.eqb (S t) nthreads then 0 else S t) (step as_written s (Step t))
      end
  end.

Definition ev_of_Z (z : Z) : ev := if Z.ltb z 0 then Spurious (Z.to_nat (- z - 1)) else Step (Z.to_nat z).

Definition run_c49 (l : list Z) : list Z :=
  match l with
  | nw :: nr :: r =>
      let '(ns, sched) := take_n (Z.to_nat nr) r in
      let applies := map Z.to_nat ns in
      let s0 := init (Z.to_nat nw) applies in
      let s1 := run (map ev_of_Z sched) s0 in
      let fuel := (Z.to_nat nw * (4 * fold_left Nat.add applies 0 + (40 + 6 * Z.to_nat nw) * (length applies + 1) + 40))%nat in
      let s2 := round_robin fuel (Z.to_nat nw) 0 s1 in
      Z.of_nat (length (done s2)) ::
      flat_map (fun d => Z.of_nat (fst d) :: map Z.of_nat (counts (fst d) (snd d))) (rev (done s2))
  | _ => []
  end.
