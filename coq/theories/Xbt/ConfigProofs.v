(** C48 — proofs about Xbt/Config.v *)
From SGV Require Import Base.Tactics Xbt.Strtod Xbt.Units Xbt.UnitsProofs Gen.CfgFlags Xbt.Config.
From Coq Require Import QArith.
Local Open Scope Z_scope.

Lemma seqb_eq : forall a b, Config.str_eqb a b = true <-> a = b.
Proof.
  induction a as [|x a IH]; destruct b as [|y b]; cbn; split; intro H; try congruence; try discriminate.
  - apply andb_true_iff in H as [H1 H2]. apply Z.eqb_eq in H1. apply IH in H2. congruence.
  - inv H. apply andb_true_iff; split; [apply Z.eqb_refl | apply IH; reflexivity].
Qed.
Lemma seqb_refl : forall a, Config.str_eqb a a = true.
Proof. intro a. now apply seqb_eq. Qed.
Lemma seqb_neq : forall a b, a <> b -> Config.str_eqb a b = false.
Proof. intros a b H. destruct (Config.str_eqb a b) eqn:E; [apply seqb_eq in E; congruence|reflexivity]. Qed.

(** * the table *)
Definition keeps_name (f : item -> item) : Prop := forall it, i_name (f it) = i_name it.

Lemma find_upd_same : forall its n f, keeps_name f ->
  find_item (upd_item its n f) n = option_map f (find_item its n).
Proof.
  intros its n f Hf. induction its as [|it its IH]; cbn; [reflexivity|].
  destruct (Config.str_eqb (i_name it) n) eqn:E.
  - rewrite Hf, E. reflexivity.
  - rewrite E. exact IH.
Qed.

Lemma find_upd_other : forall its n m f, keeps_name f -> m <> n ->
  find_item (upd_item its n f) m = find_item its m.
Proof.
  intros its n m f Hf Hne. induction its as [|it its IH]; cbn; [reflexivity|].
  destruct (Config.str_eqb (i_name it) n) eqn:E.
  - rewrite Hf. apply seqb_eq in E. rewrite E. rewrite (seqb_neq n m) by congruence. exact IH.
  - destruct (Config.str_eqb (i_name it) m); [reflexivity|exact IH].
Qed.

Lemma find_upd_some : forall its n m f, keeps_name f ->
  (find_item (upd_item its n f) m = None <-> find_item its m = None).
Proof.
  intros its n m f Hf. induction its as [|it its IH]; cbn; [tauto|].
  destruct (Config.str_eqb (i_name it) n); [rewrite Hf|]; destruct (Config.str_eqb (i_name it) m); try tauto;
    split; discriminate.
Qed.

Definition stored (v : value) (it : item) : item :=
  {| i_name := i_name it; i_ty := i_ty it; i_val := v; i_default := false; i_calls := i_calls it + 1 |}.

(* what a set through a string does, whatever the callback says *)
Lemma set_string_inv : forall valid c n s,
  match set_string valid c n s with
  | Ok c' | ErrInvalid c' =>
      exists r it v, resolve c n = Some r /\ find_item (c_items c) r = Some it /\ parse (i_ty it) s = Some v /\
        (valid r v = true <-> set_string valid c n s = Ok c') /\
        get c' n = Some v /\ calls c' r = calls c r + 1 /\
        (forall m, m <> r -> find_item (c_items c') m = find_item (c_items c) m) /\
        c_aliases c' = c_aliases c
  | ErrUnknown => resolve c n = None \/ exists r, resolve c n = Some r /\ find_item (c_items c) r = None
  | ErrParse => exists r it, resolve c n = Some r /\ find_item (c_items c) r = Some it /\ parse (i_ty it) s = None
  | ErrAbort _ => False
  end.
Proof.
  intros valid c n s. unfold set_string.
  destruct (resolve c n) as [r|] eqn:R; [|now left].
  destruct (find_item (c_items c) r) as [it|] eqn:F; [|right; eauto].
  destruct (parse (i_ty it) s) as [v|] eqn:P; [|eauto].
  set (f := fun it0 => {| i_name := i_name it0; i_ty := i_ty it0; i_val := v; i_default := false; i_calls := i_calls it0 + 1 |}).
  assert (Hf : keeps_name f) by (intro; reflexivity).
  set (c' := {| c_items := upd_item (c_items c) r f; c_aliases := c_aliases c |}).
  assert (Hres : resolve c' n = Some r).
  { unfold resolve in *. cbn [c_items c_aliases c'].
    destruct (find_item (c_items c) n) eqn:Fn.
    - inv R. rewrite find_upd_same, F by exact Hf. reflexivity.
    - destruct (find_item (upd_item (c_items c) r f) n) eqn:Fn'; [|exact R].
      assert (find_item (upd_item (c_items c) r f) n = None) by (apply find_upd_some; assumption). congruence. }
  assert (Hall : exists r0 it0 v0, Some r = Some r0 /\ find_item (c_items c) r0 = Some it0 /\ parse (i_ty it0) s = Some v0 /\
            (valid r0 v0 = true <-> (if valid r v then Ok c' else ErrInvalid c') = Ok c') /\
            get c' n = Some v0 /\ calls c' r0 = calls c r0 + 1 /\
            (forall m, m <> r0 -> find_item (c_items c') m = find_item (c_items c) m) /\ c_aliases c' = c_aliases c).
  { exists r, it, v. repeat split; try reflexivity; try assumption.
    - intro H. now rewrite H.
    - destruct (valid r v); [reflexivity|discriminate].
    - unfold get. rewrite Hres. cbn [c_items c']. rewrite find_upd_same, F by exact Hf. reflexivity.
    - unfold calls. cbn [c_items c']. rewrite find_upd_same, F by exact Hf. reflexivity.
    - intros m Hm. cbn [c_items c']. now apply find_upd_other. }
  destruct (valid r v); exact Hall.
Qed.

Lemma set_get : forall valid c n s c', set_string valid c n s = Ok c' ->
  exists r it v, resolve c n = Some r /\ find_item (c_items c) r = Some it /\ parse (i_ty it) s = Some v /\
    valid r v = true /\ get c' n = Some v /\ calls c' r = calls c r + 1 /\
    (forall m, m <> r -> find_item (c_items c') m = find_item (c_items c) m) /\ c_aliases c' = c_aliases c.
Proof.
  intros valid c n s c' H. pose proof (set_string_inv valid c n s) as I. rewrite H in I.
  destruct I as (r & it & v & H1 & H2 & H3 & H4 & H5 & H6 & H7 & H8).
  exists r, it, v. repeat split; try assumption. now apply H4.
Qed.

Lemma set_succeeds : forall valid c n s r it v,
  resolve c n = Some r -> find_item (c_items c) r = Some it -> parse (i_ty it) s = Some v -> valid r v = true ->
  exists c', set_string valid c n s = Ok c' /\ get c' n = Some v.
Proof.
  intros valid c n s r it v R F P V. pose proof (set_string_inv valid c n s) as I.
  unfold set_string in *. rewrite R, F, P, V in *.
  destruct I as (r' & it' & v' & H1 & H2 & H3 & _ & H5 & _). eexists. split; [reflexivity|]. congruence.
Qed.

Lemma callback_runs_once_even_when_it_rejects : forall valid c n s c', set_string valid c n s = ErrInvalid c' ->
  exists r it v, resolve c n = Some r /\ find_item (c_items c) r = Some it /\ parse (i_ty it) s = Some v /\
    valid r v = false /\ calls c' r = calls c r + 1 /\
    (forall m, m <> r -> find_item (c_items c') m = find_item (c_items c) m).
Proof.
  intros valid c n s c' H. pose proof (set_string_inv valid c n s) as I. rewrite H in I.
  destruct I as (r & it & v & H1 & H2 & H3 & H4 & H5 & H6 & H7 & H8).
  exists r, it, v. repeat split; try assumption.
  destruct (valid r v) eqn:V; [|reflexivity]. destruct H4 as [H4 _]. specialize (H4 eq_refl). discriminate.
Qed.

Lemma reject_unparsable : forall valid c n s r it,
  resolve c n = Some r -> find_item (c_items c) r = Some it -> parse (i_ty it) s = None ->
  set_string valid c n s = ErrParse.
Proof. intros valid c n s r it R F P. unfold set_string. now rewrite R, F, P. Qed.

Lemma unknown_name : forall valid c n s,
  find_item (c_items c) n = None -> find_alias (c_aliases c) n = None -> set_string valid c n s = ErrUnknown.
Proof. intros valid c n s F A. unfold set_string, resolve. now rewrite F, A. Qed.

Lemma alias_same : forall valid c a r it s,
  find_item (c_items c) a = None -> find_alias (c_aliases c) a = Some r -> find_item (c_items c) r = Some it ->
  set_string valid c a s = set_string valid c r s.
Proof. intros valid c a r it s Fa A Fr. unfold set_string, resolve. rewrite Fa, A, Fr. cbv beta iota. rewrite Fr. reflexivity. Qed.

(** * the registered table (regenerated from the built library) *)
Definition reg_cfg : cfg :=
  {| c_items := map (fun p => {| i_name := fst p; i_ty := ty_of_code (snd p); i_val := VInt 0; i_default := true; i_calls := 1 |}) cfg_items;
     c_aliases := cfg_aliases |}.
Fixpoint nodup_b (l : list str) : bool :=
  match l with [] => true | x :: r => negb (existsb (Config.str_eqb x) r) && nodup_b r end.
Definition reg_ok : bool :=
  nodup_b (map fst cfg_items ++ map fst cfg_aliases) &&
  forallb (fun ar => existsb (fun p => Config.str_eqb (fst p) (snd ar)) cfg_items) cfg_aliases &&
  forallb (fun ar => match resolve reg_cfg (fst ar) with Some r => Config.str_eqb r (snd ar) | None => false end) cfg_aliases &&
  forallb (fun p => match resolve reg_cfg (fst p) with Some r => Config.str_eqb r (fst p) | None => false end) cfg_items.

Lemma registered_names_resolve :
  (forall n t, In (n, t) cfg_items -> resolve reg_cfg n = Some n) /\
  (forall a r, In (a, r) cfg_aliases -> resolve reg_cfg a = Some r /\ exists t, In (r, t) cfg_items).
Proof.
  assert (H : reg_ok = true) by (vm_compute; reflexivity).
  unfold reg_ok in H. apply andb_true_iff in H as [H Hi]. apply andb_true_iff in H as [H Ha].
  apply andb_true_iff in H as [Hn Ht].
  rewrite forallb_forall in Hi, Ha, Ht. split.
  - intros n t Hin. specialize (Hi _ Hin). cbn [fst] in Hi. destruct (resolve reg_cfg n); [|discriminate].
    apply seqb_eq in Hi. now rewrite Hi.
  - intros a r Hin. split.
    + specialize (Ha _ Hin). cbn [fst snd] in Ha. destruct (resolve reg_cfg a); [|discriminate].
      apply seqb_eq in Ha. now rewrite Ha.
    + specialize (Ht _ Hin). cbn [snd] in Ht. apply existsb_exists in Ht as ([n t] & Hin' & E).
      cbn [fst] in E. apply seqb_eq in E. subst. eauto.
Qed.

(** * the parsers *)
Lemma parse_bool_spec : forall s b,
  parse_bool s = Some b <->
  (if b then In (map lower s) true_lits else In (map lower s) false_lits /\ ~ In (map lower s) true_lits).
Proof.
  intros s b. unfold parse_bool. set (l := map lower s).
  assert (Hex : forall L, existsb (Config.str_eqb l) L = true <-> In l L).
  { intro L. rewrite existsb_exists. split.
    - intros (x & Hin & E). apply seqb_eq in E. now subst.
    - intro Hin. exists l. split; [exact Hin|apply seqb_refl]. }
  destruct (existsb (Config.str_eqb l) true_lits) eqn:Et.
  - apply Hex in Et. destruct b; split; intro H; try tauto; try congruence; try (destruct H; contradiction).
  - assert (~ In l true_lits) by (intro X; apply Hex in X; congruence).
    destruct (existsb (Config.str_eqb l) false_lits) eqn:Ef.
    + apply Hex in Ef. destruct b; split; intro H'; try tauto; try congruence.
    + assert (~ In l false_lits) by (intro X; apply Hex in X; congruence).
      destruct b; split; intro H'; try discriminate; tauto.
Qed.

(* decimal integers: [spaces][sign]d1 d2 … with d1 <> '0' *)
Lemma strtol_digits_dec : forall ds g, all is_digit ds -> ds <> [] -> hd 0 ds <> 48 -> hd_not is_digit g ->
  strtol_digits (ds ++ g) = (Some (digits_val ds), g).
Proof.
  intros ds g Hd Hne Hz Hg. destruct ds as [|d ds]; [congruence|]. cbn [hd] in Hz.
  assert (E : (d =? 48) = false) by (apply Z.eqb_neq; exact Hz).
  assert (S : span is_digit ((d :: ds) ++ g) = (d :: ds, g)) by (apply span_app; assumption).
  unfold strtol_digits.
  destruct ((d :: ds) ++ g) as [|z [|x [|h r]]] eqn:L; cbn [app] in L; try discriminate;
    injection L as <- L'; rewrite ?E, ?andb_false_l; rewrite S; reflexivity.
Qed.

Definition int_text (sp : str) (sg : option bool) (ds : str) : str := sp ++ sign_str sg ++ ds.
Definition int_val (sg : option bool) (ds : str) : Z := if is_neg sg then - digits_val ds else digits_val ds.

Lemma parse_long_dec : forall sp sg ds g,
  all is_space sp -> all is_digit ds -> ds <> [] -> hd 0 ds <> 48 -> hd_not is_digit g ->
  parse_long (int_text sp sg ds ++ g) =
  if (int_val sg ds <? LONG_MIN) || (LONG_MAX <? int_val sg ds) then None
  else match g with [] => Some (int_val sg ds) | _ => None end.
Proof.
  intros sp sg ds g Hsp Hd Hne Hz Hg. unfold parse_long, int_text.
  destruct ds as [|d ds']; [congruence|].
  assert (Hd0 : is_digit d = true) by (unfold all in Hd; cbn in Hd; now apply andb_true_iff in Hd as [? _]).
  pose proof (digit_not _ Hd0) as (D1 & D2 & _).
  replace ((sp ++ sign_str sg ++ d :: ds') ++ g) with (sp ++ (sign_str sg ++ (d :: ds') ++ g))
    by (now rewrite <- !app_assoc).
  rewrite skip_spaces_app; [|exact Hsp|destruct sg as [[|]|]; cbn; auto].
  rewrite split_sign_str by (cbn; exact D2).
  rewrite strtol_digits_dec by assumption. reflexivity.
Qed.

Lemma parse_int_dec : forall sp sg ds,
  all is_space sp -> all is_digit ds -> ds <> [] -> hd 0 ds <> 48 ->
  parse_int (int_text sp sg ds) =
  if (int_val sg ds <? INT_MIN) || (INT_MAX <? int_val sg ds) then None else Some (int_val sg ds).
Proof.
  intros sp sg ds Hsp Hd Hne Hz. unfold parse_int.
  rewrite <- (app_nil_r (int_text sp sg ds)). rewrite parse_long_dec by (cbn; auto).
  unfold LONG_MIN, LONG_MAX, INT_MIN, INT_MAX.
  change (2 ^ 63) with 9223372036854775808. change (2 ^ 31) with 2147483648.
  destruct ((int_val sg ds <? - (9223372036854775808)) || (9223372036854775808 - 1 <? int_val sg ds)) eqn:E1;
    destruct ((int_val sg ds <? - (2147483648)) || (2147483648 - 1 <? int_val sg ds)) eqn:E2; try reflexivity; lia.
Qed.

Lemma parse_int_trailing_rejected : forall sp sg ds g,
  all is_space sp -> all is_digit ds -> ds <> [] -> hd 0 ds <> 48 -> hd_not is_digit g -> g <> [] ->
  parse_int (int_text sp sg ds ++ g) = None.
Proof.
  intros sp sg ds g Hsp Hd Hne Hz Hg Hgn. unfold parse_int. rewrite parse_long_dec by assumption.
  destruct ((int_val sg ds <? LONG_MIN) || (LONG_MAX <? int_val sg ds)); [reflexivity|].
  destruct g; [congruence|reflexivity].
Qed.

(* decimal reals: the number grammar of C27, fully consumed *)
Lemma parse_double_dec : forall d, wf d ->
  parse_double (render d) = if erange (dvalue d) then None else Some (DFin (dvalue d)).
Proof.
  intros d Hwf. unfold parse_double. rewrite <- (app_nil_r (render d)). rewrite strtod_render by auto.
  destruct (erange (dvalue d)); reflexivity.
Qed.

Lemma parse_double_trailing_rejected : forall d u, wf d -> unit_shape u = true -> u <> [] ->
  parse_double (render d ++ u) = None.
Proof.
  intros d u Hwf Hu Hne. unfold parse_double. rewrite strtod_render by auto.
  destruct (erange (dvalue d)); [reflexivity|]. destruct u; [congruence|reflexivity].
Qed.
