(** C50 — model of src/xbt/dict.cpp + dict_cursor.c (xbt_dict: chained hash table, table of 2^p cells indexed by
    hash_code & table_size, doubled by xbt_dict_rehash when more than 80% of the cells are in use).
    Model only; proofs in DictProofs.v.  The key type, its equality test and the hash function are Section variables:
    the refinement theorems hold for ANY hash function.  Values are Z (the driver stores integers).
    An element is (key, value); its cached hash_code is [hash key] (set once at creation in xbt_dictelm_new). *)
From SGV Require Import Base.Tactics.
Local Open Scope Z_scope.

Section Dict.
Variable K : Type.
Variable keqb : K -> K -> bool.   (* hash_code == && key_len == && !memcmp *)
Variable hash : K -> Z.           (* xbt_str_hash_ext, an unsigned int *)

Definition bucket := list (K * Z).
(* count = number of elements, fill = number of non-empty cells; table_size of the C struct = length table - 1 *)
Record dict := mkDict { table : list bucket; count : Z; fill : Z }.
Definition tsize (d : dict) : Z := Z.of_nat (length (table d)).

(* hash_code & dict->table_size *)
Definition cell (sz : Z) (k : K) : nat := Z.to_nat (Z.land (hash k) (sz - 1)).

Fixpoint bfind (k : K) (b : bucket) : option Z :=
  match b with [] => None | (k', v) :: r => if keqb k k' then Some v else bfind k r end.
Fixpoint breplace (k : K) (v : Z) (b : bucket) : bucket :=
  match b with
  | [] => []
  | (k', v') :: r => if keqb k k' then (k', v) :: r else (k', v') :: breplace k v r
  end.
Fixpoint bremove (k : K) (b : bucket) : bucket :=
  match b with [] => [] | (k', v') :: r => if keqb k k' then r else (k', v') :: bremove k r end.
Fixpoint upd (i : nat) (b : bucket) (t : list bucket) : list bucket :=
  match t, i with
  | [], _ => []
  | _ :: r, O => b :: r
  | x :: r, S j => x :: upd j b r
  end.

(** xbt_dict_new_homogeneous: 128 cells *)
Definition empty : dict := mkDict (repeat [] 128) 0 0.

(** xbt_dict_rehash: cell i of the old table is split between cell i (elements with hash & newmask = i, order kept)
    and cell i + oldsize (the others, each pushed at the head of the twin cell: order reversed);
    fill++ when a twin cell becomes used, fill-- when a cell is emptied *)
Definition stays (newmask i : Z) (e : K * Z) : bool := Z.land (hash (fst e)) newmask =? i.
Definition moves (newmask i : Z) (e : K * Z) : bool := negb (stays newmask i e).
Fixpoint stay_cells (newmask i : Z) (t : list bucket) : list bucket :=
  match t with [] => [] | b :: r => filter (stays newmask i) b :: stay_cells newmask (i + 1) r end.
Fixpoint twin_cells (newmask i : Z) (t : list bucket) : list bucket :=
  match t with [] => [] | b :: r => rev (filter (moves newmask i) b) :: twin_cells newmask (i + 1) r end.
Definition nonempty (b : bucket) : bool := match b with [] => false | _ => true end.
Fixpoint fill_delta (newmask i : Z) (t : list bucket) : Z :=
  match t with
  | [] => 0
  | b :: r =>
      (if nonempty b then
         (if nonempty (filter (moves newmask i) b) then 1 else 0) - (if nonempty (filter (stays newmask i) b) then 0 else 1)
       else 0) + fill_delta newmask (i + 1) r
  end.
Definition rehash (d : dict) : dict :=
  let newmask := 2 * tsize d - 1 in
  mkDict (stay_cells newmask 0 (table d) ++ twin_cells newmask 0 (table d)) (count d)
         (fill d + fill_delta newmask 0 (table d)).

(** xbt_dict_set_ext *)
Definition set (d : dict) (k : K) (v : Z) : dict :=
  let i := cell (tsize d) k in
  let b := nth i (table d) [] in
  match bfind k b with
  | Some _ => mkDict (upd i (breplace k v b) (table d)) (count d) (fill d)
  | None =>
      match b with
      | [] =>
          let d1 := mkDict (upd i [(k, v)] (table d)) (count d + 1) (fill d + 1) in
          if (fill d1 * 100) / tsize d1 >? 80 then rehash d1 else d1
      | _ => mkDict (upd i (b ++ [(k, v)]) (table d)) (count d + 1) (fill d)
      end
  end.

(** xbt_dict_get_or_null_ext *)
Definition get (d : dict) (k : K) : option Z := bfind k (nth (cell (tsize d) k) (table d) []).

(** xbt_dict_remove_ext; None = std::out_of_range("key not found") *)
Definition remove (d : dict) (k : K) : option dict :=
  let i := cell (tsize d) k in
  let b := nth i (table d) [] in
  match bfind k b with
  | None => None
  | Some _ =>
      let b' := bremove k b in
      Some (mkDict (upd i b' (table d)) (count d - 1) (fill d - (if nonempty b' then 0 else 1)))
  end.

(** xbt_dict_foreach (cursor_first / cursor_step / cursor_get_or_free): line by line, each chain from its head *)
Definition enumerate (d : dict) : list (K * Z) := concat (table d).
End Dict.

(** instance run by the correspondence: keys = byte strings, djb2 hash on 32 bits (include/xbt/str.h) *)
Fixpoint leqb (a b : list Z) : bool :=
  match a, b with
  | [], [] => true
  | x :: a', y :: b' => (x =? y) && leqb a' b'
  | _, _ => false
  end.
Definition djb2 (s : list Z) : Z := fold_left (fun h c => (h * 33 + c) mod 2 ^ 32) s 5381.

Definition sdict := dict (list Z).
Definition sset := set (list Z) leqb djb2.
Definition sget := get (list Z) leqb djb2.
Definition sremove := remove (list Z) leqb djb2.

(** executable entry point.  Input: (code keylen key.. value)* with codes 0 set, 1 get, 2 remove, 3 length,
    4 enumerate.  Output per op: set -> nothing; get -> 1 v | 0; remove -> 1 | 0 (key not found: exception, the
    dict is unchanged); length -> count; enumerate -> n then n times (keylen key.. value), in table order
    (the check sorts both sides). *)
Fixpoint flat_bindings (l : list (list Z * Z)) : list Z :=
  match l with [] => [] | (k, v) :: r => (Z.of_nat (length k) :: k) ++ v :: flat_bindings r end.

Fixpoint run_dict (fuel : nat) (d : sdict) (l : list Z) : list Z :=
  match fuel with
  | O => []
  | S f =>
      match l with
      | code :: klen :: r =>
          let '(k, r1) := take_n (Z.to_nat klen) r in
          match r1 with
          | v :: r2 =>
              if code =? 0 then run_dict f (sset d k v) r2
              else if code =? 1 then
                match sget d k with Some x => 1 :: x :: run_dict f d r2 | None => 0 :: run_dict f d r2 end
              else if code =? 2 then
                match sremove d k with Some d' => 1 :: run_dict f d' r2 | None => 0 :: run_dict f d r2 end
              else if code =? 3 then count _ d :: run_dict f d r2
              else (Z.of_nat (length (enumerate _ d)) :: flat_bindings (enumerate _ d)) ++ run_dict f d r2
          | [] => []
          end
      | _ => []
      end
  end.
Definition run_c50_dict (l : list Z) : list Z := run_dict (length l) (empty (list Z)) l.
