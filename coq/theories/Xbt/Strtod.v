(** The prefix of a string that C's strtod converts (glibc, "C" locale), with the exact rational value.
    Strings are lists of character codes.  Model only (no proofs here).
    Modelled: leading isspace characters, optional sign, decimal significand with optional '.', optional decimal
    exponent (only consumed when at least one digit follows), hexadecimal floats 0x…[p±d], inf / infinity / nan /
    nan(n-char-seq) case-insensitively.  The value is exact (Q); binary64 rounding is NOT part of this model. *)
From SGV Require Import Base.Tactics.
From Coq Require Import QArith.
Local Open Scope Z_scope.

Definition str := list Z.

Definition is_digit (c : Z) : bool := (48 <=? c) && (c <=? 57).
Definition is_space (c : Z) : bool := (c =? 32) || ((9 <=? c) && (c <=? 13)).
Definition is_sign (c : Z) : bool := (c =? 43) || (c =? 45).
Definition is_e (c : Z) : bool := (c =? 101) || (c =? 69).
Definition is_x (c : Z) : bool := (c =? 120) || (c =? 88).
Definition is_p (c : Z) : bool := (c =? 112) || (c =? 80).
Definition is_dot (c : Z) : bool := c =? 46.
Definition lower (c : Z) : Z := if (65 <=? c) && (c <=? 90) then c + 32 else c.
Definition is_hex (c : Z) : bool := is_digit c || ((97 <=? lower c) && (lower c <=? 102)).
Definition hex_val (c : Z) : Z := if is_digit c then c - 48 else lower c - 87.
Definition is_nchar (c : Z) : bool := is_digit c || ((97 <=? lower c) && (lower c <=? 122)) || (c =? 95).

Fixpoint skip_spaces (s : str) : str :=
  match s with c :: r => if is_space c then skip_spaces r else s | [] => [] end.

(* longest prefix of characters satisfying p, and the rest *)
Fixpoint span (p : Z -> bool) (s : str) : str * str :=
  match s with
  | c :: r => if p c then let '(a, b) := span p r in (c :: a, b) else ([], s)
  | [] => ([], [])
  end.

Definition digits_val (ds : str) : Z := fold_left (fun acc c => acc * 10 + (c - 48)) ds 0.
Definition hex_digits_val (ds : str) : Z := fold_left (fun acc c => acc * 16 + hex_val c) ds 0.
Definition len (s : str) : Z := Z.of_nat (length s).

(* m * b^e as an exact rational *)
Definition scale (b m e : Z) : Q :=
  if 0 <=? e then inject_Z (m * b ^ e) else Qred (m # Z.to_pos (b ^ (- e))).

Definition split_sign (s : str) : bool * str :=
  match s with c :: r => if is_sign c then (c =? 45, r) else (false, s) | [] => (false, s) end.

(* optional exponent introduced by a character satisfying [intro]; consumed only when a digit follows *)
Definition parse_exp (intro : Z -> bool) (s : str) : Z * str :=
  match s with
  | c :: r =>
      if intro c then
        let '(neg, r1) := split_sign r in
        let '(ds, r2) := span is_digit r1 in
        match ds with
        | [] => (0, s)
        | _ => ((if neg then - digits_val ds else digits_val ds), r2)
        end
      else (0, s)
  | [] => (0, s)
  end.

(* significand: integer part, optional '.', fraction part *)
Definition parse_signif (p : Z -> bool) (s : str) : str * str * str :=
  let '(ip, r1) := span p s in
  match r1 with
  | c :: r => if is_dot c then let '(fp, r2) := span p r in (ip, fp, r2) else (ip, [], r1)
  | [] => (ip, [], r1)
  end.

(* decimal: mantissa, decimal exponent, rest *)
Definition parse_dec (s : str) : option (Z * Z * str) :=
  let '(ip, fp, r2) := parse_signif is_digit s in
  match ip ++ fp with
  | [] => None
  | ds => let '(e, r3) := parse_exp is_e r2 in Some (digits_val ds, e - len fp, r3)
  end.

(* hexadecimal, after the "0x": mantissa, binary exponent, rest *)
Definition parse_hex (s : str) : option (Z * Z * str) :=
  let '(ip, fp, r2) := parse_signif is_hex s in
  match ip ++ fp with
  | [] => None
  | ds => let '(e, r3) := parse_exp is_p r2 in Some (hex_digits_val ds, e - 4 * len fp, r3)
  end.

Definition try_hex (s : str) : option (Z * Z * str) :=
  match s with
  | z :: x :: r => if (z =? 48) && is_x x then parse_hex r else None
  | _ => None
  end.

(* case-insensitive literal prefix *)
Fixpoint strip_ci (lit s : str) : option str :=
  match lit with
  | [] => Some s
  | l :: lit' => match s with c :: r => if lower c =? l then strip_ci lit' r else None | [] => None end
  end.

Inductive num :=
| NumNone
| NumFin (q : Q) (rest : str)
| NumInf (neg : bool) (rest : str)
| NumNan (rest : str).

Definition parse_special (neg : bool) (s : str) : num :=
  match strip_ci [105; 110; 102] s with          (* inf *)
  | Some r => match strip_ci [105; 110; 105; 116; 121] r with   (* inity *)
              | Some r' => NumInf neg r'
              | None => NumInf neg r
              end
  | None =>
    match strip_ci [110; 97; 110] s with          (* nan *)
    | Some r =>
        match r with
        | c :: r1 => if c =? 40 then
                       let '(_, r2) := span is_nchar r1 in
                       match r2 with
                       | c2 :: r3 => if c2 =? 41 then NumNan r3 else NumNan r
                       | [] => NumNan r
                       end
                     else NumNan r
        | [] => NumNan r
        end
    | None => NumNone
    end
  end.

Definition apply_sign (neg : bool) (q : Q) : Q := if neg then Qopp q else q.

Definition strtod (s : str) : num :=
  let s1 := skip_spaces s in
  let '(neg, s2) := split_sign s1 in
  match try_hex s2 with
  | Some (m, e, rest) => NumFin (apply_sign neg (scale 2 m e)) rest
  | None =>
    match parse_dec s2 with
    | Some (m, e, rest) => NumFin (apply_sign neg (scale 10 m e)) rest
    | None => parse_special neg s2
    end
  end.

(** binary64 facts used for errno == ERANGE and for the exactness rule of the oracle *)
Fixpoint odd_part (p : positive) : positive := match p with xO p' => odd_part p' | _ => p end.
Fixpoint v2 (p : positive) : Z := match p with xO p' => 1 + v2 p' | _ => 0 end.

(* q is exactly a binary64 number (normal or subnormal) *)
Definition representable (q : Q) : bool :=
  let q' := Qred q in
  match Qnum q' with
  | Z0 => true
  | Zpos n | Zneg n =>
      let d := Qden q' in
      let e := v2 n - v2 d in
      let m := Zpos (odd_part n) in
      (Pos.eqb (odd_part d) 1) && (m <? 2 ^ 53) && (-1074 <=? e) && (e + Z.log2 m <=? 1023)
  end.

Definition Qabs_ (q : Q) : Q := if Qle_bool 0 q then q else Qopp q.
Definition dbl_overflow : Q := inject_Z (2 ^ 1024 - 2 ^ 970).       (* rounds to +inf from here on *)
Definition dbl_min_normal : Q := 1 # Z.to_pos (2 ^ 1022).
(* strtod sets errno = ERANGE: overflow, or a tiny result that is not exact *)
Definition erange (q : Q) : bool :=
  let a := Qabs_ q in
  Qle_bool dbl_overflow a || (negb (Qle_bool dbl_min_normal a) && negb (representable q)).
