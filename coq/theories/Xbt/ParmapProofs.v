(** C49 — every apply() of the Parmap model processes each element exactly once, under every schedule. *)
From SGV Require Import Base.Tactics Xbt.Parmap.
From Coq Require Import Permutation.

Definition hold_w (w : worker) : list nat := match wpc w with WGot i => [i] | _ => [] end.
Definition hold_m (p : mpc_t) : list nat := match p with MGot i => [i] | _ => [] end.
Definition holders (s : state) : list nat := hold_m (mpc s) ++ flat_map hold_w (ws s).

(* the worker finished round R (or, for R = 0, has just been created) and waits for round R+1 *)
Definition idle_b (R : nat) (w : worker) : bool :=
  match wpc w with WStart => Nat.eqb (wround w) R | WWait | WBlock _ => Nat.eqb (wround w) (S R) | _ => false end.
Definition idle_at (R : nat) (w : worker) : Prop := idle_b R w = true.
Definition working_at (R : nat) (w : worker) : Prop :=
  wround w = R /\ match wpc w with WFetch | WGot _ | WSignal => True | _ => False end.
(* during round R: not started yet / inside work() or about to signal / signalled *)
Definition PB (R : nat) (w : worker) : Prop :=
  (exists R0, R = S R0 /\ idle_at R0 w) \/ working_at R w \/ idle_at R w.
Definition cnt (R : nat) (l : list worker) : nat := length (filter (idle_b R) l).
Definition below (n : nat) (i : nat) : bool := Nat.ltb i n.
(* the master is inside master_wait() (testing the counter or blocked) *)
Definition waiting_b (p : mpc_t) : bool := match p with MWait | MBlock _ => true | _ => false end.
(* the worker is inside worker_wait() *)
Definition wb (p : wpc_t) : bool := match p with WWait | WBlock _ => true | _ => false end.

Definition PhaseB (s : state) : Prop :=
  Forall (PB (wr s)) (ws s) /\ tc s = S (cnt (wr s) (ws s))
  /\ Permutation (applied s ++ filter (below (len s)) (holders s)) (seq 0 (Nat.min (ci s) (len s)))
  /\ (forall i, mpc s = MGot i -> i < ci s) /\ (waiting_b (mpc s) = true -> len s <= ci s).

Definition done_ok (s : state) : Prop := Forall (fun d => Permutation (snd d) (seq 0 (fst d))) (done s).

Definition Inv (s : state) : Prop :=
  done_ok s /\
  match mpc s with
  | MIdle => Forall (idle_at (wr s)) (ws s)
  | M1 => Forall (idle_at (wr s)) (ws s) /\ ci s = 0 /\ applied s = []
  | M2 => Forall (idle_at (wr s)) (ws s) /\ ci s = 0 /\ applied s = [] /\ tc s = 1
  | _ => PhaseB s
  end.

(** * list surgery *)
Lemma upd_decomp : forall (l : list worker) k w, nth_error l k = Some w ->
  exists l1 l2, l = l1 ++ w :: l2 /\ forall w', upd k w' l = l1 ++ w' :: l2.
Proof.
  intros l k w H. apply nth_error_split in H. destruct H as (l1 & l2 & -> & Hk). exists l1, l2. split; [reflexivity|].
  intro w'. unfold upd. subst k.
  rewrite firstn_app, firstn_all, Nat.sub_diag. cbn [firstn]. rewrite app_nil_r.
  replace (S (length l1)) with (length (l1 ++ [w])) by (rewrite app_length; cbn; lia).
  replace (l1 ++ w :: l2) with ((l1 ++ [w]) ++ l2) by (rewrite <- app_assoc; reflexivity).
  rewrite skipn_app, skipn_all, Nat.sub_diag. reflexivity.
Qed.

Lemma idle_hold : forall R w, idle_at R w -> hold_w w = [].
Proof. intros R w H. unfold idle_at, idle_b in H. unfold hold_w. destruct (wpc w); try discriminate; reflexivity. Qed.
Lemma all_idle_hold : forall R l, Forall (idle_at R) l -> flat_map hold_w l = [].
Proof.
  intros R l H. induction H as [|w r Hw Hr IH]; [reflexivity|]. cbn. rewrite (idle_hold R w Hw), IH. reflexivity.
Qed.
Lemma filter_length_le : forall (f : worker -> bool) l, length (filter f l) <= length l.
Proof. intros f l. induction l as [|x r IH]; cbn; [lia|]. destruct (f x); cbn; lia. Qed.
Lemma cnt_all : forall R l, cnt R l = length l -> Forall (idle_at R) l.
Proof.
  intros R l. unfold cnt. induction l as [|w r IH]; intro H; [constructor|]. cbn in H.
  pose proof (filter_length_le (idle_b R) r) as Hle.
  destruct (idle_b R w) eqn:E; cbn in H; [|lia]. constructor; [exact E|]. apply IH. lia.
Qed.
Lemma idle_prev_not_now : forall R w, idle_at R w -> idle_b (S R) w = false.
Proof.
  intros R w H. unfold idle_at, idle_b in *. destruct (wpc w); try reflexivity.
  - apply Nat.eqb_eq in H. apply Nat.eqb_neq. lia.
  - apply Nat.eqb_eq in H. apply Nat.eqb_neq. lia.
  - apply Nat.eqb_eq in H. apply Nat.eqb_neq. lia.
Qed.
Lemma cnt_prev : forall R l, Forall (idle_at R) l -> cnt (S R) l = 0.
Proof.
  intros R l H. unfold cnt. induction H as [|w r Hw Hr IH]; [reflexivity|]. cbn. rewrite (idle_prev_not_now R w Hw). exact IH.
Qed.

Lemma fetch_perm : forall n A X Y c,
  Permutation (A ++ filter (below n) (X ++ Y)) (seq 0 (Nat.min c n)) ->
  Permutation (A ++ filter (below n) (X ++ c :: Y)) (seq 0 (Nat.min (S c) n)).
Proof.
  intros n A X Y c H. rewrite filter_app in *. cbn [filter]. unfold below at 2. destruct (Nat.ltb c n) eqn:E.
  - apply Nat.ltb_lt in E. replace (Nat.min (S c) n) with (S c) by lia. replace (Nat.min c n) with c in H by lia.
    rewrite seq_S. cbn [plus]. rewrite app_assoc. eapply perm_trans; [apply Permutation_sym; apply Permutation_middle|].
    rewrite <- app_assoc. eapply perm_trans; [apply perm_skip; exact H|]. apply Permutation_cons_append.
  - apply Nat.ltb_ge in E. replace (Nat.min (S c) n) with (Nat.min c n) by lia. exact H.
Qed.
Lemma got_perm : forall n A X Y i S0, i < n ->
  Permutation (A ++ filter (below n) (X ++ i :: Y)) S0 ->
  Permutation ((i :: A) ++ filter (below n) (X ++ Y)) S0.
Proof.
  intros n A X Y i S0 Hi H. rewrite filter_app in *. cbn [filter] in H. unfold below at 2 in H.
  replace (Nat.ltb i n) with true in H by (symmetry; apply Nat.ltb_lt; exact Hi).
  eapply perm_trans; [|exact H]. cbn [app]. rewrite app_assoc. rewrite app_assoc. apply Permutation_middle.
Qed.
Lemma got_drop : forall n X Y i, ~ i < n -> filter (below n) (X ++ i :: Y) = filter (below n) (X ++ Y).
Proof.
  intros n X Y i Hi. rewrite !filter_app. cbn [filter]. unfold below at 2.
  replace (Nat.ltb i n) with false by (symmetry; apply Nat.ltb_ge; lia). reflexivity.
Qed.

(** * one step preserves the invariant *)
Ltac split_ws Hn l1 l2 Hl Hu :=
  destruct (upd_decomp _ _ _ Hn) as (l1 & l2 & Hl & Hu).

Ltac simp := cbn [ci tc wr len mpc ws applied done todo fst snd hold_m app waiting_b].

(* the master moves inside master_wait() (load+test <-> blocked): nothing observable changes *)
Lemma set_mpc_wait_inv : forall s p, Inv s -> waiting_b (mpc s) = true -> waiting_b p = true -> Inv (set_mpc s p).
Proof.
  intros s p [Hd HI] Hw Hp. unfold Inv, set_mpc. simp. split; [exact Hd|].
  assert (HB : PhaseB s) by (destruct (mpc s); try discriminate; exact HI).
  assert (Hh : forall q, waiting_b q = true -> hold_m q = []) by (intros q Hq; destruct q; try discriminate; reflexivity).
  destruct HB as (H1 & H2 & H3 & H4 & H5).
  assert (G : PhaseB (mkS (ci s) (tc s) (wr s) (len s) p (ws s) (applied s) (done s) (todo s))).
  { unfold PhaseB. simp. repeat split; try assumption.
    - unfold holders in *. simp. rewrite (Hh _ Hw) in H3. rewrite (Hh _ Hp). exact H3.
    - intros i Hi. rewrite Hi in Hp. discriminate.
    - intros _. apply H5. exact Hw. }
  destruct p; try discriminate; exact G.
Qed.

(* apply() returns from master_wait() having SEEN thread_counter >= num_workers *)
Lemma master_return_inv : forall s, Inv s -> waiting_b (mpc s) = true -> S (length (ws s)) <= tc s -> Inv (master_return s).
Proof.
  intros s [Hd HI] Hw E.
  assert (HB : PhaseB s) by (destruct (mpc s); try discriminate; exact HI).
  destruct HB as (H1 & H2 & H3 & H4 & H5). specialize (H5 Hw).
  assert (Hall : Forall (idle_at (wr s)) (ws s)).
  { apply cnt_all. pose proof (filter_length_le (idle_b (wr s)) (ws s)). unfold cnt in *. lia. }
  unfold master_return. split; simp; [|exact Hall]. constructor; [|exact Hd]. simp.
  unfold holders in H3. replace (hold_m (mpc s)) with (@nil nat) in H3 by (destruct (mpc s); try discriminate; reflexivity).
  cbn [app] in H3. rewrite (all_idle_hold _ _ Hall) in H3. cbn [filter] in H3.
  rewrite app_nil_r in H3. replace (Nat.min (ci s) (len s)) with (len s) in H3 by lia. exact H3.
Qed.

(* the master's wait returns (for whatever reason, also spuriously): the `while` sends it back to the test *)
Lemma wake_master_inv : forall s, Inv s -> Inv (wake_master as_written s).
Proof.
  intros s HI. unfold wake_master. destruct (mpc s) eqn:Em; try exact HI. cbn [m_loop as_written].
  apply set_mpc_wait_inv; [exact HI|rewrite Em; reflexivity|reflexivity].
Qed.

Lemma step_master_inv : forall s, Inv s -> Inv (step_master as_written s).
Proof.
  intros s [Hd HI]. unfold step_master. destruct (mpc s) eqn:Em.
  - (* MIdle *) destruct (todo s) as [|n r]; [split; [exact Hd|rewrite Em; exact HI]|].
    split; [exact Hd|]. simp. repeat split. exact HI.
  - (* M1 *) destruct HI as (H1 & H2 & H3). split; [exact Hd|]. simp. repeat split; assumption.
  - (* M2 *) destruct HI as (H1 & H2 & H3 & H4). split; [exact Hd|]. simp. unfold PhaseB. simp. repeat split.
    + eapply Forall_impl; [|exact H1]. intros w Hw. left. exists (wr s). split; [reflexivity|exact Hw].
    + rewrite H4, (cnt_prev _ _ H1). reflexivity.
    + rewrite H3, H2. unfold holders. simp. rewrite (all_idle_hold _ _ H1). cbn. constructor.
    + discriminate.
    + discriminate.
  - (* MFetch *) destruct HI as (H1 & H2 & H3 & H4 & H5). split; [exact Hd|]. simp. unfold PhaseB. simp. repeat split; try assumption.
    + unfold holders in *. rewrite Em in H3. simp. cbn [hold_m app] in H3.
      apply (fetch_perm (len s) (applied s) [] (flat_map hold_w (ws s)) (ci s)). exact H3.
    + intros i Hi. inv Hi. lia.
    + discriminate.
  - (* MGot *) destruct HI as (H1 & H2 & H3 & H4 & H5). specialize (H4 i Em).
    unfold holders in H3. rewrite Em in H3. cbn [hold_m app] in H3.
    destruct (Nat.ltb i (len s)) eqn:E; (split; [exact Hd|]); simp; unfold PhaseB; simp; repeat split; try assumption; try discriminate.
    + apply Nat.ltb_lt in E. unfold holders. simp. apply (got_perm (len s) (applied s) [] _ i _ E). exact H3.
    + apply Nat.ltb_ge in E. unfold holders. simp.
      pose proof (got_drop (len s) [] (flat_map hold_w (ws s)) i ltac:(lia)) as Hg. cbn [app] in Hg. rewrite Hg in H3. exact H3.
    + intros _. apply Nat.ltb_ge in E. lia.
  - (* MWait *) assert (HInv : Inv s) by (split; [exact Hd|rewrite Em; exact HI]).
    destruct (Nat.leb (S (length (ws s))) (tc s)) eqn:E.
    + apply Nat.leb_le in E. apply master_return_inv; [exact HInv|rewrite Em; reflexivity|exact E].
    + apply set_mpc_wait_inv; [exact HInv|rewrite Em; reflexivity|reflexivity].
  - (* MBlock *) assert (HInv : Inv s) by (split; [exact Hd|rewrite Em; exact HI]).
    destruct (Nat.eqb (tc s) c); [exact HInv|]. apply wake_master_inv. exact HInv.
Qed.

Lemma PB_idle_prev_step : forall R w, PB R w -> wpc w = WStart -> PB R (mkW WWait (S (wround w))) /\
  idle_b R (mkW WWait (S (wround w))) = idle_b R w.
Proof.
  intros R w H Hp. unfold PB, idle_at, working_at, idle_b in *. rewrite Hp in *. cbn.
  destruct H as [(R0 & -> & H)|[[_ []]|H]].
  - apply Nat.eqb_eq in H. split; [left; exists R0; split; [reflexivity|apply Nat.eqb_eq; lia]|].
    transitivity false; [apply Nat.eqb_neq; lia|symmetry; apply Nat.eqb_neq; lia].
  - apply Nat.eqb_eq in H. split; [right; right; apply Nat.eqb_eq; lia|].
    transitivity true; [apply Nat.eqb_eq; lia|symmetry; apply Nat.eqb_eq; lia].
Qed.

(* moving inside worker_wait() (load+test <-> blocked) keeps the worker where it is in the round protocol *)
Lemma PB_wait_block : forall R w p', PB R w -> wb (wpc w) = true -> wb p' = true ->
  PB R (mkW p' (wround w)) /\ idle_b R (mkW p' (wround w)) = idle_b R w /\ hold_w w = [] /\ hold_w (mkW p' (wround w)) = [].
Proof.
  intros R w p' H Hw Hp. unfold PB, idle_at, working_at, idle_b, hold_w in *.
  destruct (wpc w); try discriminate; destruct p'; try discriminate; cbn [wpc wround];
    (split; [|repeat split]);
    (destruct H as [(R0 & -> & H)|[[_ []]|H]]; [left; exists R0; split; [reflexivity|exact H]|right; right; exact H]).
Qed.
Lemma idle_wait_block : forall R w p', idle_at R w -> wb (wpc w) = true -> wb p' = true -> idle_at R (mkW p' (wround w)).
Proof.
  intros R w p' H Hw Hp. unfold idle_at, idle_b in *. destruct (wpc w); try discriminate; destruct p'; try discriminate; exact H.
Qed.

Lemma cnt_split : forall R l1 w l2,
  cnt R (l1 ++ w :: l2) = cnt R l1 + (if idle_b R w then 1 else 0) + cnt R l2.
Proof. intros R l1 w l2. unfold cnt. rewrite filter_app, app_length. cbn [filter]. destruct (idle_b R w); cbn [length]; lia. Qed.
Lemma hold_split : forall l1 w l2,
  flat_map hold_w (l1 ++ w :: l2) = flat_map hold_w l1 ++ hold_w w ++ flat_map hold_w l2.
Proof. intros l1 w l2. rewrite flat_map_app. cbn [flat_map]. reflexivity. Qed.

Lemma replace_worker : forall s l1 w l2 w' A' ci' tc',
  ws s = l1 ++ w :: l2 -> PhaseB s -> PB (wr s) w' ->
  tc' + (if idle_b (wr s) w then 1 else 0) = tc s + (if idle_b (wr s) w' then 1 else 0) ->
  ci s <= ci' ->
  Permutation (A' ++ filter (below (len s)) ((hold_m (mpc s) ++ flat_map hold_w l1) ++ hold_w w' ++ flat_map hold_w l2))
              (seq 0 (Nat.min ci' (len s))) ->
  PhaseB (mkS ci' tc' (wr s) (len s) (mpc s) (l1 ++ w' :: l2) A' (done s) (todo s)).
Proof.
  intros s l1 w l2 w' A' ci' tc' Hl (H1 & H2 & H3 & H4 & H5) Hw' Htc Hci Hperm.
  unfold PhaseB. simp. rewrite Hl in H1, H2. rewrite cnt_split in H2. rewrite cnt_split.
  apply Forall_app in H1. destruct H1 as [F1 F2]. inv F2. repeat split.
  - apply Forall_app. split; [exact F1|]. constructor; assumption.
  - lia.
  - unfold holders. simp. rewrite hold_split, app_assoc. exact Hperm.
  - intros i Hi. specialize (H4 i Hi). lia.
  - intro Hm. specialize (H5 Hm). lia.
Qed.

Definition keeps_phaseB (f : state -> state) : Prop := forall s, PhaseB s ->
  PhaseB (f s) /\ mpc (f s) = mpc s /\ done (f s) = done s.

(* worker k moves inside worker_wait(): to the test when [p'] = WWait, into the blocking call when [p'] = WBlock _ *)
Lemma wait_block_phaseB : forall s k w p', PhaseB s -> nth_error (ws s) k = Some w -> wb (wpc w) = true -> wb p' = true ->
  PhaseB (set_w s k (mkW p' (wround w))).
Proof.
  intros s k w p' HB En Hw Hp. unfold set_w. destruct (upd_decomp _ _ _ En) as (l1 & l2 & Hl & Hu).
  pose proof HB as (H1 & H2 & H3 & H4 & H5).
  assert (HPw : PB (wr s) w).
  { rewrite Hl in H1. apply Forall_app in H1. destruct H1 as [_ F2]. inv F2. assumption. }
  destruct (PB_wait_block _ _ p' HPw Hw Hp) as (P1 & P2 & P3 & P4). rewrite Hu.
  apply (replace_worker s l1 w l2); try assumption; [rewrite P2; lia|lia|].
  rewrite P4. unfold holders in H3. rewrite Hl, hold_split, app_assoc, P3 in H3. exact H3.
Qed.
Lemma wake_worker_phaseB : forall k, keeps_phaseB (fun s => wake_worker as_written s k).
Proof.
  intros k s HB. unfold wake_worker. destruct (nth_error (ws s) k) as [w|] eqn:En; [|split; [exact HB|split; reflexivity]].
  destruct (wpc w) eqn:Ep; try (split; [exact HB|split; reflexivity]). cbn [w_loop as_written].
  split; [|split; reflexivity]. apply wait_block_phaseB; [exact HB|exact En|rewrite Ep; reflexivity|reflexivity].
Qed.

Lemma step_worker_phaseB : forall k, keeps_phaseB (fun s => step_worker as_written s k).
Proof.
  intros k s HB. unfold step_worker. destruct (nth_error (ws s) k) as [w|] eqn:En; [|split; [exact HB|split; reflexivity]].
  split_ws En l1 l2 Hl Hu. pose proof HB as (H1 & H2 & H3 & H4 & H5).
  assert (Hw : PB (wr s) w).
  { rewrite Hl in H1. apply Forall_app in H1. destruct H1 as [_ F2]. inv F2. assumption. }
  assert (Hold : Permutation (applied s ++ filter (below (len s)) ((hold_m (mpc s) ++ flat_map hold_w l1) ++ hold_w w ++ flat_map hold_w l2))
                             (seq 0 (Nat.min (ci s) (len s)))).
  { unfold holders in H3. rewrite Hl, hold_split, app_assoc in H3. exact H3. }
  destruct (wpc w) eqn:Ep.
  - (* WStart *) destruct (PB_idle_prev_step _ _ Hw Ep) as [P1 P2]. rewrite Hu. split; [|split; reflexivity].
    apply (replace_worker s l1 w l2); try assumption; [rewrite P2; lia|lia|].
    unfold hold_w in *. rewrite Ep in Hold. cbn [wpc]. exact Hold.
  - (* WWait *) destruct (Nat.eqb (wr s) (wround w)) eqn:E;
      [|split; [|split; reflexivity]; apply wait_block_phaseB; [exact HB|exact En|rewrite Ep; reflexivity|reflexivity]].
    apply Nat.eqb_eq in E. rewrite Hu. split; [|split; reflexivity].
    apply (replace_worker s l1 w l2); try assumption.
    + right. left. unfold working_at. cbn. split; [lia|exact I].
    + unfold idle_b. rewrite Ep. cbn [wpc wround]. replace (Nat.eqb (wround w) (S (wr s))) with false by (symmetry; apply Nat.eqb_neq; lia). lia.
    + lia.
    + unfold hold_w in *. rewrite Ep in Hold. cbn [wpc]. exact Hold.
  - (* WBlock *) destruct (Nat.eqb (wr s) r); [split; [exact HB|split; reflexivity]|]. apply (wake_worker_phaseB k s HB).
  - (* WFetch *)
    assert (Hr : wround w = wr s).
    { destruct Hw as [(R0 & _ & Hi)|[[Hr _]|Hi]]; [| exact Hr |]; unfold idle_at, idle_b in Hi; rewrite Ep in Hi; discriminate. }
    rewrite Hu. split; [|split; reflexivity].
    apply (replace_worker s l1 w l2); try assumption.
    + right. left. unfold working_at. cbn. split; [exact Hr|exact I].
    + unfold idle_b. rewrite Ep. cbn [wpc]. lia.
    + lia.
    + unfold hold_w at 2. cbn [wpc app]. unfold hold_w at 2 in Hold. rewrite Ep in Hold. cbn [app] in Hold.
      apply fetch_perm. exact Hold.
  - (* WGot *)
    assert (Hr : wround w = wr s).
    { destruct Hw as [(R0 & _ & Hi)|[[Hr _]|Hi]]; [| exact Hr |]; unfold idle_at, idle_b in Hi; rewrite Ep in Hi; discriminate. }
    unfold hold_w at 2 in Hold. rewrite Ep in Hold. cbn [app] in Hold.
    destruct (Nat.ltb i (len s)) eqn:E; rewrite Hu; (split; [|split; reflexivity]).
    + apply Nat.ltb_lt in E. apply (replace_worker s l1 w l2); try assumption.
      * right. left. unfold working_at. cbn. split; [exact Hr|exact I].
      * unfold idle_b. rewrite Ep. cbn [wpc]. lia.
      * lia.
      * unfold hold_w at 2. cbn [wpc app]. apply got_perm; assumption.
    + apply Nat.ltb_ge in E. apply (replace_worker s l1 w l2); try assumption.
      * right. left. unfold working_at. cbn. split; [exact Hr|exact I].
      * unfold idle_b. rewrite Ep. cbn [wpc]. lia.
      * lia.
      * unfold hold_w at 2. cbn [wpc app]. rewrite got_drop in Hold by lia. exact Hold.
  - (* WSignal *)
    assert (Hr : wround w = wr s).
    { destruct Hw as [(R0 & _ & Hi)|[[Hr _]|Hi]]; [| exact Hr |]; unfold idle_at, idle_b in Hi; rewrite Ep in Hi; discriminate. }
    rewrite Hu. split; [|split; reflexivity].
    apply (replace_worker s l1 w l2); try assumption.
    + right. right. unfold idle_at, idle_b. cbn. apply Nat.eqb_eq. exact Hr.
    + unfold idle_b. rewrite Ep. cbn [wpc wround]. replace (Nat.eqb (wround w) (wr s)) with true by (symmetry; apply Nat.eqb_eq; exact Hr). lia.
    + lia.
    + unfold hold_w in *. rewrite Ep in Hold. cbn [wpc]. exact Hold.
Qed.

(* while the master is between two apply() calls (or publishing the next one) workers can only move to their wait *)
Definition keeps_phaseA (f : state -> state) : Prop := forall s, Forall (idle_at (wr s)) (ws s) ->
  Forall (idle_at (wr s)) (ws (f s)) /\ mpc (f s) = mpc s /\ done (f s) = done s
  /\ ci (f s) = ci s /\ tc (f s) = tc s /\ applied (f s) = applied s /\ wr (f s) = wr s.

Lemma wait_block_phaseA : forall s k w p', Forall (idle_at (wr s)) (ws s) -> nth_error (ws s) k = Some w ->
  wb (wpc w) = true -> wb p' = true -> Forall (idle_at (wr s)) (upd k (mkW p' (wround w)) (ws s)).
Proof.
  intros s k w p' HF En Hw Hp. destruct (upd_decomp _ _ _ En) as (l1 & l2 & Hl & Hu). rewrite Hu.
  rewrite Hl in HF. apply Forall_app in HF. destruct HF as [F1 F2]. inv F2.
  apply Forall_app. split; [exact F1|]. constructor; [|assumption]. apply idle_wait_block; assumption.
Qed.
Lemma wake_worker_phaseA : forall k, keeps_phaseA (fun s => wake_worker as_written s k).
Proof.
  intros k s HF. unfold wake_worker. destruct (nth_error (ws s) k) as [w|] eqn:En; [|repeat split; exact HF].
  destruct (wpc w) eqn:Ep; try (repeat split; exact HF). cbn [w_loop as_written]. unfold set_w. simp. repeat split.
  apply wait_block_phaseA; [exact HF|exact En|rewrite Ep; reflexivity|reflexivity].
Qed.
Lemma step_worker_phaseA : forall k, keeps_phaseA (fun s => step_worker as_written s k).
Proof.
  intros k s HF. unfold step_worker. destruct (nth_error (ws s) k) as [w|] eqn:En; [|repeat split; exact HF].
  split_ws En l1 l2 Hl Hu. pose proof HF as HF'. rewrite Hl in HF'. apply Forall_app in HF'. destruct HF' as [F1 F2]. inv F2.
  unfold idle_at, idle_b in H1. destruct (wpc w) eqn:Ep; try discriminate.
  - cbn. repeat split. rewrite Hu. apply Forall_app. split; [exact F1|]. constructor; [|exact H2].
    unfold idle_at, idle_b. cbn. apply Nat.eqb_eq in H1. apply Nat.eqb_eq. lia.
  - apply Nat.eqb_eq in H1. replace (Nat.eqb (wr s) (wround w)) with false by (symmetry; apply Nat.eqb_neq; lia).
    unfold set_w. simp. repeat split.
    apply wait_block_phaseA; [exact HF|exact En|rewrite Ep; reflexivity|reflexivity].
  - destruct (Nat.eqb (wr s) r); [repeat split; exact HF|]. apply (wake_worker_phaseA k s HF).
Qed.

(* anything a worker does (a step, or a wait that returns) preserves the invariant *)
Lemma worker_like_inv : forall f, keeps_phaseA f -> keeps_phaseB f -> forall s, Inv s -> Inv (f s).
Proof.
  intros f FA FB s [Hd HI]. unfold Inv, done_ok in *. destruct (mpc s) eqn:Em.
  - destruct (FA s HI) as (A1 & A2 & A3 & A4 & A5 & A6 & A7). rewrite A2, A3, Em, A7. split; assumption.
  - destruct HI as (H1 & H2 & H3). destruct (FA s H1) as (A1 & A2 & A3 & A4 & A5 & A6 & A7).
    rewrite A2, A3, Em, A4, A6, A7. repeat split; assumption.
  - destruct HI as (H1 & H2 & H3 & H4). destruct (FA s H1) as (A1 & A2 & A3 & A4 & A5 & A6 & A7).
    rewrite A2, A3, Em, A4, A5, A6, A7. repeat split; assumption.
  - destruct (FB s HI) as (B1 & B2 & B3). rewrite B2, B3, Em. split; assumption.
  - destruct (FB s HI) as (B1 & B2 & B3). rewrite B2, B3, Em. split; assumption.
  - destruct (FB s HI) as (B1 & B2 & B3). rewrite B2, B3, Em. split; assumption.
  - destruct (FB s HI) as (B1 & B2 & B3). rewrite B2, B3, Em. split; assumption.
Qed.
Lemma step_worker_inv : forall s k, Inv s -> Inv (step_worker as_written s k).
Proof. intros s k. apply (worker_like_inv _ (step_worker_phaseA k) (step_worker_phaseB k)). Qed.
Lemma wake_worker_inv : forall s k, Inv s -> Inv (wake_worker as_written s k).
Proof. intros s k. apply (worker_like_inv _ (wake_worker_phaseA k) (wake_worker_phaseB k)). Qed.

(* one scheduler event, spurious wake-ups included *)
Lemma step_inv : forall s e, Inv s -> Inv (step as_written s e).
Proof.
  intros s [[|k]|[|k]] HI; cbn [step];
    [apply step_master_inv|apply step_worker_inv|apply wake_master_inv|apply wake_worker_inv]; exact HI.
Qed.

Lemma init_inv : forall nw applies, Inv (init nw applies).
Proof.
  intros nw applies. split; [constructor|]. cbn. apply Forall_forall. intros w Hw. apply repeat_spec in Hw. subst w. reflexivity.
Qed.

Theorem run_inv : forall sched s, Inv s -> Inv (run sched s).
Proof.
  induction sched as [|e r IH]; intros s HI; [exact HI|]. unfold run, run_v in *. cbn [fold_left]. apply IH.
  apply step_inv. exact HI.
Qed.

(** every completed apply() processed each of its elements exactly once, whatever the schedule *)
Theorem each_once_per_round : forall nw applies sched,
  Forall (fun d => Permutation (snd d) (seq 0 (fst d))) (done (run sched (init nw applies))).
Proof. intros nw applies sched. apply (run_inv sched (init nw applies) (init_inv nw applies)). Qed.

(* in terms of the counters the driver observes *)
Lemma count_perm : forall j l l', Permutation l l' -> length (filter (Nat.eqb j) l) = length (filter (Nat.eqb j) l').
Proof.
  intros j l l' H. induction H; cbn; try lia.
  - destruct (Nat.eqb j x); cbn; lia.
  - destruct (Nat.eqb j x), (Nat.eqb j y); cbn; lia.
Qed.
Lemma count_seq_out : forall j s n, j < s -> length (filter (Nat.eqb j) (seq s n)) = 0.
Proof.
  intros j s n. revert s. induction n as [|n IH]; intros s H; [reflexivity|]. cbn [seq filter].
  replace (Nat.eqb j s) with false by (symmetry; apply Nat.eqb_neq; lia). apply IH. lia.
Qed.
Lemma count_seq : forall j s n, s <= j < s + n -> length (filter (Nat.eqb j) (seq s n)) = 1.
Proof.
  intros j s n. revert s. induction n as [|n IH]; intros s H; [lia|]. cbn [seq filter].
  destruct (Nat.eqb j s) eqn:E.
  - apply Nat.eqb_eq in E. subst j. cbn [length]. rewrite count_seq_out by lia. reflexivity.
  - apply Nat.eqb_neq in E. apply IH. lia.
Qed.
Theorem counts_all_one : forall nw applies sched d,
  In d (done (run sched (init nw applies))) -> counts (fst d) (snd d) = repeat 1 (fst d).
Proof.
  intros nw applies sched d Hd. pose proof (each_once_per_round nw applies sched) as H. rewrite Forall_forall in H.
  specialize (H d Hd). unfold counts.
  assert (G : forall s n, (forall j, s <= j < s + n -> length (filter (Nat.eqb j) (snd d)) = 1) ->
                          map (fun j => length (filter (Nat.eqb j) (snd d))) (seq s n) = repeat 1 n).
  { intros s n. revert s. induction n as [|n IH]; intros s Hj; [reflexivity|]. cbn. f_equal; [apply Hj; lia|].
    apply IH. intros j Hjr. apply Hj. lia. }
  apply G. intros j Hj. rewrite (count_perm j _ _ H). apply count_seq. lia.
Qed.

(* the oracle accepts exactly the all-ones counter vectors *)
Theorem each_once_spec : forall v, each_once v = true <-> v = repeat 1 (length v).
Proof.
  induction v as [|c r IH]; [cbn; split; reflexivity|]. unfold each_once in *. cbn [forallb length repeat].
  rewrite andb_true_iff, IH. split.
  - intros [H1 H2]. apply Nat.eqb_eq in H1. subst c. f_equal. exact H2.
  - intro H. inv H. split; [reflexivity|]. rewrite <- H2. exact H2.
Qed.

(* the master cannot be between two apply() calls while a worker is still inside one:
   when apply() has returned, every worker has signalled the current round and waits for the next *)
Theorem round_barrier : forall nw applies sched,
  let s := run sched (init nw applies) in
  mpc s = MIdle -> Forall (idle_at (wr s)) (ws s).
Proof.
  intros nw applies sched s Hm. destruct (run_inv sched (init nw applies) (init_inv nw applies)) as [_ H].
  fold s in H. rewrite Hm in H. exact H.
Qed.

(* the completed apply() calls are the requested ones, in order *)
Definition pending (s : state) : list nat := match mpc s with MIdle => [] | _ => [len s] end.
Definition order_of (s : state) : list nat := rev (map fst (done s)) ++ pending s ++ todo s.
Lemma wake_master_order : forall s, order_of (wake_master as_written s) = order_of s.
Proof. intro s. unfold wake_master, order_of, pending. destruct (mpc s) eqn:Em; cbn; rewrite ?Em; reflexivity. Qed.
Lemma wake_worker_order : forall s k, order_of (wake_worker as_written s k) = order_of s.
Proof.
  intros s k. unfold wake_worker, order_of, pending. destruct (nth_error (ws s) k) as [w|]; [|reflexivity].
  destruct (wpc w); reflexivity.
Qed.
Lemma step_order : forall s e, order_of (step as_written s e) = order_of s.
Proof.
  intros s [[|k]|[|k]]; cbn [step]; [| |apply wake_master_order|apply wake_worker_order].
  - unfold step_master. destruct (mpc s) eqn:Em; try (unfold order_of, pending; rewrite ?Em; reflexivity).
    + unfold order_of, pending. destruct (todo s) eqn:Et; cbn; rewrite ?Em, ?Et; reflexivity.
    + unfold order_of, pending. destruct (Nat.ltb i (len s)); cbn; rewrite ?Em; reflexivity.
    + unfold order_of, pending, master_return, set_mpc. destruct (Nat.leb (S (length (ws s))) (tc s)); cbn; rewrite ?Em;
        [rewrite <- app_assoc|]; reflexivity.
    + destruct (Nat.eqb (tc s) c); [reflexivity|apply wake_master_order].
  - unfold step_worker. destruct (nth_error (ws s) k) as [w|] eqn:En; [|reflexivity].
    destruct (wpc w); try reflexivity.
    + destruct (Nat.eqb (wr s) (wround w)); reflexivity.
    + destruct (Nat.eqb (wr s) r); [reflexivity|apply wake_worker_order].
    + destruct (Nat.ltb i (len s)); reflexivity.
Qed.
Theorem rounds_in_order : forall nw applies sched,
  let s := run sched (init nw applies) in
  rev (map fst (done s)) ++ pending s ++ todo s = applies.
Proof.
  intros nw applies sched. cbn zeta.
  assert (G : forall sched s, order_of (run sched s) = order_of s).
  { induction sched0 as [|e r IH]; intro s; [reflexivity|]. unfold run, run_v in *. cbn [fold_left]. rewrite IH. apply step_order. }
  specialize (G sched (init nw applies)). unfold order_of in G. rewrite G. reflexivity.
Qed.

(** * the theorems are sensitive to the re-check: with a single, non-rechecked wait they fail *)
(* 2 threads, one apply() on 2 elements.  The worker takes element 1 and is still inside the user function when the
   master, having processed element 0, finds thread_counter = 1 < 2 and blocks; its wait returns spuriously (EINTR) and
   apply() returns: element 1 has been processed 0 times, and the worker is still inside round 1. *)
Definition single_master_wait : variant := mkV false true.
Definition single_worker_wait : variant := mkV true false.
Definition sched_eintr : list ev :=
  [Step 0; Step 0; Step 0; Step 0; Step 1; Step 1; Step 1; Step 0; Step 0; Step 0; Step 0; Spurious 0].
Lemma single_wait_eintr :
  let s := run_v single_master_wait sched_eintr (init 2 [2]) in
  mpc s = MIdle /\ done s = [(2, [0])] /\ ws s = [mkW (WGot 1) 1] /\ wr s = 1.
Proof. vm_compute. repeat split. Qed.
(* 3 threads, no spurious event at all: worker 1 finishes between the master's load of thread_counter (1) and its
   futex_wait(&thread_counter, 1), which therefore returns at once (EAGAIN) while worker 2 still holds element 2 *)
Definition sched_eagain : list ev :=
  [Step 0; Step 0; Step 0; Step 1; Step 1; Step 2; Step 2; Step 0; Step 1; Step 2; Step 0; Step 0; Step 0; Step 0;
   Step 1; Step 1; Step 1; Step 1; Step 0].
Lemma single_wait_eagain :
  let s := run_v single_master_wait sched_eagain (init 3 [3]) in
  mpc s = MIdle /\ done s = [(3, [1; 0])] /\ nth_error (ws s) 1 = Some (mkW (WGot 2) 1).
Proof. vm_compute. repeat split. Qed.

Theorem each_once_single_wait_refuted : exists nw applies sched d,
  In d (done (run_v single_master_wait sched (init nw applies))) /\
  ~ Permutation (snd d) (seq 0 (fst d)) /\ counts (fst d) (snd d) <> repeat 1 (fst d).
Proof.
  exists 2, [2], sched_eintr, (2, [0]). destruct single_wait_eintr as (_ & Hd & _). split; [rewrite Hd; left; reflexivity|].
  split; [intro H; apply Permutation_length in H; discriminate|vm_compute; discriminate].
Qed.
Theorem each_once_single_wait_refuted_no_spurious : exists nw applies sched d,
  Forall (fun e => match e with Step _ => True | Spurious _ => False end) sched /\
  In d (done (run_v single_master_wait sched (init nw applies))) /\ counts (fst d) (snd d) <> repeat 1 (fst d).
Proof.
  exists 3, [3], sched_eagain, (3, [1; 0]). destruct single_wait_eagain as (_ & Hd & _).
  split; [repeat constructor|]. split; [rewrite Hd; left; reflexivity|vm_compute; discriminate].
Qed.
Theorem round_barrier_single_wait_refuted : exists nw applies sched,
  let s := run_v single_master_wait sched (init nw applies) in
  mpc s = MIdle /\ ~ Forall (idle_at (wr s)) (ws s).
Proof.
  exists 2, [2], sched_eintr. cbn zeta. destruct single_wait_eintr as (Hm & _ & Hw & Hr). split; [exact Hm|].
  rewrite Hw, Hr. intro H. inv H. discriminate.
Qed.
(* the same for a worker that does not re-check work_round: woken spuriously before the first apply(), it processes
   elements of a vector that does not exist yet / joins a round that was never published; in the model: the worker
   signals round 0's counter, so that the next apply() can return while that worker has not even started its round *)
Theorem round_barrier_single_worker_wait_refuted : exists nw applies sched,
  let s := run_v single_worker_wait sched (init nw applies) in
  mpc s = MIdle /\ ~ Forall (idle_at (wr s)) (ws s).
Proof.
  exists 2, [0], [Step 1; Step 1; Spurious 1]. cbn zeta. vm_compute. split; [reflexivity|]. intro H. inv H. discriminate.
Qed.
