(** C50 — xbt_dict refines a finite map, for any hash function.
    Abstraction: [get d : K -> option Z].  The theorems at the end are the finite-map laws (empty / set / remove /
    length / enumeration) for the concrete bucket-array model, rehash included. *)
From SGV Require Import Base.Tactics Xbt.Dict.
Local Open Scope Z_scope.

Section DictProofs.
Variable K : Type.
Variable keqb : K -> K -> bool.
Variable hash : K -> Z.
Hypothesis keqb_eq : forall a b, keqb a b = true <-> a = b.
Hypothesis hash_nonneg : forall k, 0 <= hash k.

Local Notation dict := (Dict.dict K).
Local Notation bucket := (Dict.bucket K).
Local Notation bfind := (Dict.bfind K keqb).
Local Notation breplace := (Dict.breplace K keqb).
Local Notation bremove := (Dict.bremove K keqb).
Local Notation upd := (Dict.upd K).
Local Notation cell := (Dict.cell K hash).
Local Notation tsize := (Dict.tsize K).
Local Notation table := (Dict.table K).
Local Notation count := (Dict.count K).
Local Notation fill := (Dict.fill K).
Local Notation mkDict := (Dict.mkDict K).
Local Notation get := (Dict.get K keqb hash).
Local Notation set := (Dict.set K keqb hash).
Local Notation remove := (Dict.remove K keqb hash).
Local Notation rehash := (Dict.rehash K hash).
Local Notation enumerate := (Dict.enumerate K).
Local Notation empty := (Dict.empty K).
Local Notation stays := (Dict.stays K hash).
Local Notation moves := (Dict.moves K hash).
Local Notation stay_cells := (Dict.stay_cells K hash).
Local Notation twin_cells := (Dict.twin_cells K hash).

Lemma keqb_refl : forall k, keqb k k = true.
Proof. intro k. apply keqb_eq. reflexivity. Qed.
Lemma keqb_neq : forall a b, a <> b -> keqb a b = false.
Proof. intros a b H. destruct (keqb a b) eqn:E; [apply keqb_eq in E; contradiction|reflexivity]. Qed.
Lemma k_dec : forall a b : K, a = b \/ a <> b.
Proof. intros a b. destruct (keqb a b) eqn:E; [left; apply keqb_eq; exact E|right; intro H; apply keqb_eq in H; congruence]. Qed.

Lemma option_ext : forall (a b : option Z), (forall v, a = Some v <-> b = Some v) -> a = b.
Proof.
  intros [x|] [y|] H; try reflexivity.
  - apply H. reflexivity.
  - destruct (H x) as [H1 _]. specialize (H1 eq_refl). discriminate.
  - destruct (H y) as [_ H1]. specialize (H1 eq_refl). discriminate.
Qed.

(** * buckets *)
Lemma bfind_none : forall k (b : bucket), bfind k b = None <-> ~ In k (map fst b).
Proof.
  intros k b. induction b as [|[k' v'] r IH]; cbn [Dict.bfind map fst In]; [tauto|].
  destruct (keqb k k') eqn:E.
  - apply keqb_eq in E. subst. split; [discriminate|]. intro H. exfalso. apply H. left. reflexivity.
  - rewrite IH. split; intro H; [intros [H1|H1]; [subst; rewrite keqb_refl in E; discriminate|tauto]|tauto].
Qed.
Lemma in_keys : forall k v (b : bucket), In (k, v) b -> In k (map fst b).
Proof. intros k v b H. apply (in_map fst) in H. exact H. Qed.
Lemma bfind_in : forall k v (b : bucket), NoDup (map fst b) -> (bfind k b = Some v <-> In (k, v) b).
Proof.
  intros k v b. induction b as [|[k' v'] r IH]; cbn [Dict.bfind map fst In]; intro Hn.
  - split; [discriminate|tauto].
  - inv Hn. destruct (keqb k k') eqn:E.
    + apply keqb_eq in E. subst k'. split; intro H.
      * inv H. left. reflexivity.
      * destruct H as [H|H]; [inv H; reflexivity|]. apply in_keys in H. contradiction.
    + rewrite (IH H2). split; intro H; [right; exact H|].
      destruct H as [H|H]; [inv H; rewrite keqb_refl in E; discriminate|exact H].
Qed.

Lemma breplace_spec : forall k v (b : bucket), NoDup (map fst b) -> bfind k b <> None ->
  map fst (breplace k v b) = map fst b /\
  (forall k' v', In (k', v') (breplace k v b) <-> (k' = k /\ v' = v) \/ (k' <> k /\ In (k', v') b)).
Proof.
  intros k v b. induction b as [|[k0 v0] r IH]; cbn [Dict.bfind Dict.breplace map fst]; intros Hn Hf; [congruence|].
  inv Hn. destruct (keqb k k0) eqn:E.
  - apply keqb_eq in E. subst k0. cbn [map fst]. split; [reflexivity|]. intros k' v'. cbn [In]. split.
    + intros [H|H]; [inv H; left; split; reflexivity|]. right. split; [|right; exact H].
      intro; subst. apply in_keys in H. contradiction.
    + intros [[-> ->]|[Hne [H|H]]]; [left; reflexivity|inv H; congruence|right; exact H].
  - destruct (IH H2 Hf) as [IH1 IH2]. cbn [map fst]. split; [f_equal; exact IH1|].
    intros k' v'. cbn [In]. rewrite IH2. split.
    + intros [H|[H|H]]; [inv H; right; split; [intro; subst; rewrite keqb_refl in E; discriminate|left; reflexivity]|left; exact H|].
      right. split; [tauto|right; tauto].
    + intros [H|[Hne [H|H]]]; [right; left; exact H|left; exact H|right; right; tauto].
Qed.

Lemma NoDup_snoc : forall (l : list K) x, NoDup l -> ~ In x l -> NoDup (l ++ [x]).
Proof.
  induction l as [|y r IH]; intros x Hn Hx; cbn; [repeat constructor; intros []|].
  inv Hn. constructor.
  - rewrite in_app_iff. cbn [In]. intros [H|[H|[]]]; [contradiction|subst; apply Hx; left; reflexivity].
  - apply IH; [assumption|]. intro H. apply Hx. right. exact H.
Qed.
Lemma bappend_spec : forall k v (b : bucket), NoDup (map fst b) -> bfind k b = None ->
  NoDup (map fst (b ++ [(k, v)])) /\
  (forall k' v', In (k', v') (b ++ [(k, v)]) <-> (k' = k /\ v' = v) \/ (k' <> k /\ In (k', v') b)).
Proof.
  intros k v b Hn Hf. apply bfind_none in Hf. split.
  - rewrite map_app. cbn [map fst]. apply NoDup_snoc; assumption.
  - intros k' v'. rewrite in_app_iff. cbn [In]. split.
    + intros [H|[H|[]]]; [right; split; [intro; subst; apply in_keys in H; contradiction|exact H]|inv H; left; split; reflexivity].
    + intros [[-> ->]|[_ H]]; [right; left; reflexivity|left; exact H].
Qed.

Lemma bremove_spec : forall k (b : bucket), NoDup (map fst b) ->
  NoDup (map fst (bremove k b)) /\
  (forall k' v', In (k', v') (bremove k b) <-> k' <> k /\ In (k', v') b) /\
  (bfind k b <> None -> S (length (bremove k b)) = length b).
Proof.
  intros k b. induction b as [|[k0 v0] r IH]; cbn [Dict.bfind Dict.bremove map fst]; intro Hn.
  - split; [constructor|]. split; [cbn [In]; tauto|congruence].
  - inv Hn. destruct (keqb k k0) eqn:E.
    + apply keqb_eq in E. subst k0. split; [exact H2|]. split; [|reflexivity].
      intros k' v'. cbn [In]. split.
      * intro H. split; [intro; subst; apply in_keys in H; contradiction|right; exact H].
      * intros [Hne [H|H]]; [inv H; congruence|exact H].
    + destruct (IH H2) as (I1 & I2 & I3). cbn [map fst length]. split; [|split].
      * constructor; [|exact I1]. intro H. apply in_map_iff in H. destruct H as [[k1 v1] [H3 H4]]. cbn in H3. subst k1.
        apply I2 in H4. destruct H4 as [_ H4]. apply in_keys in H4. contradiction.
      * intros k' v'. cbn [In]. rewrite I2. split.
        -- intros [H|H]; [inv H; split; [intro; subst; rewrite keqb_refl in E; discriminate|left; reflexivity]|tauto].
        -- intros [Hne [H|H]]; [left; exact H|right; tauto].
      * intro H. f_equal. apply I3. exact H.
Qed.

(** * the cell array *)
Lemma upd_length : forall i b (t : list bucket), length (upd i b t) = length t.
Proof. intros i b t. revert i. induction t as [|x r IH]; intros [|i]; cbn; try reflexivity. f_equal. apply IH. Qed.
Lemma nth_error_upd : forall (t : list bucket) i j b, (i < length t)%nat ->
  nth_error (upd i b t) j = if Nat.eqb j i then Some b else nth_error t j.
Proof.
  induction t as [|x r IH]; intros i j b Hi; [cbn in Hi; lia|].
  destruct i as [|i]; destruct j as [|j]; cbn; try reflexivity.
  apply IH. cbn in Hi. lia.
Qed.
Lemma concat_upd_length : forall (t : list bucket) i b, (i < length t)%nat ->
  (length (concat (upd i b t)) + length (nth i t []) = length (concat t) + length b)%nat.
Proof.
  induction t as [|x r IH]; intros i b Hi; [cbn in Hi; lia|].
  destruct i as [|i]; cbn [Dict.upd concat nth]; rewrite !app_length; [lia|].
  cbn in Hi. specialize (IH i b). lia.
Qed.
Lemma in_concat_nth : forall (e : K * Z) (t : list bucket),
  In e (concat t) <-> exists j b, nth_error t j = Some b /\ In e b.
Proof.
  intros e t. rewrite in_concat. split.
  - intros [b [H1 H2]]. apply In_nth_error in H1. destruct H1 as [j H1]. exists j, b. tauto.
  - intros [j [b [H1 H2]]]. exists b. split; [eapply nth_error_In; exact H1|exact H2].
Qed.
Lemma nth_of_nth_error : forall (t : list bucket) i b, nth_error t i = Some b -> nth i t [] = b.
Proof. intros t i b H. apply nth_error_nth. exact H. Qed.

(** * invariant *)
Definition DInv (d : dict) : Prop :=
  (exists p, 0 <= p /\ tsize d = 2 ^ p) /\
  (forall i b, nth_error (table d) i = Some b ->
     NoDup (map fst b) /\ forall e, In e b -> cell (tsize d) (fst e) = i) /\
  count d = Z.of_nat (length (concat (table d))).

Definition G (d : dict) (k : K) (v : Z) : Prop := In (k, v) (concat (table d)).

Lemma land_mask : forall h p, 0 <= p -> Z.land h (2 ^ p - 1) = h mod 2 ^ p.
Proof.
  intros h p Hp. replace (2 ^ p - 1) with (Z.ones p) by (rewrite Z.ones_equiv; lia). apply Z.land_ones. exact Hp.
Qed.
Lemma cell_lt : forall d k, DInv d -> (cell (tsize d) k < length (table d))%nat.
Proof.
  intros d k ((p & Hp & Hs) & _). unfold Dict.cell. rewrite Hs, land_mask by exact Hp.
  assert (0 < 2 ^ p) by (apply Z.pow_pos_nonneg; lia).
  pose proof (Z.mod_pos_bound (hash k) (2 ^ p) H). unfold Dict.tsize in Hs. lia.
Qed.
Lemma cell_bucket : forall d k, DInv d ->
  nth_error (table d) (cell (tsize d) k) = Some (nth (cell (tsize d) k) (table d) []).
Proof. intros d k HI. apply nth_error_nth'. apply cell_lt. exact HI. Qed.

Lemma G_bucket : forall d k v, DInv d -> (G d k v <-> In (k, v) (nth (cell (tsize d) k) (table d) [])).
Proof.
  intros d k v HI. unfold G. rewrite in_concat_nth. split.
  - intros (j & b & H1 & H2). destruct HI as (_ & P2 & _). destruct (P2 j b H1) as [_ Hc].
    specialize (Hc _ H2). cbn [fst] in Hc. subst j. rewrite (nth_of_nth_error _ _ _ H1). exact H2.
  - intro H. eexists. eexists. split; [apply cell_bucket; exact HI|exact H].
Qed.
Lemma get_iff : forall d k v, DInv d -> (get d k = Some v <-> G d k v).
Proof.
  intros d k v HI. rewrite G_bucket by exact HI. unfold Dict.get. apply bfind_in.
  pose proof HI as (_ & P2 & _). eapply P2. apply cell_bucket. exact HI.
Qed.
Lemma get_none_iff : forall d k, DInv d -> (get d k = None <-> forall v, ~ G d k v).
Proof.
  intros d k HI. split.
  - intros H v Hg. apply get_iff in Hg; [congruence|exact HI].
  - intro H. destruct (get d k) as [v|] eqn:E; [|reflexivity]. apply get_iff in E; [|exact HI]. exfalso. eapply H. exact E.
Qed.

(* replacing the bucket of [k]'s cell by one that differs from it only at key [k] *)
Lemma upd_cell_inv : forall d k v (b' : bucket) cnt fl,
  DInv d ->
  let c := cell (tsize d) k in
  let b := nth c (table d) [] in
  NoDup (map fst b') ->
  (forall k' v', In (k', v') b' <-> (k' = k /\ v' = v) \/ (k' <> k /\ In (k', v') b)) ->
  cnt + Z.of_nat (length b) = count d + Z.of_nat (length b') ->
  let d' := mkDict (upd c b' (table d)) cnt fl in
  DInv d' /\ forall k' v', G d' k' v' <-> (k' = k /\ v' = v) \/ (k' <> k /\ G d k' v').
Proof.
  intros d k v b' cnt fl HI c b Hn Hb Hc d'.
  pose proof (cell_lt d k HI) as Hlt. fold c in Hlt.
  pose proof HI as (P1 & P2 & P3).
  assert (Hts : tsize d' = tsize d) by (unfold Dict.tsize, d'; cbn [Dict.table]; rewrite upd_length; reflexivity).
  assert (Hbc : nth_error (table d) c = Some b) by (apply cell_bucket; exact HI).
  assert (HG : forall k' v', G d' k' v' <-> (k' = k /\ v' = v) \/ (k' <> k /\ G d k' v')).
  { intros k' v'. unfold G at 1. rewrite in_concat_nth. unfold d'. cbn [Dict.table]. split.
    - intros (j & bj & H1 & H2). rewrite nth_error_upd in H1 by exact Hlt. destruct (Nat.eqb j c) eqn:E.
      + inv H1. apply Hb in H2. destruct H2 as [H2|[H2 H3]]; [left; exact H2|right; split; [exact H2|]].
        apply (G_bucket d k' v' HI). destruct (P2 c b Hbc) as [_ Hcell]. specialize (Hcell _ H3). cbn [fst] in Hcell.
        rewrite Hcell. exact H3.
      + apply Nat.eqb_neq in E. right. split.
        * intro; subst k'. destruct (P2 j bj H1) as [_ Hcell]. specialize (Hcell _ H2). cbn [fst] in Hcell. fold c in Hcell. lia.
        * unfold G. apply in_concat_nth. exists j, bj. tauto.
    - intros [[-> ->]|[Hne Hg]].
      + exists c, b'. rewrite nth_error_upd by exact Hlt. rewrite Nat.eqb_refl. split; [reflexivity|]. apply Hb. left. tauto.
      + pose proof Hg as Hg'. apply (G_bucket d k' v' HI) in Hg'.
        destruct (Nat.eq_dec (cell (tsize d) k') c) as [E|E].
        * exists c, b'. rewrite nth_error_upd by exact Hlt. rewrite Nat.eqb_refl. split; [reflexivity|]. apply Hb. right.
          split; [exact Hne|]. rewrite E in Hg'. exact Hg'.
        * exists (cell (tsize d) k'), (nth (cell (tsize d) k') (table d) []). rewrite nth_error_upd by exact Hlt.
          replace (Nat.eqb (cell (tsize d) k') c) with false by (symmetry; apply Nat.eqb_neq; exact E).
          split; [apply cell_bucket; exact HI|exact Hg']. }
  split; [|exact HG]. split; [|split].
  - rewrite Hts. exact P1.
  - intros i bi Hi. unfold d' in Hi. cbn [Dict.table] in Hi. rewrite nth_error_upd in Hi by exact Hlt. rewrite Hts.
    destruct (Nat.eqb i c) eqn:E.
    + inv Hi. apply Nat.eqb_eq in E. subst i. split; [exact Hn|]. intros [k' v'] He. cbn [fst]. apply Hb in He.
      destruct He as [[-> _]|[_ He]]; [reflexivity|]. destruct (P2 c b Hbc) as [_ Hcell]. apply (Hcell _ He).
    + apply P2. exact Hi.
  - unfold d'. cbn [Dict.count Dict.table]. pose proof (concat_upd_length (table d) c b' Hlt) as Hl. fold b in Hl. lia.
Qed.

(** * rehash *)
Lemma twin_cell : forall h p j, 0 <= p -> Z.land h (2 ^ p - 1) = j -> Z.land h (2 * 2 ^ p - 1) <> j ->
  Z.land h (2 * 2 ^ p - 1) = j + 2 ^ p.
Proof.
  intros h p j Hp H1 H2.
  assert (E2 : 2 * 2 ^ p = 2 ^ (p + 1)) by (rewrite Z.pow_add_r by lia; lia).
  rewrite E2 in *. rewrite land_mask in H1 by lia. rewrite land_mask in H2 by lia. rewrite land_mask by lia.
  rewrite <- E2 in *.
  assert (Hpos : 0 < 2 ^ p) by (apply Z.pow_pos_nonneg; lia).
  replace (2 * 2 ^ p) with (2 ^ p * 2) in * by lia.
  rewrite Z.rem_mul_r in * by lia.
  pose proof (Z.mod_pos_bound (h / 2 ^ p) 2 ltac:(lia)) as Hb.
  assert (E : (h / 2 ^ p) mod 2 = 0 \/ (h / 2 ^ p) mod 2 = 1) by lia.
  destruct E as [E|E]; rewrite E in *; lia.
Qed.

Lemma stay_cells_length : forall m s (t : list bucket), length (stay_cells m s t) = length t.
Proof. intros m s t. revert s. induction t as [|b r IH]; intro s; cbn; [reflexivity|]. f_equal. apply IH. Qed.
Lemma twin_cells_length : forall m s (t : list bucket), length (twin_cells m s t) = length t.
Proof. intros m s t. revert s. induction t as [|b r IH]; intro s; cbn; [reflexivity|]. f_equal. apply IH. Qed.
Lemma nth_error_stay : forall m (t : list bucket) s i,
  nth_error (stay_cells m s t) i = option_map (filter (stays m (s + Z.of_nat i))) (nth_error t i).
Proof.
  intros m t. induction t as [|b r IH]; intros s i; destruct i as [|i]; cbn [Dict.stay_cells nth_error option_map]; try reflexivity.
  - rewrite Z.add_0_r. reflexivity.
  - rewrite IH. replace (s + 1 + Z.of_nat i) with (s + Z.of_nat (S i)) by lia. reflexivity.
Qed.
Lemma nth_error_twin : forall m (t : list bucket) s i,
  nth_error (twin_cells m s t) i = option_map (fun b => rev (filter (moves m (s + Z.of_nat i)) b)) (nth_error t i).
Proof.
  intros m t. induction t as [|b r IH]; intros s i; destruct i as [|i]; cbn [Dict.twin_cells nth_error option_map]; try reflexivity.
  - rewrite Z.add_0_r. reflexivity.
  - rewrite IH. replace (s + 1 + Z.of_nat i) with (s + Z.of_nat (S i)) by lia. reflexivity.
Qed.
Lemma split_in : forall (e : K * Z) m (t : list bucket) s,
  In e (concat (stay_cells m s t)) \/ In e (concat (twin_cells m s t)) <-> In e (concat t).
Proof.
  intros e m t. induction t as [|b r IH]; intro s; cbn [Dict.stay_cells Dict.twin_cells concat]; [cbn; tauto|].
  rewrite !in_app_iff, <- (IH (s + 1)), <- in_rev, !filter_In. unfold Dict.moves.
  destruct (stays m s e); cbn [negb]; intuition congruence.
Qed.
Lemma filter_split_length : forall (p : K * Z -> bool) (b : bucket),
  (length (filter p b) + length (filter (fun e => negb (p e)) b) = length b)%nat.
Proof. intros p b. induction b as [|e r IH]; cbn; [reflexivity|]. destruct (p e); cbn; lia. Qed.
Lemma split_length : forall m (t : list bucket) s,
  (length (concat (stay_cells m s t)) + length (concat (twin_cells m s t)) = length (concat t))%nat.
Proof.
  intros m t. induction t as [|b r IH]; intro s; cbn [Dict.stay_cells Dict.twin_cells concat]; [reflexivity|].
  rewrite !app_length, rev_length. specialize (IH (s + 1)).
  pose proof (filter_split_length (stays m s) b) as H. unfold Dict.moves. lia.
Qed.
Lemma NoDup_map_filter : forall (p : K * Z -> bool) (b : bucket), NoDup (map fst b) -> NoDup (map fst (filter p b)).
Proof.
  intros p b. induction b as [|e r IH]; cbn; intro H; [constructor|]. inv H.
  destruct (p e); cbn; [constructor|]; try (apply IH; assumption).
  intro Hin. apply in_map_iff in Hin. destruct Hin as [x [Hx1 Hx2]]. apply filter_In in Hx2. destruct Hx2 as [Hx2 _].
  apply H2. rewrite <- Hx1. apply in_map. exact Hx2.
Qed.

Lemma rehash_inv : forall d, DInv d ->
  DInv (rehash d) /\ (forall k v, G (rehash d) k v <-> G d k v) /\ count (rehash d) = count d.
Proof.
  intros d HI. pose proof HI as ((p & Hp & Hs) & P2 & P3).
  set (m := 2 * tsize d - 1).
  assert (Hlen : length (table (rehash d)) = (2 * length (table d))%nat).
  { unfold Dict.rehash. cbn [Dict.table]. rewrite app_length, stay_cells_length, twin_cells_length. lia. }
  assert (Hts : tsize (rehash d) = 2 * tsize d) by (unfold Dict.tsize; rewrite Hlen; lia).
  split; [|split].
  - split; [|split].
    + exists (p + 1). split; [lia|]. rewrite Hts, Hs, Z.pow_add_r by lia. lia.
    + intros i b Hi. rewrite Hts. unfold Dict.rehash in Hi. cbn [Dict.table] in Hi. fold m in Hi.
      destruct (Nat.ltb i (length (table d))) eqn:E.
      * apply Nat.ltb_lt in E. rewrite nth_error_app1 in Hi by (rewrite stay_cells_length; exact E).
        rewrite nth_error_stay in Hi. destruct (nth_error (table d) i) as [b0|] eqn:E0; [|discriminate]. inv Hi.
        destruct (P2 i b0 E0) as [Hn Hc]. split; [apply NoDup_map_filter; exact Hn|].
        intros e He. apply filter_In in He. destruct He as [_ He]. unfold Dict.stays in He. unfold Dict.cell.
        replace (2 * tsize d - 1) with m by reflexivity. lia.
      * apply Nat.ltb_ge in E. rewrite nth_error_app2 in Hi by (rewrite stay_cells_length; exact E).
        rewrite stay_cells_length, nth_error_twin in Hi.
        destruct (nth_error (table d) (i - length (table d))) as [b0|] eqn:E0; [|discriminate]. inv Hi.
        destruct (P2 _ b0 E0) as [Hn Hc]. split; [rewrite map_rev; apply NoDup_rev; apply NoDup_map_filter; exact Hn|].
        intros e He. apply in_rev in He. apply filter_In in He. destruct He as [He1 He2].
        specialize (Hc e He1). unfold Dict.moves, Dict.stays in He2. unfold Dict.cell in *.
        assert (Hi' : (i - length (table d) < length (table d))%nat) by (apply nth_error_Some; congruence).
        pose proof (Z.land_nonneg (hash (fst e)) (tsize d - 1)) as Hnn.
        assert (Hl1 : Z.land (hash (fst e)) (2 ^ p - 1) = Z.of_nat (i - length (table d))).
        { rewrite <- Hs. destruct Hnn as [_ Hnn]. specialize (Hnn (or_introl (hash_nonneg (fst e)))). lia. }
        pose proof (twin_cell (hash (fst e)) p _ Hp Hl1) as Ht. rewrite <- Hs in Ht.
        replace (2 * tsize d - 1) with m by reflexivity. fold m in Ht.
        assert (Hne : Z.land (hash (fst e)) m <> Z.of_nat (i - length (table d))) by lia.
        specialize (Ht Hne). unfold Dict.tsize in *. lia.
    + unfold Dict.rehash. cbn [Dict.count Dict.table]. rewrite concat_app, app_length. rewrite P3.
      pose proof (split_length (2 * tsize d - 1) (table d) 0). lia.
  - intros k v. unfold G, Dict.rehash. cbn [Dict.table]. rewrite concat_app, in_app_iff. apply split_in.
  - reflexivity.
Qed.

(** * the finite-map laws *)
Lemma empty_inv : DInv empty.
Proof.
  split; [|split].
  - exists 7. split; [lia|reflexivity].
  - intros i b Hi. unfold Dict.empty in Hi. cbn [Dict.table] in Hi. apply nth_error_In in Hi. apply repeat_spec in Hi.
    subst b. split; [constructor|intros e []].
  - reflexivity.
Qed.
Theorem get_empty : forall k, get empty k = None.
Proof.
  intro k. apply get_none_iff; [apply empty_inv|]. intros v H. unfold G, Dict.empty in H. cbn [Dict.table] in H.
  apply in_concat in H. destruct H as [b [H1 H2]]. apply repeat_spec in H1. subst b. destruct H2.
Qed.

Lemma set_G : forall d k v, DInv d ->
  DInv (set d k v) /\ (forall k' v', G (set d k v) k' v' <-> (k' = k /\ v' = v) \/ (k' <> k /\ G d k' v'))
  /\ count (set d k v) = count d + match get d k with Some _ => 0 | None => 1 end.
Proof.
  intros d k v HI. pose proof HI as (P1 & P2 & P3).
  pose proof (cell_bucket d k HI) as Hb. destruct (P2 _ _ Hb) as [Hn Hc].
  unfold Dict.set, Dict.get. set (c := cell (tsize d) k) in *. set (b := nth c (table d) []) in *.
  destruct (bfind k b) as [x|] eqn:Ef.
  - assert (Hf : bfind k b <> None) by congruence.
    destruct (breplace_spec k v b Hn Hf) as [R1 R2].
    destruct (upd_cell_inv d k v (breplace k v b) (count d) (fill d) HI) as [U1 U2].
    + rewrite R1. exact Hn.
    + exact R2.
    + fold c. fold b. apply (f_equal (@length K)) in R1. rewrite !map_length in R1. lia.
    + split; [exact U1|]. split; [exact U2|]. cbn [Dict.count]. lia.
  - destruct b as [|e0 b0] eqn:Eb.
    + set (d1 := mkDict (upd c [(k, v)] (table d)) (count d + 1) (fill d + 1)).
      destruct (upd_cell_inv d k v [(k, v)] (count d + 1) (fill d + 1) HI) as [U1 U2].
      * repeat constructor. intros [].
      * fold c. fold b. rewrite Eb. intros k' v'. cbn [In]. split; [intros [H|[]]; inv H; left; tauto|intros [[-> ->]|[_ []]]; left; reflexivity].
      * fold c. fold b. rewrite Eb. cbn [length]. lia.
      * fold c in U1, U2. fold d1 in U1, U2.
        destruct (fill d1 * 100 / tsize d1 >? 80).
        -- destruct (rehash_inv d1 U1) as (H1 & H2 & H3). split; [exact H1|]. split.
           ++ intros k' v'. rewrite H2. apply U2.
           ++ rewrite H3. reflexivity.
        -- split; [exact U1|]. split; [exact U2|reflexivity].
    + rewrite <- Eb in *. destruct (bappend_spec k v b Hn Ef) as [A1 A2].
      destruct (upd_cell_inv d k v (b ++ [(k, v)]) (count d + 1) (fill d) HI) as [U1 U2].
      * exact A1.
      * exact A2.
      * fold c. fold b. rewrite app_length. cbn [length]. lia.
      * fold c in U1, U2. fold b in U1, U2. rewrite Eb in U1, U2. rewrite Eb. split; [exact U1|]. split; [exact U2|reflexivity].
Qed.

Theorem set_inv : forall d k v, DInv d -> DInv (set d k v).
Proof. intros d k v HI. apply set_G. exact HI. Qed.
Theorem get_set_same : forall d k v, DInv d -> get (set d k v) k = Some v.
Proof.
  intros d k v HI. destruct (set_G d k v HI) as (H1 & H2 & _). apply get_iff; [exact H1|]. apply H2. left. tauto.
Qed.
Theorem get_set_other : forall d k v k', DInv d -> k' <> k -> get (set d k v) k' = get d k'.
Proof.
  intros d k v k' HI Hne. destruct (set_G d k v HI) as (H1 & H2 & _). apply option_ext. intro x.
  rewrite (get_iff _ _ _ H1), (get_iff _ _ _ HI), H2. split; [intros [[E _]|[_ H]]; [contradiction|exact H]|intro H; right; tauto].
Qed.
Theorem count_set : forall d k v, DInv d ->
  count (set d k v) = count d + match get d k with Some _ => 0 | None => 1 end.
Proof. intros d k v HI. apply set_G. exact HI. Qed.

Theorem remove_spec : forall d k, DInv d ->
  match remove d k with
  | None => get d k = None
  | Some d' => get d k <> None /\ DInv d' /\ get d' k = None /\ (forall k', k' <> k -> get d' k' = get d k')
               /\ count d' = count d - 1
  end.
Proof.
  intros d k HI. pose proof HI as (P1 & P2 & P3).
  pose proof (cell_bucket d k HI) as Hb. destruct (P2 _ _ Hb) as [Hn Hc].
  unfold Dict.remove. set (c := cell (tsize d) k) in *. set (b := nth c (table d) []) in *.
  destruct (bfind k b) as [x|] eqn:Ef; [|unfold Dict.get; exact Ef].
  assert (Hf : bfind k b <> None) by congruence. split; [unfold Dict.get; exact Hf|].
  destruct (bremove_spec k b Hn) as (R1 & R2 & R3). specialize (R3 Hf).
  set (d' := mkDict (upd c (bremove k b) (table d)) (count d - 1) (fill d - (if Dict.nonempty K (bremove k b) then 0 else 1))).
  pose proof (cell_lt d k HI) as Hlt. fold c in Hlt.
  assert (Hts : tsize d' = tsize d) by (unfold Dict.tsize, d'; cbn [Dict.table]; rewrite upd_length; reflexivity).
  assert (HG : forall k' v', G d' k' v' <-> k' <> k /\ G d k' v').
  { intros k' v'. unfold G at 1. rewrite in_concat_nth. unfold d'. cbn [Dict.table]. split.
    - intros (j & bj & H1 & H2). rewrite nth_error_upd in H1 by exact Hlt. destruct (Nat.eqb j c) eqn:E.
      + inv H1. apply R2 in H2. destruct H2 as [H2 H3]. split; [exact H2|].
        apply (G_bucket d k' v' HI). specialize (Hc _ H3). cbn [fst] in Hc. rewrite Hc. exact H3.
      + apply Nat.eqb_neq in E. split.
        * intro; subst k'. destruct (P2 j bj H1) as [_ Hcell]. specialize (Hcell _ H2). cbn [fst] in Hcell. fold c in Hcell. lia.
        * unfold G. apply in_concat_nth. exists j, bj. tauto.
    - intros [Hne Hg]. pose proof Hg as Hg'. apply (G_bucket d k' v' HI) in Hg'.
      destruct (Nat.eq_dec (cell (tsize d) k') c) as [E|E].
      + exists c, (bremove k b). rewrite nth_error_upd by exact Hlt. rewrite Nat.eqb_refl. split; [reflexivity|]. apply R2.
        split; [exact Hne|]. rewrite E in Hg'. exact Hg'.
      + exists (cell (tsize d) k'), (nth (cell (tsize d) k') (table d) []). rewrite nth_error_upd by exact Hlt.
        replace (Nat.eqb (cell (tsize d) k') c) with false by (symmetry; apply Nat.eqb_neq; exact E).
        split; [apply cell_bucket; exact HI|exact Hg']. }
  assert (HI' : DInv d').
  { split; [|split].
    - rewrite Hts. exact P1.
    - intros i bi Hi. unfold d' in Hi. cbn [Dict.table] in Hi. rewrite nth_error_upd in Hi by exact Hlt. rewrite Hts.
      destruct (Nat.eqb i c) eqn:E.
      + inv Hi. apply Nat.eqb_eq in E. subst i. split; [exact R1|]. intros [k' v'] He. apply R2 in He. apply (Hc _ (proj2 He)).
      + apply P2. exact Hi.
    - unfold d'. cbn [Dict.count Dict.table]. pose proof (concat_upd_length (table d) c (bremove k b) Hlt) as Hl. fold b in Hl. lia. }
  split; [exact HI'|]. split; [|split].
  - apply get_none_iff; [exact HI'|]. intros v Hg. apply HG in Hg. tauto.
  - intros k' Hne. apply option_ext. intro x0. rewrite (get_iff _ _ _ HI'), (get_iff _ _ _ HI), HG. tauto.
  - reflexivity.
Qed.

Lemma NoDup_keys_app : forall (b r : bucket), NoDup (map fst b) -> NoDup (map fst r) ->
  (forall e e', In e b -> In e' r -> fst e <> fst e') -> NoDup (map fst (b ++ r)).
Proof.
  induction b as [|e b' IHb]; intros r Hb Hr Hd; [exact Hr|]. cbn [map app]. inv Hb. constructor.
  - rewrite map_app, in_app_iff. intros [Hin|Hin]; [contradiction|].
    apply in_map_iff in Hin. destruct Hin as [e' [Hx1 Hx2]]. apply (Hd e e'); [left; reflexivity|exact Hx2|congruence].
  - apply IHb; [assumption|exact Hr|]. intros x y Hx Hy. apply Hd; [right; exact Hx|exact Hy].
Qed.

(* enumeration: each key once, exactly the bindings of the map, as many as [count] says *)
Theorem enumerate_spec : forall d, DInv d ->
  NoDup (map fst (enumerate d)) /\ (forall k v, In (k, v) (enumerate d) <-> get d k = Some v)
  /\ count d = Z.of_nat (length (enumerate d)).
Proof.
  intros d HI. pose proof HI as (P1 & P2 & P3). split; [|split].
  - unfold Dict.enumerate.
    assert (Hgen : forall (t : list bucket) s,
      (forall i b, nth_error t i = Some b -> NoDup (map fst b) /\ forall e, In e b -> cell (tsize d) (fst e) = (s + i)%nat) ->
      NoDup (map fst (concat t))).
    { induction t as [|b r IH]; intros s H; [constructor|]. cbn [concat].
      destruct (H 0%nat b eq_refl) as [Hn Hc].
      assert (Hr : NoDup (map fst (concat r))).
      { apply (IH (S s)). intros i bi Hi. destruct (H (S i) bi Hi) as [H1 H2]. split; [exact H1|]. intros e He. rewrite (H2 e He). lia. }
      apply NoDup_keys_app; [exact Hn|exact Hr|]. intros e e' He He' Heq.
      apply in_concat_nth in He'. destruct He' as (j & bj & Hj1 & Hj2).
      destruct (H (S j) bj Hj1) as [_ Hj3]. specialize (Hj3 _ Hj2). specialize (Hc _ He). rewrite Heq in Hc. lia. }
    apply (Hgen (table d) 0%nat). intros i b Hi. destruct (P2 i b Hi) as [H1 H2]. split; [exact H1|]. exact H2.
  - intros k v. symmetry. apply get_iff. exact HI.
  - exact P3.
Qed.
End DictProofs.

(** the instance run by the correspondence satisfies the Section hypotheses *)
Lemma leqb_eq : forall a b, leqb a b = true <-> a = b.
Proof.
  induction a as [|x a IH]; intros [|y b]; cbn; split; intro H; try reflexivity; try discriminate.
  - apply andb_true_iff in H. destruct H as [H1 H2]. apply IH in H2. f_equal; [lia|exact H2].
  - inv H. apply andb_true_iff. split; [lia|apply IH; reflexivity].
Qed.
Lemma djb2_nonneg : forall s, 0 <= djb2 s.
Proof.
  intro s. unfold djb2. assert (H : forall l h, 0 <= h -> 0 <= fold_left (fun h c => (h * 33 + c) mod 2 ^ 32) l h).
  { induction l as [|c r IH]; intros h Hh; cbn [fold_left]; [exact Hh|]. apply IH. apply Z.mod_pos_bound. lia. }
  apply H. lia.
Qed.
