(** C27 — proofs about Xbt/Strtod.v and Xbt/Units.v *)
From SGV Require Import Base.Tactics Xbt.Strtod Xbt.Units Gen.UnitsTable.
From Coq Require Import QArith.
Local Open Scope Z_scope.

(** * finite maps *)
Lemma str_eqb_eq : forall a b, str_eqb a b = true <-> a = b.
Proof.
  induction a as [|x a IH]; destruct b as [|y b]; cbn; split; intro H; try congruence; try discriminate.
  - apply andb_true_iff in H as [H1 H2]. apply Z.eqb_eq in H1. apply IH in H2. congruence.
  - inv H. apply andb_true_iff; split; [apply Z.eqb_refl | apply IH; reflexivity].
Qed.

Lemma lookup_in : forall t u v, lookup t u = Some v -> In (u, v) t.
Proof.
  induction t as [|[k w] t IH]; cbn; intros u v H; [discriminate|].
  destruct (str_eqb k u) eqn:E.
  - apply str_eqb_eq in E. inv H. now left.
  - right. now apply IH.
Qed.

Lemma oq_eqb_eq : forall a b, oq_eqb a b = true -> a = b.
Proof.
  intros [[n1 d1]|] [[n2 d2]|]; cbn; intro H; try discriminate; try reflexivity.
  apply andb_true_iff in H as [H1 H2]. apply Z.eqb_eq in H1. apply Pos.eqb_eq in H2. congruence.
Qed.

Lemma agree_on_sound : forall t1 t2 u v,
  maps_agree_on t1 t2 = true -> lookup t1 u = Some v -> lookup t1 u = lookup t2 u.
Proof.
  intros t1 t2 u v H L. unfold maps_agree_on in H. rewrite forallb_forall in H.
  apply lookup_in in L. specialize (H _ L). cbn in H. now apply oq_eqb_eq.
Qed.

Lemma maps_equiv_sound : forall t1 t2, maps_equiv_b t1 t2 = true -> forall u, lookup t1 u = lookup t2 u.
Proof.
  intros t1 t2 H u. apply andb_true_iff in H as [H1 H2].
  destruct (lookup t1 u) as [v|] eqn:L1.
  - rewrite <- L1. eapply agree_on_sound; eauto.
  - destruct (lookup t2 u) as [w|] eqn:L2; [|reflexivity].
    rewrite <- L1, <- L2. symmetry. eapply agree_on_sound; eauto.
Qed.

(** * the regenerated table is the documented one *)
Lemma table_is_documented : forall k u, lookup (table k) u = lookup (doc_units k) u.
Proof.
  intros k u. apply maps_equiv_sound. unfold table, doc_units.
  destruct (k =? 0); [vm_compute; reflexivity|].
  destruct (k =? 1); [vm_compute; reflexivity|].
  destruct (k =? 2); vm_compute; reflexivity.
Qed.

Lemma default_is_documented : forall k, default_unit k = doc_default k.
Proof.
  intro k. unfold default_unit, doc_default.
  destruct (k =? 0); [vm_compute; reflexivity|].
  destruct (k =? 1); [vm_compute; reflexivity|].
  destruct (k =? 2); vm_compute; reflexivity.
Qed.

(* every base the generator tuples use is known to the constructor (THROW_IMPOSSIBLE unreachable) *)
Lemma table_bases_known :
  forallb (fun g => match g with (_, _, base, _) => match gen_mult base with Some _ => true | None => false end end)
          (gen_tuples_time ++ gen_tuples_size ++ gen_tuples_bandwidth ++ gen_tuples_speed) = true.
Proof. vm_compute. reflexivity. Qed.

Lemma parse_impl_is_doc : forall k s, parse_impl k s = parse_doc k s.
Proof.
  intros k s. unfold parse_impl, parse_doc, parse_with. rewrite default_is_documented.
  destruct (strtod s) as [|q rest|neg rest|rest]; try reflexivity; rewrite table_is_documented; reflexivity.
Qed.

Definition key_ok (kv : str * Q) : bool :=
  unit_shape (fst kv) && match fst kv with [] => false | _ => true end && Qle_bool 0 (snd kv).
Lemma doc_keys_ok : forall k u m, lookup (doc_units k) u = Some m -> unit_shape u = true /\ u <> [] /\ (0 <= m)%Q.
Proof.
  intros k u m L. apply lookup_in in L.
  assert (F : forallb key_ok (doc_units k) = true).
  { unfold doc_units. destruct (k =? 0); [vm_compute; reflexivity|].
    destruct (k =? 1); [vm_compute; reflexivity|]. destruct (k =? 2); vm_compute; reflexivity. }
  rewrite forallb_forall in F. specialize (F _ L). unfold key_ok in F. cbn [fst snd] in F.
  apply andb_true_iff in F as [F F3]. apply andb_true_iff in F as [F1 F2].
  split; [exact F1|]. split; [destruct u; [discriminate|congruence]|]. now apply Qle_bool_iff.
Qed.

(** * the decimal numbers of the property text: [spaces][sign]digits[.digits][(e|E)[sign]digits] *)
Record dnum := {
  d_sp : str;                              (* leading white space *)
  d_sign : option bool;                    (* Some true = '-' *)
  d_ip : str;                              (* integer part *)
  d_dot : bool;
  d_fp : str;                              (* fraction part *)
  d_exp : option (Z * option bool * str)   (* exponent letter, sign, digits *)
}.
Definition sign_str (o : option bool) : str :=
  match o with None => [] | Some true => [45] | Some false => [43] end.
Definition is_neg (o : option bool) : bool := match o with Some true => true | _ => false end.
Definition exp_str (x : option (Z * option bool * str)) : str :=
  match x with None => [] | Some (ec, sg, ed) => ec :: sign_str sg ++ ed end.
Definition exp_val (x : option (Z * option bool * str)) : Z :=
  match x with None => 0 | Some (_, sg, ed) => if is_neg sg then - digits_val ed else digits_val ed end.
Definition dot_str (d : dnum) : str := if d_dot d then 46 :: d_fp d else [].
Definition render (d : dnum) : str :=
  d_sp d ++ sign_str (d_sign d) ++ d_ip d ++ dot_str d ++ exp_str (d_exp d).
Definition all (p : Z -> bool) (s : str) : Prop := forallb p s = true.
Definition wf (d : dnum) : Prop :=
  all is_space (d_sp d) /\ all is_digit (d_ip d) /\ all is_digit (d_fp d) /\ d_ip d ++ d_fp d <> [] /\
  (d_dot d = false -> d_fp d = []) /\
  match d_exp d with None => True | Some (ec, _, ed) => is_e ec = true /\ all is_digit ed /\ ed <> [] end.
(* positional notation *)
Definition dvalue (d : dnum) : Q :=
  apply_sign (is_neg (d_sign d)) (scale 10 (digits_val (d_ip d ++ d_fp d)) (exp_val (d_exp d) - len (d_fp d))).

Definition hd_not (p : Z -> bool) (s : str) : Prop := match s with [] => True | c :: _ => p c = false end.

Lemma span_app : forall p a r, all p a -> hd_not p r -> span p (a ++ r) = (a, r).
Proof.
  induction a as [|c a IH]; cbn; intros r Ha Hr.
  - destruct r as [|c r]; [reflexivity|]. cbn in Hr. cbn. now rewrite Hr.
  - unfold all in Ha. cbn in Ha. apply andb_true_iff in Ha as [H1 H2]. rewrite H1, IH; auto.
Qed.

Lemma skip_spaces_app : forall a r, all is_space a -> hd_not is_space r -> skip_spaces (a ++ r) = r.
Proof.
  induction a as [|c a IH]; cbn; intros r Ha Hr.
  - destruct r as [|c r]; [reflexivity|]. cbn in Hr. cbn. now rewrite Hr.
  - unfold all in Ha. cbn in Ha. apply andb_true_iff in Ha as [H1 H2]. rewrite H1. now apply IH.
Qed.

Lemma digit_facts : forall c, is_digit c = true ->
  is_space c = false /\ is_sign c = false /\ is_x c = false /\ is_dot c = false /\ is_e c = false /\ c <> 48 \/
  c = 48 /\ is_space c = false /\ is_sign c = false /\ is_x c = false /\ is_dot c = false /\ is_e c = false.
Proof. unfold is_digit, is_space, is_sign, is_x, is_dot, is_e. intros c H. lia. Qed.

Lemma digit_not : forall c, is_digit c = true ->
  is_space c = false /\ is_sign c = false /\ is_x c = false /\ is_dot c = false /\ is_e c = false.
Proof. unfold is_digit, is_space, is_sign, is_x, is_dot, is_e. intros c H. lia. Qed.
Lemma e_not : forall c, is_e c = true ->
  is_space c = false /\ is_sign c = false /\ is_x c = false /\ is_dot c = false /\ is_digit c = false.
Proof. unfold is_digit, is_space, is_sign, is_x, is_dot, is_e. intros c H. lia. Qed.

Lemma unit_shape_hd : forall u, unit_shape u = true ->
  hd_not is_digit u /\ hd_not is_dot u /\ hd_not is_x u /\ hd_not is_space u /\ hd_not is_sign u.
Proof.
  intros [|c r] H; cbn; [tauto|]. cbn in H.
  repeat (apply andb_true_iff in H as [H ?]). repeat split; now apply negb_true_iff.
Qed.

Lemma span_nil : forall p s, hd_not p s -> span p s = ([], s).
Proof. intros p [|c r] H; cbn; [reflexivity|]. cbn in H. now rewrite H. Qed.

Lemma parse_exp_unit : forall u, unit_shape u = true -> parse_exp is_e u = (0, u).
Proof.
  intros [|c r] H; [reflexivity|]. cbn in H. cbn [parse_exp].
  destruct (is_e c) eqn:Ee; [|reflexivity].
  repeat (apply andb_true_iff in H as [H ?]).
  destruct r as [|d r']; [reflexivity|].
  match goal with X : _ && _ = true |- _ => apply andb_true_iff in X as [Hd Hs] end.
  apply negb_true_iff in Hd. unfold split_sign.
  destruct (is_sign d) eqn:Es.
  - destruct r' as [|d2 r'']; [reflexivity|]. apply negb_true_iff in Hs.
    rewrite span_nil by (cbn; exact Hs). reflexivity.
  - rewrite span_nil by (cbn; exact Hd). reflexivity.
Qed.

Lemma split_sign_str : forall sg r, hd_not is_sign r -> split_sign (sign_str sg ++ r) = (is_neg sg, r).
Proof.
  intros [[|]|] r H; cbn; try reflexivity.
  destruct r as [|c r]; [reflexivity|]. cbn in H. cbn. now rewrite H.
Qed.

Lemma hd_not_app : forall p a b, (a = [] -> hd_not p b) -> (forall c r, a = c :: r -> p c = false) -> hd_not p (a ++ b).
Proof. intros p [|c a] b H1 H2; cbn; [auto|]. eapply H2; eauto. Qed.

Lemma all_hd : forall p q a, all p a -> (forall c, p c = true -> q c = false) -> forall c r, a = c :: r -> q c = false.
Proof. intros p q a Ha Hpq c r ->. unfold all in Ha. cbn in Ha. apply andb_true_iff in Ha as [H _]. auto. Qed.

Lemma parse_exp_str : forall x u,
  match x with None => True | Some (ec, _, ed) => is_e ec = true /\ all is_digit ed /\ ed <> [] end ->
  unit_shape u = true -> parse_exp is_e (exp_str x ++ u) = (exp_val x, u).
Proof.
  intros [[[ec sg] ed]|] u Hx Hu; cbn [exp_str exp_val app]; [|now apply parse_exp_unit].
  destruct Hx as (He & Hd & Hne). cbn [parse_exp]. rewrite He. rewrite <- app_assoc.
  destruct ed as [|c ed]; [congruence|].
  rewrite split_sign_str.
  2:{ cbn. unfold all in Hd. cbn in Hd. apply andb_true_iff in Hd as [H _]. now apply digit_not in H. }
  rewrite span_app; [reflexivity|exact Hd|]. now apply unit_shape_hd.
Qed.

Lemma exp_str_hd : forall (q : Z -> bool) x u,
  match x with None => True | Some (ec, _, ed) => is_e ec = true /\ all is_digit ed /\ ed <> [] end ->
  (forall c, is_e c = true -> q c = false) -> hd_not q u -> hd_not q (exp_str x ++ u).
Proof.
  intros q [[[ec sg] ed]|] u Hx Hq Hu; cbn; [|exact Hu]. apply Hq. tauto.
Qed.

(* what strtod does on the rendering of a well-formed decimal number followed by a unit-shaped string *)
Lemma strtod_render : forall d u, wf d -> unit_shape u = true -> strtod (render d ++ u) = NumFin (dvalue d) u.
Proof.
  intros [sp sg ip dot fp ex] u (Hsp & Hip & Hfp & Hne & Hdot & Hex) Hu.
  unfold render, dvalue, dot_str in *. cbn [d_sp d_sign d_ip d_dot d_fp d_exp] in *.
  pose proof (unit_shape_hd _ Hu) as (Ud & Udot & Ux & Usp & Usg).
  set (X := exp_str ex ++ u).
  assert (Xd : hd_not is_digit X) by (apply exp_str_hd; auto; intros c Hc; now apply e_not in Hc).
  assert (Xdot : hd_not is_dot X) by (apply exp_str_hd; auto; intros c Hc; now apply e_not in Hc).
  assert (Xx : hd_not is_x X) by (apply exp_str_hd; auto; intros c Hc; now apply e_not in Hc).
  assert (Xsp : hd_not is_space X) by (apply exp_str_hd; auto; intros c Hc; now apply e_not in Hc).
  assert (Xsg : hd_not is_sign X) by (apply exp_str_hd; auto; intros c Hc; now apply e_not in Hc).
  set (D := (if dot then 46 :: fp else []) ++ X).
  assert (Dd : hd_not is_digit D) by (unfold D; destruct dot; cbn; auto).
  assert (Dx : hd_not is_x D) by (unfold D; destruct dot; cbn; auto).
  assert (Dsp : hd_not is_space D) by (unfold D; destruct dot; cbn; auto).
  assert (Dsg : hd_not is_sign D) by (unfold D; destruct dot; cbn; auto).
  set (M := ip ++ D).
  assert (Msp : hd_not is_space M).
  { unfold M. apply hd_not_app; auto. eapply all_hd; eauto. intros c Hc. now apply digit_not in Hc. }
  assert (Msg : hd_not is_sign M).
  { unfold M. apply hd_not_app; auto. eapply all_hd; eauto. intros c Hc. now apply digit_not in Hc. }
  assert (Heq : (sp ++ sign_str sg ++ ip ++ (if dot then 46 :: fp else []) ++ exp_str ex) ++ u
                = sp ++ (sign_str sg ++ M)) by (unfold M, D, X; now rewrite <- !app_assoc).
  transitivity (strtod (sp ++ (sign_str sg ++ M))); [f_equal; exact Heq|].
  unfold strtod. rewrite skip_spaces_app; auto.
  2:{ destruct sg as [[|]|]; cbn; auto. }
  rewrite split_sign_str by exact Msg.
  (* not hexadecimal *)
  assert (Hhex : try_hex M = None).
  { unfold M. destruct ip as [|c1 [|c2 ip']]; cbn [app try_hex].
    - unfold D. destruct dot; cbn [app].
      + destruct fp as [|f fp']; [cbn in Hne; congruence|]. reflexivity.
      + cbn in Hne. rewrite Hdot in Hne by reflexivity. congruence.
    - destruct D as [|x r]; [reflexivity|]. cbn in Dx. rewrite Dx. now rewrite andb_false_r.
    - unfold all in Hip. cbn in Hip. apply andb_true_iff in Hip as [_ H2]. apply andb_true_iff in H2 as [H2 _].
      apply digit_not in H2. destruct H2 as (_ & _ & H2 & _). rewrite H2. now rewrite andb_false_r. }
  rewrite Hhex.
  (* decimal significand *)
  assert (Hsig : parse_signif is_digit M = (ip, fp, X)).
  { unfold parse_signif, M. rewrite span_app by auto. unfold D. destruct dot.
    - cbn [app]. replace (is_dot 46) with true by reflexivity. rewrite span_app by auto. reflexivity.
    - cbn [app]. rewrite Hdot by reflexivity. destruct X as [|c r]; [reflexivity|]. cbn in Xdot. now rewrite Xdot. }
  unfold parse_dec. rewrite Hsig.
  destruct (ip ++ fp) as [|z l] eqn:E; [congruence|].
  unfold X. rewrite parse_exp_str by auto. reflexivity.
Qed.

(** * theorems about the parser with units *)
Lemma value_with_unit : forall k d u m,
  wf d -> erange (dvalue d) = false -> lookup (doc_units k) u = Some m ->
  parse_impl k (render d ++ u) = Val (dvalue d) m.
Proof.
  intros k d u m Hwf Hr L. destruct (doc_keys_ok _ _ _ L) as (Hs & Hne & _).
  rewrite parse_impl_is_doc. unfold parse_doc, parse_with. rewrite strtod_render by auto. rewrite Hr.
  destruct u; [congruence|]. now rewrite L.
Qed.

Lemma value_default_unit : forall k d m,
  wf d -> erange (dvalue d) = false -> lookup (doc_units k) (doc_default k) = Some m ->
  parse_impl k (render d) = Val (dvalue d) m.
Proof.
  intros k d m Hwf Hr L. rewrite parse_impl_is_doc. unfold parse_doc, parse_with.
  rewrite <- (app_nil_r (render d)). rewrite strtod_render by auto. rewrite Hr. now rewrite L.
Qed.

Lemma unknown_unit_rejected : forall k d u,
  wf d -> unit_shape u = true -> u <> [] -> lookup (doc_units k) u = None ->
  parse_impl k (render d ++ u) = Reject.
Proof.
  intros k d u Hwf Hs Hne L. rewrite parse_impl_is_doc. unfold parse_doc, parse_with.
  rewrite strtod_render by auto. destruct (erange (dvalue d)); [reflexivity|].
  destruct u; [congruence|]. now rewrite L.
Qed.

Lemma range_rejected : forall k d u,
  wf d -> unit_shape u = true -> erange (dvalue d) = true -> parse_impl k (render d ++ u) = Reject.
Proof.
  intros k d u Hwf Hs Hr. rewrite parse_impl_is_doc. unfold parse_doc, parse_with.
  rewrite strtod_render by auto. now rewrite Hr.
Qed.

(* strings that do not begin (after white space and a sign) with a digit, ".digit", "inf" or "nan" *)
Definition is_some {A} (o : option A) : bool := match o with Some _ => true | None => false end.
Definition starts_number (s : str) : bool :=
  let s2 := snd (split_sign (skip_spaces s)) in
  match s2 with
  | [] => false
  | c :: r => is_digit c || (is_dot c && match r with d :: _ => is_digit d | [] => false end)
              || is_some (strip_ci [105; 110; 102] s2) || is_some (strip_ci [110; 97; 110] s2)
  end.

Lemma no_number_rejected : forall k s, starts_number s = false -> parse_impl k s = Reject.
Proof.
  intros k s H. rewrite parse_impl_is_doc. unfold parse_doc, parse_with.
  assert (E : strtod s = NumNone); [|now rewrite E].
  unfold strtod, starts_number in *.
  destruct (split_sign (skip_spaces s)) as [neg s2]. cbn [snd] in H.
  destruct s2 as [|c r].
  - reflexivity.
  - apply orb_false_iff in H as [H Hnan]. apply orb_false_iff in H as [H Hinf].
    apply orb_false_iff in H as [Hd Hdot].
    assert (Hh : try_hex (c :: r) = None).
    { cbn. destruct r as [|x r']; [reflexivity|].
      destruct (c =? 48) eqn:E0; [|reflexivity]. apply Z.eqb_eq in E0. subst c. discriminate. }
    rewrite Hh.
    assert (Hp : parse_dec (c :: r) = None).
    { unfold parse_dec, parse_signif. rewrite span_nil by (cbn; exact Hd).
      destruct (is_dot c) eqn:Ed.
      - cbn in Hdot. destruct r as [|d r']; [reflexivity|]. rewrite span_nil by (cbn; exact Hdot). reflexivity.
      - reflexivity. }
    rewrite Hp. unfold parse_special.
    destruct (strip_ci [105; 110; 102] (c :: r)); [discriminate|].
    destruct (strip_ci [110; 97; 110] (c :: r)); [discriminate|]. reflexivity.
Qed.

(** * the oracle *)
Definition conforms (spec : outcome) (o : obs) : Prop :=
  match spec, o with
  | Reject, ORej => True
  | Val v m, OVal r => (r == v * m)%Q \/ close r (v * m)%Q = true
  | Val v m, OInf neg => huge (v * m)%Q = true
  | Inf n, OInf n' => n = n'
  | NaN, ONan => True
  | _, _ => False
  end.

Lemma oracle_sound : forall k s o, c27_ok k s o = true -> conforms (parse_impl k s) o.
Proof.
  intros k s o H. rewrite parse_impl_is_doc. unfold c27_ok in H. unfold conforms.
  destruct (parse_doc k s) as [|v m|n|]; destruct o as [|r|n'|]; try discriminate; auto.
  - destruct (representable v && representable m && representable (v * m)%Q).
    + left. now apply Qeq_bool_iff.
    + now right.
  - now apply andb_true_iff in H as [H _].
  - now apply eqb_prop.
Qed.
