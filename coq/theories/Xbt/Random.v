(** C45 — random draws of the default (xbt) generator: src/xbt/random.cpp, XbtRandom.  Model only.
    MT19937 (std::mt19937 as the C++ standard defines it: seeding, twist, tempering) written on Z with explicit
    mod 2^32; XbtRandom::uniform_int with its unsigned / unsigned long / int conversions written explicitly;
    XbtRandom::uniform_real reduced to its integer numerator (the binary64 part is judged in Q by the check).
    Draw functions consume an explicit stream of raw 32-bit outputs, so no fuel is needed. *)
From SGV Require Import Base.Tactics.
Local Open Scope Z_scope.

Definition W32 : Z := 2 ^ 32.
Definition W64 : Z := 2 ^ 64.
Definition GMAX : Z := 2 ^ 32 - 1.          (* std::mt19937::max() *)

(** * MT19937 *)
Definition mt_n : Z := 624.
Definition mt_m : Z := 397.
Definition UPPER : Z := 2147483648.         (* 0x80000000 *)
Definition LOWER : Z := 2147483647.         (* 0x7fffffff *)
Definition MATRIX_A : Z := 2567483615.      (* 0x9908b0df *)

Fixpoint mt_init_go (n : nat) (i prev : Z) : list Z :=
  match n with
  | O => []
  | S n' => let x := (1812433253 * (Z.lxor prev (Z.shiftr prev 30)) + i) mod W32 in x :: mt_init_go n' (i + 1) x
  end.
(* seed(value): value is the int seed converted to result_type, reduced mod 2^32 *)
Definition mt_init (seed : Z) : list Z := let s0 := seed mod W32 in s0 :: mt_init_go 623 1 s0.

Definition nthz (l : list Z) (i : Z) : Z := nth (Z.to_nat i) l 0.
Fixpoint upd (l : list Z) (i : nat) (v : Z) : list Z :=
  match l with
  | [] => []
  | x :: r => match i with O => v :: r | S i' => x :: upd r i' v end
  end.

Fixpoint twist_go (n : nat) (i : Z) (mt : list Z) : list Z :=
  match n with
  | O => mt
  | S n' =>
      let y := Z.lor (Z.land (nthz mt i) UPPER) (Z.land (nthz mt ((i + 1) mod mt_n)) LOWER) in
      let v := Z.lxor (nthz mt ((i + mt_m) mod mt_n)) (Z.lxor (Z.shiftr y 1) (if Z.odd y then MATRIX_A else 0)) in
      twist_go n' (i + 1) (upd mt (Z.to_nat i) v)
  end.
Definition twist (mt : list Z) : list Z := twist_go 624 0 mt.

Definition temper (y0 : Z) : Z :=
  let y1 := Z.lxor y0 (Z.shiftr y0 11) in
  let y2 := Z.lxor y1 (Z.land (Z.shiftl y1 7) 2636928640) in      (* 0x9d2c5680 *)
  let y3 := Z.lxor y2 (Z.land (Z.shiftl y2 15) 4022730752) in     (* 0xefc60000 *)
  Z.lxor y3 (Z.shiftr y3 18).

(* the next [blocks] * 624 raw outputs after seeding *)
Fixpoint mt_blocks (blocks : nat) (mt : list Z) : list Z :=
  match blocks with
  | O => []
  | S b => let mt' := twist mt in map temper mt' ++ mt_blocks b mt'
  end.
Definition mt_outputs (seed : Z) (blocks : nat) : list Z := mt_blocks blocks (mt_init seed).

(** * XbtRandom::uniform_int *)
Definition to_int32 (x : Z) : Z := let y := x mod W32 in if y <? 2 ^ 31 then y else y - W32.   (* static_cast<int> *)
Definition to_ulong (x : Z) : Z := x mod W64.                                                 (* int -> unsigned long *)
(* unsigned long range = static_cast<unsigned>(max) - static_cast<unsigned>(min) *)
Definition range_of (min max : Z) : Z := (max mod W32 - min mod W32) mod W32.
Definition limit_of (r : Z) : Z := GMAX - GMAX mod r.
(* value % range + min, converted to int *)
Definition result_of (value r min : Z) : Z := to_int32 ((value mod r + to_ulong min) mod W64).

(* do { value = gen(); } while (value >= limit); *)
Fixpoint reject_loop (vals : list Z) (limit : Z) : option (Z * list Z) :=
  match vals with
  | [] => None                          (* stream exhausted: not an outcome of the real code *)
  | v :: rest => if limit <=? v then reject_loop rest limit else Some (v, rest)
  end.

Definition draw_int (vals : list Z) (min max : Z) : option (Z * list Z) :=
  let range := range_of min max in
  if range =? GMAX then
    match vals with
    | v :: rest => Some (to_int32 ((v + to_ulong min) mod W64), rest)
    | [] => None
    end
  else
    let r := range + 1 in
    match reject_loop vals (limit_of r) with
    | Some (v, rest) => Some (result_of v r min, rest)
    | None => None
    end.

(** * XbtRandom::uniform_real: the numerator (divisor = max() - min() = 2^32 - 1) *)
Fixpoint draw_numerator (vals : list Z) : option (Z * list Z) :=
  match vals with
  | [] => None
  | v :: rest => if v =? GMAX then draw_numerator rest else Some (v, rest)
  end.

(** * specification side *)
(* what one raw output becomes for a range of r values: rejected, or a residue *)
Definition accept (r v : Z) : option Z := if limit_of r <=? v then None else Some (v mod r).

(** * entry points.  ops: triples (0 min max) = uniform_int, (1 _ _) = uniform_real numerator *)
Fixpoint run_ops (fuel : nat) (vals : list Z) (ops : list Z) : list Z :=
  match fuel with
  | O => []
  | S f =>
    match ops with
    | kind :: a :: b :: ops' =>
        if kind =? 0 then
          match draw_int vals a b with
          | Some (x, rest) => x :: run_ops f rest ops'
          | None => [-7777777777]
          end
        else
          match draw_numerator vals with
          | Some (x, rest) => x :: run_ops f rest ops'
          | None => [-7777777777]
          end
    | _ => []
    end
  end.
(* input: seed blocks op... : draws from the seeded generator *)
Definition run_c45_seeded (inp : list Z) : list Z :=
  match inp with
  | seed :: blocks :: ops => run_ops (length ops) (mt_outputs seed (Z.to_nat blocks)) ops
  | _ => [-1]
  end.
(* input: n v1..vn op... : draws from a forced stream of raw outputs *)
Definition run_c45_forced (inp : list Z) : list Z :=
  match inp with
  | n :: r => let '(vals, ops) := take_n (Z.to_nat n) r in run_ops (length ops) vals ops
  | _ => [-1]
  end.
(* input: seed n : the first n raw outputs (n <= 624) *)
Definition run_c45_raw (inp : list Z) : list Z :=
  match inp with
  | seed :: n :: _ => fst (take_n (Z.to_nat n) (mt_outputs seed 1))
  | _ => [-1]
  end.
