(** C50 — model of src/xbt/dynar.cpp (dynar of scalars).  Model only; proofs in DynarProofs.v.
    A dynar is its allocated array [data] (length = the C field [size]; cells at and after [used] hold stale values)
    and [used].  Elements are Z (the driver uses long elements).  [None] = stopped by an xbt_assert. *)
From SGV Require Import Base.Tactics.
Local Open Scope Z_scope.

Record dynar := mkD { data : list Z; used : nat }.
Definition size (d : dynar) : nat := length (data d).

(* what xbt_realloc leaves in the new cells: any value; the theorems hold for every [junk] *)
Section Junk.
Variable junk : Z.

(** _xbt_dynar_resize / _xbt_dynar_expand *)
Definition resize (d : dynar) (new_size : nat) : dynar :=
  if Nat.eqb new_size (size d) then d
  else mkD (firstn new_size (data d) ++ repeat junk (new_size - size d)) (used d).
Definition expand (d : dynar) (nb : nat) : dynar :=
  if Nat.ltb (size d) nb then
    let e := (2 * (size d + 1))%nat in
    resize d (if Nat.ltb e nb then nb else e)
  else d.

(** xbt_dynar_insert_at: xbt_assert(idx <= used) (added by the fix: commit; the pinned code only checked idx >= 0 and
    for idx > used wrote outside the used part, outside the allocation when idx >= size), expand, memmove the tail
    one cell to the right, store. *)
Definition insert_at (d : dynar) (idx : nat) (v : Z) : option dynar :=
  if Nat.ltb (used d) idx then None
  else
    let d1 := expand d (used d + 1) in
    let a := data d1 in
    Some (mkD (firstn idx a ++ v :: firstn (used d - idx) (skipn idx a) ++ skipn (used d + 1) a) (used d + 1)).

(** xbt_dynar_remove_at: _check_inbound_idx, copy out, memmove the tail one cell to the left, used-- *)
Definition remove_at (d : dynar) (idx : nat) : option (dynar * Z) :=
  if Nat.ltb idx (used d) then
    let a := data d in
    Some (mkD (firstn idx a ++ firstn (used d - 1 - idx) (skipn (idx + 1) a) ++ skipn (used d - 1) a) (used d - 1),
          nth idx a 0)
  else None.

(** xbt_dynar_set_as = *xbt_dynar_set_at_ptr(idx) = v : grows the dynar (zero filled) when idx >= used *)
Definition set_at (d : dynar) (idx : nat) (v : Z) : dynar :=
  if Nat.leb (used d) idx then
    let d1 := expand d (idx + 1) in
    let a := data d1 in
    mkD (firstn (used d) a ++ repeat 0 (idx - used d) ++ v :: skipn (idx + 1) a) (idx + 1)
  else
    mkD (firstn idx (data d) ++ v :: skipn (idx + 1) (data d)) (used d).

(** xbt_dynar_sort(compare longs): qsort of the used part.  Any sorting algorithm gives the same array on a total
    order of scalars; insertion sort here. *)
Fixpoint ins (x : Z) (l : list Z) : list Z :=
  match l with
  | [] => [x]
  | y :: r => if x <=? y then x :: l else y :: ins x r
  end.
Fixpoint isort (l : list Z) : list Z :=
  match l with [] => [] | x :: r => ins x (isort r) end.

Inductive op :=
| Push (v : Z) | Pop | Shift | Unshift (v : Z)
| InsertAt (i : nat) (v : Z) | RemoveAt (i : nat)
| Get (i : nat) | SetAt (i : nat) (v : Z)
| Length | Member (v : Z) | Sort | Reset | Enumerate.

Definition step (d : dynar) (o : op) : option (dynar * list Z) :=
  match o with
  | Push v => match insert_at d (used d) v with Some d' => Some (d', []) | None => None end
  | Unshift v => match insert_at d 0 v with Some d' => Some (d', []) | None => None end
  | InsertAt i v => match insert_at d i v with Some d' => Some (d', []) | None => None end
  | Pop => if Nat.eqb (used d) 0 then None (* idx = (int)(0UL - 1) = -1 *)
           else match remove_at d (used d - 1) with Some (d', x) => Some (d', [x]) | None => None end
  | Shift => match remove_at d 0 with Some (d', x) => Some (d', [x]) | None => None end
  | RemoveAt i => match remove_at d i with Some (d', x) => Some (d', [x]) | None => None end
  | Get i => if Nat.ltb i (used d) then Some (d, [nth i (data d) 0]) else None
  | SetAt i v => Some (set_at d i v, [])
  | Length => Some (d, [Z.of_nat (used d)])
  | Member v => Some (d, [if existsb (Z.eqb v) (firstn (used d) (data d)) then 1 else 0])
  | Sort => Some (mkD (isort (firstn (used d) (data d)) ++ skipn (used d) (data d)) (used d), [])
  | Reset => Some (mkD (data d) 0, [])
  | Enumerate => Some (d, firstn (used d) (data d)) (* xbt_dynar_foreach / xbt_dynar_map *)
  end.
End Junk.

(** abstraction: the growable array the dynar stands for *)
Definition abs (d : dynar) : list Z := firstn (used d) (data d).

(** the specification: a plain list *)
Definition spec_step (l : list Z) (o : op) : option (list Z * list Z) :=
  match o with
  | Push v => Some (l ++ [v], [])
  | Unshift v => Some (v :: l, [])
  | InsertAt i v => if Nat.leb i (length l) then Some (firstn i l ++ v :: skipn i l, []) else None
  | Pop => match l with [] => None | _ => Some (removelast l, [last l 0]) end
  | Shift => match l with [] => None | x :: r => Some (r, [x]) end
  | RemoveAt i => if Nat.ltb i (length l) then Some (firstn i l ++ skipn (S i) l, [nth i l 0]) else None
  | Get i => if Nat.ltb i (length l) then Some (l, [nth i l 0]) else None
  | SetAt i v => if Nat.ltb i (length l) then Some (firstn i l ++ v :: skipn (S i) l, [])
                 else Some (l ++ repeat 0 (i - length l) ++ [v], [])
  | Length => Some (l, [Z.of_nat (length l)])
  | Member v => Some (l, [if existsb (Z.eqb v) l then 1 else 0])
  | Sort => Some (isort l, [])
  | Reset => Some ([], [])
  | Enumerate => Some (l, l)
  end.

(** executable entry point: (code a b)* -> per op: -1 when stopped (and the run ends), else n r1..rn;
    then -7 and the final contents.  codes 0 push(a) 1 pop 2 shift 3 unshift(a) 4 insert_at(a,b) 5 remove_at(a)
    6 get(a) 7 set_at(a,b) 8 length 9 member(a) 10 sort 11 reset 12 enumerate *)
Definition decode_op (code a b : Z) : op :=
  if code =? 0 then Push a else if code =? 1 then Pop else if code =? 2 then Shift
  else if code =? 3 then Unshift a else if code =? 4 then InsertAt (Z.to_nat a) b
  else if code =? 5 then RemoveAt (Z.to_nat a) else if code =? 6 then Get (Z.to_nat a)
  else if code =? 7 then SetAt (Z.to_nat a) b else if code =? 8 then Length
  else if code =? 9 then Member a else if code =? 10 then Sort else if code =? 11 then Reset else Enumerate.

Fixpoint run_ops (fuel : nat) (d : dynar) (l : list Z) : list Z :=
  match fuel with
  | O => -7 :: abs d
  | S f =>
      match l with
      | code :: a :: b :: r =>
          match step 0 d (decode_op code a b) with
          | Some (d', res) => (Z.of_nat (length res) :: res) ++ run_ops f d' r
          | None => [-1]
          end
      | _ => -7 :: abs d
      end
  end.
Definition run_c50_dynar (l : list Z) : list Z := run_ops (length l) (mkD [] 0) l.
