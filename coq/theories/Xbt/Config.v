(** C48 — configuration flags (src/xbt/config.cpp).  Model only.
    parse_bool / parse_long (strtol base 0) / ConfigType<int> / parse_double (strtod, Xbt/Strtod.v) with full
    consumption; the option table with aliases (Config::get_dict_element); set_string_value / set_value and the
    callback; set_parse's tokenisation.  Strings are lists of character codes without NUL. *)
From SGV Require Import Base.Tactics Xbt.Strtod.
From Coq Require Import QArith.
Local Open Scope Z_scope.

Fixpoint str_eqb (a b : str) : bool :=
  match a, b with
  | [], [] => true
  | x :: a', y :: b' => (x =? y) && str_eqb a' b'
  | _, _ => false
  end.

(** * values and parsers *)
Inductive ty := TInt | TDouble | TBool | TString.
Inductive dval := DFin (q : Q) | DInf (neg : bool) | DNan.
Inductive value := VInt (z : Z) | VDouble (d : dval) | VBool (b : bool) | VString (s : str).

Definition true_lits : list str := [[121; 101; 115]; [111; 110]; [116; 114; 117; 101]; [49]].          (* yes on true 1 *)
Definition false_lits : list str := [[110; 111]; [111; 102; 102]; [102; 97; 108; 115; 101]; [48]].     (* no off false 0 *)
(* strcasecmp(literal, value) == 0 *)
Definition parse_bool (s : str) : option bool :=
  let l := map lower s in
  if existsb (str_eqb l) true_lits then Some true
  else if existsb (str_eqb l) false_lits then Some false
  else None.                                                  (* std::range_error("not a boolean") *)

Definition is_oct (c : Z) : bool := (48 <=? c) && (c <=? 55).
Definition oct_digits_val (ds : str) : Z := fold_left (fun acc c => acc * 8 + (c - 48)) ds 0.
Definition LONG_MIN : Z := - 2 ^ 63.
Definition LONG_MAX : Z := 2 ^ 63 - 1.
Definition INT_MIN : Z := - 2 ^ 31.
Definition INT_MAX : Z := 2 ^ 31 - 1.

(* the digits strtol(…, 0) converts after white space and sign: magnitude (None = no conversion) and rest *)
Definition strtol_digits (s : str) : option Z * str :=
  let dec_or_oct :=
    match s with
    | z :: _ =>
        if z =? 48 then let '(ds, rest) := span is_oct s in (Some (oct_digits_val ds), rest)
        else let '(ds, rest) := span is_digit s in
             (match ds with [] => None | _ => Some (digits_val ds) end, rest)
    | [] => (None, [])
    end in
  match s with
  | z :: x :: h :: r =>
      if (z =? 48) && is_x x && is_hex h then
        let '(ds, rest) := span is_hex (h :: r) in (Some (hex_digits_val ds), rest)
      else dec_or_oct
  | _ => dec_or_oct
  end.

(* parse_long: None stands for std::range_error (ERANGE, nothing converted, or trailing characters) *)
Definition parse_long (s : str) : option Z :=
  let '(neg, s2) := split_sign (skip_spaces s) in
  match strtol_digits s2 with
  | (None, _) => None
  | (Some m, rest) =>
      let v := if neg then - m else m in
      if (v <? LONG_MIN) || (LONG_MAX <? v) then None
      else match rest with [] => Some v | _ => None end
  end.
Definition parse_int (s : str) : option Z :=
  match parse_long s with
  | Some v => if (v <? INT_MIN) || (INT_MAX <? v) then None else Some v
  | None => None
  end.

Definition parse_double (s : str) : option dval :=
  match strtod s with
  | NumNone => None
  | NumFin q rest => if erange q then None else match rest with [] => Some (DFin q) | _ => None end
  | NumInf neg rest => match rest with [] => Some (DInf neg) | _ => None end
  | NumNan rest => match rest with [] => Some DNan | _ => None end
  end.

Definition parse (t : ty) (s : str) : option value :=
  match t with
  | TInt => option_map VInt (parse_int s)
  | TDouble => option_map VDouble (parse_double s)
  | TBool => option_map VBool (parse_bool s)
  | TString => Some (VString s)
  end.

(** * the option table *)
Record item := { i_name : str; i_ty : ty; i_val : value; i_default : bool; i_calls : Z }.
Record cfg := { c_items : list item; c_aliases : list (str * str) }.        (* alias -> real name *)

Definition find_item (its : list item) (n : str) : option item := find (fun it => str_eqb (i_name it) n) its.
Fixpoint find_alias (al : list (str * str)) (n : str) : option str :=
  match al with [] => None | (a, r) :: al' => if str_eqb a n then Some r else find_alias al' n end.
(* Config::get_dict_element: options first, then aliases; None = std::out_of_range *)
Definition resolve (c : cfg) (n : str) : option str :=
  match find_item (c_items c) n with
  | Some _ => Some n
  | None => find_alias (c_aliases c) n
  end.
Definition upd_item (its : list item) (n : str) (f : item -> item) : list item :=
  map (fun it => if str_eqb (i_name it) n then f it else it) its.
Definition get (c : cfg) (n : str) : option value :=
  match resolve c n with
  | Some r => option_map i_val (find_item (c_items c) r)
  | None => None
  end.
Definition calls (c : cfg) (n : str) : Z :=
  match find_item (c_items c) n with Some it => i_calls it | None => 0 end.

Inductive res :=
| Ok (c : cfg)
| ErrUnknown               (* std::out_of_range, nothing changed *)
| ErrParse                 (* std::range_error from the parser, nothing changed *)
| ErrInvalid (c : cfg)     (* the callback threw: state at that point *)
| ErrAbort (c : cfg).      (* xbt_assert in set_parse: token without ':' *)

(* [valid name v]: does the item's callback accept v *)
Section Ops.
Variable valid : str -> value -> bool.

(* TypedConfigurationElement<T>::set_string_value: content = parse(value); unset_default(); update(); *)
Definition set_string (c : cfg) (n s : str) : res :=
  match resolve c n with
  | None => ErrUnknown
  | Some r =>
      match find_item (c_items c) r with
      | None => ErrUnknown
      | Some it =>
          match parse (i_ty it) s with
          | None => ErrParse
          | Some v =>
              let c' := {| c_items := upd_item (c_items c) r (fun it =>
                              {| i_name := i_name it; i_ty := i_ty it; i_val := v; i_default := false;
                                 i_calls := i_calls it + 1 |});
                           c_aliases := c_aliases c |} in
              if valid r v then Ok c' else ErrInvalid c'
          end
      end
  end.

Definition ty_of (v : value) : ty :=
  match v with VInt _ => TInt | VDouble _ => TDouble | VBool _ => TBool | VString _ => TString end.
Definition ty_eqb (a b : ty) : bool :=
  match a, b with TInt, TInt | TDouble, TDouble | TBool, TBool | TString, TString => true | _, _ => false end.
(* set_value<T>: content = value; update(); unset_default();  (T must be the item's type: anything else is undefined
   behaviour in the C++ code and is answered ErrUnknown here, never exercised) *)
Definition set_typed (c : cfg) (n : str) (v : value) : res :=
  match resolve c n with
  | None => ErrUnknown
  | Some r =>
      match find_item (c_items c) r with
      | None => ErrUnknown
      | Some it =>
          if ty_eqb (i_ty it) (ty_of v) then
            let mk d := {| c_items := upd_item (c_items c) r (fun it =>
                              {| i_name := i_name it; i_ty := i_ty it; i_val := v; i_default := d it;
                                 i_calls := i_calls it + 1 |});
                           c_aliases := c_aliases c |} in
            if valid r v then Ok (mk (fun _ => false)) else ErrInvalid (mk i_default)
          else ErrUnknown
      end
  end.

(** set_parse: tokens separated by " \t\n,", each "name:value" *)
Definition is_sep (c : Z) : bool := (c =? 32) || (c =? 9) || (c =? 10) || (c =? 44).
Fixpoint tokens_go (s : str) (cur : str) : list str :=       (* cur: current token, reversed *)
  match s with
  | [] => match cur with [] => [] | _ => [rev cur] end
  | c :: r => if is_sep c then match cur with [] => tokens_go r [] | _ => rev cur :: tokens_go r [] end
              else tokens_go r (c :: cur)
  end.
Definition tokens (s : str) : list str := tokens_go s [].
Fixpoint split_colon (s : str) : option (str * str) :=
  match s with
  | [] => None
  | c :: r => if c =? 58 then Some ([], r)
              else match split_colon r with Some (a, b) => Some (c :: a, b) | None => None end
  end.
Fixpoint set_tokens (c : cfg) (ts : list str) : res :=
  match ts with
  | [] => Ok c
  | t :: ts' =>
      match split_colon t with
      | None => ErrAbort c
      | Some (n, v) =>
          match set_string c n v with
          | Ok c' => set_tokens c' ts'
          | ErrUnknown => ErrInvalid c       (* an exception leaves set_parse; state reached so far *)
          | ErrParse => ErrInvalid c
          | other => other
          end
      end
  end.
End Ops.

(** * entry points *)
Definition enc_value (v : value) : list Z :=
  match v with
  | VInt z => [1; z]
  | VDouble (DFin q) => let q' := Qred q in [2; Qnum q'; Zpos (Qden q'); if representable q then 1 else 0]
  | VDouble (DInf neg) => [3; if neg then 1 else 0]
  | VDouble DNan => [4]
  | VBool b => [5; if b then 1 else 0]
  | VString s => 6 :: len s :: s
  end.
Definition ty_of_code (k : Z) : ty := if k =? 0 then TInt else if k =? 1 then TDouble else if k =? 2 then TBool else TString.
(* input: type code (0 int, 1 double, 2 boolean, 3 string), then the string *)
Definition run_c48_parse (inp : list Z) : list Z :=
  match inp with
  | k :: s => match parse (ty_of_code k) s with Some v => enc_value v | None => [0] end
  | [] => [-1]
  end.

(* the test table declared by harness/xbt1_config.cpp (mode ops) *)
Definition n_int : str := [116; 47; 105; 110; 116].                          (* t/int *)
Definition n_int_old : str := [116; 47; 105; 110; 116; 45; 111; 108; 100].   (* t/int-old *)
Definition n_pos : str := [116; 47; 112; 111; 115].                          (* t/pos *)
Definition n_dbl : str := [116; 47; 100; 98; 108].                           (* t/dbl *)
Definition n_dbl_old : str := [116; 47; 100; 98; 108; 45; 111; 108; 100].    (* t/dbl-old *)
Definition n_dbl_older : str := n_dbl_old ++ [101; 114].                     (* t/dbl-older *)
Definition n_bool : str := [116; 47; 98; 111; 111; 108].                     (* t/bool *)
Definition n_str : str := [116; 47; 115; 116; 114].                          (* t/str *)
Definition mk_item (n : str) (t : ty) (v : value) : item :=
  {| i_name := n; i_ty := t; i_val := v; i_default := true; i_calls := 1 |}.   (* register_option calls update() once *)
Definition test_cfg : cfg :=
  {| c_items := [mk_item n_int TInt (VInt 7); mk_item n_pos TInt (VInt 1); mk_item n_dbl TDouble (VDouble (DFin (1 # 2)));
                 mk_item n_bool TBool (VBool false); mk_item n_str TString (VString [97; 98; 99])];
     c_aliases := [(n_int_old, n_int); (n_dbl_old, n_dbl); (n_dbl_older, n_dbl)] |}.
(* callbacks of the test table: t/pos wants a positive int, t/str refuses strings starting with '!' *)
Definition test_valid (n : str) (v : value) : bool :=
  match v with
  | VInt z => if str_eqb n n_pos then 0 <? z else true
  | VString (c :: _) => if str_eqb n n_str then negb (c =? 33) else true
  | _ => true
  end.

Definition res_code (r : res) : Z :=
  match r with Ok _ => 0 | ErrUnknown => 1 | ErrParse => 2 | ErrInvalid _ => 3 | ErrAbort _ => 4 end.
Definition res_cfg (c : cfg) (r : res) : cfg :=
  match r with Ok c' | ErrInvalid c' | ErrAbort c' => c' | _ => c end.
Definition dump (c : cfg) : list Z :=
  flat_map (fun it => enc_value (i_val it) ++ [i_calls it]) (c_items c).

(* one op: kind (0 set_as_string name value | 1 set_parse text | 2 set_value<T> name canonical-text), then two
   length-prefixed strings.  set_parse reports 3 for any exception; the driver maps exceptions accordingly. *)
Fixpoint run_ops (fuel : nat) (c : cfg) (inp : list Z) : list Z * cfg :=
  match fuel with
  | O => ([], c)
  | S f =>
    match inp with
    | kind :: ln :: r =>
        let '(n, r1) := take_n (Z.to_nat ln) r in
        match r1 with
        | ls :: r2 =>
            let '(s, r3) := take_n (Z.to_nat ls) r2 in
            let rs :=
              if kind =? 0 then set_string test_valid c n s
              else if kind =? 1 then set_tokens test_valid c (tokens s)
              else match resolve c n with
                   | Some rn => match find_item (c_items c) rn with
                                | Some it => match parse (i_ty it) s with
                                             | Some v => set_typed test_valid c n v
                                             | None => ErrParse
                                             end
                                | None => ErrUnknown
                                end
                   | None => ErrUnknown
                   end in
            let '(codes, c') := run_ops f (res_cfg c rs) r3 in
            (res_code rs :: codes, c')
        | [] => ([], c)
        end
    | _ => ([], c)
    end
  end.
Definition run_c48_ops (inp : list Z) : list Z :=
  let '(codes, c) := run_ops (length inp) test_cfg inp in
  len codes :: codes ++ dump c.
