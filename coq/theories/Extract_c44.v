Require Import ExtrOcamlBasic.
Require Import SGV.Mc.UnfoldOracle.
Extraction "c44_model.ml" run_c44_sets run_c44_vfl run_c44_enum_ok run_c44_maxsub_ok.
