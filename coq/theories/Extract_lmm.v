Require Import ExtrOcamlBasic.
Require Import SGV.Lmm.System.
Require Import SGV.Lmm.Dump.
Require Import SGV.Lmm.Maxmin.
Extraction "lmm_model.ml" run_c18 run_c18_pinned run_c18_oracle run_alloc_oracle run_maxmin.
