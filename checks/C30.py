"""C30 — derived datatypes have the MPI layout and transfer exactly their bytes.
SPEC  = MPI-3.1 type maps (Coq: Smpi/Datatype.v sem_of), CODE = model of Datatype::create_* and (un)serialize (build, cser);
Coq proves CODE = SPEC on every well-formed tree of any depth (Props/Properties_C30.v).
K: the extracted CODE model vs. the rebuilt library (an MPI program building the same trees).
O: the extracted SPEC judges what the library did: size/lb/extent and, for Pack, Unpack, Sendrecv (typed->bytes,
   bytes->typed, typed->typed), Send/Recv, Bcast and Gather, every byte written into a poisoned destination."""
import json, os
import fw

OPS = ["PACK", "UNPACK", "SRTB", "SRBT", "SRTT", "P2P", "BCAST", "GATHER"]
SRC_TYPED_ONLY = 0b00000101          # PACK, SRTB: the typed buffer is only read
ALL_OPS = 0xFF
KINDS = {0: "basic", 1: "contiguous", 2: "vector", 3: "hvector", 4: "indexed", 5: "hindexed", 6: "indexed_block",
         7: "struct", 8: "resized", 9: "subarray"}


# ------------------------------------------------------------------------------------------------ generator
def gen_tree(rng, depth):
    """prefix encoding (see harness/smpi_c30.c); depth = number of derived constructors still allowed on this path"""
    if depth == 0 or rng.random() < 0.12:
        return [0, rng.choice([1, 2, 4, 4, 8])]
    k = rng.choice([1, 2, 2, 3, 3, 4, 4, 5, 5, 6, 7, 7, 8, 9, 9])
    sub = lambda: gen_tree(rng, depth - 1)
    if k == 1:
        return [1, rng.randint(1, 4)] + sub()
    if k == 2:
        bl = rng.randint(1, 3)
        stride = bl if rng.random() < 0.2 else rng.choice([0, 1, bl + 1, bl + 2, rng.randint(0, 6)])
        return [2, rng.randint(1, 3), bl, stride] + sub()
    if k == 3:
        bl = rng.randint(1, 3)
        t = sub()
        # byte stride: arbitrary, or aimed at bl*extent (contiguity test) - the extent is not known here, use small multiples
        stride = rng.choice([0, 4, 8, 12, 16, 24, 32, bl * 4, bl * 8, rng.randint(0, 48)])
        return [3, rng.randint(1, 3), bl, stride] + t
    if k in (4, 5):
        n = rng.randint(1, 3)
        blocks, cur = [], rng.randint(0, 3)
        consecutive = rng.random() < 0.25
        for _ in range(n):
            bl = rng.randint(1, 3)
            if k == 4:
                d = cur if consecutive else rng.randint(0, 7)
                cur = d + bl
            else:
                d = cur if consecutive else rng.choice([rng.randint(0, 40), 4 * rng.randint(0, 10)])
                cur = d + bl * rng.choice([1, 2, 4, 8])
            blocks += [bl, d]
        return [k, n] + blocks + sub()
    if k == 6:
        n = rng.randint(1, 3)
        return [6, n, rng.randint(1, 3)] + [rng.randint(0, 7) for _ in range(n)] + sub()
    if k == 7:
        n = rng.randint(1, 3)
        out, cur = [7, n], rng.choice([0, 0, 4, rng.randint(0, 16)])
        packed = rng.random() < 0.3
        for _ in range(n):
            bl = rng.randint(1, 3)
            t = [0, rng.choice([1, 2, 4, 8])] if packed else gen_tree(rng, depth - 1)
            d = cur if packed else rng.choice([cur, cur + rng.randint(0, 12), rng.randint(0, 48)])
            out += [bl, d] + t
            cur = d + bl * (t[1] if t[0] == 0 else 8)
        return out
    if k == 8:
        return [8, rng.choice([0, 0, 4, rng.randint(0, 12)]), rng.choice([0, 4, 8, 16, 24, 40, 64, rng.randint(0, 80)])] + sub()
    nd = rng.randint(1, 3)
    dims = []
    for _ in range(nd):
        sz = rng.randint(1, 4)
        sb = rng.randint(1, sz)
        dims += [sz, sb, rng.randint(0, sz - sb)]
    return [9, nd, rng.randint(0, 1)] + dims + sub()


def depth_of(tree):
    """nesting depth and root kind, by a tiny parser of the prefix code"""
    def go(p):
        k = tree[p]
        if k == 0:
            return p + 2, 0
        if k == 1:
            q, d = go(p + 2)
        elif k in (2, 3):
            q, d = go(p + 4)
        elif k in (4, 5):
            q, d = go(p + 2 + 2 * tree[p + 1])
        elif k == 6:
            q, d = go(p + 3 + tree[p + 1])
        elif k == 8:
            q, d = go(p + 3)
        elif k == 9:
            q, d = go(p + 3 + 3 * tree[p + 1])
        else:
            q, d = p + 2, 0
            for _ in range(tree[p + 1]):
                q, dd = go(q + 2)
                d = max(d, dd)
        return q, d + 1
    return go(0)[1]


CORPUS = [
    # (count, tree)                                                    what it pins
    (1, [5, 1, 2, 0, 4, 1, 1, 1, 0, 4]),            # hindexed(bl 2) of indexed(1 int at 1): extent 8 (was 12)
    (2, [5, 1, 2, 0, 4, 1, 1, 1, 0, 4]),
    (2, [4, 2, 1, 1, 1, 3, 0, 4]),                   # indexed at 1 and 3, two elements (second was read at 16,28)
    (2, [4, 2, 1, 2, 1, 0, 0, 4]),                   # blocks in decreasing order
    (2, [2, 2, 1, 2, 2, 2, 1, 2, 0, 4]),             # vector of vector with holes, two elements
    (3, [8, 4, 12, 0, 4]),                           # resized with lb 4
    (2, [9, 2, 0, 4, 2, 1, 4, 2, 1, 0, 4]),          # 2-D subarray: extent of the full array
    (2, [9, 1, 0, 5, 2, 2, 0, 4]),                   # 1-D subarray
    (2, [9, 1, 1, 5, 2, 2, 2, 2, 1, 2, 0, 2]),       # 1-D subarray of a derived type
    (1, [9, 3, 1, 3, 2, 1, 4, 2, 1, 2, 1, 0, 0, 2]),
    (1, [9, 3, 0, 3, 2, 1, 4, 2, 1, 2, 1, 0, 0, 2]),
    (2, [7, 2, 1, 8, 4, 1, 1, 1, 0, 4, 2, 0, 0, 1]),  # struct whose second member lowers the bound, first has lb 4
    (2, [7, 3, 1, 0, 0, 4, 2, 4, 0, 2, 1, 8, 0, 8]),  # packed struct of basic types (contiguous shortcut)
    (5, [2, 3, 2, 2, 0, 4]),                         # contiguous vector shortcut
    (0, [2, 2, 1, 3, 0, 8]),                         # count 0
    (3, [1, 2, 8, 0, 12, 0, 4]),                     # contiguous of a resized type
    (2, [3, 2, 2, 8, 0, 4]),                         # hvector contiguous shortcut
    (2, [5, 2, 1, 0, 2, 4, 0, 4]),                   # hindexed contiguous shortcut
    (2, [6, 2, 2, 3, 0, 0, 2]),                      # indexed_block
]


# ------------------------------------------------------------------------------------------------ expected observations
def expected(spec, count, op):
    """pairs (destination offset, source index) that op must produce, from the verified type map bytes"""
    S = spec[3:]
    ext = spec[2] - spec[1]
    if op in ("PACK", "SRTB"):
        return sorted((i, o) for i, o in enumerate(S))
    if op in ("UNPACK", "SRBT"):
        return sorted((o, i) for i, o in enumerate(S))
    if op in ("SRTT", "P2P", "BCAST"):
        return sorted((o, o) for o in S)
    return sorted((r * count * ext + o, o) for r in (0, 1) for o in S)


def run(ctx):
    ctx.simgrid(["simgrid", "smpimain"])
    ctx.prove()
    prog = fw.build_smpi_prog("smpi_c30")
    rng = ctx.rng
    cases = []
    if ctx.replay:
        rp = json.load(open(ctx.replay))["case"]
        cases = [(rp["count"], rp["tree"])]
    else:
        cases = list(CORPUS)
        n = ctx.n(260, 6000)
        while len(cases) < len(CORPUS) + n:
            t = gen_tree(rng, rng.choice([1, 2, 2, 3, 3, 3]))
            if t[0] == 0:
                continue
            cases.append((rng.choice([0, 1, 1, 2, 2, 3, 4, 5]), t))
    minputs = [[c] + t for c, t in cases]
    spec = fw.run_model("c30", "run_c30_spec", minputs)
    code = fw.run_model("c30", "run_c30_code", minputs)

    # ---- implementation run: every case with a buffer four times the span the type map needs
    lines, kept, discarded = [], [], 0
    for i, ((count, tree), sp) in enumerate(zip(cases, spec)):
        if not sp:
            raise fw.BuildError("C30 generator produced a tree the model cannot parse: %s" % tree)
        S = sp[3:]
        span = max([0] + [o + 1 for o in S] + [count * (sp[2] - sp[1]) + max(sp[1], 0)])
        if span > 15000 or len(S) > 5000 or min([0] + S) < 0:
            discarded += 1
            continue
        ops = ALL_OPS
        if len(set(S)) != len(S):
            ops = SRC_TYPED_ONLY            # overlapping entries: legal to send, erroneous to receive into
        else:
            ext = sp[2] - sp[1]
            if set(S) & set(count * ext + o for o in S) and count > 0:
                ops &= ~(1 << OPS.index("GATHER"))   # the two contributions would overlap in the receive buffer
        bufsize = 4 * span + 64
        lines.append("%d %d %d %d %s" % (i, count, bufsize, ops, " ".join(map(str, tree))))
        kept.append((i, ops))
    cf = os.path.join(fw.B, "c30_cases_%s_%d.txt" % (ctx.tier, os.getpid()))
    open(cf, "w").write("\n".join(lines) + "\n")
    rc, out, err = fw.smpirun(prog, 2, [cf], timeout=3000)
    os.remove(cf)
    obs = {}
    for l in out.split("\n"):
        w = l.split()
        if not w or w[0] not in ("L", "X", "E"):
            continue
        i = int(w[1])
        o = obs.setdefault(i, {})
        if w[0] == "L":
            o["L"] = [int(x) for x in w[2:5]]
        elif w[0] == "E":
            o.setdefault("E", []).append((w[2], int(w[3])))
        else:
            v = [int(x) for x in w[4:]]
            o[w[2]] = sorted(zip(v[0::2], v[1::2]))

    ctx.cov["rule"] = ("random datatype trees of depth 1..3 over char/short/int/double with every constructor, counts 0..5; strides, "
                       "indices and displacements non-negative and aimed at the contiguity shortcuts (stride == blocklength, "
                       "consecutive blocks, packed structs) as well as at holes, overlaps (send side only), decreasing block order, "
                       "lb != 0 and resized extents smaller/larger than the span; non-trivial = the selected bytes are not one "
                       "contiguous range starting at 0, or extent != size")
    dist = {"discarded_too_large": discarded, "depth": {}, "root": {}, "count": {}, "overlapping_send_only": 0}
    crashed = rc != 0
    for i, ops in kept:
        count, tree = cases[i]
        sp, cd = spec[i], code[i]
        case = {"count": count, "tree": tree}
        o = obs.get(i)
        if o is None or "L" not in o and "E" not in o:
            if crashed:
                ctx.fail("driver-crash", "smpi_c30 ended with rc=%d before reporting case %s: %s" % (rc, case, (err or out)[-400:]), case)
                break
            ctx.fail("no-output", "no observation for %s" % case, case)
            continue
        S = sp[3:]
        size, lb, ub = sp[:3]
        nontriv = S != list(range(len(S))) or ub - lb != size
        d = depth_of(tree)
        dist["depth"][d] = dist["depth"].get(d, 0) + 1
        dist["root"][KINDS[tree[0]]] = dist["root"].get(KINDS[tree[0]], 0) + 1
        dist["count"][count] = dist["count"].get(count, 0) + 1
        dist["overlapping_send_only"] += ops == SRC_TYPED_ONLY
        ctx.case((count, tree), nontriv, {"count": count, "tree": tree, "size_lb_ub": sp[:3], "impl_size_lb_extent": o.get("L"),
                                          "bytes": S[:24]} if nontriv and d >= 2 else None)
        if "E" in o:
            ctx.fail("mpi-error-" + o["E"][0][0].lower(), "MPI call %s failed with code %d on %s" % (o["E"][0][0], o["E"][0][1], case), case)
            continue
        # O: layout
        isz, ilb, iex = o["L"]
        for name, got, want in (("size", isz, size), ("lb", ilb, lb), ("extent", iex, ub - lb)):
            if got != want:
                ctx.fail("layout-" + name, "%s of %s: library says %d, MPI type map says %d (size %d lb %d ub %d)" % (
                    name, tree, got, want, size, lb, ub), case)
        # O: bytes
        for b, op in enumerate(OPS):
            if not ops & (1 << b):
                continue
            got = o.get(op)
            want = expected(sp, count, op)
            if got is None:
                ctx.fail("no-output-" + op.lower(), "no %s observation for %s" % (op, case), case)
            elif got != want:
                gs, ws = set(got), set(want)
                ctx.fail("bytes-" + op.lower(), "%s count %d of %s: (dest,src) pairs missing %s, unexpected %s" % (
                    op, count, tree, sorted(ws - gs)[:6], sorted(gs - ws)[:6]), case)
        # K: code model vs library (only reported when the oracle above accepted everything)
        if cd[:3] != [isz, ilb, ilb + iex]:
            ctx.mismatch("model-vs-library-layout", "code model %s, library size/lb/ub %s on %s" % (cd[:3], [isz, ilb, ilb + iex], case), case)
        elif "PACK" in o and [s for _, s in o["PACK"]] != cd[3:]:
            ctx.mismatch("model-vs-library-pack-order", "code model copies %s..., library %s... on %s" % (cd[3:13], o["PACK"][:10], case), case)
    ctx.cov["input_distribution"] = dist
    ctx.assumptions += [
        "alignment padding epsilon of MPI's ub is 0 (SMPI defines no alignment rule)",
        "constructor counts, block lengths and subarray subsizes >= 1, strides/extents >= 0 (empty blocks and negative strides are outside the theorem and the generator)",
        "receiving into a type map with overlapping entries is erroneous in MPI: such types are only sent/packed",
        "MPI_LB/MPI_UB markers in user structs, MPI_Type_dup, darray, true extent and error paths are not modelled",
        "MPI_Aint arithmetic is modelled in Z (no overflow below 2^63)"]


META = {
    "level": "proof",
    "claimed": True,
    "text": "Coq (Smpi/Datatype*.v): for every well-formed datatype tree of any depth built with contiguous, vector, hvector, indexed, "
            "hindexed, indexed_block, struct, resized and subarray, the size/lb/ub computed by the model of Datatype::create_* equal "
            "those of the MPI-3.1 type map (C30_layout), and serialize/unserialize of any count visit exactly the bytes of count copies "
            "of the type map one extent apart, in type-map order, and nothing else (C30_bytes). The model is tied to the rebuilt library by "
            "an MPI program that builds generated trees and reports MPI_Type_size/get_extent and every byte written by Pack, Unpack, "
            "Sendrecv, Send/Recv, Bcast and Gather into poisoned buffers; the extracted specification judges those observations.",
    "note": "Three defects of the pinned code were found by this machinery and repaired in /repo (lb/ub of indexed/hindexed/struct over "
            "a type with lb != 0; element stride of (un)serialize for count > 1; subarray extent) - see KNOWN_FINDINGS.txt; the _refuted "
            "theorem keeps the pinned formula. Assumes alignment epsilon 0; zero-length blocks, negative strides, MPI_LB/MPI_UB in user "
            "structs, dup/darray and error paths are not modelled. Trusted: Coq kernel, extraction, the MPI driver and this script.",
    "technique": "Coq proof (structural induction on datatype trees, list algebra, lia) + extracted specification as oracle on an MPI driver",
}
