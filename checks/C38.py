"""C38 — model-checker reductions are sound.

Reference: the Coq-verified explorer SGV.Mc.Explore over the reference semantics SGV.Mc.McRef (theorems C38_ref_*: it returns
exactly the reachable terminal outcomes and says "deadlock"/"assertion failure" iff one is reachable).
Tie/search: generated race-free S4U programs (harness/mc3_prog.cpp interprets the same encoding with the real S4U API) are run
under the rebuilt simgrid-mc with every reduction x explorer x strategy; the set of outcomes printed by the complete
executions and the verdict are compared with the reference.
"""
import json, os, re, shutil, tempfile, time
from concurrent.futures import ThreadPoolExecutor

try:
    import fw
except ImportError:                                   # exploratory use outside bin/check
    fw = None

FUEL = 400000
# op codes (see coq/theories/Mc/McRef.v and harness/mc3_prog.cpp)
LOCK, UNLOCK, TRYLOCK, SEMACQ, SEMREL, BARRIER, PUT, GET, JOIN, RANDOM, IPUT, IGET, WAITONE = range(1, 14)
SETVAR, UPDVAR, ASSERTVAR, ASSERTREG, REGFROMVAR, VARFROMREG = range(20, 26)
NAMES = {1: "Lock", 2: "Unlock", 3: "TryLock", 4: "SemAcq", 5: "SemRel", 6: "Barrier", 7: "Put", 8: "Get", 9: "Join",
         10: "Random", 11: "IPut", 12: "IGet", 13: "WaitOne", 20: "SetVar", 21: "UpdVar", 22: "AssertVarNe",
         23: "AssertRegNe", 24: "RegFromVar", 25: "VarFromReg"}
UDPOR_OPS = {LOCK, UNLOCK, SEMACQ, SEMREL, PUT, GET, JOIN, IPUT, IGET, WAITONE}
TWO_STEP = {LOCK, SEMACQ, BARRIER, PUT, GET}


# ------------------------------------------------------------------------------------------------ programs

def encode(p):
    l = [len(p["actors"])] + list(p["caps"]) + list(p["cnts"])
    for ops in p["actors"]:
        l.append(len(ops))
        for o in ops:
            l += list(o)
    return l


def show(p):
    acts = []
    for ops in p["actors"]:
        acts.append(" ".join("%s(%s)" % (NAMES.get(o[0], "?%d" % o[0]), ",".join(str(x) for x in o[1:])) for o in ops))
    return "caps=%s cnts=%s " % (p["caps"], p["cnts"]) + " || ".join(acts)


def n_transitions(ops):
    return sum(2 if o[0] in TWO_STEP else 1 for o in ops if o[0] < 20)


def size_estimate(p):
    r = 1
    for ops in p["actors"]:
        r *= n_transitions(ops) + 1
    return r


def features(p):
    f = set()
    for ops in p["actors"]:
        for o in ops:
            c = o[0]
            f.add({1: "mutex", 2: "mutex", 3: "trylock", 4: "sem", 5: "sem", 6: "barrier", 7: "comm", 8: "comm", 9: "join",
                   10: "random", 11: "acomm", 12: "acomm", 13: "acomm"}.get(c, "local"))
    f.discard("local")
    return "+".join(sorted(f)) or "none"


# Variables 0,1 are only touched while holding mutex 0,1; variables 2,3 only while holding the single token of
# semaphore 2,3 (capacity 1, used strictly as acquire/release pairs).  Everything else an actor reads is its own register.
# So every generated program is data-race free and its outcomes only depend on the order of dependent transitions.

def gen_body(rng, held, depth):
    """local ops allowed while holding the protections in `held` (list of var indexes)"""
    ops = []
    for _ in range(rng.choice([1, 1, 1, 2])):
        v = rng.choice(held)
        k = rng.random()
        if k < 0.6:
            ops.append([UPDVAR, v, rng.randint(1, 2)])
        elif k < 0.75:
            ops.append([ASSERTVAR, v, rng.choice([1, 2, 5, 7, 8])])
        elif k < 0.9:
            ops.append([REGFROMVAR, v, 0])
        else:
            ops.append([VARFROMREG, v, 0])
    return ops


def gen_block(rng, me, nact, held, depth, cfg):
    k = rng.random()
    w = cfg["w"]
    acc = 0.0
    for kind, weight in w:
        acc += weight
        if k < acc:
            break
    if kind == "cs":
        m = rng.choice([x for x in (0, 1, 2) if x not in cfg["locked"]] or [3])
        cfg["locked"].append(m)
        body = gen_body(rng, held + [m], depth) if m in (0, 1) else (gen_body(rng, held, depth) if held else [])
        if depth < 1 and rng.random() < cfg["nest"]:
            body += gen_block(rng, me, nact, held + ([m] if m in (0, 1) else []), depth + 1, cfg)
        cfg["locked"].pop()
        return [[LOCK, m, 0]] + body + [[UNLOCK, m, 0]]
    if kind == "tcs":
        m = rng.choice([x for x in (0, 1) if x not in cfg["locked"]] or [3])
        if m in cfg["locked"]:
            return []
        body = gen_body(rng, held + [m], depth) if m in (0, 1) else []
        return [[TRYLOCK, m, len(body) + 1]] + body + [[UNLOCK, m, 0]]
    if kind == "semcs":
        s = rng.choice([2, 3])
        if ("s", s) in cfg["locked"]:
            return []
        body = gen_body(rng, held + [s], depth)
        return [[SEMACQ, s, 0]] + body + [[SEMREL, s, 0]]
    if kind == "semsig":
        return [[rng.choice([SEMACQ, SEMREL]), rng.choice([0, 1]), 0]]
    if kind == "bar":
        return [[BARRIER, rng.choice([0, 0, 1]), 0]]
    if kind == "put":
        return [[PUT, rng.choice([0, 0, 1]), rng.choice([1, 2, 3, -1])]]
    if kind == "get":
        r = [[GET, rng.choice([0, 0, 1]), 0]]
        if rng.random() < 0.4:
            r.append([ASSERTREG, rng.choice([1, 2, 3]), 0])
        return r
    if kind == "iput":
        return [[IPUT, rng.choice([0, 0, 1]), rng.choice([1, 2, 3])], [WAITONE, 0, 0]] if rng.random() < 0.5 else \
               [[IPUT, rng.choice([0, 1]), rng.choice([1, 2])], [IPUT, rng.choice([0, 1]), 3], [WAITONE, 0, 0], [WAITONE, 0, 0]]
    if kind == "iget":
        return [[IGET, rng.choice([0, 0, 1]), 0], [WAITONE, 0, 0]] + ([[ASSERTREG, rng.choice([1, 2, 3]), 0]] if rng.random() < 0.3 else [])
    if kind == "join":
        others = [a for a in range(nact) if a != me]
        return [[JOIN, rng.choice(others), 0]] if others else []
    if kind == "random":
        r = [[RANDOM, 0, rng.choice([1, 1, 2])]]
        k2 = rng.random()
        if k2 < 0.3:
            r.append([ASSERTREG, rng.choice([0, 1, 2]), 0])
        elif k2 < 0.6:
            r.append([PUT, 0, -1])
        return r
    return []


PROFILES = {
    "mutex":   [("cs", 0.7), ("tcs", 0.3)],
    "sem":     [("semcs", 0.55), ("semsig", 0.25), ("cs", 0.2)],
    "barrier": [("bar", 0.4), ("cs", 0.45), ("tcs", 0.15)],
    "comm":    [("put", 0.35), ("get", 0.35), ("cs", 0.15), ("random", 0.15)],
    "acomm":   [("iput", 0.3), ("iget", 0.3), ("put", 0.15), ("get", 0.15), ("cs", 0.1)],
    "mixed":   [("cs", 0.25), ("tcs", 0.1), ("semcs", 0.1), ("semsig", 0.05), ("bar", 0.08), ("put", 0.12), ("get", 0.12),
                ("join", 0.08), ("random", 0.05), ("iput", 0.03), ("iget", 0.02)],
    "udpor":   [("cs", 0.35), ("semcs", 0.15), ("semsig", 0.05), ("put", 0.17), ("get", 0.17), ("join", 0.06), ("iput", 0.03), ("iget", 0.02)],
}


def gen_prog(rng, limit=1200):
    for _ in range(200):
        prof = rng.choice(list(PROFILES))
        nact = rng.choice([2, 2, 3, 3, 4])
        cfg = {"w": PROFILES[prof], "nest": 0.5 if prof == "mutex" else 0.25, "locked": []}
        actors = []
        for me in range(nact):
            ops = []
            for _ in range(rng.choice([1, 1, 2, 2, 3])):
                ops += gen_block(rng, me, nact, [], 0, cfg)
            actors.append(ops[:8])
        users = [sum(1 for ops in actors if any(o[0] == BARRIER and o[1] == b for o in ops)) for b in range(4)]
        cnts = [max(1, u + rng.choice([0, 0, 0, -1, 1]) if u else 1) for u in users]
        caps = [rng.choice([0, 0, 1]), rng.choice([0, 1, 2]), 1, 1]
        p = {"caps": caps, "cnts": cnts, "actors": actors, "profile": prof}
        if rng.random() < 0.8:
            balance(p, rng)
        if not well_formed(p):
            continue
        if 4 <= size_estimate(p) <= limit and sum(1 for a in actors if n_transitions(a)) >= 2:
            return p
    return CORPUS[0]


def balance(p, rng):
    """most of the time give every Put a Get and every signalling SemAcq a SemRel, so that complete executions exist"""
    acts = p["actors"]
    for mb in (0, 1):
        puts = sum(1 for ops in acts for o in ops if o[0] in (PUT, IPUT) and o[1] == mb)
        gets = sum(1 for ops in acts for o in ops if o[0] in (GET, IGET) and o[1] == mb)
        for _ in range(abs(puts - gets)):
            room = [a for a in acts if len(a) < 8]
            if not room:
                break
            a = rng.choice(room)
            a.insert(rng.choice([0, len(a)]), [GET, mb, 0] if puts > gets else [PUT, mb, rng.choice([1, 2, 3])])
    for s in (0, 1):
        acq = sum(1 for ops in acts for o in ops if o[0] == SEMACQ and o[1] == s)
        rel = sum(1 for ops in acts for o in ops if o[0] == SEMREL and o[1] == s)
        for _ in range(max(0, acq - rel - p["caps"][s])):
            room = [a for a in acts if len(a) < 8]
            if not room:
                break
            a = rng.choice(room)
            a.insert(rng.choice([0, len(a)]), [SEMREL, s, 0])


def interleavings(p):
    """number of interleavings of the actors' transition sequences if nothing ever blocked (upper bound for `none`)"""
    from math import factorial
    ts = [n_transitions(ops) for ops in p["actors"]]
    r = factorial(sum(ts))
    for t in ts:
        r //= factorial(t)
    return r


def well_formed(p, hold_ok=False):
    """truncation to 8 ops may cut a block: reject programs whose pairs are broken.  hold_ok: an actor may end while still
    owning mutexes (try_lock never followed by unlock: the hand-off family and shrunk programs; still race free)"""
    for ops in p["actors"]:
        held, pend = [], 0
        i = 0
        for o in ops:
            c = o[0]
            if c == LOCK:
                held.append(("m", o[1]))
            elif c == TRYLOCK:
                if o[2] > len(ops):
                    return False
                held.append(("m", o[1]))
            elif c == UNLOCK:
                if ("m", o[1]) not in held:
                    return False
                held.remove(("m", o[1]))
            elif c == SEMACQ and o[1] >= 2:
                held.append(("s", o[1]))
            elif c == SEMREL and o[1] >= 2:
                if ("s", o[1]) not in held:
                    return False
                held.remove(("s", o[1]))
            elif c in (IPUT, IGET):
                pend += 1
            elif c == WAITONE:
                if pend == 0:
                    return False
                pend -= 1
            elif c in (UPDVAR, ASSERTVAR, REGFROMVAR, VARFROMREG, SETVAR):
                v = o[1]
                if (("m", v) if v < 2 else ("s", v)) not in held:
                    return False
        if pend or (held and not (hold_ok and all(h[0] == "m" for h in held))):
            return False
    return True


def P(caps, cnts, *actors):
    return {"caps": caps, "cnts": cnts, "actors": [list(map(list, a)) for a in actors], "profile": "corpus"}


CORPUS = [
    # two actors taking two mutexes in opposite orders: deadlock in some interleavings only, final var tells the order
    P([1, 1, 1, 1], [1, 1, 1, 1], [(1, 0, 0), (1, 1, 0), (21, 0, 1), (2, 1, 0), (2, 0, 0)],
      [(1, 1, 0), (1, 0, 0), (21, 0, 2), (2, 0, 0), (2, 1, 0)]),
    # same order: no deadlock, two outcomes
    P([1, 1, 1, 1], [1, 1, 1, 1], [(1, 0, 0), (21, 0, 1), (2, 0, 0)], [(1, 0, 0), (21, 0, 2), (2, 0, 0)]),
    # semaphore of capacity 1 with three users, each appending to var 2
    P([0, 0, 1, 1], [1, 1, 1, 1], [(4, 2, 0), (21, 2, 1), (5, 2, 0)], [(4, 2, 0), (21, 2, 2), (5, 2, 0)],
      [(4, 2, 0), (21, 2, 1), (5, 2, 0)]),
    # barrier of 2 + mutex; third actor never reaches the barrier
    P([0, 0, 1, 1], [2, 1, 1, 1], [(1, 0, 0), (21, 0, 1), (2, 0, 0), (6, 0, 0)], [(6, 0, 0), (1, 0, 0), (21, 0, 2), (2, 0, 0)]),
    # barrier expecting 3 with 2 users: always deadlocks
    P([0, 0, 1, 1], [3, 1, 1, 1], [(6, 0, 0)], [(6, 0, 0), (1, 0, 0), (2, 0, 0)]),
    # two senders, one receiver: the received order decides an assert (mc-failing-assert)
    P([0, 0, 1, 1], [1, 1, 1, 1], [(8, 0, 0), (8, 0, 0), (23, 1, 0)], [(7, 0, 1)], [(7, 0, 2)]),
    # same without the assert: two outcomes
    P([0, 0, 1, 1], [1, 1, 1, 1], [(8, 0, 0), (8, 0, 0)], [(7, 0, 1)], [(7, 0, 2)]),
    # try_lock races with a lock
    P([0, 0, 1, 1], [1, 1, 1, 1], [(3, 0, 2), (21, 0, 1), (2, 0, 0)], [(1, 0, 0), (21, 0, 2), (2, 0, 0)]),
    # semaphore signalling + join
    P([0, 0, 1, 1], [1, 1, 1, 1], [(4, 0, 0), (1, 0, 0), (21, 0, 1), (2, 0, 0)], [(1, 0, 0), (21, 0, 2), (2, 0, 0), (5, 0, 0)],
      [(9, 0, 0), (1, 0, 0), (24, 0, 0), (2, 0, 0)]),
    # MC_random feeding a mailbox and an assert
    P([0, 0, 1, 1], [1, 1, 1, 1], [(10, 0, 2), (7, 0, -1)], [(8, 0, 0), (23, 2, 0)]),
    # asynchronous sends waited in order, receiver sees FIFO order
    P([0, 0, 1, 1], [1, 1, 1, 1], [(11, 0, 1), (11, 0, 2), (13, 0, 0), (13, 0, 0)], [(8, 0, 0), (1, 0, 0), (25, 0, 0), (2, 0, 0), (8, 0, 0)]),
    # three actors, nested locks in a cycle
    P([0, 0, 1, 1], [1, 1, 1, 1], [(1, 0, 0), (1, 1, 0), (2, 1, 0), (2, 0, 0)], [(1, 1, 0), (1, 2, 0), (2, 2, 0), (2, 1, 0)],
      [(1, 2, 0), (1, 0, 0), (2, 0, 0), (2, 2, 0)]),
]


# ---- the "hand-off, then try_lock" family -------------------------------------------------------------------------
# Source-set reductions (sdpor/odpor) decide whether a race (e, e') must be reversed from the sequence v of the events that
# do not happen-after e: an actor is an *initial* of v iff its first event in v happens-after no earlier event of v.  The
# delicate executions are those where v holds a chain
#     event a of one actor  ->  FIRST event of Q, happening-after a  ->  a LATER event of Q  ->  FIRST event of R, depending
#     only on that later event
# with R created early, so that R is already explored (sleeping / in the backtrack set) at the state of the race: a wrong
# "R is an initial" answer then silently drops the reversal, and with it a Mazurkiewicz trace.  The smallest programs doing
# that are semaphore (or mailbox) hand-offs followed by try_locks on distinct mutexes; only one creation order of the four
# actors below exposes a checker that forgets the events of non-initial actors (the other orders are controls).
HO_X = [(3, 2, 0)]                      # try_lock(m2)
HO_Y = [(4, 0, 0), (3, 2, 0)]           # sem0.acquire(); try_lock(m2)
HO_Z = [(3, 0, 0)]                      # try_lock(m0)
HO_W = [(5, 0, 0), (3, 0, 0)]           # sem0.release(); try_lock(m0)
CORPUS_HANDOFF = [
    P([0, 0, 1, 1], [1, 1, 1, 1], HO_X, HO_Y, HO_Z, HO_W),     # the exposing order: 4 outcomes (who owns m2) x (who owns m0)
    P([0, 0, 1, 1], [1, 1, 1, 1], HO_X, HO_Z, HO_Y, HO_W),     # controls: same actors, other creation orders
    P([0, 0, 1, 1], [1, 1, 1, 1], HO_W, HO_Z, HO_Y, HO_X),
    P([0, 0, 1, 1], [1, 1, 1, 1], HO_Y, HO_X, HO_W, HO_Z),
    # same chain with try_lock/unlock sections that record the winners' order in the protected variables
    P([0, 0, 1, 1], [1, 1, 1, 1], [(3, 1, 2), (21, 1, 1), (2, 1, 0)], [(4, 0, 0), (3, 1, 2), (21, 1, 2), (2, 1, 0)],
      [(3, 0, 2), (21, 0, 1), (2, 0, 0)], [(5, 0, 0), (3, 0, 2), (21, 0, 2), (2, 0, 0)]),
    # the hand-off is a message, and the giver races before giving
    P([0, 0, 1, 1], [1, 1, 1, 1], HO_X, [(8, 0, 0), (3, 2, 0)], HO_Z, [(3, 0, 0), (7, 0, 5)]),
]
for _p in CORPUS_HANDOFF:
    _p["profile"] = "handoff-corpus"
HANDOFF_NONE_LIMIT = 900               # brute force stays affordable on these tiny programs (one short replay per interleaving)


def ho_section(rng, me, m):
    """try_lock section of actor `me` on mutex m: owner for ever (mostly) or released; the winner is recorded in var m (m < 2)"""
    upd = [[UPDVAR, m, me + 1]] if m < 2 else []
    if rng.random() < 0.75:
        b = [[TRYLOCK, m, len(upd)]] + upd
        if not upd and rng.random() < 0.08:
            b.append([ASSERTREG, 1, 0])                                   # "I never win": fails on some schedules only
        return b
    return [[TRYLOCK, m, len(upd) + 1]] + upd + [[UNLOCK, m, 0]]


def ho_give_take(rng, h):
    if rng.random() < 0.8:
        s = h if rng.random() < 0.8 else 0
        return [SEMREL, s, 0], [SEMACQ, s, 0]
    return [PUT, h, 5 + h], [GET, h, 0]


def gen_handoff(rng):
    """3-4 actors x 1-4 visible ops: 1-2 hand-offs (semaphore of capacity 0, sometimes a mailbox) between distinct actors and,
    per actor, 1-2 try_lock sections on 2-3 contended mutexes.  Half of the programs instantiate the chain described above
    (roles R, Q, E, G: `R: try_lock(mq)`, `Q: take; try_lock(mq)`, `E: try_lock(me)`, `G: give; try_lock(me)`) with variations
    and with R created first most of the time; the other half places hand-offs and sections freely."""
    if rng.random() < 0.5:
        mq, me_ = rng.sample([0, 1, 2], 2)
        give, take = ho_give_take(rng, 0)
        R, Q, E, G = 0, 1, 2, 3                                           # ids (= who is recorded as the winner) before reordering
        acts = {R: ho_section(rng, R, mq), Q: [take] + ho_section(rng, Q, mq), E: ho_section(rng, E, me_),
                G: ([give] + ho_section(rng, G, me_)) if rng.random() < 0.8 else (ho_section(rng, G, me_) + [give])}
        if rng.random() < 0.35:                                           # one more section somewhere
            a = rng.choice([R, Q, E, G])
            free = [m for m in (0, 1, 2) if all(o[0] != TRYLOCK or o[1] != m for o in acts[a])]
            sec = ho_section(rng, a, rng.choice(free))
            acts[a] = (sec + acts[a]) if rng.random() < 0.3 and a not in (Q, R) else (acts[a] + sec)
        k = rng.random()
        order = [R, Q, E, G]
        if 0.35 <= k < 0.7:
            rest = [Q, E, G]
            rng.shuffle(rest)
            order = [R] + rest
        elif k >= 0.7:
            rng.shuffle(order)
        return {"caps": [0, 0, 1, 1], "cnts": [1, 1, 1, 1], "actors": [acts[a] for a in order], "profile": "handoff"}
    nact = 4 if rng.random() < 0.85 else 3
    pre = [[] for _ in range(nact)]
    for h in range(rng.choice([1, 1, 1, 1, 1, 2])):
        g, t = rng.sample(range(nact), 2)
        give, take = ho_give_take(rng, h)
        pre[g].append(give)
        pre[t].append(take)
    nm = rng.choice([2, 2, 2, 3])
    mutexes = rng.sample([0, 1, 2], nm)
    actors = []
    for me in range(nact):
        blocks = [ho_section(rng, me, m) for m in rng.sample(mutexes, 1 if rng.random() < 0.85 else 2)]
        ops = list(pre[me])
        if ops and rng.random() < 0.3:                                    # hand-off after the (first) section instead of first
            blocks.insert(1, ops)
            ops = []
        for b in blocks:
            ops += b
        actors.append(ops)
    k = rng.random()
    if k < 0.5:       # actors starting with a try_lock are created first (already explored when the others race)
        actors.sort(key=lambda ops: 0 if ops[0][0] == TRYLOCK else 1)
    elif k < 0.65:
        actors.sort(key=lambda ops: 1 if ops[0][0] == TRYLOCK else 0)
    return {"caps": [0, 0, 1, 1], "cnts": [1, 1, 1, 1], "actors": actors, "profile": "handoff"}


def select_handoff(progs, models, n):
    """distinct valid programs whose brute-force exploration is affordable; mostly error-free ones with several outcomes
    (outcome sets are only comparable when the exploration is not stopped by an error)"""
    seen, multi, err = set(), [], []
    for p, m in zip(progs, models):
        key = tuple(encode(p))
        if m is None or m["invalid"] or key in seen or interleavings(p) > HANDOFF_NONE_LIMIT or not well_formed(p, hold_ok=True):
            continue
        seen.add(key)
        if m["deadlock"] or m["failure"]:
            if m["outcomes"]:
                err.append(p)
        elif len(m["outcomes"]) >= 3:
            multi.append(p)
    multi.sort(key=lambda p: -len(p["actors"]))       # stable: 4-actor programs first
    ne = min(len(err), max(1, n // 5))
    return multi[:n - ne] + err[:ne]


# ------------------------------------------------------------------------------------------------ reference model

def parse_model(ans):
    if not ans or ans[0] == 0:
        return None
    n = ans[5]
    outs = set(tuple(ans[6 + 8 * i: 14 + 8 * i]) for i in range(n))
    return {"deadlock": ans[1], "failure": ans[2], "invalid": ans[3], "nstates": ans[4], "outcomes": outs,
            "ntrans": ans[6 + 8 * n] if len(ans) > 6 + 8 * n else 0}


def run_models_exe(exe, progs):
    import subprocess
    inp = "\n".join(" ".join(str(x) for x in [FUEL] + encode(p)) for p in progs) + "\n"
    r = subprocess.run([exe, "run_c38"], input=inp, stdout=subprocess.PIPE, text=True, check=True)
    return [parse_model([int(t) for t in l.split()]) for l in r.stdout.strip().split("\n")]


def run_models(progs):
    return [parse_model(a) for a in fw.run_model("c38", "run_c38", [[FUEL] + encode(p) for p in progs])]


def classify(m):
    err = bool(m["deadlock"] or m["failure"])
    if err:
        return "error+outcomes" if m["outcomes"] else "always-error"
    return "several-outcomes" if len(m["outcomes"]) >= 2 else "one-outcome"


QUOTA = {"several-outcomes": 0.4, "error+outcomes": 0.35, "one-outcome": 0.1, "always-error": 0.15}


def select(progs, models, n):
    """keep n programs, favouring those where the schedule matters (several outcomes, errors on some schedules only)"""
    by = {k: [] for k in QUOTA}
    for p, m in zip(progs, models):
        if m is None or m["invalid"]:
            continue
        by[classify(m)].append((p, m))
    out = []
    for k, q in QUOTA.items():
        out += by[k][:max(1, int(round(q * n)))]
        by[k] = by[k][max(1, int(round(q * n))):]
    rest = [x for k in QUOTA for x in by[k]]
    out += rest[:max(0, n - len(out))]
    return out[:n]


# ------------------------------------------------------------------------------------------------ simgrid-mc

REDS = ["none", "dpor", "sdpor", "odpor"]
NONE_LIMIT = 300          # `none` replays every interleaving: only used on programs with few of them


def combos(p, full=True, none_limit=None):
    cs = []
    for red in REDS:
        if red == "none" and interleavings(p) > (none_limit or NONE_LIMIT):
            continue
        for algo in ("DFS", "BeFS"):
            for strat in (("none", "uniform") if full else ("none",)):
                cs.append((red, algo, strat))
    if all(o[0] in UDPOR_OPS or o[0] >= 20 for ops in p["actors"] for o in ops):
        cs.append(("udpor", "DFS", "none"))
    return cs


class Runner:
    def __init__(self, sgmc, prog, platform, workdir, env=None, timeout=25, jobs=None):
        self.sgmc, self.prog, self.platform, self.workdir, self.env, self.timeout = sgmc, prog, platform, workdir, env, timeout
        os.makedirs(workdir, exist_ok=True)
        self.jobs = jobs or max(2, (os.cpu_count() or 4) // 2)
        self.count = 0

    def run_one(self, pfile, combo, mode, seed=1):
        import subprocess
        red, algo, strat = combo
        cmd = [self.sgmc, self.prog, self.platform, pfile, "--cfg=model-check/reduction:" + red,
               "--cfg=model-check/exploration-algo:" + algo, "--cfg=model-check/strategy:" + strat,
               "--cfg=model-check/rand-seed:%d" % seed, "--cfg=model-check/search-critical:false",
               "--log=xbt_cfg.thresh:warning", "--log=no_loc"]
        if mode == "B":
            cmd.append("--cfg=model-check/max-errors:-1")
        e = dict(os.environ)
        if self.env:
            e.update(self.env)
        pr = subprocess.Popen(cmd, stdout=subprocess.PIPE, stderr=subprocess.PIPE, env=e, cwd=self.workdir, start_new_session=True)
        try:
            so, se = pr.communicate(timeout=self.timeout)
            rc, so, se = pr.returncode, so.decode("utf8", "replace"), se.decode("utf8", "replace")
        except subprocess.TimeoutExpired:
            import signal
            try:
                os.killpg(pr.pid, signal.SIGKILL)          # the application is a child of simgrid-mc: kill the whole group
            except OSError:
                pass
            pr.communicate()
            return {"rc": 124, "outs": set(), "dl": False, "af": False, "log": ""}
        outs = set()
        nlines = 0
        for l in so.split("\n"):
            if l.startswith("MC3OUT "):
                outs.add(tuple(int(t) for t in l.split()[1:9]))
                nlines += 1
        return {"rc": rc, "outs": outs, "nlines": nlines, "dl": "DEADLOCK DETECTED" in se, "af": "PROPERTY NOT VALID" in se,
                "traces": (re.findall(r"(\d+) explored traces", se) or ["?"])[-1], "log": se[-1500:]}

    def write_prog(self, p):
        self.count += 1
        f = os.path.join(self.workdir, "p%d_%d.txt" % (os.getpid(), self.count))
        open(f, "w").write(" ".join(str(x) for x in encode(p)) + "\n")
        return f

    def run_all(self, p, m, cs, modes=("A",)):
        pfile = self.write_prog(p)
        tasks = [(c, mode) for c in cs for mode in modes if mode == "A" or (m["deadlock"] or m["failure"])]
        with ThreadPoolExecutor(self.jobs) as ex:
            rs = list(ex.map(lambda t: self.run_one(pfile, t[0], t[1]), tasks))
        os.remove(pfile)
        return dict(zip(tasks, rs))


def run_many(runner, items, modes):
    """items: list of (p, m, combos); returns list of result dicts; all simgrid-mc runs share one thread pool"""
    files, tasks = [], []
    for i, (p, m, cs) in enumerate(items):
        f = runner.write_prog(p)
        files.append(f)
        for c in cs:
            for mode in modes:
                if mode == "A" or m["deadlock"] or m["failure"]:
                    tasks.append((i, c, mode))
    with ThreadPoolExecutor(runner.jobs) as ex:
        rs = list(ex.map(lambda t: runner.run_one(files[t[0]], t[1], t[2]), tasks))
    res = [dict() for _ in items]
    for (i, c, mode), r in zip(tasks, rs):
        res[i][(c, mode)] = r
    for f in files:
        os.remove(f)
    return res


# ------------------------------------------------------------------------------------------------ oracle

def judge(p, m, res):
    """Compare every run with the verified reference.  Returns a list of verdicts
         {"kind": "fail" | "mismatch" | "skip", "what": <defect kind>, "combo", "mode", "text"}
    fail     = simgrid-mc misses an outcome / an error that the reference reaches AND that another exploration of the same
               real program did reach or report (so the real program does it), or it crashes, or exits 0 after an error;
    mismatch = implementation and reference disagree without such an independent witness (the tie is broken);
    skip     = run not usable (timeout, program rejected explicitly by the checker)."""
    M = m["outcomes"]
    U = set()
    seen_dl = seen_af = False
    for r in res.values():
        U |= r["outs"]
        seen_dl |= r["dl"] or r["rc"] == 2
        seen_af |= r["af"] or r["rc"] == 1
    v = []
    merr = bool(m["deadlock"] or m["failure"])

    def add(kind, what, combo, mode, text):
        where = "reduction=%s explorer=%s strategy=%s%s" % (combo + ("" if mode == "A" else " max-errors=-1",))
        v.append({"kind": kind, "what": what, "combo": combo, "mode": mode, "text": where + ": " + text})

    for (combo, mode), r in sorted(res.items()):
        rc = r["rc"]
        if rc == 124:
            add("skip", "timeout", combo, mode, "timeout")
            continue
        if rc not in (0, 1, 2):
            if "failed to connect within" in r["log"]:
                # overloaded machine: the application did not reach the checker within its 5 s start-up limit (says nothing about soundness)
                add("skip", "timeout", combo, mode, "application start-up timeout")
            elif "no specialized computation" in r["log"] or "not supported yet" in r["log"]:
                add("skip", "rejected", combo, mode, "program rejected by the checker")
            else:
                add("fail", "checker-crash", combo, mode, "simgrid-mc ended with status %d: %s" % (rc, " ".join(r["log"][-400:].split())))
            continue
        extra = r["outs"] - M
        if extra:
            add("mismatch", "outcome-not-in-reference", combo, mode,
                "printed outcome(s) %s that the reference semantics cannot reach" % sorted(extra)[:3])
        missing = M - r["outs"]
        if ((not merr) or mode == "B") and missing:
            wit = sorted(missing & U)
            if wit:
                add("fail", "missed-outcome", combo, mode,
                    "explored %s trace(s) and never reached outcome %s, which the reference semantics reaches and another exploration "
                    "of the same program did reach (%d of %d outcomes found)" % (r.get("traces"), wit[0], len(r["outs"] & M), len(M)))
            else:
                add("mismatch", "reference-outcome-unwitnessed", combo, mode,
                    "misses outcome %s of the reference; no run of the real program reached it" % (sorted(missing)[0],))
        rep_dl = r["dl"] or (mode == "A" and rc == 2)
        rep_af = r["af"] or rc == 1
        if not merr:
            if rc != 0 or rep_dl or rep_af:
                add("mismatch", "error-not-in-reference", combo, mode,
                    "reports %s (status %d) but the reference semantics has no reachable deadlock/assertion failure" % ("a deadlock" if rep_dl else "an assertion failure", rc))
            continue
        if rep_dl and not m["deadlock"]:
            add("mismatch", "deadlock-not-in-reference", combo, mode, "reports a deadlock, the reference has none")
        if rep_af and not m["failure"]:
            add("mismatch", "failure-not-in-reference", combo, mode, "reports an assertion failure, the reference has none")
        if not rep_dl and not rep_af:
            what = "missed-deadlock" if m["deadlock"] else "missed-assertion-failure"
            if (m["deadlock"] and seen_dl) or (m["failure"] and seen_af):
                add("fail", what, combo, mode, "ends with status %d and reports no error after %s trace(s), but an error is reachable "
                    "(reference semantics; reported by another exploration of the same program)" % (rc, r.get("traces")))
            else:
                add("mismatch", "reference-error-unwitnessed", combo, mode, "reports no error; the reference reaches one that no run reported")
        elif rc == 0:
            add("fail", "exit-status-0-despite-error", combo, mode, "logs an error but exits with status 0")
        elif mode == "B":
            if m["deadlock"] and not rep_dl and seen_dl:
                add("fail", "missed-deadlock", combo, mode, "reports assertion failures only; a deadlock is reachable too")
            if m["failure"] and not rep_af and seen_af:
                add("fail", "missed-assertion-failure", combo, mode, "reports deadlocks only; an assertion failure is reachable too")
    return v


def uses(p, codes):
    return any(o[0] in codes for ops in p["actors"] for o in ops)


def known_region(p, combo, mode, what):
    """Regions where the pinned simgrid-mc is known to be defective (KNOWN_FINDINGS.txt); everything else is strict."""
    red, algo, strat = combo
    missed = what.startswith("missed-")
    if red == "udpor":
        return {"exit-status-0-despite-error": "udpor-exit-status-0-on-error", "checker-crash": "udpor-crash"}.get(what, "udpor-incomplete")
    if algo == "BeFS" and strat == "uniform":
        if what == "checker-crash" and red == "odpor":
            return "odpor-befs-uniform-crash"
        if missed:
            return "befs-uniform-incomplete"
    if algo == "DFS" and strat == "uniform" and red in ("dpor", "sdpor", "odpor") and missed:
        return "dfs-uniform-%s-incomplete" % red
    if red == "odpor" and what == "checker-crash":
        return "odpor-crash"
    if red == "odpor" and algo == "BeFS" and missed and uses(p, {RANDOM}):
        return "odpor-befs-random-incomplete"
    if red == "sdpor" and what == "checker-crash":
        return "sdpor-crash"
    if mode == "B" and missed and (red, algo) != ("none", "DFS"):
        return "maxerr-%s-%s-incomplete" % (red, algo)
    return None


def strict_sig(p, v):
    red, algo, strat = v["combo"]
    return "%s-%s-%s-%s%s-%s" % (v["what"], red, algo, strat, "" if v["mode"] == "A" else "-maxerr", features(p))


# ------------------------------------------------------------------------------------------------ shrinking

WITNESS = ("none", "DFS", "none")
UNWITNESSED = {"missed-outcome": "reference-outcome-unwitnessed", "missed-deadlock": "reference-error-unwitnessed",
               "missed-assertion-failure": "reference-error-unwitnessed"}


def fails_same(runner, model_fn, p, combo, mode, what):
    """does program p still show this kind of failure for this combo?  (brute force is the witness when it is affordable;
    while shrinking, the verified reference alone is accepted as well)"""
    if not well_formed(p, hold_ok=True) or sum(1 for a in p["actors"] if n_transitions(a)) < 1:
        return False
    m = model_fn([p])[0]
    if m is None or m["invalid"]:
        return False
    if mode == "B" and not (m["deadlock"] or m["failure"]):
        return False
    cs = [combo] + ([WITNESS] if interleavings(p) <= NONE_LIMIT and combo != WITNESS else [])
    res = run_many(runner, [(p, m, cs)], (mode,))[0]
    for v in judge(p, m, res):
        if v["combo"] != combo or v["mode"] != mode:
            continue
        if (v["kind"] == "fail" and v["what"] == what) or (v["kind"] == "mismatch" and v["what"] == UNWITNESSED.get(what)):
            return True
    return False


def shrink(runner, model_fn, p, combo, mode, what, budget=60):
    """greedy: drop actors, then runs of ops, then single ops, while the failure persists"""
    import copy
    cur = copy.deepcopy(p)
    steps = 0
    changed = True
    while changed and steps < budget:
        changed = False
        cands = []
        for a in range(len(cur["actors"])):
            if len(cur["actors"]) > 1:
                q = copy.deepcopy(cur)
                del q["actors"][a]
                for ops in q["actors"]:                 # renumber join targets
                    for o in ops:
                        if o[0] == JOIN:
                            o[1] = o[1] - 1 if o[1] > a else (99 if o[1] == a else o[1])
                if all(o[0] != JOIN or o[1] != 99 for ops in q["actors"] for o in ops):
                    cands.append(q)
        for a, ops in enumerate(cur["actors"]):
            for i in range(len(ops)):
                for l in (4, 3, 2, 1):
                    if i + l <= len(ops):
                        q = copy.deepcopy(cur)
                        del q["actors"][a][i:i + l]
                        for j in range(i - 1, -1, -1):  # keep TryLock skip counts consistent
                            o = q["actors"][a][j]
                            if o[0] == TRYLOCK and j + o[2] >= i:
                                o[2] = max(0, o[2] - l)
                        cands.append(q)
        cands.sort(key=lambda q: sum(len(x) for x in q["actors"]))
        for q in cands:
            steps += 1
            if steps > budget:
                break
            if fails_same(runner, model_fn, q, combo, mode, what):
                cur = q
                changed = True
                break
    return cur


# ------------------------------------------------------------------------------------------------ the check

def plan(p, idx, with_uniform):
    cs = combos(p, full=False)
    if with_uniform:
        cs += [c for c in combos(p, full=True) if c[2] == "uniform"]
    return cs


def run(ctx):
    import json, random
    ctx.level = "model_checking"
    ctx.simgrid(["simgrid", "simgrid-mc"])
    ctx.prove()
    prog_exe = fw.build_harness("mc3_prog")
    platform = os.path.join(fw.REPO, "examples/platforms/small_platform.xml")
    workdir = os.path.join(fw.B, "run", "c38")
    runner = Runner(fw.SIMGRID_MC, prog_exe, platform, workdir, timeout=ctx.n(30, 60))
    ctx.cov["rule"] = ("programs of 2-4 actors x <=8 ops over mutexes (lock/try_lock/unlock), semaphores, barriers, mailboxes (put/get, "
                       "put_async/get_async + wait), join, MC_random, with MC_assert on lock-protected shared variables and on received values; "
                       "race free by construction; 6x candidates are generated per kept program and ranked by the verified reference so that "
                       "most kept programs are schedule sensitive; plus the hand-off family (CORPUS_HANDOFF + gen_handoff: 4 actors, a semaphore/"
                       "mailbox hand-off followed by try_locks on distinct mutexes, half of them the chain `R: try_lock(mq) | Q: take; try_lock(mq) "
                       "| E: try_lock(me) | G: give; try_lock(me)` with R created first) on which brute force and every reduction x explorer x "
                       "strategy run.  non-trivial = the reference says the schedule matters: at least two terminal "
                       "outcomes, or an error reachable on some schedules while others complete.  distinct = distinct program text")
    ctx.assumptions += [
        "the reference semantics McRef.v is hand-written from MutexImpl/SemaphoreImpl/BarrierImpl/CommImpl/ActorJoinSimcall in MC mode; it is tied "
        "to the rebuilt kernel only through these differential runs (every outcome printed by the real program must be reachable in the "
        "reference, and the brute-force exploration `reduction:none` + DFS must print exactly the reference's outcomes)",
        "a missing outcome/error is charged to the checker only when another exploration of the same real program exhibited it",
        "not covered: condition variables, iprobe/test/waitany, actor creation during the run, sthread programs, the parallel explorer, "
        "communication-determinism mode; timeouts of simgrid-mc runs are skipped and counted",
        "the soundness of the DPOR/SDPOR/ODPOR/UDPOR race analyses is checked per program, not proved"]

    if ctx.replay:
        case = json.load(open(ctx.replay))["case"]
        # the replayed combination plus every strategy-none combination of the same program as independent witnesses
        forced = [tuple(case["combo"])] if case.get("combo") else []
        forced += [c for c in combos(case["prog"], full=False, none_limit=HANDOFF_NONE_LIMIT) if c not in forced]
        items = [(case["prog"], forced, True)]
    else:
        n = ctx.n(22, 260)
        cands = [gen_prog(ctx.rng, limit=ctx.n(700, 1500)) for _ in range(6 * n)]
        ms = run_models(cands)
        sel = select(cands, ms, n)
        items = [(p, None, i % 3 == 0) for i, p in enumerate(CORPUS + [x[0] for x in sel])]
        # the hand-off family: every reduction x explorer x strategy (brute force included) on every program, in both modes
        nh = ctx.n(8, 100)
        hcands = [gen_handoff(ctx.rng) for _ in range(12 * nh)]
        hsel = select_handoff(hcands, run_models(hcands), nh)
        # brute force: DFS and BeFS everywhere; with the uniform strategy only DFS (BeFS + uniform is a listed known-defective region)
        # and, in the quick tier, only on the corpus (a brute-force run costs ~20 ms per interleaving)
        drop = {("none", "BeFS", "uniform")}
        fam = [(p, [c for c in combos(p, full=True, none_limit=HANDOFF_NONE_LIMIT)
                    if c not in drop and not (ctx.quick and c == ("none", "DFS", "uniform") and p["profile"] != "handoff-corpus")], True)
               for p in CORPUS_HANDOFF + hsel]
        items = items[:len(CORPUS)] + fam + items[len(CORPUS):]
    progs = [it[0] for it in items]
    models = run_models(progs)
    ctx.notes.append("setup+proofs+reference done at %.0fs" % (time.time() - ctx.t0))

    work, dist = [], {"skipped-invalid-or-too-big": 0}
    tot_states = tot_trans = 0
    for (p, forced, uni), m in zip(items, models):
        if m is None or m["invalid"]:
            dist["skipped-invalid-or-too-big"] += 1
            continue
        cs = forced or plan(p, 0, uni)
        work.append((p, m, cs))
        tot_states += m["nstates"]
        tot_trans += m["ntrans"]
        dist[classify(m)] = dist.get(classify(m), 0) + 1
        dist["profile:" + p.get("profile", "?")] = dist.get("profile:" + p.get("profile", "?"), 0) + 1
    # mode A everywhere; mode B (max-errors=-1: keep exploring after an error) for the strategy-none combos
    resA = run_many(runner, work, ("A",))
    # (every other program only: beyond brute force, exploring after an accepted error is a known-defective area)
    workB = [(p, m, [c for c in cs if c[2] == "none"] if (k % 2 == 0 or ctx.replay or p.get("profile", "").startswith("handoff")) else [])
             for k, (p, m, cs) in enumerate(work)]
    resB = run_many(runner, [(p, m, cs if (m["deadlock"] or m["failure"]) else []) for p, m, cs in workB], ("B",))

    ctx.notes.append("simgrid-mc runs done at %.0fs" % (time.time() - ctx.t0))
    model_fn = run_models
    nruns = traces = skipped = rejected = 0
    strict_fail = {}
    for (p, m, cs), ra, rb in zip(work, resA, resB):
        res = dict(ra)
        res.update(rb)
        nruns += len(res)
        traces += sum(r.get("nlines", 0) for r in res.values())
        nontriv = len(m["outcomes"]) >= 2 or ((m["deadlock"] or m["failure"]) and len(m["outcomes"]) >= 1)
        ctx.case(encode(p), nontriv, {"program": show(p), "reference": {"states": m["nstates"], "deadlock": bool(m["deadlock"]),
                 "assertion_failure": bool(m["failure"]), "outcomes": sorted(m["outcomes"])[:6]},
                 "runs": {"%s/%s/%s/%s" % (c + (md,)): {"status": r["rc"], "outcomes": len(r["outs"]), "traces": r.get("traces")} for (c, md), r in sorted(res.items())[:6]}}
                 if nontriv else None)
        for v in judge(p, m, res):
            case = {"prog": p, "combo": list(v["combo"]), "mode": v["mode"], "encoded": encode(p), "shown": show(p)}
            if v["kind"] == "skip":
                skipped += v["what"] == "timeout"
                rejected += v["what"] == "rejected"
            elif v["kind"] == "mismatch" and v["what"].endswith("-unwitnessed") and known_region(p, v["combo"], v["mode"], "missed-outcome"):
                # nobody exhibited it on the real program, but this combination is known to be incomplete: charge it there
                ctx.fail(known_region(p, v["combo"], v["mode"], "missed-outcome"), v["text"] + " on " + show(p), case)
            elif v["kind"] == "mismatch":
                ctx.mismatch("reference-vs-simgrid-mc:" + v["what"], v["text"] + " on " + show(p), case)
            else:
                reg = known_region(p, v["combo"], v["mode"], v["what"])
                if reg:
                    ctx.fail(reg, v["text"] + " on " + show(p), case)
                else:
                    strict_fail.setdefault((v["what"], v["combo"], v["mode"]), []).append((p, v))
    # shrink the unknown failures (a few), then report them
    for (what, combo, mode), lst in strict_fail.items():
        ctx.notes.append("unlisted failure %s %s mode %s on %d program(s), e.g. %s" % (what, "/".join(combo), mode, len(lst), show(lst[0][0])))
    for k, ((what, combo, mode), lst) in enumerate(sorted(strict_fail.items(), key=lambda kv: str(kv[0]))):
        lst.sort(key=lambda pv: sum(len(a) for a in pv[0]["actors"]))
        p, v = lst[0]
        q = shrink(runner, model_fn, p, combo, mode, what, budget=ctx.n(25, 80)) if k < 4 and not ctx.replay else p
        ctx.fail(strict_sig(q, v), v["text"] + " on " + show(p) + ("  [shrunk to: %s]" % show(q) if q is not p else ""),
                 {"prog": q, "combo": list(combo), "mode": mode, "encoded": encode(q), "shown": show(q), "original": show(p)})
    ctx.cov["states"] = tot_states
    ctx.cov["transitions"] = tot_trans
    ctx.cov["traces_validated_against_impl"] = traces
    ctx.cov["input_distribution"] = dist
    ctx.cov["simgrid_mc_runs"] = nruns
    ctx.cov["runs_timed_out"] = int(skipped)
    ctx.cov["runs_rejected_by_checker"] = int(rejected)
    ctx.cov["explanation"] = ("states/transitions = size of the state graphs enumerated by the verified reference explorer over all programs of this "
                              "run; traces_validated_against_impl = complete executions of the real program under simgrid-mc whose printed "
                              "outcome was checked to be a reachable terminal outcome of the reference")
    shutil.rmtree(workdir, ignore_errors=True)


META = {
    "level": "model_checking",
    "text": "Reference = an executable interleaving semantics of small S4U programs at the granularity of the checker's transitions (McRef.v) and a "
            "DFS explorer over it, proved sound AND complete in Coq for every program (C38_ref_states/complete/deadlock/failure: the explorer returns "
            "exactly the outcomes of the reachable terminal states and flags a deadlock / MC_assert failure iff one is reachable, fuel exhaustion "
            "excluded); plus the classical sleep-set theorem on an abstract LTS with a commuting independence relation (C38_sleepset_sound/complete). "
            "Each generated race-free program is run by the real S4U API under the rebuilt simgrid-mc for reduction none/dpor/sdpor/odpor x DFS/BeFS x "
            "strategy none/uniform (+udpor on its subset), stopping at the first error and with max-errors=-1; the set of outcomes printed by complete "
            "executions and the verdict (exit status, DEADLOCK DETECTED / PROPERTY NOT VALID) must equal the reference's. A second corpus and "
            "generator aim at source-set computations (sdpor/odpor initials): tiny 4-actor programs where a semaphore/mailbox hand-off is followed "
            "by try_locks on distinct mutexes and the actor whose first event closes the happens-before chain is created first (already "
            "explored/sleeping at the race); on these, brute force (<= 900 interleavings, DFS and BeFS) and dpor/sdpor/odpor x DFS/BeFS x "
            "none/uniform all run in the quick tier, with the other creation orders as controls.",
    "note": "Soundness of the DPOR/SDPOR/ODPOR/UDPOR race analyses is NOT mechanised: it is checked per program against the verified-complete reference "
            "(only the sleep-set core is a theorem). The reference semantics is hand-written and tied to the kernel by the same differential runs "
            "(brute force must reproduce it exactly). Not covered: condition variables, iprobe/test/waitany, dynamic actor creation, sthread "
            "programs, the parallel explorer. Known defects of the pinned checker are listed in KNOWN_FINDINGS.txt (BeFS with the uniform strategy, "
            "DFS+uniform with dpor/sdpor/odpor, odpor+BeFS with MC_random, exploration after an accepted error with BeFS/odpor, udpor) and are judged "
            "by the oracle only. Mutation record (corpus/C38/mutants/fix-C38.list): fires on the seeded change `disqualified-actor test hoisted before "
            "push_transition in get_missing_source_set_actors_from` (sdpor misses 1 of 4 outcomes of `TryLock(2) || SemAcq(0) TryLock(2) || "
            "TryLock(0) || SemRel(0) TryLock(0)`; found by the corpus entry and by ~1 in 6 generated family programs), on sleep set keeping dependent "
            "transitions, dpor backward scan off by one, sdpor/odpor skipping the races of the last event; quiet on two behaviour-preserving "
            "rewrites. simgrid-mc runs that die of its own 5 s application start-up limit (overloaded machine) are counted as timeouts.",
    "technique": "Coq proof of a reference explorer (soundness+completeness w.r.t. inductive reachability) + sleep-set theorem; extracted reference "
                 "compared per generated program with simgrid-mc runs of a generic S4U interpreter",
    "claimed": True,
}
