"""C38 — model-checker reductions are sound.

Reference: the Coq-verified explorer SGV.Mc.Explore over the reference semantics SGV.Mc.McRef (theorems C38_ref_*: it returns
exactly the reachable terminal outcomes and says "deadlock"/"assertion failure" iff one is reachable).
Tie/search: generated race-free S4U programs (harness/mc3_prog.cpp interprets the same encoding with the real S4U API) are run
under the rebuilt simgrid-mc with every reduction x explorer x strategy; the set of outcomes printed by the complete
executions and the verdict are compared with the reference.
"""
import json, os, re, shutil, tempfile
from concurrent.futures import ThreadPoolExecutor

try:
    import fw
except ImportError:                                   # exploratory use outside bin/check
    fw = None

FUEL = 400000
# op codes (see coq/theories/Mc/McRef.v and harness/mc3_prog.cpp)
LOCK, UNLOCK, TRYLOCK, SEMACQ, SEMREL, BARRIER, PUT, GET, JOIN, RANDOM, IPUT, IGET, WAITONE = range(1, 14)
SETVAR, UPDVAR, ASSERTVAR, ASSERTREG, REGFROMVAR, VARFROMREG = range(20, 26)
NAMES = {1: "Lock", 2: "Unlock", 3: "TryLock", 4: "SemAcq", 5: "SemRel", 6: "Barrier", 7: "Put", 8: "Get", 9: "Join",
         10: "Random", 11: "IPut", 12: "IGet", 13: "WaitOne", 20: "SetVar", 21: "UpdVar", 22: "AssertVarNe",
         23: "AssertRegNe", 24: "RegFromVar", 25: "VarFromReg"}
UDPOR_OPS = {LOCK, UNLOCK, SEMACQ, SEMREL, PUT, GET, JOIN, IPUT, IGET, WAITONE}
TWO_STEP = {LOCK, SEMACQ, BARRIER, PUT, GET}


# ------------------------------------------------------------------------------------------------ programs

def encode(p):
    l = [len(p["actors"])] + list(p["caps"]) + list(p["cnts"])
    for ops in p["actors"]:
        l.append(len(ops))
        for o in ops:
            l += list(o)
    return l


def show(p):
    acts = []
    for ops in p["actors"]:
        acts.append(" ".join("%s(%s)" % (NAMES.get(o[0], "?%d" % o[0]), ",".join(str(x) for x in o[1:])) for o in ops))
    return "caps=%s cnts=%s " % (p["caps"], p["cnts"]) + " || ".join(acts)


def n_transitions(ops):
    return sum(2 if o[0] in TWO_STEP else 1 for o in ops if o[0] < 20)


def size_estimate(p):
    r = 1
    for ops in p["actors"]:
        r *= n_transitions(ops) + 1
    return r


def features(p):
    f = set()
    for ops in p["actors"]:
        for o in ops:
            c = o[0]
            f.add({1: "mutex", 2: "mutex", 3: "trylock", 4: "sem", 5: "sem", 6: "barrier", 7: "comm", 8: "comm", 9: "join",
                   10: "random", 11: "acomm", 12: "acomm", 13: "acomm"}.get(c, "local"))
    f.discard("local")
    return "+".join(sorted(f)) or "none"


# Variables 0,1 are only touched while holding mutex 0,1; variables 2,3 only while holding the single token of
# semaphore 2,3 (capacity 1, used strictly as acquire/release pairs).  Everything else an actor reads is its own register.
# So every generated program is data-race free and its outcomes only depend on the order of dependent transitions.

def gen_body(rng, held, depth):
    """local ops allowed while holding the protections in `held` (list of var indexes)"""
    ops = []
    for _ in range(rng.choice([1, 1, 1, 2])):
        v = rng.choice(held)
        k = rng.random()
        if k < 0.6:
            ops.append([UPDVAR, v, rng.randint(1, 2)])
        elif k < 0.75:
            ops.append([ASSERTVAR, v, rng.choice([1, 2, 5, 7, 8])])
        elif k < 0.9:
            ops.append([REGFROMVAR, v, 0])
        else:
            ops.append([VARFROMREG, v, 0])
    return ops


def gen_block(rng, me, nact, held, depth, cfg):
    k = rng.random()
    w = cfg["w"]
    acc = 0.0
    for kind, weight in w:
        acc += weight
        if k < acc:
            break
    if kind == "cs":
        m = rng.choice([x for x in (0, 1, 2) if x not in cfg["locked"]] or [3])
        cfg["locked"].append(m)
        body = gen_body(rng, held + [m], depth) if m in (0, 1) else (gen_body(rng, held, depth) if held else [])
        if depth < 1 and rng.random() < cfg["nest"]:
            body += gen_block(rng, me, nact, held + ([m] if m in (0, 1) else []), depth + 1, cfg)
        cfg["locked"].pop()
        return [[LOCK, m, 0]] + body + [[UNLOCK, m, 0]]
    if kind == "tcs":
        m = rng.choice([x for x in (0, 1) if x not in cfg["locked"]] or [3])
        if m in cfg["locked"]:
            return []
        body = gen_body(rng, held + [m], depth) if m in (0, 1) else []
        return [[TRYLOCK, m, len(body) + 1]] + body + [[UNLOCK, m, 0]]
    if kind == "semcs":
        s = rng.choice([2, 3])
        if ("s", s) in cfg["locked"]:
            return []
        body = gen_body(rng, held + [s], depth)
        return [[SEMACQ, s, 0]] + body + [[SEMREL, s, 0]]
    if kind == "semsig":
        return [[rng.choice([SEMACQ, SEMREL]), rng.choice([0, 1]), 0]]
    if kind == "bar":
        return [[BARRIER, rng.choice([0, 0, 1]), 0]]
    if kind == "put":
        return [[PUT, rng.choice([0, 0, 1]), rng.choice([1, 2, 3, -1])]]
    if kind == "get":
        r = [[GET, rng.choice([0, 0, 1]), 0]]
        if rng.random() < 0.4:
            r.append([ASSERTREG, rng.choice([1, 2, 3]), 0])
        return r
    if kind == "iput":
        return [[IPUT, rng.choice([0, 0, 1]), rng.choice([1, 2, 3])], [WAITONE, 0, 0]] if rng.random() < 0.5 else \
               [[IPUT, rng.choice([0, 1]), rng.choice([1, 2])], [IPUT, rng.choice([0, 1]), 3], [WAITONE, 0, 0], [WAITONE, 0, 0]]
    if kind == "iget":
        return [[IGET, rng.choice([0, 0, 1]), 0], [WAITONE, 0, 0]] + ([[ASSERTREG, rng.choice([1, 2, 3]), 0]] if rng.random() < 0.3 else [])
    if kind == "join":
        others = [a for a in range(nact) if a != me]
        return [[JOIN, rng.choice(others), 0]] if others else []
    if kind == "random":
        r = [[RANDOM, 0, rng.choice([1, 1, 2])]]
        k2 = rng.random()
        if k2 < 0.3:
            r.append([ASSERTREG, rng.choice([0, 1, 2]), 0])
        elif k2 < 0.6:
            r.append([PUT, 0, -1])
        return r
    return []


PROFILES = {
    "mutex":   [("cs", 0.7), ("tcs", 0.3)],
    "sem":     [("semcs", 0.55), ("semsig", 0.25), ("cs", 0.2)],
    "barrier": [("bar", 0.4), ("cs", 0.45), ("tcs", 0.15)],
    "comm":    [("put", 0.35), ("get", 0.35), ("cs", 0.15), ("random", 0.15)],
    "acomm":   [("iput", 0.3), ("iget", 0.3), ("put", 0.15), ("get", 0.15), ("cs", 0.1)],
    "mixed":   [("cs", 0.25), ("tcs", 0.1), ("semcs", 0.1), ("semsig", 0.05), ("bar", 0.08), ("put", 0.12), ("get", 0.12),
                ("join", 0.08), ("random", 0.05), ("iput", 0.03), ("iget", 0.02)],
    "udpor":   [("cs", 0.35), ("semcs", 0.15), ("semsig", 0.05), ("put", 0.17), ("get", 0.17), ("join", 0.06), ("iput", 0.03), ("iget", 0.02)],
}


def gen_prog(rng, limit=1200):
    for _ in range(200):
        prof = rng.choice(list(PROFILES))
        nact = rng.choice([2, 2, 3, 3, 4])
        cfg = {"w": PROFILES[prof], "nest": 0.5 if prof == "mutex" else 0.25, "locked": []}
        actors = []
        for me in range(nact):
            ops = []
            for _ in range(rng.choice([1, 1, 2, 2, 3])):
                ops += gen_block(rng, me, nact, [], 0, cfg)
            actors.append(ops[:8])
        users = [sum(1 for ops in actors if any(o[0] == BARRIER and o[1] == b for o in ops)) for b in range(4)]
        cnts = [max(1, u + rng.choice([0, 0, 0, -1, 1]) if u else 1) for u in users]
        caps = [rng.choice([0, 0, 1]), rng.choice([0, 1, 2]), 1, 1]
        p = {"caps": caps, "cnts": cnts, "actors": actors, "profile": prof}
        if rng.random() < 0.8:
            balance(p, rng)
        if not well_formed(p):
            continue
        if 4 <= size_estimate(p) <= limit and sum(1 for a in actors if n_transitions(a)) >= 2:
            return p
    return CORPUS[0]


def balance(p, rng):
    """most of the time give every Put a Get and every signalling SemAcq a SemRel, so that complete executions exist"""
    acts = p["actors"]
    for mb in (0, 1):
        puts = sum(1 for ops in acts for o in ops if o[0] in (PUT, IPUT) and o[1] == mb)
        gets = sum(1 for ops in acts for o in ops if o[0] in (GET, IGET) and o[1] == mb)
        for _ in range(abs(puts - gets)):
            room = [a for a in acts if len(a) < 8]
            if not room:
                break
            a = rng.choice(room)
            a.insert(rng.choice([0, len(a)]), [GET, mb, 0] if puts > gets else [PUT, mb, rng.choice([1, 2, 3])])
    for s in (0, 1):
        acq = sum(1 for ops in acts for o in ops if o[0] == SEMACQ and o[1] == s)
        rel = sum(1 for ops in acts for o in ops if o[0] == SEMREL and o[1] == s)
        for _ in range(max(0, acq - rel - p["caps"][s])):
            room = [a for a in acts if len(a) < 8]
            if not room:
                break
            a = rng.choice(room)
            a.insert(rng.choice([0, len(a)]), [SEMREL, s, 0])


def interleavings(p):
    """number of interleavings of the actors' transition sequences if nothing ever blocked (upper bound for `none`)"""
    from math import factorial
    ts = [n_transitions(ops) for ops in p["actors"]]
    r = factorial(sum(ts))
    for t in ts:
        r //= factorial(t)
    return r


def well_formed(p):
    """truncation to 8 ops may cut a block: reject programs whose pairs are broken"""
    for ops in p["actors"]:
        held, pend = [], 0
        i = 0
        for o in ops:
            c = o[0]
            if c == LOCK:
                held.append(("m", o[1]))
            elif c == TRYLOCK:
                if o[2] > len(ops):
                    return False
                held.append(("m", o[1]))
            elif c == UNLOCK:
                if ("m", o[1]) not in held:
                    return False
                held.remove(("m", o[1]))
            elif c == SEMACQ and o[1] >= 2:
                held.append(("s", o[1]))
            elif c == SEMREL and o[1] >= 2:
                if ("s", o[1]) not in held:
                    return False
                held.remove(("s", o[1]))
            elif c in (IPUT, IGET):
                pend += 1
            elif c == WAITONE:
                if pend == 0:
                    return False
                pend -= 1
            elif c in (UPDVAR, ASSERTVAR, REGFROMVAR, VARFROMREG, SETVAR):
                v = o[1]
                if (("m", v) if v < 2 else ("s", v)) not in held:
                    return False
        if held or pend:
            return False
    return True


def P(caps, cnts, *actors):
    return {"caps": caps, "cnts": cnts, "actors": [list(map(list, a)) for a in actors], "profile": "corpus"}


CORPUS = [
    # two actors taking two mutexes in opposite orders: deadlock in some interleavings only, final var tells the order
    P([1, 1, 1, 1], [1, 1, 1, 1], [(1, 0, 0), (1, 1, 0), (21, 0, 1), (2, 1, 0), (2, 0, 0)],
      [(1, 1, 0), (1, 0, 0), (21, 0, 2), (2, 0, 0), (2, 1, 0)]),
    # same order: no deadlock, two outcomes
    P([1, 1, 1, 1], [1, 1, 1, 1], [(1, 0, 0), (21, 0, 1), (2, 0, 0)], [(1, 0, 0), (21, 0, 2), (2, 0, 0)]),
    # semaphore of capacity 1 with three users, each appending to var 2
    P([0, 0, 1, 1], [1, 1, 1, 1], [(4, 2, 0), (21, 2, 1), (5, 2, 0)], [(4, 2, 0), (21, 2, 2), (5, 2, 0)],
      [(4, 2, 0), (21, 2, 1), (5, 2, 0)]),
    # barrier of 2 + mutex; third actor never reaches the barrier
    P([0, 0, 1, 1], [2, 1, 1, 1], [(1, 0, 0), (21, 0, 1), (2, 0, 0), (6, 0, 0)], [(6, 0, 0), (1, 0, 0), (21, 0, 2), (2, 0, 0)]),
    # barrier expecting 3 with 2 users: always deadlocks
    P([0, 0, 1, 1], [3, 1, 1, 1], [(6, 0, 0)], [(6, 0, 0), (1, 0, 0), (2, 0, 0)]),
    # two senders, one receiver: the received order decides an assert (mc-failing-assert)
    P([0, 0, 1, 1], [1, 1, 1, 1], [(8, 0, 0), (8, 0, 0), (23, 1, 0)], [(7, 0, 1)], [(7, 0, 2)]),
    # same without the assert: two outcomes
    P([0, 0, 1, 1], [1, 1, 1, 1], [(8, 0, 0), (8, 0, 0)], [(7, 0, 1)], [(7, 0, 2)]),
    # try_lock races with a lock
    P([0, 0, 1, 1], [1, 1, 1, 1], [(3, 0, 2), (21, 0, 1), (2, 0, 0)], [(1, 0, 0), (21, 0, 2), (2, 0, 0)]),
    # semaphore signalling + join
    P([0, 0, 1, 1], [1, 1, 1, 1], [(4, 0, 0), (1, 0, 0), (21, 0, 1), (2, 0, 0)], [(1, 0, 0), (21, 0, 2), (2, 0, 0), (5, 0, 0)],
      [(9, 0, 0), (1, 0, 0), (24, 0, 0), (2, 0, 0)]),
    # MC_random feeding a mailbox and an assert
    P([0, 0, 1, 1], [1, 1, 1, 1], [(10, 0, 2), (7, 0, -1)], [(8, 0, 0), (23, 2, 0)]),
    # asynchronous sends waited in order, receiver sees FIFO order
    P([0, 0, 1, 1], [1, 1, 1, 1], [(11, 0, 1), (11, 0, 2), (13, 0, 0), (13, 0, 0)], [(8, 0, 0), (1, 0, 0), (25, 0, 0), (2, 0, 0), (8, 0, 0)]),
    # three actors, nested locks in a cycle
    P([0, 0, 1, 1], [1, 1, 1, 1], [(1, 0, 0), (1, 1, 0), (2, 1, 0), (2, 0, 0)], [(1, 1, 0), (1, 2, 0), (2, 2, 0), (2, 1, 0)],
      [(1, 2, 0), (1, 0, 0), (2, 0, 0), (2, 2, 0)]),
]


# ------------------------------------------------------------------------------------------------ reference model

def parse_model(ans):
    if not ans or ans[0] == 0:
        return None
    n = ans[5]
    outs = set(tuple(ans[6 + 8 * i: 14 + 8 * i]) for i in range(n))
    return {"deadlock": ans[1], "failure": ans[2], "invalid": ans[3], "nstates": ans[4], "outcomes": outs}


def run_models_exe(exe, progs):
    import subprocess
    inp = "\n".join(" ".join(str(x) for x in [FUEL] + encode(p)) for p in progs) + "\n"
    r = subprocess.run([exe, "run_c38"], input=inp, stdout=subprocess.PIPE, text=True, check=True)
    return [parse_model([int(t) for t in l.split()]) for l in r.stdout.strip().split("\n")]


def run_models(progs):
    return [parse_model(a) for a in fw.run_model("c38", "run_c38", [[FUEL] + encode(p) for p in progs])]


# ------------------------------------------------------------------------------------------------ simgrid-mc

REDS = ["none", "dpor", "sdpor", "odpor"]
NONE_LIMIT = 300          # `none` replays every interleaving: only used on programs with few of them


def combos(p, full=True):
    cs = []
    for red in REDS:
        if red == "none" and interleavings(p) > NONE_LIMIT:
            continue
        for algo in ("DFS", "BeFS"):
            for strat in (("none", "uniform") if full else ("none",)):
                cs.append((red, algo, strat))
    if all(o[0] in UDPOR_OPS or o[0] >= 20 for ops in p["actors"] for o in ops):
        cs.append(("udpor", "DFS", "none"))
    return cs


class Runner:
    def __init__(self, sgmc, prog, platform, workdir, env=None, timeout=25, jobs=None):
        self.sgmc, self.prog, self.platform, self.workdir, self.env, self.timeout = sgmc, prog, platform, workdir, env, timeout
        os.makedirs(workdir, exist_ok=True)
        self.jobs = jobs or max(2, (os.cpu_count() or 4) // 2)
        self.count = 0

    def run_one(self, pfile, combo, mode, seed=1):
        import subprocess
        red, algo, strat = combo
        cmd = [self.sgmc, self.prog, self.platform, pfile, "--cfg=model-check/reduction:" + red,
               "--cfg=model-check/exploration-algo:" + algo, "--cfg=model-check/strategy:" + strat,
               "--cfg=model-check/rand-seed:%d" % seed, "--cfg=model-check/search-critical:false",
               "--log=xbt_cfg.thresh:warning", "--log=no_loc"]
        if mode == "B":
            cmd.append("--cfg=model-check/max-errors:-1")
        e = dict(os.environ)
        if self.env:
            e.update(self.env)
        pr = subprocess.Popen(cmd, stdout=subprocess.PIPE, stderr=subprocess.PIPE, env=e, cwd=self.workdir, start_new_session=True)
        try:
            so, se = pr.communicate(timeout=self.timeout)
            rc, so, se = pr.returncode, so.decode("utf8", "replace"), se.decode("utf8", "replace")
        except subprocess.TimeoutExpired:
            import signal
            try:
                os.killpg(pr.pid, signal.SIGKILL)          # the application is a child of simgrid-mc: kill the whole group
            except OSError:
                pass
            pr.communicate()
            return {"rc": 124, "outs": set(), "dl": False, "af": False, "log": ""}
        outs = set()
        for l in so.split("\n"):
            if l.startswith("MC3OUT "):
                outs.add(tuple(int(t) for t in l.split()[1:9]))
        return {"rc": rc, "outs": outs, "dl": "DEADLOCK DETECTED" in se, "af": "PROPERTY NOT VALID" in se,
                "traces": (re.findall(r"(\d+) explored traces", se) or ["?"])[-1], "log": se[-1500:]}

    def write_prog(self, p):
        self.count += 1
        f = os.path.join(self.workdir, "p%d_%d.txt" % (os.getpid(), self.count))
        open(f, "w").write(" ".join(str(x) for x in encode(p)) + "\n")
        return f

    def run_all(self, p, m, cs, modes=("A",)):
        pfile = self.write_prog(p)
        tasks = [(c, mode) for c in cs for mode in modes if mode == "A" or (m["deadlock"] or m["failure"])]
        with ThreadPoolExecutor(self.jobs) as ex:
            rs = list(ex.map(lambda t: self.run_one(pfile, t[0], t[1]), tasks))
        os.remove(pfile)
        return dict(zip(tasks, rs))


def run_many(runner, items, modes):
    """items: list of (p, m, combos); returns list of result dicts; all simgrid-mc runs share one thread pool"""
    files, tasks = [], []
    for i, (p, m, cs) in enumerate(items):
        f = runner.write_prog(p)
        files.append(f)
        for c in cs:
            for mode in modes:
                if mode == "A" or m["deadlock"] or m["failure"]:
                    tasks.append((i, c, mode))
    with ThreadPoolExecutor(runner.jobs) as ex:
        rs = list(ex.map(lambda t: runner.run_one(files[t[0]], t[1], t[2]), tasks))
    res = [dict() for _ in items]
    for (i, c, mode), r in zip(tasks, rs):
        res[i][(c, mode)] = r
    for f in files:
        os.remove(f)
    return res


# ------------------------------------------------------------------------------------------------ oracle

def judge(p, m, res):
    """returns a list of (kind, signature, text): kind 'fail' = the checker misses something the real program does
    (witnessed by another run of the real program) or reports something wrong; 'mismatch' = implementation and
    reference disagree without an independent witness; 'skip' = run not usable."""
    M = m["outcomes"]
    U = set()
    seen_dl = seen_af = False
    for r in res.values():
        U |= r["outs"]
        seen_dl |= r["dl"] or r["rc"] == 2
        seen_af |= r["af"] or r["rc"] == 1
    v = []
    feat = features(p)
    merr = bool(m["deadlock"] or m["failure"])
    for (combo, mode), r in sorted(res.items()):
        red, algo, strat = combo
        tag = "%s-%s%s" % (red, algo, "" if mode == "A" else "-maxerr")
        where = "reduction=%s explorer=%s strategy=%s%s" % (red, algo, strat, "" if mode == "A" else " max-errors=-1")
        rc = r["rc"]
        if rc == 124:
            v.append(("skip", "timeout", where))
            continue
        if rc not in (0, 1, 2):
            if "no specialized computation" in r["log"] or "not supported" in r["log"]:
                v.append(("skip", "rejected", where))
            else:
                v.append(("fail", "checker-crash-%s-%s" % (tag, feat), "%s: simgrid-mc ended with status %d: %s" % (where, rc, r["log"][-300:])))
            continue
        extra = r["outs"] - M
        if extra:
            v.append(("mismatch", "outcome-not-in-reference", "%s printed outcome(s) %s that the reference semantics cannot reach" % (where, sorted(extra)[:3])))
        missing = M - r["outs"]
        complete_expected = (not merr) or mode == "B"
        if complete_expected and missing:
            wit = sorted(missing & U)
            if wit:
                v.append(("fail", "missed-outcome-%s-%s" % (tag, feat),
                          "%s explored %s trace(s) and never reached outcome %s, which the reference semantics reaches and "
                          "another exploration of the same program did reach (%d of %d outcomes found)" % (where, r.get("traces"), wit[0], len(r["outs"] & M), len(M))))
            else:
                v.append(("mismatch", "reference-outcome-unwitnessed", "%s misses outcome %s of the reference; no run of the real program reached it" % (where, sorted(missing)[0])))
        # verdict
        if not merr:
            if rc != 0 or r["dl"] or r["af"]:
                v.append(("mismatch" if not (seen_dl and r["dl"] or seen_af and r["af"]) else "mismatch", "error-not-in-reference",
                          "%s reports %s (status %d) but the reference semantics has no reachable deadlock/assertion failure" % (where, "deadlock" if (r["dl"] or rc == 2) else "assertion failure", rc)))
        else:
            rep_dl = r["dl"] or (mode == "A" and rc == 2)
            rep_af = r["af"] or rc == 1
            if rep_dl and not m["deadlock"]:
                v.append(("mismatch", "deadlock-not-in-reference", "%s reports a deadlock, the reference has none" % where))
            if rep_af and not m["failure"]:
                v.append(("mismatch", "failure-not-in-reference", "%s reports an assertion failure, the reference has none" % where))
            if not rep_dl and not rep_af:
                kind = "deadlock" if m["deadlock"] else "assertion-failure"
                if (m["deadlock"] and seen_dl) or (m["failure"] and seen_af):
                    v.append(("fail", "missed-%s-%s-%s" % (kind, tag, feat), "%s ends with status %d and reports no error after %s trace(s), but a %s is reachable "
                              "(reference semantics, and reported by another exploration of the same program)" % (where, rc, r.get("traces"), kind)))
                else:
                    v.append(("mismatch", "reference-error-unwitnessed", "%s reports no error; the reference reaches a %s that no run reported" % (where, kind)))
            elif rc == 0:
                v.append(("fail", "exit-status-0-despite-error-%s" % tag, "%s logs an error but exits with status 0" % where))
            elif mode == "B":
                if m["deadlock"] and not rep_dl and seen_dl:
                    v.append(("fail", "missed-deadlock-%s-%s" % (tag, feat), "%s reports assertion failures only; a deadlock is reachable too" % where))
                if m["failure"] and not rep_af and seen_af:
                    v.append(("fail", "missed-assertion-failure-%s-%s" % (tag, feat), "%s reports deadlocks only; an assertion failure is reachable too" % where))
    return v
