"""C09 — Message queues are exactly-once and FIFO.

Proof: Coq theorems over all put/get histories of one queue, and over all histories that also withdraw queued requests
  (Mess::cancel(), issuer ended or killed): Kernel/MQueue.v, MQueueProofs.v, MQueueWithdraw.v, Props/Properties_C09.v.
Tie (K): harness/k2_comm.cpp runs generated S4U programs (put/put_async/put_init+detach/get/get_async, cancel of a pending
  handle, actors that return or are killed with pending requests; up to 3 queues, up to 6 actors) on the rebuilt library;
  the observed request sequence of every queue is replayed through the extracted step function (run_c09x): the observed
  (get, payload) pairs, the withdrawals seen by cancel() and the queue content at the end must be the model's.
Oracle (O): run_c09x_oracle (verified: accepts exactly "k-th surviving get obtains k-th surviving put") on the
  implementation log; a variable filled by a completed get must never be written again (C09_delivered_once)."""
import json
import fw
import C08
from C08 import (K_SLEEP, K_WAIT_ALL, K_WAIT_OLDEST, K_MQ_PUT, K_MQ_PUT_ASYNC, K_MQ_PUT_DET, K_MQ_GET, K_MQ_GET_ASYNC)

K_MQ_CANCEL, K_EXIT, K_KILL, K_MQ_GET_SLOT = 16, 17, 18, 19
PUTS = (K_MQ_PUT, K_MQ_PUT_ASYNC, K_MQ_PUT_DET)
GETS = (K_MQ_GET, K_MQ_GET_ASYNC, K_MQ_GET_SLOT)


def gen_program(rng):
    """free mix; some programs also cancel handles, leave early or kill each other"""
    nact = rng.randint(2, 6)
    nmq = rng.randint(1, 3)
    wd = rng.choice([0.0, 0.0, 0.06, 0.15])      # share of withdrawal ops
    actors = []
    for a in range(nact):
        ops = []
        bias = rng.random()          # some actors mostly produce, some mostly consume
        for _ in range(rng.randint(1, 9)):
            x = rng.random()
            q = rng.randrange(nmq)
            if x < 0.12:
                ops.append((K_SLEEP, 0, rng.choice([0, 1, 3, 512, 1024]), 0, 0, 0, 0))
            elif x < 0.20:
                ops.append((rng.choice([K_WAIT_ALL, K_WAIT_OLDEST]), 0, 0, 0, 0, 0, 0))
            elif x < 0.20 + wd:
                y = rng.random()
                if y < 0.6:
                    ops.append((K_MQ_CANCEL, 0, rng.randrange(4), 0, 0, 0, 0))
                elif y < 0.8:
                    ops.append((K_KILL, 0, rng.randrange(nact), 0, 0, 0, 0))
                else:
                    ops.append((K_EXIT, 0, 0, 0, 0, 0, 0))
                    break
            elif rng.random() < bias:
                ops.append((rng.choice([K_MQ_PUT, K_MQ_PUT_ASYNC, K_MQ_PUT_ASYNC, K_MQ_PUT_DET]), q, 0, 0, 0, 0, 0))
            else:
                ops.append((rng.choice([K_MQ_GET, K_MQ_GET_ASYNC, K_MQ_GET_SLOT]), q, 0, 0, 0, 0, 0))
        actors.append(ops)
    return {"nmb": 0, "nmq": nmq, "hosts": [(10 ** 9, 10 ** 8, 100)] * rng.randint(1, 2), "actors": actors}


def gen_withdraw(rng):
    """aimed at MessageQueueImpl::remove with others queued behind: 2-4 holders post asynchronous requests of one kind on
    one queue at staggered dates; then one or two of the older ones are withdrawn (cancel of a handle, the holder returns,
    the holder is killed) while at least two younger ones are queued; then the other side arrives and is served."""
    nhold = rng.randint(2, 4)
    puts_pending = rng.random() < 0.6
    post = (lambda: rng.choice([K_MQ_PUT_ASYNC, K_MQ_PUT_ASYNC, K_MQ_PUT_DET])) if puts_pending else (lambda: K_MQ_GET_ASYNC)
    nmq = rng.randint(1, 2)
    q = rng.randrange(nmq)
    T1, T2, T3 = 1024, 2048, 4096
    actors, nposted = [], []
    for hld in range(nhold):
        ops = [(K_SLEEP, 0, rng.choice([0, 1, 2, 3, 10 * hld]), 0, 0, 0, 0)]
        k = rng.randint(1, 3) + (2 if hld == nhold - 1 else 0)     # the last holder makes sure enough are queued behind
        for _ in range(k):
            ops.append((post(), q, 0, 0, 0, 0, 0))
            if rng.random() < 0.2:
                ops.append((K_SLEEP, 0, rng.choice([1, 2, 5]), 0, 0, 0, 0))
        nposted.append(k)
        ops.append((K_SLEEP, 0, T1, 0, 0, 0, 0))
        actors.append(ops)
    killer = None
    victims = rng.sample(range(nhold - 1), rng.randint(1, min(2, nhold - 1)))   # never the youngest holder
    for v in victims:
        how = rng.choice(["cancel", "cancel", "exit", "kill"])
        if how == "cancel":
            actors[v].append((K_MQ_CANCEL, 0, rng.randrange(3), 0, 0, 0, 0))
            if rng.random() < 0.3:
                actors[v].append((K_MQ_CANCEL, 0, rng.randrange(3), 0, 0, 0, 0))
        elif how == "exit":
            actors[v].append((K_EXIT, 0, 0, 0, 0, 0, 0))
        else:
            if killer is None:
                killer = [(K_SLEEP, 0, T1 + 100, 0, 0, 0, 0)]
            killer.append((K_KILL, 0, v, 0, 0, 0, 0))
    for hld in range(nhold):
        if actors[hld][-1][0] != K_EXIT:
            actors[hld].append((K_SLEEP, 0, T3, 0, 0, 0, 0))
            if rng.random() < 0.5:
                actors[hld].append((K_WAIT_OLDEST, 0, 0, 0, 0, 0, 0))
                actors[hld].append((K_SLEEP, 0, 512, 0, 0, 0, 0))
    if killer is not None:
        actors.append(killer)
    total = sum(nposted)
    ncons = rng.randint(1, 2)
    for c in range(ncons):
        ops = [(K_SLEEP, 0, T2 + c, 0, 0, 0, 0)]
        for _ in range(rng.randint(max(1, total // ncons - 2), total // ncons + 1)):
            if puts_pending:
                ops.append((rng.choice([K_MQ_GET, K_MQ_GET, K_MQ_GET_ASYNC, K_MQ_GET_SLOT]), q, 0, 0, 0, 0, 0))
            else:
                ops.append((rng.choice([K_MQ_PUT, K_MQ_PUT, K_MQ_PUT_ASYNC, K_MQ_PUT_DET]), q, 0, 0, 0, 0, 0))
            if rng.random() < 0.15:
                ops.append((K_SLEEP, 0, rng.choice([1, 600]), 0, 0, 0, 0))
        ops.append((K_SLEEP, 0, T3 + 2048, 0, 0, 0, 0))
        actors.append(ops)
    actors = actors[:6]
    return {"nmb": 0, "nmq": nmq, "hosts": [(10 ** 9, 10 ** 8, 100)] * rng.randint(1, 2), "actors": actors}


def Q(nmq, *actors):
    return {"nmb": 0, "nmq": nmq, "hosts": [(10 ** 9, 10 ** 8, 100)], "actors": [list(a) for a in actors]}


def o(kind, q=0, arg=0):
    return (kind, q, arg, 0, 0, 0, 0)


CORPUS = [
    # gets pending first, puts arrive later (blocking, async, detached)
    Q(1, [o(K_MQ_GET_ASYNC), o(K_MQ_GET_ASYNC), o(K_MQ_GET)], [o(K_SLEEP, 0, 512), o(K_MQ_PUT), o(K_MQ_PUT_ASYNC), o(K_MQ_PUT_DET)]),
    # puts pending first, from two producers; one more put than gets
    Q(1, [o(K_MQ_PUT_ASYNC), o(K_MQ_PUT_DET), o(K_MQ_PUT_ASYNC)], [o(K_MQ_PUT_DET)],
      [o(K_SLEEP, 0, 512), o(K_MQ_GET), o(K_MQ_GET_ASYNC), o(K_MQ_GET)]),
    # the queue flips from puts to gets and back; two queues
    Q(2, [o(K_MQ_PUT_ASYNC), o(K_MQ_GET, 1), o(K_MQ_PUT_ASYNC), o(K_MQ_PUT_ASYNC)],
      [o(K_MQ_GET), o(K_MQ_GET), o(K_MQ_GET), o(K_MQ_PUT, 1), o(K_MQ_GET_ASYNC), o(K_MQ_GET_ASYNC)]),
    # the 2nd of 4 pending puts is cancelled (two queued behind it); the getter must obtain 1, 3, 4
    Q(1, [o(K_MQ_PUT_ASYNC)] * 4 + [o(K_SLEEP, 0, 1024), o(K_MQ_CANCEL, 0, 1), o(K_SLEEP, 0, 10240)],
      [o(K_SLEEP, 0, 2048), o(K_MQ_GET), o(K_MQ_GET), o(K_MQ_GET)]),
    # a sender returns with a pending put_async while three younger puts of two other senders are queued
    Q(1, [o(K_MQ_PUT_ASYNC), o(K_SLEEP, 0, 1024), o(K_EXIT)], [o(K_SLEEP, 0, 100), o(K_MQ_PUT_ASYNC), o(K_MQ_PUT_ASYNC)],
      [o(K_SLEEP, 0, 200), o(K_MQ_PUT)], [o(K_SLEEP, 0, 2048), o(K_MQ_GET), o(K_MQ_GET_SLOT), o(K_MQ_GET)]),
    # a receiver returns with a pending get_async; three younger gets are queued behind it
    Q(1, [o(K_MQ_GET_ASYNC), o(K_SLEEP, 0, 1024), o(K_EXIT)], [o(K_SLEEP, 0, 100), o(K_MQ_GET_ASYNC), o(K_MQ_GET_ASYNC)],
      [o(K_SLEEP, 0, 200), o(K_MQ_GET)], [o(K_SLEEP, 0, 2048), o(K_MQ_PUT), o(K_MQ_PUT_DET), o(K_MQ_PUT_ASYNC)]),
    # an actor holding two pending put_async and blocked in a put is killed; the puts of the others stay in order
    Q(1, [o(K_MQ_PUT_ASYNC), o(K_SLEEP, 0, 300), o(K_MQ_PUT_ASYNC), o(K_MQ_PUT)], [o(K_SLEEP, 0, 100), o(K_MQ_PUT_ASYNC), o(K_MQ_PUT_ASYNC), o(K_MQ_PUT_DET)],
      [o(K_SLEEP, 0, 1024), o(K_KILL, 0, 0), o(K_MQ_GET), o(K_MQ_GET), o(K_MQ_GET)]),
    # cancel() of a message that is already paired changes nothing; kill of an actor that has not started yet
    Q(1, [o(K_KILL, 0, 2), o(K_MQ_PUT_ASYNC), o(K_MQ_GET_ASYNC), o(K_MQ_CANCEL, 0, 0), o(K_MQ_CANCEL, 0, 0), o(K_MQ_GET)],
      [o(K_SLEEP, 0, 100), o(K_MQ_PUT_ASYNC), o(K_MQ_PUT_ASYNC)], [o(K_MQ_PUT_ASYNC), o(K_MQ_PUT_ASYNC)]),
    # the sender waits its oldest put_async long after the receiver reused its variable for the next get
    Q(1, [o(K_MQ_PUT_ASYNC), o(K_MQ_PUT_ASYNC), o(K_SLEEP, 0, 1024), o(K_WAIT_OLDEST), o(K_SLEEP, 0, 4096)],
      [o(K_SLEEP, 0, 100), o(K_MQ_GET_SLOT), o(K_MQ_GET_SLOT), o(K_SLEEP, 0, 2048), o(K_SLEEP, 0, 10)]),
]


def handling_order(line):
    """the message-queue ops in the order they took effect in the kernel: H seq = maestro handles the request (cancel and
    kill included); an EXIT (kind 17) takes effect where it is logged, the cleanup of a returning actor runs in its own
    context, before the requests other actors issued earlier in the same scheduling round are handled"""
    req, order = {}, []
    for tok in line.split(" | "):
        f = tok.split()
        if not f:
            continue
        if f[0] == "I":
            r = tuple(int(x) for x in f[1:])
            req[r[0]] = r
            if r[2] == K_EXIT:
                order.append(r)
        elif f[0] == "H":
            order.append(req[int(f[1])])
    return order


def history(order, q):
    """records of run_c09x for queue q in the order the kernel handled them: [1|2, id, actor, payload] or [3, n, ids...].
    A request issued by an actor that another actor has killed is never served (ActorImpl::simcall_handle returns at once
    for a dying actor) and is left out.  When an actor returns or is killed, cancel() runs on all its non-detached messages."""
    h, dead, mine = [], set(), {}
    for (seq, actor, kind, obj, size, tag, fk, fv) in order:
        if kind < 10 or actor in dead:
            continue
        if kind in (K_EXIT, K_KILL):
            who = actor if kind == K_EXIT else size
            if who in dead:
                continue
            dead.add(who)
            ids = sorted(mine.get(who, []))
            if ids:
                h.append([3, len(ids)] + ids)
            continue
        if obj != q:
            continue
        if kind == K_MQ_CANCEL:
            h.append([3, 1, size])
        elif kind in PUTS:
            h.append([1, seq, actor, seq])
            if kind != K_MQ_PUT_DET:
                mine.setdefault(actor, []).append(seq)
        elif kind in GETS:
            h.append([2, seq, actor, 0])
            mine.setdefault(actor, []).append(seq)
    return h


def behind_stats(h):
    """for the coverage record only: for every request withdrawn while queued, how many were queued behind it"""
    queue, kind, out = [], {}, []
    for r in h:
        if r[0] == 3:
            for i in r[2:]:
                if i in queue:
                    out.append(len(queue) - queue.index(i) - 1)
                    queue.remove(i)
        else:
            if queue and kind[queue[0]] != r[0]:
                queue.pop(0)
            else:
                queue.append(r[1])
                kind[r[1]] = r[0]
    return out


def parse_extra(line):
    """S seq payload (a completed get's variable written again), Q mq id... (queue content at the end), C seq w (cancel() of
    message seq withdrew it from its queue or not), U seq payload (content of the destination variable of get seq at the end)"""
    again, left, seen, var = [], {}, {}, {}
    for tok in line.split(" | "):
        f = tok.split()
        if f and f[0] == "S":
            again.append((int(f[1]), int(f[2])))
        elif f and f[0] == "C":
            seen[int(f[1])] = int(f[2])
        elif f and f[0] == "U":
            var[int(f[1])] = int(f[2])
        elif f and f[0] == "Q":
            left[int(f[1])] = [int(x) for x in f[2:]]
    return again, left, seen, var


def split_model(mo):
    """run_c09x answer: pairs, -1, withdrawn, -1, queue"""
    a = mo.index(-1)
    b = mo.index(-1, a + 1)
    return mo[:a], mo[a + 1:b], mo[b + 1:]


def run(ctx):
    ctx.simgrid(["simgrid"])
    ctx.prove()
    drv = fw.build_harness("k2_comm", extra=C08.HARNESS_FLAGS)
    n = ctx.n(120, 4000)
    nw = ctx.n(100, 2000)
    progs = list(CORPUS) + [gen_program(ctx.rng) for _ in range(n)] + [gen_withdraw(ctx.rng) for _ in range(nw)]
    if ctx.replay:
        progs = [C08.decode_program(json.load(open(ctx.replay))["case"]["program"])]
    lines = [" ".join(map(str, C08.encode_program(p))) for p in progs]
    rc, out, err = fw.run_lines(drv, [], lines, timeout=3000)
    if rc != 0 or len(out) != len(lines):
        raise fw.BuildError("k2_comm driver failed rc=%d, %d/%d answers: %s" % (rc, len(out), len(lines), err[-500:]))
    ctx.cov["rule"] = ("generated S4U programs, two families: (free) 2-6 actors, 1-3 message queues, 1-9 ops per actor among put/put_async/"
                       "put_init+detach/get/get_async/get into a reused variable/wait/sleep and, in half of the programs, cancel of a pending "
                       "handle / return with pending handles / kill of another actor; (withdraw) 2-4 holders post asynchronous puts (or "
                       "gets) at staggered dates, one or two older holders then cancel a handle, return or are killed while younger "
                       "requests are queued behind, then the other side arrives; non-trivial = at least two gets served; "
                       "distinct = distinct program")
    dist = {"programs": 0, "queue_histories": 0, "pairs": 0, "deadlocks": 0, "queues_left_with_puts": 0, "queues_left_with_gets": 0,
            "withdrawn_while_queued": 0, "withdrawn_with_2_or_more_behind": 0, "cancel_of_paired_message": 0,
            "histories_with_withdrawal_and_2_pairs_after": 0}
    todo, model_in, oracle_in = [], [], []
    for prog, line in zip(progs, out):
        dist["programs"] += 1
        ev = C08.parse_log(line)
        case = {"program": C08.encode_program(prog)}
        if ev["crash"]:
            ctx.fail("simulation-crash", "the simulation of the program died: %s" % ev["crash"], case)
            continue
        again, left, cseen, var = parse_extra(line)
        for (g, p2) in again:
            d = ev["D"].get(g)
            ctx.fail("delivered-again", "get %d had returned payload %s; later its variable was written again, with payload %d (a wait() or "
                     "test() on a message that is already done hands its payload over once more)" % (g, d[0] if d else "?", p2),
                     dict(case, log=line[:1500]))
        dist["deadlocks"] += ev["deadlock"]
        served = 0
        order = handling_order(line)
        for q in range(prog["nmq"]):
            h = history(order, q)
            if not h:
                continue
            obs, bad = [], []
            for r in h:
                if r[0] != 2:
                    continue
                d, m = ev["D"].get(r[1]), ev["M"].get(r[1])
                if d is not None:
                    if d[0] == 0:
                        bad.append("get %d returned without a payload" % r[1])
                        continue
                    if not d[3]:
                        bad.append("get %d: payload %d corrupted" % (r[1], d[0]))
                    if m is not None and m != d[0]:
                        bad.append("get %d: user buffer holds payload %d, the message carried %d" % (r[1], d[0], m))
                    obs += [r[1], d[0]]
                elif m:
                    obs += [r[1], m]
                elif var.get(r[1]):
                    # the receiver was killed before it could report (not even the handle came back): the kernel filled its variable
                    obs += [r[1], var[r[1]]]
            # what every cancel() on a message of this queue did: withdrew it (1) or found it already paired (0)
            seen = {size: cseen[size] for (seq, actor, kind, obj, size, tag, fk, fv) in ev["I"]
                    if kind == K_MQ_CANCEL and obj == q and size in cseen}
            nput = sum(1 for r in h if r[0] == 1)
            nget = sum(1 for r in h if r[0] == 2)
            behind = behind_stats(h)
            dist["queue_histories"] += 1
            dist["pairs"] += len(obs) // 2
            dist["withdrawn_while_queued"] += len(behind)
            dist["withdrawn_with_2_or_more_behind"] += sum(1 for b in behind if b >= 2)
            dist["cancel_of_paired_message"] += sum(1 for v in seen.values() if not v)
            served += len(obs) // 2
            flat = [len(h)] + [x for r in h for x in r]
            model_in.append(flat)
            oracle_in.append(flat + obs)
            todo.append((case, q, h, obs, bad, seen, left.get(q), nput, nget, len(behind)))
        ctx.case(case["program"], served >= 2, {"program": case["program"], "log": line[:500]} if served >= 3 and len(line) < 500 else None)
    model = fw.run_model("c09", "run_c09x", model_in) if model_in else []
    verdicts = fw.run_model("c09", "run_c09x_oracle", oracle_in) if oracle_in else []
    for (case, q, h, obs, bad, seen, left, nput, nget, nwd), mo, vd in zip(todo, model, verdicts):
        mpairs_l, mw, mq = split_model(mo)
        where = dict(case)
        where.update({"queue": q, "history": h, "observed": obs, "model": mo})
        for b in bad:
            ctx.fail("payload-not-intact", "queue %d: %s" % (q, b), where)
        mpairs = sorted(zip(mpairs_l[0::2], mpairs_l[1::2]))
        ipairs = sorted(zip(obs[0::2], obs[1::2]))
        kinds = {r[1]: r[0] for r in h if r[0] != 3}
        dist["queues_left_with_puts"] += any(kinds.get(i) == 1 for i in mq)
        dist["queues_left_with_gets"] += any(kinds.get(i) == 2 for i in mq)
        dist["histories_with_withdrawal_and_2_pairs_after"] += nwd > 0 and len(mpairs) >= 2
        if vd != [1]:
            pl = [p for _, p in ipairs]
            sig = "not-exactly-once" if len(set(pl)) != len(pl) or any(p not in [r[3] for r in h if r[0] == 1] for p in pl) else "not-fifo"
            ctx.fail(sig, "queue %d: records (1 put|2 get, id, actor, payload) or (3, n, ids withdrawn by cancel/return/kill) %s: gets "
                     "obtained (get,payload) %s, but the k-th get that was not withdrawn must obtain the k-th put that was not withdrawn: "
                     "%s (withdrawn while queued: %s)" % (q, h, ipairs, mpairs, mw), where)
            continue
        if mpairs != ipairs:
            ctx.mismatch("message-queue model vs implementation", "queue %d: model %s, implementation %s" % (q, mpairs, ipairs), where)
        for target, waiting in sorted(seen.items()):
            if bool(waiting) != (target in mw):
                ctx.mismatch("message-queue model vs implementation (withdrawal)", "queue %d: cancel() of message %d %s, in the model it was "
                             "%s" % (q, target, "withdrew it" if waiting else "found it already paired", "queued" if target in mw else "not queued"), where)
        if left is not None and left != mq:
            ctx.mismatch("message-queue model vs implementation (queue content)", "queue %d: at the end the queue holds %s (front first), "
                         "the model %s" % (q, left, mq), where)
    ctx.cov["input_distribution"] = dist
    ctx.assumptions += [
        "the order in which the kernel serves the requests is the order in which maestro handles their simcalls, observed through the "
        "SIMGRID_VERIF hook of ActorImpl::simcall_handle; an actor that returns withdraws its messages at once, in its own context",
        "a request issued by an actor that another actor has killed is never served (simcall_handle of a dying actor)",
        "no timeouts, no clear() of a queue, no host failure",
        "under simgrid-mc message queues hang (MessIput/MessIget serialize pointers, C43): not exercised here"]


META = {
    "level": "proof",
    "text": "Coq theorems over every put/get history of a queue: C09_fifo (the pairs formed, in order, are combine(puts, gets): k-th get with "
            "k-th put), C09_kth_get_kth_put, C09_exactly_once (puts = delivered ++ still queued, gets = served ++ still queued, as ordered "
            "lists), C09_homogeneous (never a PUT and a GET queued together), C09_final_queue, C09_oracle_sound. Over every history that also "
            "withdraws queued requests (Mess::cancel(), issuer returns or is killed with unmatched put_async/get_async; request ids distinct): "
            "C09_cancel_exact (a cancel removes exactly the named messages that are queued, the others keep their relative order, the order "
            "of the cancels is irrelevant), C09_withdrawn_iff (withdrawn = named by a cancel while queued), C09_withdrawn_as_never_issued "
            "(pairs and final queue are those of the history without the withdrawn requests), hence C09_withdraw_fifo (pairs = "
            "combine(surviving puts, surviving gets), in order), C09_withdraw_exactly_once, C09_withdraw_homogeneous, "
            "C09_withdraw_final_queue; C09_xrun_conservative, C09_xoracle_sound, C09_xoracle_is_model. C09_delivered_once: finish() writes the "
            "payload to the receive buffer once however often it runs (C09_delivered_once_pinned_refuted for the pinned code). Tie: "
            "generated S4U programs run on the rebuilt library; each queue's observed request/withdrawal sequence is replayed through the "
            "extracted model: observed (get,payload) pairs, what every cancel() did, and the queue content at the end must equal the "
            "model's; the verified oracle judges every implementation log.",
    "note": "Model = MessImpl::iput/iget + MessageQueueImpl::find_matching_message + MessImpl::cancel/MessageQueueImpl::remove (+ the copy in "
            "MessImpl::finish, mirrored but only checked by observation: a variable filled by a completed get must never change again); "
            "blocking/async/detached are the same kernel request; an actor's return/kill = cancel() on all its non-detached messages. Fixed in "
            "simgrid: 98a91f7f3c (payload handed over again by every later wait(), sig delivered-again). Not modelled: timeouts, clear(), "
            "host failure. The request order is taken from the run (order in which maestro handles the simcalls, hook in ActorImpl::simcall_handle). Trusted: Coq kernel, extraction, harness, generator.",
    "technique": "Coq proof (induction over histories on homogeneous queues; simulation 'withdrawn = never issued' for histories with "
                 "cancels) + extracted-model replay of observed histories + verified log oracle",
    "claimed": True,
}
