"""C09 — Message queues are exactly-once and FIFO.

Proof: Coq theorems over all put/get histories of one queue (Kernel/MQueue.v, MQueueProofs.v, Props/Properties_C09.v).
Tie (K): harness/k2_comm.cpp runs generated S4U programs (put/put_async/put_init+detach/get/get_async on up to 3 queues,
  up to 6 actors) on the rebuilt library; the observed request sequence of every queue is replayed through the
  extracted step function (run_c09) and the observed (get, payload) pairs must be the model's.
Oracle (O): run_c09_oracle (verified: accepts exactly "k-th get obtains k-th put") on the implementation log."""
import json
import fw
import C08
from C08 import (K_SLEEP, K_WAIT_ALL, K_WAIT_OLDEST, K_MQ_PUT, K_MQ_PUT_ASYNC, K_MQ_PUT_DET, K_MQ_GET, K_MQ_GET_ASYNC)


def gen_program(rng):
    nact = rng.randint(2, 6)
    nmq = rng.randint(1, 3)
    actors = []
    for a in range(nact):
        ops = []
        bias = rng.random()          # some actors mostly produce, some mostly consume
        for _ in range(rng.randint(1, 9)):
            x = rng.random()
            q = rng.randrange(nmq)
            if x < 0.12:
                ops.append((K_SLEEP, 0, rng.choice([0, 1, 3, 512, 1024]), 0, 0, 0, 0))
            elif x < 0.20:
                ops.append((rng.choice([K_WAIT_ALL, K_WAIT_OLDEST]), 0, 0, 0, 0, 0, 0))
            elif rng.random() < bias:
                ops.append((rng.choice([K_MQ_PUT, K_MQ_PUT_ASYNC, K_MQ_PUT_ASYNC, K_MQ_PUT_DET]), q, 0, 0, 0, 0, 0))
            else:
                ops.append((rng.choice([K_MQ_GET, K_MQ_GET_ASYNC]), q, 0, 0, 0, 0, 0))
        actors.append(ops)
    return {"nmb": 0, "nmq": nmq, "hosts": [(10 ** 9, 10 ** 8, 100)] * rng.randint(1, 2), "actors": actors}


def Q(nmq, *actors):
    return {"nmb": 0, "nmq": nmq, "hosts": [(10 ** 9, 10 ** 8, 100)], "actors": [list(a) for a in actors]}


def o(kind, q=0, arg=0):
    return (kind, q, arg, 0, 0, 0, 0)


CORPUS = [
    # gets pending first, puts arrive later (blocking, async, detached)
    Q(1, [o(K_MQ_GET_ASYNC), o(K_MQ_GET_ASYNC), o(K_MQ_GET)], [o(K_SLEEP, 0, 512), o(K_MQ_PUT), o(K_MQ_PUT_ASYNC), o(K_MQ_PUT_DET)]),
    # puts pending first, from two producers; one more put than gets
    Q(1, [o(K_MQ_PUT_ASYNC), o(K_MQ_PUT_DET), o(K_MQ_PUT_ASYNC)], [o(K_MQ_PUT_DET)],
      [o(K_SLEEP, 0, 512), o(K_MQ_GET), o(K_MQ_GET_ASYNC), o(K_MQ_GET)]),
    # the queue flips from puts to gets and back; two queues
    Q(2, [o(K_MQ_PUT_ASYNC), o(K_MQ_GET, 1), o(K_MQ_PUT_ASYNC), o(K_MQ_PUT_ASYNC)],
      [o(K_MQ_GET), o(K_MQ_GET), o(K_MQ_GET), o(K_MQ_PUT, 1), o(K_MQ_GET_ASYNC), o(K_MQ_GET_ASYNC)]),
]


def history(ev, q):
    h = []
    for (seq, actor, kind, obj, size, tag, fk, fv) in sorted(ev["I"]):
        if obj != q or kind < 10:
            continue
        if kind in (K_MQ_PUT, K_MQ_PUT_ASYNC, K_MQ_PUT_DET):
            h.append([1, seq, actor, seq])
        else:
            h.append([2, seq, actor, 0])
    return h


def run(ctx):
    ctx.simgrid(["simgrid"])
    ctx.prove()
    drv = fw.build_harness("k2_comm", extra=C08.HARNESS_FLAGS)
    n = ctx.n(300, 10000)
    progs = list(CORPUS) + [gen_program(ctx.rng) for _ in range(n)]
    if ctx.replay:
        progs = [C08.decode_program(json.load(open(ctx.replay))["case"]["program"])]
    lines = [" ".join(map(str, C08.encode_program(p))) for p in progs]
    rc, out, err = fw.run_lines(drv, [], lines, timeout=3000)
    if rc != 0 or len(out) != len(lines):
        raise fw.BuildError("k2_comm driver failed rc=%d, %d/%d answers: %s" % (rc, len(out), len(lines), err[-500:]))
    ctx.cov["rule"] = ("generated S4U programs: 2-6 actors, 1-3 message queues, 1-9 requests per actor among put/put_async/put_init+detach/"
                       "get/get_async/wait/sleep, producers and consumers biased per actor; non-trivial = at least two gets served; "
                       "distinct = distinct program")
    dist = {"programs": 0, "queue_histories": 0, "pairs": 0, "deadlocks": 0, "queues_left_with_puts": 0, "queues_left_with_gets": 0}
    todo, model_in, oracle_in = [], [], []
    for prog, line in zip(progs, out):
        dist["programs"] += 1
        ev = C08.parse_log(line)
        case = {"program": C08.encode_program(prog)}
        if ev["crash"]:
            ctx.fail("simulation-crash", "the simulation of the program died: %s" % ev["crash"], case)
            continue
        dist["deadlocks"] += ev["deadlock"]
        served = 0
        for q in range(prog["nmq"]):
            h = history(ev, q)
            if not h:
                continue
            obs, bad = [], []
            for r in h:
                if r[0] != 2:
                    continue
                d, m = ev["D"].get(r[1]), ev["M"].get(r[1])
                if d is not None:
                    if d[0] == 0:
                        bad.append("get %d returned without a payload" % r[1])
                        continue
                    if not d[3]:
                        bad.append("get %d: payload %d corrupted" % (r[1], d[0]))
                    if m is not None and m != d[0]:
                        bad.append("get %d: user buffer holds payload %d, the message carried %d" % (r[1], d[0], m))
                    obs += [r[1], d[0]]
                elif m:
                    obs += [r[1], m]
            nput = sum(1 for r in h if r[0] == 1)
            nget = len(h) - nput
            dist["queue_histories"] += 1
            dist["pairs"] += len(obs) // 2
            dist["queues_left_with_puts"] += nput > nget
            dist["queues_left_with_gets"] += nget > nput
            served += len(obs) // 2
            flat = [len(h)] + [x for r in h for x in r]
            model_in.append(flat)
            oracle_in.append(flat + obs)
            todo.append((case, q, h, obs, bad))
        ctx.case(case["program"], served >= 2, {"program": case["program"], "log": line[:500]} if served >= 3 and len(line) < 500 else None)
    model = fw.run_model("c09", "run_c09", model_in) if model_in else []
    verdicts = fw.run_model("c09", "run_c09_oracle", oracle_in) if oracle_in else []
    for (case, q, h, obs, bad, ), mo, vd in zip(todo, model, verdicts):
        where = dict(case)
        where.update({"queue": q, "history": h, "observed": obs, "model": mo})
        for b in bad:
            ctx.fail("payload-not-intact", "queue %d: %s" % (q, b), where)
        mpairs = sorted(zip(mo[0::2], mo[1::2]))
        ipairs = sorted(zip(obs[0::2], obs[1::2]))
        if vd != [1]:
            pl = [p for _, p in ipairs]
            sig = "not-exactly-once" if len(set(pl)) != len(pl) or any(p not in [r[3] for r in h if r[0] == 1] for p in pl) else "not-fifo"
            ctx.fail(sig, "queue %d: requests (kind,id,actor,payload) %s: gets obtained (get,payload) %s, but the k-th get must obtain the "
                     "k-th put: %s" % (q, h, ipairs, mpairs), where)
        elif mpairs != ipairs:
            ctx.mismatch("message-queue model vs implementation", "queue %d: model %s, implementation %s" % (q, mpairs, ipairs), where)
    ctx.cov["input_distribution"] = dist
    ctx.assumptions += [
        "sequential contexts: the issue counter incremented just before a request is the order in which the kernel handles requests",
        "no timeouts, cancellations, actor kills (they remove requests from the queue; not modelled)",
        "under simgrid-mc message queues hang (MessIput/MessIget serialize pointers, C43): not exercised here"]


META = {
    "level": "proof",
    "text": "Coq theorems over every put/get history of a queue: C09_fifo (the pairs formed, in order, are combine(puts, gets): k-th get with "
            "k-th put), C09_kth_get_kth_put, C09_exactly_once (puts = delivered ++ still queued, gets = served ++ still queued, as ordered "
            "lists), C09_homogeneous (never a PUT and a GET queued together), C09_final_queue, C09_oracle_sound. Tie: generated S4U programs run "
            "on the rebuilt library; each queue's observed request sequence is replayed through the extracted model and the observed "
            "(get,payload) pairs must equal the model's; the verified oracle judges every implementation log.",
    "note": "Model = MessImpl::iput/iget + MessageQueueImpl::find_matching_message; blocking/async/detached are the same kernel request. Not "
            "modelled: cancel/timeouts, clear(), actor death. The request order is taken from the run (sequential contexts). Trusted: Coq "
            "kernel, extraction, harness, generator.",
    "technique": "Coq proof (induction over histories on homogeneous queues) + extracted-model replay of observed histories + verified log oracle",
    "claimed": True,
}
