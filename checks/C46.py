"""C46 — file system accounting is consistent.
K: the extracted Coq model of s4u_FileSystem.cpp (SGV.Plugins.FileSystem) vs. the real plugin driven by
   harness/xbt2_fs_drv.cpp (one actor, one disk with generated initial content and capacity), same operation sequences;
   compared step by step on the admissible prefix of each history (result, File size, tell, used size, content total).
O: the verified per-step oracle step_ok (C46_oracle_is_spec) is run on every observation of the implementation:
   used size == sum of the content map, read <= bytes up to the end of the file, unlink gives back the file's size.
Histories that leave the discipline of C46_used_eq_sum_partial (two Files on one path, use of a File after
move/unlink, move onto an existing path) are judged by O only and reported under the recorded finding signatures."""
import json, os, tempfile
import fw

NREC = 12
SLOTS, PATHS = 4, 5
SIZES = [0, 1, 7, 100, 1000]


def gen_content(rng):
    k = rng.choice([0, 1, 2, 3, 5])
    ps = rng.sample(range(PATHS), min(k, PATHS))
    return [(p, rng.choice(SIZES + [rng.randint(0, 5000)])) for p in ps]


def gen_case(rng, wild):
    """returns the integer list of one case.  Not wild: python follows the history-based discipline (one open File per
    path, nothing but close after move/unlink, moves to fresh paths) so that (almost) every step is admissible."""
    cont = gen_content(rng)
    used0 = sum(s for _, s in cont)
    cap = rng.choice([10 ** 9, 10 ** 9, 10 ** 9, used0 + rng.randint(0, 300), rng.randint(1, 2000)])
    exists = set(p for p, _ in cont)
    slot_path, stale = {}, set()
    ops = []
    nsteps = rng.randint(1, 40)
    while len(ops) < nsteps:
        r = rng.random()
        free = [s for s in range(SLOTS) if s not in slot_path]
        live = [s for s in slot_path if s not in stale] if not wild else list(slot_path)
        if (r < 0.2 or not slot_path) and free:
            s = rng.choice(free)
            cand = [p for p in range(PATHS) if wild or p not in [slot_path[t] for t in slot_path if t not in stale]]
            if not cand:
                continue
            p = rng.choice(cand)
            slot_path[s] = p
            exists.add(p)
            ops.append((0, s, p, 0))
        elif r < 0.27 and slot_path:
            s = rng.choice(list(slot_path))
            del slot_path[s]
            stale.discard(s)
            ops.append((6, s, 0, 0))
        elif not live:
            if not free and slot_path:
                s = rng.choice(list(slot_path))
                del slot_path[s]
                stale.discard(s)
                ops.append((6, s, 0, 0))
            continue
        else:
            s = rng.choice(live)
            k = rng.random()
            if k < 0.35:
                ops.append((1, s, rng.choice([0, 1, 10, 100, rng.randint(0, 3000)]), rng.randint(0, 1)))
            elif k < 0.5:
                ops.append((2, s, rng.choice([0, 1, 10, 100, 10 ** 6, rng.randint(0, 3000)])))
                ops[-1] = ops[-1] + (0,)
            elif k < 0.8:
                origin = rng.choice([0, 0, 1, 2, 2, 3])
                off = rng.choice([0, 0, 5, 50, rng.randint(0, 2000)])
                if origin in (1, 2) and rng.random() < 0.5:
                    off = -rng.choice([0, 1, 5, 50, rng.randint(0, 200)])
                if origin == 0 and rng.random() < 0.03:
                    off = -1  # xbt_assert
                ops.append((3, s, off, origin))
            elif k < 0.9:
                cand = [p for p in range(PATHS) if wild or p == slot_path[s] or p not in exists] + [-1]
                p = rng.choice(cand)
                ops.append((4, s, p, 0))
                if p >= 0 and p != slot_path[s]:
                    exists.discard(slot_path[s])
                    exists.add(p)
                    stale.add(s)
            else:
                ops.append((5, s, 0, 0))
                exists.discard(slot_path[s])
                stale.add(s)
    return [cap, len(cont)] + [x for pc in cont for x in pc] + [x for o in ops for x in o]


# boundary / regression cases (first six: the refutation witnesses of Properties_C46.v and the xbt_assert)
CORPUS = [
    [1000000, 1, 0, 100, 0, 0, 0, 0, 3, 0, 0, 0, 1, 0, 10, 0],                                   # pinned defect (fixed)
    [1000000, 1, 0, 100, 0, 0, 0, 0, 0, 1, 0, 0, 3, 0, 0, 2, 1, 0, 50, 1, 3, 1, 0, 2, 1, 1, 10, 1],  # two handles
    [1000000, 1, 0, 100, 0, 0, 0, 0, 4, 0, 1, 0, 3, 0, 0, 2, 1, 0, 10, 1],                         # write after move
    [1000000, 1, 0, 100, 0, 0, 0, 0, 5, 0, 0, 0, 3, 0, 0, 2, 1, 0, 10, 1],                         # write after unlink
    [1000000, 2, 0, 100, 1, 7, 0, 0, 0, 0, 4, 0, 1, 0],                                            # move onto existing
    [1000000, 1, 0, 100, 0, 0, 0, 0, 3, 0, -5, 0],                                                 # seek before start
    [1000000, 1, 0, 100, 0, 0, 0, 0, 2, 0, 30, 0, 2, 0, 100, 0, 4, 0, -1, 0, 6, 0, 0, 0],
    [1000, 2, 0, 100, 1, 7, 0, 0, 0, 0, 3, 0, 40, 0, 1, 0, 10, 0, 2, 0, 5, 0, 3, 0, 20, 0, 1, 0, 100, 1, 0, 1, 1, 0,
     5, 1, 0, 0, 6, 1, 0, 0, 4, 0, 2, 0, 6, 0, 0, 0, 0, 0, 2, 0, 2, 0, 500, 0, 0, 1, 1, 0, 1, 1, 3, 0],
    [150, 1, 0, 100, 0, 0, 0, 0, 3, 0, 0, 2, 1, 0, 100, 0, 1, 0, 5, 0, 3, 0, 10, 0, 1, 0, 1, 0],     # disk full
    [1000000, 0, 0, 0, 3, 0, 0, 0, 500, 0, 2, 0, 100, 0, 3, 0, -100, 2, 1, 0, 7, 0, 5, 0, 0, 0],     # seek past the end
]


def parse_model(m):
    """-> (steps [(adm, rec or None)], final content or None)"""
    steps, i = [], 0
    while i < len(m):
        if m[i] == -7:
            fl = m[i + 1:]
            return steps, sorted((fl[j], fl[j + 1]) for j in range(0, len(fl), 2))
        adm = m[i]
        if m[i + 1] == -99 and i + 2 == len(m):
            steps.append((adm, None))
            return steps, None
        steps.append((adm, m[i + 1:i + 1 + NREC]))
        i += 1 + NREC
    return steps, None


def parse_impl(line):
    """-> (records (None = stopped in that op), final content or None, aborted)"""
    toks = line.split()
    aborted = bool(toks) and toks[-1] == "ABORT"
    if aborted:
        toks.pop()
    recs, cont = [], None
    i = 0
    while i < len(toks):
        if toks[i] == "C":
            fl = [int(t) for t in toks[i + 1:]]
            cont = sorted((fl[j], fl[j + 1]) for j in range(0, len(fl), 2))
            break
        t = toks[i:i + NREC]
        if len(t) < NREC:
            recs.append(None)
            break
        code, n, sb, pb, fb, ub, tb, res, sa, pa, ua, ta = (int(x) for x in t)
        recs.append([code, n, res, sb, pb, fb, ub, tb, sa, pa, ua, ta])
        i += NREC
    return recs, cont, aborted


def why_rejected(r):
    code, n, res, sb, pb, fb, ub, tb, sa, pa, ua, ta = r
    if ua != ta % 2 ** 64:
        return "used-ne-total", "used size %d but the files on the disk total %d" % (ua, ta)
    if code == 2:
        return "read-bound", "read(%d) at position %d of a file of %d bytes returned %d, position now %d" % (n, pb, fb, res, pa)
    return "unlink-size", "unlink of a file of %d bytes: used %d -> %d, content total %d -> %d" % (fb, ub, ua, tb, ta)


def classify(case_ops, k, rec):
    """which recorded finding does the first inadmissible step k fall under"""
    code, slot = case_ops[k][0], case_ops[k][1]
    moved = unlinked = False
    for o in case_ops[:k]:
        if o[1] != slot:
            continue
        if o[0] in (0, 6):
            moved = unlinked = False
        elif o[0] == 4 and o[2] >= 0:
            moved = True
        elif o[0] == 5:
            unlinked = True
    sb, fb = rec[3], rec[5]
    if fb == -1 and unlinked:
        return "use-after-unlink"
    if fb == -1 and moved:
        return "use-after-move"
    if fb != sb:
        return "two-handles"
    if code == 4:
        return "move-onto-existing"
    return "outside-discipline"


def split_case(c):
    nf = c[1]
    rest = c[2 + 2 * nf:]
    return [tuple(rest[i:i + 4]) for i in range(0, len(rest) - 3, 4)]


def run(ctx):
    ctx.simgrid(["simgrid"])
    ctx.prove()
    drv = fw.build_harness("xbt2_fs_drv")
    if ctx.replay:
        cases = [(json.load(open(ctx.replay))["case"]["input"], "replay")]
    else:
        nd, nw = ctx.n(700, 14000), ctx.n(300, 6000)
        cases = [(c, "corpus") for c in CORPUS] + [(gen_case(ctx.rng, False), "disciplined") for _ in range(nd)] \
            + [(gen_case(ctx.rng, True), "wild") for _ in range(nw)]
    ctx.cov["rule"] = ("operation sequences of 1..40 steps (open/write append|overwrite|in place/read/seek SET|CUR|END/move/"
                       "unlink/close) over <=5 paths and <=4 File objects on a disk with 0..5 initial files and a capacity that is "
                       "sometimes nearly exhausted; 'disciplined' stream follows the discipline of the theorem, 'wild' does not; "
                       "non-trivial = the admissible prefix changes the used size or moves a file; distinct = distinct inputs")
    inputs = [c for c, _ in cases]
    model = fw.run_model("c46", "run_c46", inputs)
    scratch = tempfile.mkdtemp(prefix="c46_", dir=os.path.join(fw.B))
    try:
        rc, impl, err = fw.run_lines(drv, [scratch], [" ".join(map(str, c)) for c in inputs])
    finally:
        for f in ("content.txt", "platform.xml"):
            try:
                os.remove(os.path.join(scratch, f))
            except OSError:
                pass
        try:
            os.rmdir(scratch)
        except OSError:
            pass
    if rc != 0 or len(impl) != len(inputs):
        ctx.fail("driver-crash", "xbt2_fs_drv ended with rc=%d after %d/%d cases: %s" % (rc, len(impl), len(inputs), err[-300:]),
                 {"input": inputs[len(impl)] if len(impl) < len(inputs) else None})
        return
    parsed = [parse_impl(l) for l in impl]
    # O: the verified oracle on every complete record the implementation produced
    oracle_in = [[x for r in recs if r is not None for x in r] for recs, _, _ in parsed]
    verdicts = fw.run_model("c46", "run_c46_oracle", oracle_in)
    dist = {"corpus": 0, "disciplined": 0, "wild": 0, "replay": 0, "steps": 0, "admissible_steps": 0, "aborts": 0,
            "fully_admissible": 0, "ops": {str(k): 0 for k in range(7)}}
    for (c, kind), m, (recs, cont, aborted), verdict in zip(cases, model, parsed, verdicts):
        ops = split_case(c)
        msteps, mcont = parse_model(m)
        dist[kind] += 1
        dist["steps"] += len(msteps)
        k = next((i for i, (adm, _) in enumerate(msteps) if adm == 0), len(msteps))
        dist["admissible_steps"] += k
        dist["fully_admissible"] += k == len(msteps)
        for o in ops:
            dist["ops"][str(min(max(o[0], 0), 6))] += 1
        nontriv = any(r is not None and (r[6] != r[10] or (r[0] == 4 and r[2] == 0 and r[5] >= 0 and ops[i][2] >= 0))
                      for i, (_, r) in enumerate(msteps[:k]))
        ctx.case(tuple(c), nontriv, {"kind": kind, "input": c, "impl_last": recs[-1] if recs else None,
                                     "model_last": msteps[-1][1] if msteps else None} if nontriv and kind != "corpus" else None)
        case = {"input": c, "kind": kind}
        # O verdict
        bad = verdict[1] if verdict and verdict[0] == 0 else None
        if bad is not None:
            r = [x for x in recs if x is not None][bad]
            sig, what = why_rejected(r)
            if bad >= k:
                cls = classify(ops, k, msteps[k][1] if msteps[k][1] is not None else [0] * NREC)
                sig = cls
                what = "after leaving the discipline at step %d (%s): step %d, %s" % (k, cls, bad, what)
            ctx.fail(sig, "ops %s on content %s: %s" % (ops[:bad + 1], c[2:2 + 2 * c[1]], what), case)
            if bad < k:
                continue
        # K on the admissible prefix
        for i in range(k):
            mrec = msteps[i][1]
            irec = recs[i] if i < len(recs) else None
            if mrec is None:
                dist["aborts"] += 1
            if mrec != irec:
                if bad is None or bad > i:
                    ctx.mismatch("correspondence FileSystem.v / s4u_FileSystem.cpp",
                                 "step %d of ops %s (content %s, capacity %d): model %s, implementation %s%s"
                                 % (i, ops[:i + 1], c[2:2 + 2 * c[1]], c[0], mrec, irec, " (stopped)" if irec is None else ""), case)
                break
        else:
            if k == len(msteps) and mcont is not None and (cont != mcont or aborted):
                ctx.mismatch("correspondence FileSystem.v / s4u_FileSystem.cpp (final content)",
                             "ops %s: model content %s, implementation %s%s" % (ops, mcont, cont, " ABORT" if aborted else ""), case)
    ctx.cov["input_distribution"] = dist
    ctx.assumptions += [
        "one disk is modelled; several disks are independent (each File touches only the FileSystemDiskExt of its local_disk_)",
        "the content file of the disk lists each path once (parse_content adds the size of a repeated path to used_size_ twice)",
        "Disk::read/Disk::write perform the whole request (checked by the correspondence); remote hosts (Comm::sendto) not modelled",
        "sg_size_t/sg_offset_t are 64 bits; used_size_ arithmetic is modelled modulo 2^64 and the theorem is stated modulo 2^64 "
        "(with equality when the total is below 2^64)",
    ]


META = {
    "level": "proof",
    "claimed": True,
    "text": "Coq theorems over histories of any length on a disk with any initial content: C46_used_eq_sum_partial (used size = sum of "
            "the content map after every history whose operations go through a File that is in sync with the disk and whose moves "
            "target fresh paths), C46_read_bound (a read returns at most the bytes up to the end of the file and advances by that), "
            "C46_unlink_returns_size (the file disappears, used size and total drop by exactly its size), C46_oracle_is_spec / "
            "C46_model_passes_oracle (the per-step oracle is the specification and the model satisfies it). The model mirrors "
            "s4u_FileSystem.cpp (open/write/read/seek/move/unlink/close, 64-bit wrap, xbt_assert) and is tied to the rebuilt plugin "
            "by differential runs; the oracle is run on every observation of the real code.",
    "note": "Partial: outside the discipline the real code violates the statement (C46_*_refuted; KNOWN_FINDINGS two-handles, "
            "use-after-move, use-after-unlink, move-onto-existing) - those histories are judged by the oracle only. The pinned "
            "overwrite defect (C46_pinned_write_refuted) was repaired by a fix: commit. Not modelled: remote disks/hosts, "
            "remote_copy/remote_move, file descriptor table, duplicate paths in a content file, simulated time.",
    "technique": "Coq proof (inductive invariant over an association-list model, modular arithmetic) + extracted-model differential "
                 "correspondence + verified per-step oracle on implementation observations",
}
