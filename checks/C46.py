"""C46 — file system accounting is consistent.
K: the extracted Coq model of s4u_FileSystem.cpp (SGV.Plugins.FileSystem) vs. the real plugin driven by
   harness/xbt2_fs_drv.cpp (one actor, one disk with generated initial content and capacity), same operation sequences;
   compared step by step on the admissible prefix of each history (result, File size, tell, used size, content total).
O: the verified per-step oracle step_ok (C46_oracle_is_spec) is run on every observation of the implementation:
   used size == sum of the content map, read <= bytes up to the end of the file, unlink gives back the file's size.
Histories that leave the discipline of C46_used_eq_sum_partial (two Files on one path, use of a File after
move/unlink, move onto an existing path) are judged by O only and reported under the recorded finding signatures.
Multi-actor mode (xbt2_fs_drv <dir> multi): 2-3 actors on the one disk, each with its own files, their operations aligned
   on the same simulated dates (sleep_until; optional yields shift the segments by scheduling sub-rounds), an auditor actor
   reads used size / content total once every operation of the round is over.  K: the extracted interleaving model
   run_c46_multi (SGV.Plugins.FileSystemConc; C46_concurrent_used_eq_sum_partial holds for EVERY interleaving) on the same
   rounds: used, total, result/size/position per actor, final content.  O: used == total at every audit point."""
import json, os, tempfile
import fw

NREC = 12
SLOTS, PATHS = 4, 5
SIZES = [0, 1, 7, 100, 1000]


def gen_content(rng):
    k = rng.choice([0, 1, 2, 3, 5])
    ps = rng.sample(range(PATHS), min(k, PATHS))
    return [(p, rng.choice(SIZES + [rng.randint(0, 5000)])) for p in ps]


def gen_case(rng, wild):
    """returns the integer list of one case.  Not wild: python follows the history-based discipline (one open File per
    path, nothing but close after move/unlink, moves to fresh paths) so that (almost) every step is admissible."""
    cont = gen_content(rng)
    used0 = sum(s for _, s in cont)
    cap = rng.choice([10 ** 9, 10 ** 9, 10 ** 9, used0 + rng.randint(0, 300), rng.randint(1, 2000)])
    exists = set(p for p, _ in cont)
    slot_path, stale = {}, set()
    ops = []
    nsteps = rng.randint(1, 40)
    while len(ops) < nsteps:
        r = rng.random()
        free = [s for s in range(SLOTS) if s not in slot_path]
        live = [s for s in slot_path if s not in stale] if not wild else list(slot_path)
        if (r < 0.2 or not slot_path) and free:
            s = rng.choice(free)
            cand = [p for p in range(PATHS) if wild or p not in [slot_path[t] for t in slot_path if t not in stale]]
            if not cand:
                continue
            p = rng.choice(cand)
            slot_path[s] = p
            exists.add(p)
            ops.append((0, s, p, 0))
        elif r < 0.27 and slot_path:
            s = rng.choice(list(slot_path))
            del slot_path[s]
            stale.discard(s)
            ops.append((6, s, 0, 0))
        elif not live:
            if not free and slot_path:
                s = rng.choice(list(slot_path))
                del slot_path[s]
                stale.discard(s)
                ops.append((6, s, 0, 0))
            continue
        else:
            s = rng.choice(live)
            k = rng.random()
            if k < 0.35:
                ops.append((1, s, rng.choice([0, 1, 10, 100, rng.randint(0, 3000)]), rng.randint(0, 1)))
            elif k < 0.5:
                ops.append((2, s, rng.choice([0, 1, 10, 100, 10 ** 6, rng.randint(0, 3000)])))
                ops[-1] = ops[-1] + (0,)
            elif k < 0.8:
                origin = rng.choice([0, 0, 1, 2, 2, 3])
                off = rng.choice([0, 0, 5, 50, rng.randint(0, 2000)])
                if origin in (1, 2) and rng.random() < 0.5:
                    off = -rng.choice([0, 1, 5, 50, rng.randint(0, 200)])
                if origin == 0 and rng.random() < 0.03:
                    off = -1  # xbt_assert
                ops.append((3, s, off, origin))
            elif k < 0.9:
                cand = [p for p in range(PATHS) if wild or p == slot_path[s] or p not in exists] + [-1]
                p = rng.choice(cand)
                ops.append((4, s, p, 0))
                if p >= 0 and p != slot_path[s]:
                    exists.discard(slot_path[s])
                    exists.add(p)
                    stale.add(s)
            else:
                ops.append((5, s, 0, 0))
                exists.discard(slot_path[s])
                stale.add(s)
    return [cap, len(cont)] + [x for pc in cont for x in pc] + [x for o in ops for x in o]


# boundary / regression cases (first six: the refutation witnesses of Properties_C46.v and the xbt_assert)
CORPUS = [
    [1000000, 1, 0, 100, 0, 0, 0, 0, 3, 0, 0, 0, 1, 0, 10, 0],                                   # pinned defect (fixed)
    [1000000, 1, 0, 100, 0, 0, 0, 0, 0, 1, 0, 0, 3, 0, 0, 2, 1, 0, 50, 1, 3, 1, 0, 2, 1, 1, 10, 1],  # two handles
    [1000000, 1, 0, 100, 0, 0, 0, 0, 4, 0, 1, 0, 3, 0, 0, 2, 1, 0, 10, 1],                         # write after move
    [1000000, 1, 0, 100, 0, 0, 0, 0, 5, 0, 0, 0, 3, 0, 0, 2, 1, 0, 10, 1],                         # write after unlink
    [1000000, 2, 0, 100, 1, 7, 0, 0, 0, 0, 4, 0, 1, 0],                                            # move onto existing
    [1000000, 1, 0, 100, 0, 0, 0, 0, 3, 0, -5, 0],                                                 # seek before start
    [1000000, 1, 0, 100, 0, 0, 0, 0, 2, 0, 30, 0, 2, 0, 100, 0, 4, 0, -1, 0, 6, 0, 0, 0],
    [1000, 2, 0, 100, 1, 7, 0, 0, 0, 0, 3, 0, 40, 0, 1, 0, 10, 0, 2, 0, 5, 0, 3, 0, 20, 0, 1, 0, 100, 1, 0, 1, 1, 0,
     5, 1, 0, 0, 6, 1, 0, 0, 4, 0, 2, 0, 6, 0, 0, 0, 0, 0, 2, 0, 2, 0, 500, 0, 0, 1, 1, 0, 1, 1, 3, 0],
    [150, 1, 0, 100, 0, 0, 0, 0, 3, 0, 0, 2, 1, 0, 100, 0, 1, 0, 5, 0, 3, 0, 10, 0, 1, 0, 1, 0],     # disk full
    [1000000, 0, 0, 0, 3, 0, 0, 0, 500, 0, 2, 0, 100, 0, 3, 0, -100, 2, 1, 0, 7, 0, 5, 0, 0, 0],     # seek past the end
]


# ---------------------------------------------------------------------------------------------- multi-actor mode
APATHS = 3  # actor a owns the paths a*10 .. a*10+APATHS-1 and its own File slots


class _Act:
    """generation-time bookkeeping of one actor (guidance only, never used for a verdict)"""

    def __init__(self, a):
        self.paths = [a * 10 + k for k in range(APATHS)]
        self.slot_path, self.stale, self.pos = {}, set(), {}


def gen_multi(rng, tight):
    """rounds of one operation per actor, every actor inside the discipline and on its own files; 'give-back' rounds make
    several actors return space to the disk at the same date (unlink / truncating overwrite)"""
    nact = rng.choice([2, 2, 3])
    acts = [_Act(a) for a in range(nact)]
    size = {}
    for A in acts:
        for p in A.paths:
            if rng.random() < 0.7:
                size[p] = rng.choice([100, 1000, 2500, 4000, rng.randint(1, 5000)])
    cont = sorted(size.items())
    rng.shuffle(cont)
    cap = sum(size.values()) + rng.randint(0, 3000) if tight else 10 ** 12
    rows = []
    for _ in range(rng.randint(2, 14)):
        giveback = rng.random() < 0.4
        row = []
        for A in acts:
            live = [s for s in A.slot_path if s not in A.stale]
            free = [s for s in range(SLOTS) if s not in A.slot_path]
            op = (7, 0, 0, 0)
            if rng.random() < 0.05:
                pass
            elif not live:
                if A.stale and (not free or rng.random() < 0.5):
                    s = rng.choice(sorted(A.stale))
                    A.stale.discard(s)
                    del A.slot_path[s]
                    op = (6, s, 0, 0)
                elif free:
                    s, p = rng.choice(free), rng.choice(A.paths)
                    A.slot_path[s], A.pos[s] = p, 0
                    size.setdefault(p, 0)
                    op = (0, s, p, 0)
            else:
                s = rng.choice(live)
                p = A.slot_path[s]
                k = rng.random()
                if giveback:
                    k = 0.05 if (A.pos[s] < size[p] and rng.random() < 0.5) else (0.95 if rng.random() < 0.6 else 0.5)
                if k < 0.3:       # write (k < 0.1: overwrite, truncating when inside the file)
                    n = rng.choice([1, 10, 100, 500, rng.randint(0, 3000)])
                    inside = 0 if k < 0.1 else rng.randint(0, 1)
                    if n and not tight:
                        if not inside and A.pos[s] < size[p]:
                            size[p] = A.pos[s]
                        A.pos[s] += n
                        size[p] = max(size[p], A.pos[s])
                    op = (1, s, n, inside)
                elif k < 0.4:     # read
                    n = rng.choice([0, 1, 10, 100, 10 ** 6])
                    if size[p]:
                        A.pos[s] += min(n, size[p] - A.pos[s])
                    op = (2, s, n, 0)
                elif k < 0.7:     # seek (mostly to a position inside the file: prepares a truncating overwrite)
                    if tight or rng.random() < 0.7:
                        off, origin = (rng.randint(0, size[p]) if rng.random() < 0.8 else rng.randint(0, 6000)), 0
                        new = off
                    else:
                        origin = rng.choice([1, 2])
                        base = A.pos[s] if origin == 1 else size[p]
                        off = rng.randint(-base, 300)
                        new = base + off
                    A.pos[s] = new
                    size[p] = max(size[p], new)
                    op = (3, s, off, origin)
                elif k < 0.78:    # move to a fresh path of the same actor (or outside the mount point)
                    cand = [q for q in A.paths if q not in size] + [-1]
                    q = rng.choice(cand)
                    if q >= 0:
                        size[q] = size.pop(p)
                        A.stale.add(s)
                    op = (4, s, q, 0)
                elif k < 0.9 or giveback:
                    size.pop(p)
                    A.stale.add(s)
                    op = (5, s, 0, 0)
                else:
                    del A.slot_path[s]
                    op = (6, s, 0, 0)
            if op[0] != 7 and rng.random() < 0.2:
                op = (op[0] + 10 * rng.randint(1, 2),) + op[1:]
            row.append(op)
        rows.append(row)
    return [cap, len(cont)] + [x for pc in cont for x in pc] + [nact] + [x for row in rows for o in row for x in o]


# two unlinks at one date; two truncating overwrites at one date; unlink + overwrite + growth, one actor a sub-round late
CORPUS_MULTI = [
    [10 ** 9, 2, 0, 1000, 10, 2500, 2, 0, 0, 0, 0, 0, 0, 10, 0, 5, 0, 0, 0, 5, 0, 0, 0],
    [10 ** 9, 2, 0, 4000, 10, 4000, 2, 0, 0, 0, 0, 0, 0, 10, 0, 3, 0, 1000, 0, 3, 0, 1000, 0, 1, 0, 500, 0, 1, 0, 500, 0],
    [10 ** 9, 3, 0, 1000, 10, 2500, 20, 4000, 3, 0, 0, 0, 0, 0, 0, 10, 0, 0, 0, 20, 0, 7, 0, 0, 0, 7, 0, 0, 0, 3, 0, 1000, 0,
     5, 0, 0, 0, 5, 0, 0, 0, 1, 0, 500, 0],
    [10 ** 9, 3, 0, 1000, 10, 2500, 20, 4000, 3, 0, 0, 0, 0, 0, 0, 10, 0, 0, 0, 20, 0, 3, 0, 5000, 0, 13, 0, 100, 0,
     3, 0, 1000, 0, 15, 0, 0, 0, 1, 0, 700, 0, 21, 0, 500, 0, 0, 1, 1, 0, 5, 0, 0, 0, 3, 0, 9000, 0],
]


def split_multi(c):
    nf = c[1]
    nact = c[2 + 2 * nf]
    rest = c[3 + 2 * nf:]
    ops = [tuple(rest[i:i + 4]) for i in range(0, len(rest) - 3, 4)]
    return nact, [ops[i:i + nact] for i in range(0, len(ops) - nact + 1, nact)]


def parse_model_multi(m, nact):
    """-> (rounds [(adm, used, total, npend, [res hsize pos]*nact)], final content or None (stopped by xbt_assert))"""
    rounds, i, w = [], 0, 5 + 3 * nact
    while i < len(m):
        if m[i] == -7:
            fl = m[i + 1:]
            return rounds, sorted((fl[j], fl[j + 1]) for j in range(0, len(fl), 2))
        if m[i] == -99:
            return rounds, None
        rounds.append((m[i + 1], m[i + 2], m[i + 3], m[i + 4], m[i + 5:i + w]))
        i += w
    return rounds, None


def parse_impl_multi(line, nact):
    """-> (rounds [(used, total, [res hsize pos]*nact)], final content or None, aborted)"""
    toks = line.split()
    aborted = bool(toks) and toks[-1] == "ABORT"
    if aborted:
        toks.pop()
    rounds, cont, i, w = [], None, 0, 3 + 3 * nact
    while i < len(toks):
        if toks[i] == "C":
            fl = [int(t) for t in toks[i + 1:]]
            cont = sorted((fl[j], fl[j + 1]) for j in range(0, len(fl), 2))
            break
        t = toks[i:i + w]
        if len(t) < w or t[0] != "R":
            break
        v = [int(x) for x in t[1:]]
        rounds.append((v[0], v[1], v[2:]))
        i += w
    return rounds, cont, aborted


def run_multi(ctx, drv, cases, dist):
    """cases: [(input, kind)], kind in multi / multi-tight / corpus-multi"""
    inputs = [c for c, _ in cases]
    model = fw.run_model("c46", "run_c46_multi", inputs)
    scratch = tempfile.mkdtemp(prefix="c46m_", dir=os.path.join(fw.B))
    try:
        rc, impl, err = fw.run_lines(drv, [scratch, "multi"], [" ".join(map(str, c)) for c in inputs])
    finally:
        for f in ("content.txt", "platform.xml"):
            try:
                os.remove(os.path.join(scratch, f))
            except OSError:
                pass
        try:
            os.rmdir(scratch)
        except OSError:
            pass
    if rc != 0 or len(impl) != len(inputs):
        ctx.fail("driver-crash", "xbt2_fs_drv multi ended with rc=%d after %d/%d cases: %s" % (rc, len(impl), len(inputs), err[-300:]),
                 {"input": inputs[len(impl)] if len(impl) < len(inputs) else None, "kind": "multi"})
        return
    shapes = [split_multi(c) for c in inputs]
    parsed = [parse_impl_multi(l, na) for l, (na, _) in zip(impl, shapes)]
    # O: used == total at every audit point (verified oracle, record code 9 = audit: only the accounting conjunct applies)
    oracle_in = []
    for rounds, _, _ in parsed:
        flat, ub, tb = [], -1, -1
        for ua, ta, _ in rounds:
            flat += [9, 0, 0, -1, -1, -1, ub, tb, -1, -1, ua, ta]
            ub, tb = ua, ta
        oracle_in.append(flat)
    verdicts = fw.run_model("c46", "run_c46_oracle", oracle_in)
    for (c, kind), m, (nact, rows), (irounds, icont, aborted), verdict in zip(cases, model, shapes, parsed, verdicts):
        mrounds, mcont = parse_model_multi(m, nact)
        dist[kind] = dist.get(kind, 0) + 1
        dist["multi_rounds"] += len(irounds)
        k = next((i for i, r in enumerate(mrounds) if r[0] == 0), len(mrounds))
        dist["multi_inadmissible_cases"] += k < len(mrounds)
        both = give = 0
        for i, row in enumerate(rows[:len(irounds)]):
            recs = irounds[i][2]
            acc = sum(1 for a, o in enumerate(row) if o[0] % 10 in (1, 3, 5) and recs[3 * a] >= 0)
            changed = i > 0 and irounds[i][0] != irounds[i - 1][0]
            both += acc >= 2 and changed
            give += sum(1 for a, o in enumerate(row) if o[0] % 10 == 5 and recs[3 * a] == 0) >= 2
        dist["multi_rounds_2plus_accounting_ops"] += both
        dist["multi_rounds_2plus_unlinks"] += give
        nontriv = both > 0
        ctx.case(("multi",) + tuple(c), nontriv,
                 {"kind": kind, "input": c, "impl_last_audit": irounds[-1] if irounds else None} if nontriv and give and kind == "multi" else None)
        case = {"input": c, "kind": kind}
        bad = verdict[1] if verdict and verdict[0] == 0 else None
        if bad is not None:
            ua, ta, recs = irounds[bad]
            ctx.fail("used-ne-total" if bad < k else "outside-discipline",
                     "%d actors, content %s, round %d (every actor woken at date %d, audit at %d): operations %s -> used size %d but the "
                     "files on the disk total %d (previous audit: used %s)"
                     % (nact, c[2:2 + 2 * c[1]], bad, 1000 * (bad + 1), 1000 * (bad + 1) + 500, rows[bad], ua, ta,
                        irounds[bad - 1][0] if bad else "initial"), case)
            continue
        if kind == "multi-tight":
            continue  # the 'disk full' test reads used_size_ while other operations are in flight: judged by O only
        for i in range(k):
            adm, mu, mt, npend, mrecs = mrounds[i]
            ir = irounds[i] if i < len(irounds) else None
            if npend != 0 or ir is None or (mu, mt, mrecs) != ir:
                ctx.mismatch("correspondence FileSystemConc.v / s4u_FileSystem.cpp (multi-actor)",
                             "%d actors, content %s, round %d operations %s: model (used, total, [res size pos]*) %s pending %d, "
                             "implementation %s%s" % (nact, c[2:2 + 2 * c[1]], i, rows[i], (mu, mt, mrecs), npend, ir,
                                                      " (stopped)" if ir is None else ""), case)
                break
        else:
            if k == len(mrounds) and mcont is not None and (icont != mcont or aborted):
                ctx.mismatch("correspondence FileSystemConc.v / s4u_FileSystem.cpp (multi-actor, final content)",
                             "rounds %s: model content %s, implementation %s%s" % (rows, mcont, icont, " ABORT" if aborted else ""), case)


def parse_model(m):
    """-> (steps [(adm, rec or None)], final content or None)"""
    steps, i = [], 0
    while i < len(m):
        if m[i] == -7:
            fl = m[i + 1:]
            return steps, sorted((fl[j], fl[j + 1]) for j in range(0, len(fl), 2))
        adm = m[i]
        if m[i + 1] == -99 and i + 2 == len(m):
            steps.append((adm, None))
            return steps, None
        steps.append((adm, m[i + 1:i + 1 + NREC]))
        i += 1 + NREC
    return steps, None


def parse_impl(line):
    """-> (records (None = stopped in that op), final content or None, aborted)"""
    toks = line.split()
    aborted = bool(toks) and toks[-1] == "ABORT"
    if aborted:
        toks.pop()
    recs, cont = [], None
    i = 0
    while i < len(toks):
        if toks[i] == "C":
            fl = [int(t) for t in toks[i + 1:]]
            cont = sorted((fl[j], fl[j + 1]) for j in range(0, len(fl), 2))
            break
        t = toks[i:i + NREC]
        if len(t) < NREC:
            recs.append(None)
            break
        code, n, sb, pb, fb, ub, tb, res, sa, pa, ua, ta = (int(x) for x in t)
        recs.append([code, n, res, sb, pb, fb, ub, tb, sa, pa, ua, ta])
        i += NREC
    return recs, cont, aborted


def why_rejected(r):
    code, n, res, sb, pb, fb, ub, tb, sa, pa, ua, ta = r
    if ua != ta % 2 ** 64:
        return "used-ne-total", "used size %d but the files on the disk total %d" % (ua, ta)
    if code == 2:
        return "read-bound", "read(%d) at position %d of a file of %d bytes returned %d, position now %d" % (n, pb, fb, res, pa)
    return "unlink-size", "unlink of a file of %d bytes: used %d -> %d, content total %d -> %d" % (fb, ub, ua, tb, ta)


def classify(case_ops, k, rec):
    """which recorded finding does the first inadmissible step k fall under"""
    code, slot = case_ops[k][0], case_ops[k][1]
    moved = unlinked = False
    for o in case_ops[:k]:
        if o[1] != slot:
            continue
        if o[0] in (0, 6):
            moved = unlinked = False
        elif o[0] == 4 and o[2] >= 0:
            moved = True
        elif o[0] == 5:
            unlinked = True
    sb, fb = rec[3], rec[5]
    if fb == -1 and unlinked:
        return "use-after-unlink"
    if fb == -1 and moved:
        return "use-after-move"
    if fb != sb:
        return "two-handles"
    if code == 4:
        return "move-onto-existing"
    return "outside-discipline"


def split_case(c):
    nf = c[1]
    rest = c[2 + 2 * nf:]
    return [tuple(rest[i:i + 4]) for i in range(0, len(rest) - 3, 4)]


def run_single(ctx, drv, cases, dist):
    inputs = [c for c, _ in cases]
    model = fw.run_model("c46", "run_c46", inputs)
    scratch = tempfile.mkdtemp(prefix="c46_", dir=os.path.join(fw.B))
    try:
        rc, impl, err = fw.run_lines(drv, [scratch], [" ".join(map(str, c)) for c in inputs])
    finally:
        for f in ("content.txt", "platform.xml"):
            try:
                os.remove(os.path.join(scratch, f))
            except OSError:
                pass
        try:
            os.rmdir(scratch)
        except OSError:
            pass
    if rc != 0 or len(impl) != len(inputs):
        ctx.fail("driver-crash", "xbt2_fs_drv ended with rc=%d after %d/%d cases: %s" % (rc, len(impl), len(inputs), err[-300:]),
                 {"input": inputs[len(impl)] if len(impl) < len(inputs) else None})
        return
    parsed = [parse_impl(l) for l in impl]
    # O: the verified oracle on every complete record the implementation produced
    oracle_in = [[x for r in recs if r is not None for x in r] for recs, _, _ in parsed]
    verdicts = fw.run_model("c46", "run_c46_oracle", oracle_in)
    for (c, kind), m, (recs, cont, aborted), verdict in zip(cases, model, parsed, verdicts):
        ops = split_case(c)
        msteps, mcont = parse_model(m)
        dist[kind] += 1
        dist["steps"] += len(msteps)
        k = next((i for i, (adm, _) in enumerate(msteps) if adm == 0), len(msteps))
        dist["admissible_steps"] += k
        dist["fully_admissible"] += k == len(msteps)
        for o in ops:
            dist["ops"][str(min(max(o[0], 0), 6))] += 1
        nontriv = any(r is not None and (r[6] != r[10] or (r[0] == 4 and r[2] == 0 and r[5] >= 0 and ops[i][2] >= 0))
                      for i, (_, r) in enumerate(msteps[:k]))
        ctx.case(tuple(c), nontriv, {"kind": kind, "input": c, "impl_last": recs[-1] if recs else None,
                                     "model_last": msteps[-1][1] if msteps else None} if nontriv and kind != "corpus" else None)
        case = {"input": c, "kind": kind}
        # O verdict
        bad = verdict[1] if verdict and verdict[0] == 0 else None
        if bad is not None:
            r = [x for x in recs if x is not None][bad]
            sig, what = why_rejected(r)
            if bad >= k:
                cls = classify(ops, k, msteps[k][1] if msteps[k][1] is not None else [0] * NREC)
                sig = cls
                what = "after leaving the discipline at step %d (%s): step %d, %s" % (k, cls, bad, what)
            ctx.fail(sig, "ops %s on content %s: %s" % (ops[:bad + 1], c[2:2 + 2 * c[1]], what), case)
            if bad < k:
                continue
        # K on the admissible prefix
        for i in range(k):
            mrec = msteps[i][1]
            irec = recs[i] if i < len(recs) else None
            if mrec is None:
                dist["aborts"] += 1
            if mrec != irec:
                if bad is None or bad > i:
                    ctx.mismatch("correspondence FileSystem.v / s4u_FileSystem.cpp",
                                 "step %d of ops %s (content %s, capacity %d): model %s, implementation %s%s"
                                 % (i, ops[:i + 1], c[2:2 + 2 * c[1]], c[0], mrec, irec, " (stopped)" if irec is None else ""), case)
                break
        else:
            if k == len(msteps) and mcont is not None and (cont != mcont or aborted):
                ctx.mismatch("correspondence FileSystem.v / s4u_FileSystem.cpp (final content)",
                             "ops %s: model content %s, implementation %s%s" % (ops, mcont, cont, " ABORT" if aborted else ""), case)


def run(ctx):
    ctx.simgrid(["simgrid"])
    ctx.prove()
    drv = fw.build_harness("xbt2_fs_drv")
    mcases = []
    if ctx.replay:
        rc_ = json.load(open(ctx.replay))["case"]
        if str(rc_.get("kind", "")).find("multi") >= 0:
            cases, mcases = [], [(rc_["input"], rc_["kind"])]
        else:
            cases = [(rc_["input"], "replay")]
    else:
        nd, nw = ctx.n(700, 14000), ctx.n(300, 6000)
        cases = [(c, "corpus") for c in CORPUS] + [(gen_case(ctx.rng, False), "disciplined") for _ in range(nd)] \
            + [(gen_case(ctx.rng, True), "wild") for _ in range(nw)]
        nm, nt = ctx.n(300, 6000), ctx.n(50, 1000)
        mcases = [(c, "corpus-multi") for c in CORPUS_MULTI] + [(gen_multi(ctx.rng, False), "multi") for _ in range(nm)] \
            + [(gen_multi(ctx.rng, True), "multi-tight") for _ in range(nt)]
    ctx.cov["rule"] = ("operation sequences of 1..40 steps (open/write append|overwrite|in place/read/seek SET|CUR|END/move/"
                       "unlink/close) over <=5 paths and <=4 File objects on a disk with 0..5 initial files and a capacity that is "
                       "sometimes nearly exhausted; 'disciplined' stream follows the discipline of the theorem, 'wild' does not; "
                       "non-trivial = the admissible prefix changes the used size or moves a file; distinct = distinct inputs. "
                       "Multi-actor stream: 2-3 actors, each with <=3 own paths and own File objects, 2..14 rounds of one operation "
                       "per actor started at the same simulated date (20% of the operations delayed by 1-2 yields), 40% of the "
                       "rounds biased to give space back (unlink / truncating overwrite) in several actors at once; 'multi-tight' = "
                       "capacity nearly exhausted (oracle only); non-trivial = some round in which >= 2 actors changed the accounting")
    dist = {"corpus": 0, "disciplined": 0, "wild": 0, "replay": 0, "steps": 0, "admissible_steps": 0, "aborts": 0,
            "fully_admissible": 0, "ops": {str(k): 0 for k in range(7)},
            "corpus-multi": 0, "multi": 0, "multi-tight": 0, "multi_rounds": 0, "multi_inadmissible_cases": 0,
            "multi_rounds_2plus_accounting_ops": 0, "multi_rounds_2plus_unlinks": 0}
    if cases:
        run_single(ctx, drv, cases, dist)
    if mcases:
        run_multi(ctx, drv, mcases, dist)
    ctx.cov["input_distribution"] = dist
    ctx.assumptions += [
        "one disk is modelled; several disks are independent (each File touches only the FileSystemDiskExt of its local_disk_)",
        "the content file of the disk lists each path once (parse_content adds the size of a repeated path to used_size_ twice)",
        "Disk::read/Disk::write perform the whole request (checked by the correspondence); remote hosts (Comm::sendto) not modelled",
        "sg_size_t/sg_offset_t are 64 bits; used_size_ arithmetic is modelled modulo 2^64 and the theorem is stated modulo 2^64 "
        "(with equality when the total is below 2^64)",
        "multi-actor mode: a File object is used by one actor only (its path_/size_/current_position_ are private), so the model "
        "updates it in the first segment of the operation; what other actors observe (content_, used_size_) changes atom by atom",
        "multi-actor mode compares at audit points where no operation is in flight; the model's schedule (all first segments, then "
        "the updates round-robin) is one of the interleavings covered by C46_concurrent_used_eq_sum_partial; with an ample capacity "
        "the audited values do not depend on the schedule (checked by the correspondence, not proved)",
    ]


META = {
    "level": "proof",
    "claimed": True,
    "text": "Coq theorems over histories of any length on a disk with any initial content: C46_used_eq_sum_partial (used size = sum of "
            "the content map after every history whose operations go through a File that is in sync with the disk and whose moves "
            "target fresh paths), C46_read_bound (a read returns at most the bytes up to the end of the file and advances by that), "
            "C46_unlink_returns_size (the file disappears, used size and total drop by exactly its size), C46_oracle_is_spec / "
            "C46_model_passes_oracle (the per-step oracle is the specification and the model satisfies it). The model mirrors "
            "s4u_FileSystem.cpp (open/write/read/seek/move/unlink/close, 64-bit wrap, xbt_assert) and is tied to the rebuilt plugin "
            "by differential runs; the oracle is run on every observation of the real code. Several actors on one disk "
            "(FileSystemConc.v): each operation is cut into its atomic segments (first segment up to the first accounting simcall, "
            "then used_size_ += / -=, content entry replace / erase, one at a time); C46_segments_refine_step / C46_solo_refines_step "
            "(uninterrupted segments = one step of the single-actor model), C46_interleaving_preserves_accounting and "
            "C46_concurrent_used_eq_sum_partial (after ANY interleaving of the segments of operations of different actors on "
            "different files, used size = total of the files - what the operations in flight still owe, hence = total whenever "
            "nothing is in flight). Tied by a multi-actor mode of the driver (2-3 actors, operations started at the same simulated "
            "dates, audit by a further actor after every round) compared with the extracted interleaving model, oracle at every audit.",
    "note": "Partial: outside the discipline the real code violates the statement (C46_*_refuted; KNOWN_FINDINGS two-handles, "
            "use-after-move, use-after-unlink, move-onto-existing) - those histories are judged by the oracle only. The pinned "
            "overwrite defect (C46_pinned_write_refuted) was repaired by a fix: commit. Not modelled: remote disks/hosts, "
            "remote_copy/remote_move, file descriptor table, duplicate paths in a content file, durations of the disk I/O (dates only "
            "align the actors). Multi-actor: File objects are private to one actor and actors work on disjoint paths (discipline "
            "madmissible); the audited values are compared with ONE schedule of the model (all first segments, then updates "
            "round-robin) - their independence of the schedule is checked, not proved, and does not hold for the 'disk full' test "
            "(it reads used_size_ while other operations are in flight), so nearly-full multi-actor cases are judged by the oracle "
            "only. Strengthened after seeded change C46-a (read-modify-write of used_size_ split across the simcall boundary), "
            "which the single-actor generator could not see; mutants in corpus/C46/mutants.list.",
    "technique": "Coq proof (inductive invariant over an association-list model, modular arithmetic) + extracted-model differential "
                 "correspondence (single-actor sequences and multi-actor synchronised rounds) + verified per-step oracle on "
                 "implementation observations; potential-function invariant over interleavings of atomic segments",
}
