"""C25 — shortest-path zones compute minimal routes.
For every generated graph of declared one-hop routes (symmetric or one-way, 1..3 links each) the SAME graph is built as
a Floyd, a Dijkstra, a DijkstraCache and a Full zone by harness/routing_drv (one process per zone) and Host::route_to
is dumped for all ordered pairs.
O: the extracted verified checkers judge the implementation's answers: chain_check (the route is a chain of declared
   routes src -> dst) on every route, cert_ok (the table of link counts is the table of minimal link counts) on every
   zone's table; Full: exactly the declared route.
K: the Gallina models of the Floyd tables (add_route/do_seal/get_local_route) and of the repaired Dijkstra loop give the
   same link counts (link COUNTS only: which of several minimal chains is chosen is not constrained by the property)."""
import json
import fw
from routing_lib import run_platforms, parse_routes, run_model_par

KINDS = ["floyd", "dijkstra", "dijkstracache", "full"]


def gen_graph(rng, n, oneway_p, extra):
    """connected graph on n nodes.  Returns list of declarations (u, v, sym, [link names])."""
    decl, used, k = [], set(), 0
    order = list(range(n))
    rng.shuffle(order)

    def add(u, v):
        nonlocal k
        if u == v or (u, v) in used:
            return
        sym = rng.random() >= oneway_p
        if sym and (v, u) in used:
            return
        nl = rng.choice([1, 1, 1, 2, 2, 3])
        decl.append((u, v, sym, ["L%d_%d" % (k, i) for i in range(nl)]))
        k += 1
        used.add((u, v))
        if sym:
            used.add((v, u))
    for i in range(1, n):
        a, b = order[i], order[rng.randrange(i)]
        if rng.random() < 0.5:
            a, b = b, a
        add(a, b)
    for _ in range(extra):
        add(rng.randrange(n), rng.randrange(n))
    return decl


def first_appearance(n, decl):
    """DijkstraZone numbers its graph nodes in order of first appearance in add_route; hosts are created in that order
    so that netpoint ids = graph ids (the model uses one numbering)."""
    seen = []
    for u, v, _, _ in decl:
        for x in (u, v):
            if x not in seen:
                seen.append(x)
    for x in range(n):
        if x not in seen:
            seen.append(x)
    return {old: new for new, old in enumerate(seen)}


def relabel(n, decl):
    m = first_appearance(n, decl)
    return [(m[u], m[v], s, l) for u, v, s, l in decl]


def platform_lines(kind, n, decl):
    lines = ["zone z - %s" % kind] + ["host h%02d z" % i for i in range(n)]
    for u, v, sym, ls in decl:
        for l in ls:
            lines.append("link %s z 1" % l)
        lines.append("route z h%02d h%02d - - %d %s" % (u, v, 1 if sym else 0, " ".join(ls)))
    return lines + ["sealall", "dump"]


def edges_of(decl, lid):
    """directed edges (u, v, [link ids]) as the zones store them (symmetric: reversed link list the other way)"""
    es = []
    for u, v, sym, ls in decl:
        es.append((u, v, [lid[x] for x in ls]))
        if sym:
            es.append((v, u, [lid[x] for x in reversed(ls)]))
    return es


def enc_graph(n, es):
    out = [n, len(es)]
    for u, v, ls in es:
        out += [u, v, len(ls)] + ls
    return out


def bfs_dist(n, es):
    """search helper only (names a concrete failing pair in messages): Bellman-Ford link counts"""
    INF = 10 ** 9
    d = [[INF] * n for _ in range(n)]
    for s in range(n):
        ds = [INF] * n
        ds[s] = 0
        for _ in range(n):
            for u, v, ls in es:
                if ds[u] + len(ls) < ds[v] and v != s:
                    ds[v] = ds[u] + len(ls)
        d[s] = ds
    return d


CORPUS = [
    # the witness of C25_dijkstra_pinned_refuted: a -> b and c -> b one-way
    (3, [(0, 1, False, ["La"]), (2, 1, False, ["Lb"])]),
    (3, [(0, 1, False, ["La"]), (2, 1, False, ["Lb"]), (0, 2, False, ["Lc0", "Lc1", "Lc2"])]),
    (4, [(0, 1, True, ["La"]), (1, 2, True, ["Lb"]), (2, 3, True, ["Lc"]), (0, 3, True, ["Ld0", "Ld1", "Ld2", "Ld3"])]),
    (4, [(0, 1, True, ["La0", "La1"]), (1, 2, False, ["Lb"]), (2, 0, False, ["Lc"]), (3, 0, False, ["Ld"])]),
    (2, [(0, 1, True, ["La0", "La1", "La2"])]),
]


def run(ctx):
    ctx.simgrid(["simgrid"])
    ctx.prove()
    drv = fw.build_harness("routing_drv")
    ctx.cov["rule"] = ("one case = one ordered pair (src != dst) of one zone kind of one generated graph; non-trivial = the minimal "
                       "chain has >= 2 declared routes or the pair is unreachable in a one-way graph; distinct = distinct "
                       "(graph, kind, pair)")
    graphs = []
    if ctx.replay:
        rp = json.load(open(ctx.replay))["case"]
        graphs = [(rp["n"], [tuple(d) for d in rp["decl"]])]
    else:
        graphs = [(n, relabel(n, d)) for n, d in CORPUS]
        for i in range(ctx.n(40, 400)):
            big = ctx.rng.random() < 0.25
            n = ctx.rng.randint(13, 30) if big else ctx.rng.randint(2, 12)
            oneway = ctx.rng.choice([0.0, 0.0, 0.3, 0.6, 1.0])
            d = gen_graph(ctx.rng, n, oneway, ctx.rng.randint(0, 2 * n))
            graphs.append((n, relabel(n, d)))
    dist = {"graphs": 0, "pairs": 0, "unreachable_pairs": 0, "multi_hop_pairs": 0, "one_way_graphs": 0,
            "max_nodes": 0, "model_K_graphs": 0}
    plats, pidx = [], []
    for gi, (n, decl) in enumerate(graphs):
        for kind in KINDS:
            plats.append(platform_lines(kind, n, decl))
            pidx.append((gi, kind))
    outs = run_platforms(drv, plats, timeout=ctx.n(120, 300))
    tables = {}      # (gi, kind) -> rows
    chain_cases, chain_keys, cert_cases, cert_keys, full_cases, full_keys = [], [], [], [], [], []
    ginfo = {}
    for (gi, kind), (rc, out, err) in zip(pidx, outs):
        n, decl = graphs[gi]
        case = {"n": n, "decl": [list(d) for d in decl], "kind": kind}
        names = sorted(set(l for d in decl for l in d[3]))
        lid = {x: i + 1 for i, x in enumerate(names)}
        es = edges_of(decl, lid)
        ginfo[gi] = (es, lid)
        routes, bad = parse_routes(out)
        if rc == 124:
            ctx.fail("%s-hang" % kind, "%s zone on graph %s: route computation did not finish (timeout)" % (kind, decl), case)
            continue
        if rc != 0 or bad or len(routes) != n * n:
            ctx.fail("%s-build" % kind, "%s zone: driver rc=%d, %d/%d routes, %s %s" % (kind, rc, len(routes), n * n, bad[:2], err[-300:]), case)
            continue
        rows = [[0] * n for _ in range(n)]
        for s in range(n):
            for t in range(n):
                if s == t:
                    continue
                r = routes[("h%02d" % s, "h%02d" % t)]
                if kind == "full":
                    # Full: exactly the declared route (an undeclared pair has an empty route)
                    got = r[2] if r[0] == "R" else None
                    full_cases.append(enc_graph(n, es) + [s, t])
                    full_keys.append((gi, s, t, got))
                    continue
                if r[0] == "X":
                    rows[s][t] = -1
                    continue
                links = r[2]
                if any(l not in lid for l in links) or not links:
                    ctx.fail("%s-foreign-link" % kind, "%s route h%02d->h%02d = %s uses a link that is not declared (or is empty)" % (kind, s, t, links),
                             dict(case, src=s, dst=t, impl=links))
                    rows[s][t] = len(links)
                    continue
                rows[s][t] = len(links)
                chain_cases.append(enc_graph(n, es) + [s, t, len(links)] + [lid[l] for l in links])
                chain_keys.append((gi, kind, s, t, links))
        if kind != "full":
            tables[(gi, kind)] = rows
            cert_cases.append(enc_graph(n, es) + [x for row in rows for x in row])
            cert_keys.append((gi, kind))
    # --- O: verified checkers on the implementation's answers
    chain_res = run_model_par("c25", "run_chain", chain_cases, chunk=500)
    for (gi, kind, s, t, links), res in zip(chain_keys, chain_res):
        if res != [1]:
            n, decl = graphs[gi]
            ctx.fail("%s-not-a-chain" % kind, "%s route h%02d->h%02d = %s is not a chain of declared routes from source to destination" % (kind, s, t, links),
                     {"n": n, "decl": [list(d) for d in decl], "kind": kind, "src": s, "dst": t, "impl": links})
    cert_res = run_model_par("c25", "run_cert", cert_cases, chunk=20)
    for (gi, kind), res in zip(cert_keys, cert_res):
        n, decl = graphs[gi]
        es, lid = ginfo[gi]
        rows = tables[(gi, kind)]
        ref = bfs_dist(n, es)
        if gi not in dist.setdefault("_seen", set()):
            dist["_seen"].add(gi)
            dist["graphs"] += 1
            dist["max_nodes"] = max(dist["max_nodes"], n)
            dist["one_way_graphs"] += any(not d[2] for d in decl)
        for s in range(n):
            for t in range(n):
                if s == t:
                    continue
                unreach = ref[s][t] >= 10 ** 9
                multi = not unreach and not any(u == s and v == t and len(ls) == ref[s][t] for u, v, ls in es)
                dist["pairs"] += 1
                dist["unreachable_pairs"] += unreach
                dist["multi_hop_pairs"] += multi
                ctx.case((gi, tuple(map(tuple, [(d[0], d[1], d[2], tuple(d[3])) for d in decl])), kind, s, t), unreach or multi,
                         {"kind": kind, "n": n, "src": s, "dst": t, "links": rows[s][t], "minimal": -1 if unreach else ref[s][t]}
                         if multi and rows[s][t] >= 3 else None)
        if res != [1]:
            # name a concrete failing pair
            badp = [(s, t, rows[s][t], -1 if ref[s][t] >= 10 ** 9 else ref[s][t]) for s in range(n) for t in range(n)
                    if s != t and rows[s][t] != (-1 if ref[s][t] >= 10 ** 9 else ref[s][t])]
            s, t, got, want = badp[0] if badp else (-1, -1, None, None)
            ctx.fail("%s-not-minimal" % kind,
                     "%s zone: the table of link counts is rejected by the verified certificate checker; e.g. route h%02d->h%02d has %s links, "
                     "the minimal chain of declared routes has %s (-1 = no route); graph %s" % (kind, s, t, got, want, decl),
                     {"n": n, "decl": [list(d) for d in decl], "kind": kind, "src": s, "dst": t, "impl_links": got, "minimal": want})
    dist.pop("_seen", None)
    # three algorithms agree (follows from C25_three_agree when all three tables are accepted; reported separately otherwise)
    for gi in range(len(graphs)):
        tabs = [tables.get((gi, k)) for k in KINDS[:3]]
        if all(x is not None for x in tabs) and not (tabs[0] == tabs[1] == tabs[2]):
            n, decl = graphs[gi]
            ctx.fail("three-disagree", "Floyd, Dijkstra and DijkstraCache return routes of different link counts on graph %s" % (decl,),
                     {"n": n, "decl": [list(d) for d in decl], "kind": "all"})
    # Full
    full_res = run_model_par("c25", "run_full", full_cases, chunk=2000)
    for (gi, s, t, got), res in zip(full_keys, full_res):
        es, lid = ginfo[gi]
        inv = {v: k for k, v in lid.items()}
        exp = [inv[x] for x in res[1:]] if res and res[0] == 1 else []
        if got != exp:
            n, decl = graphs[gi]
            ctx.fail("full-not-declared", "Full zone route h%02d->h%02d is %s, declared route is %s" % (s, t, got, exp),
                     {"n": n, "decl": [list(d) for d in decl], "kind": "full", "src": s, "dst": t, "impl": got})
    # --- K: the Gallina models of Floyd's tables and of the repaired Dijkstra loop give the same link counts
    kcases_f, kcases_d, kkeys = [], [], []
    for gi, (n, decl) in enumerate(graphs):
        if n > 30 or (gi, "floyd") not in tables or (gi, "dijkstra") not in tables:
            continue
        es, lid = ginfo[gi]
        loops = [(i, i, [9999]) for i in range(n)]          # do_seal adds the loopback edges after the declared ones
        kcases_f.append(enc_graph(n, es))
        kcases_d.append([1] + enc_graph(n, es + loops))
        kkeys.append(gi)
    mf = run_model_par("c25", "run_floyd", kcases_f, chunk=4)
    md = run_model_par("c25", "run_dijkstra", kcases_d, chunk=4)
    for gi, f, d in zip(kkeys, mf, md):
        n, decl = graphs[gi]
        dist["model_K_graphs"] += 1
        for kind, m in (("floyd", f), ("dijkstra", d)):
            rows = tables[(gi, kind)]
            diff = [(s, t, rows[s][t], m[s * n + t]) for s in range(n) for t in range(n) if s != t and rows[s][t] != m[s * n + t]]
            if diff:
                ctx.mismatch("K-%s-model" % kind, "link counts of the %s zone differ from the Gallina model on graph %s: (src, dst, impl, model) %s" % (
                    kind, decl, diff[:3]), {"n": n, "decl": [list(x) for x in decl], "kind": kind})
    ctx.cov["input_distribution"] = dist
    ctx.assumptions += ["every declared route has its own links (names unique per declaration), so a route parses as a chain in at most one way per prefix",
                        "hosts are created in the order in which DijkstraZone numbers its graph nodes (netpoint id = graph id)",
                        "src == dst routes (loopback) are not part of the property and are not judged",
                        "link counts stay far below 2^64 (no wrap in Floyd's cost sums)"]


META = {
    "level": "proof",
    "text": "Coq theorems, for any number of nodes and any declared one-hop routes (symmetric or one-way): the chain checker is sound "
            "(C25_chain_check_sound), a table of link counts accepted by the certificate checker is exactly the table of minimal link "
            "counts over chains of declared routes and -1 exactly where no chain exists (C25_certificate_sound, C25_certified_minimal, "
            "C25_certified_unreachable), two accepted tables coincide (C25_three_agree), the Full lookup returns exactly the declared "
            "route (C25_full_exact/_declared). Both checkers are extracted and run on every route / every table the rebuilt Floyd, "
            "Dijkstra and DijkstraCache zones return on generated graphs (<= 30 nodes, all ordered pairs). The pinned Dijkstra loop is "
            "refuted in Coq (C25_dijkstra_pinned_refuted: ULONG_MAX wrap + default predecessor 0 with one-way routes), reproduced on the "
            "real code (route a->b never returns) and repaired (fix commit in KNOWN_FINDINGS.txt).",
    "note": "Translation-validation style: minimality is decided per generated graph by verified checkers applied to the implementation's "
            "answers, not by a theorem about the Floyd-Warshall/Dijkstra code for all graphs. The Gallina models of Floyd's in-place "
            "tables and of the (repaired) Dijkstra loop are only tied by link-count comparison (all generated graphs, <= 30 nodes); no minimality "
            "theorem is proved about them. Not modelled: netzone routes with gateways inside these zones (C24), the route cache "
            "invalidation of DijkstraCache. Trusted: Coq kernel, extraction, routing_drv, the Python generator and link-name mapping.",
    "technique": "verified certificate checkers (Coq) applied to the implementation's all-pairs routes + model correspondence",
    "claimed": True,
}
