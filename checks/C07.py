"""C07 — barrier semantics.
Proof: Kernel/Barrier.v (+BarrierProofs.v), Props/Properties_C07.v.
K: programs of up to 6 actors waiting on up to 2 barriers (sizes 0..6) run on the rebuilt library through the generic
   S4U interpreter harness/k1_sync; the sequence of wait() calls the kernel executed on each barrier is replayed through
   the extracted step function; who blocks, who is woken by which arrival, at which date, the bool returned by wait()
   and the kernel queue (PEEK) must be what the model says.
   Two-simcall protocol (model checker / replay mode): harness/k1_sync split mode sets MC_record_path() so that the real
   s4u::Barrier::wait() issues BARRIER_ASYNC_LOCK then BARRIER_WAIT, and plays the checker on the real kernel: random
   interleavings of the pending lock/wait simcalls of 1-5 actors re-using one barrier for 1-4 rounds (waits fired before
   and after their grant); after every step ongoing_acquisitions_ (issuer, granted_), every pending acquisition (issuer,
   granted_, blocked in wait_for?) and the waits that returned are compared with the extracted split model
   (Barrier.sstep, theorems C07_split_*).
O: the verified judge (C07_judge_sound) applied to the implementation's arrivals/returns only (one-simcall runs: wait()
   calls in kernel order; split runs: ASYNC_LOCKs in handling order, every wait fired before the end)."""
import fw
import k1_common as k1

CODES = {1: "early-return", 2: "group-complete-but-blocked", 3: "return-from-incomplete-group", 4: "return-at-wrong-date"}


def gen_case(rng):
    nb = 1 if rng.random() < 0.7 else 2
    na = rng.randint(1, 6)
    objs = []
    for _ in range(nb):
        r = rng.random()
        n = 0 if r < 0.04 else (rng.randint(1, na) if r < 0.8 else rng.randint(1, 6))
        objs.append((3, n))
    actors = []
    for _ in range(na):
        a = []
        for _ in range(rng.randint(1, 4)):
            if rng.random() < 0.5:
                a.append((k1.SLEEP, 0, rng.choice([1, 1, 2, 2, 3, 4, 8])))
            a.append((k1.BARWAIT, rng.randrange(nb), 0))
            if rng.random() < 0.15:
                a.append((k1.PEEK, rng.randrange(nb), 0))
        actors.append(a)
    return k1.encode(objs, actors)


W = (k1.BARWAIT, 0, 0)
CORPUS = [
    k1.encode([(3, 1)], [[W, W]]),                                         # size 1: every wait returns at once
    k1.encode([(3, 2)], [[W], [(k1.SLEEP, 0, 1), W], [(k1.SLEEP, 0, 2), W]]),  # incomplete second group
    k1.encode([(3, 3)], [[W, W], [W, W], [W, (k1.SLEEP, 0, 1), W], [(k1.PEEK, 0, 0)]]),  # re-arm, two groups
    k1.encode([(3, 2)], [[W, W, W], [W, (k1.SLEEP, 0, 2), W], [(k1.SLEEP, 0, 1), W]]),   # groups mix actors
    k1.encode([(3, 0)], [[W], [W]]),                                       # size 0 wraps: nobody is released
    k1.encode([(3, 6)], [[W]] * 6),
]


# ---------------------------------------------------------------------------------------------- split protocol
def gen_split(rng):
    na = rng.randint(1, 5)
    r = rng.random()
    n = 0 if r < 0.03 else (rng.randint(1, na) if r < 0.85 else rng.randint(1, 5))
    rounds = [rng.randint(1, 4) for _ in range(na)]
    L = rng.randint(0, 3 * sum(rounds))
    # biased choices: a run of small numbers keeps firing the lowest pids (lock+wait back to back), large ones spread
    sched = [rng.randrange(12) if rng.random() < 0.7 else 0 for _ in range(L)]
    return [-1, n, na] + rounds + [L] + sched


SPLIT_CORPUS = [
    [-1, 2, 2, 2, 2, 6, 0, 1, 0, 0, 0, 0],          # 1:LOCK 2:LOCK 1:WAIT 1:LOCK 1:WAIT 2:WAIT (2 marked, 1 re-uses)
    [-1, 3, 3, 2, 2, 2, 9, 0, 1, 2, 0, 0, 0, 0, 0, 0],
    [-1, 2, 2, 3, 3, 10, 0, 1, 0, 0, 0, 0, 1, 1, 0, 0],
    [-1, 2, 4, 1, 1, 1, 1, 8, 0, 0, 1, 1, 0, 0, 0, 0],   # locks of two groups before any wait
    [-1, 1, 2, 2, 2, 4, 0, 1, 0, 1],                     # size 1: every lock grants itself
    [-1, 3, 3, 1, 1, 1, 6, 0, 0, 0, 0, 0, 0],            # wait right after each lock: the one-simcall order
    [-1, 0, 2, 1, 1, 4, 0, 0, 0, 0],                     # size 0: nobody is ever granted
]


def parse_split(tok):
    """-> dict(steps=[dict(kind, pid, rets=[pid..], queue=[(pid, granted)..], live=[(pid, granted, waiting)..])], status,
    stray = RET events outside a step, bad = malformed)"""
    steps, cur, status, stray, i = [], None, None, 0, 0
    try:
        while i < len(tok):
            k = tok[i]
            if k == 1:
                i += 6
            elif k == 2:
                if cur is None:
                    stray += 1
                else:
                    cur["rets"].append(tok[i + 1])
                i += 6
            elif k == 5:
                cur = {"kind": tok[i + 1], "pid": tok[i + 2], "rets": [], "queue": None, "live": None}
                steps.append(cur)
                i += 3
            elif k == 6:
                nq = tok[i + 1]
                q = [(tok[i + 2 + 2 * j], tok[i + 3 + 2 * j]) for j in range(nq)]
                i += 2 + 2 * nq
                na = tok[i]
                lv = [(tok[i + 1 + 3 * j], tok[i + 2 + 3 * j], tok[i + 3 + 3 * j]) for j in range(na)]
                i += 1 + 3 * na
                cur["queue"], cur["live"] = q, lv
                cur = None
            elif k == 9:
                if status is None or tok[i + 1] != 0:
                    status = tok[i + 1]
                i += 6
            else:
                status = 99
                break
    except IndexError:
        status = 97
    if status is None:
        status = 98
    return {"steps": steps, "status": status, "stray": stray}


def parse_split_model(out, nsteps):
    res, i = [], 0
    for _ in range(nsteps):
        code, k = out[i], out[i + 1]
        woken = out[i + 2:i + 2 + k]
        i += 2 + k
        nq = out[i]
        q = out[i + 1:i + 1 + nq]
        i += 1 + nq
        na = out[i]
        lv = [tuple(out[i + 1 + 3 * j:i + 4 + 3 * j]) for j in range(na)]
        i += 1 + 3 * na
        res.append((code, woken, q, lv))
    return res


def run_split(ctx, cases, dist):
    toks = k1.run_impl(cases, raw=True)
    logs = [parse_split(t) for t in toks]
    mins = [[c[1]] + [x for s in lg["steps"] for x in (s["kind"], s["pid"])] for c, lg in zip(cases, logs)]
    mouts = fw.run_model("c07", "run_c07_split", mins)
    # O: the verified judge on the implementation's observations: arrivals = the ASYNC_LOCKs in the order they were
    # handled; the k-th return of an actor answers its k-th arrival; every wait has been fired when the run ends
    jin, jwhere = [], []
    for ci, (c, lg) in enumerate(zip(cases, logs)):
        n = c[1]
        if n < 1 or lg["status"] != 0:
            continue
        arr, nlock, retpos = [], 0, {}
        for s in lg["steps"]:
            if s["kind"] == 0:
                nlock += 1
                arr.append(s["pid"])
            for p in s["rets"]:
                retpos.setdefault(p, []).append(nlock)
        seen, x = {}, [n]
        for p in arr:
            k = seen.get(p, 0)
            seen[p] = k + 1
            rp = retpos.get(p, [])
            x += [0, rp[k] if k < len(rp) else -1, 0]
        jin.append(x)
        jwhere.append((ci, arr))
    verdicts = fw.run_model("c07", "run_c07_judge", jin) if jin else []
    for (ci, arr), v in zip(jwhere, verdicts):
        for k, code in enumerate(v):
            if code != 0:
                ctx.fail("barrier-" + CODES.get(code, "bad-%d" % code),
                         "two-simcall protocol, barrier of size %d: arrival #%d (ASYNC_LOCK of pid %d) %s; %d arrivals in all" % (
                             cases[ci][1], k, arr[k], CODES.get(code, code), len(arr)), {"case": cases[ci]})
    # K: model vs implementation, step by step
    for ci, (c, lg, mo) in enumerate(zip(cases, logs, mouts)):
        dist["split_programs"] += 1
        nontriv = False
        if lg["status"] != 0 or lg["stray"]:
            ctx.fail("barrier-run-aborted", "two-simcall run aborted or malformed (status %d, %d stray returns)" % (lg["status"], lg["stray"]),
                     {"case": c})
            ctx.case(c, False, None)
            continue
        pm = parse_split_model(mo, len(lg["steps"]))
        qlen_before = 0
        for j, (s, (code, woken, q, lv)) in enumerate(zip(lg["steps"], pm)):
            dist["split_steps"] += 1
            what = None
            if s["queue"] is None:
                what = "the step did not complete"
            elif code == 0:
                what = "the model rejects the simcall the kernel had pending"
            elif [p for p, _ in s["queue"]] != list(q) or any(g for _, g in s["queue"]):
                what = "ongoing_acquisitions_ (pid, granted) = %s, model queue %s (never granted)" % (s["queue"], list(q))
            elif sorted(s["live"]) != sorted(lv):
                what = "pending acquisitions (pid, granted, waiting) = %s, model %s" % (sorted(s["live"]), sorted(lv))
            else:
                want = list(woken) if code == 2 else ([s["pid"]] if code == 4 else [])
                if s["rets"] != want:
                    what = "waits returned for %s, model %s" % (s["rets"], want)
            if what is not None:
                ctx.mismatch("K-barrier-split", "step %d (%s by pid %d): %s" % (j, "ASYNC_LOCK" if s["kind"] == 0 else "WAIT", s["pid"], what),
                             {"case": c})
                break
            if code == 2:
                dist["split_grants"] += 1
                if qlen_before > len(woken):
                    dist["split_marked"] += 1
                    nontriv = True
            if code == 3:
                dist["split_blocks"] += 1
                nontriv = True
            qlen_before = len(q)
        ctx.case(c, nontriv, {"program": c, "steps": len(lg["steps"])} if nontriv else None)


# ---------------------------------------------------------------------------------------------- simgrid-mc (thorough)
MC_PROGS = [[-2, 2, 2, 2], [-2, 3, 3, 2], [-2, 2, 2, 3], [-2, 4, 2, 1]]   # -2 actors size rounds (harness/c07_mc_prog)


def run_mc(ctx, cases):
    """simgrid-mc explores every interleaving of tiny programs; only an explicit counter-example counts (a time-out or
    any other outcome is recorded as inconclusive, never an alarm)"""
    import re
    prog = fw.build_harness("c07_mc_prog")
    res = {}
    for c in cases:
        rc, so, se = fw.sh2([fw.SIMGRID_MC, prog] + [str(x) for x in c[1:4]] + ["--log=root.thres:info"], timeout=300)
        txt = so + se
        if "PROPERTY NOT VALID" in txt:
            m = re.search(r"model-check/replay:'([^']*)'", txt)
            v = "violation"
            ctx.fail("barrier-mc-assert", "simgrid-mc, %d actors x %d rounds on a barrier of size %d: more waits returned than actors in complete "
                     "groups; counter-example %s" % (c[1], c[3], c[2], m.group(1) if m else "?"), {"case": c})
        elif "exploration ended" in txt:
            v = "clean"
        else:
            v = "inconclusive(rc=%d)" % rc
        res[" ".join(map(str, c[1:4]))] = v
        ctx.case(c, v != "clean" or c[3] > 1, {"program": c, "verdict": v})
    ctx.cov["simgrid_mc"] = res


def model_input(n, ops):
    inp = [n]
    for o in ops:
        inp += [10 if o["op"] == k1.PEEK else 7, o["pid"]]
    return inp


def parse_model(out, ops):
    res, i = [], 0
    for _ in ops:
        code, k = out[i], out[i + 1]
        res.append((code, out[i + 2:i + 2 + k]))
        i += 2 + k
    return res


def run(ctx):
    ctx.simgrid(["simgrid"])
    ctx.prove()
    ctx.cov["rule"] = ("random programs: 1-6 actors, 1-2 barriers of size 0..6 (mostly <= number of actors), 1-4 waits per actor "
                       "separated by dyadic sleeps (ties on purpose), kernel-state PEEKs; non-trivial = some barrier released a group "
                       "of >= 2 or left an incomplete group blocked; distinct = distinct programs. Split programs (first number -1): "
                       "1-5 actors x 1-4 rounds on one barrier of size 0..5 with a random schedule of the pending ASYNC_LOCK/WAIT "
                       "simcalls; non-trivial = some WAIT was fired before its grant (blocks) or some group was granted while a "
                       "member had locked but not yet waited (marked, not woken). Thorough tier: 4 tiny programs (first number -2) explored "
                       "exhaustively by simgrid-mc")
    if ctx.replay:
        cases = [k1.replay_case(ctx)]
        scases = [c for c in cases if c and c[0] == -1]
        mcases = [c for c in cases if c and c[0] == -2]
        cases = [c for c in cases if not (c and c[0] < 0)]
    else:
        mcases = [] if ctx.quick else list(MC_PROGS)
        cases = list(CORPUS) + [gen_case(ctx.rng) for _ in range(ctx.n(300, 4000))]
        scases = list(SPLIT_CORPUS) + [gen_split(ctx.rng) for _ in range(ctx.n(400, 6000))]
    logs = k1.run_impl(cases)
    jobs, where = [], []
    for ci, (c, log) in enumerate(zip(cases, logs)):
        objs, _ = k1.decode(c)
        for oi, (_, n) in enumerate(objs):
            ops = k1.ops_of(log, oi)
            jobs.append(model_input(n, ops))
            where.append((ci, oi, n, ops))
    mouts = fw.run_model("c07", "run_c07", jobs) if jobs else []
    jwhere = []
    for (ci, oi, n, ops), mo in zip(where, mouts):
        if n >= 1:
            jwhere.append((ci, oi, [o for o in ops if o["op"] == k1.BARWAIT]))
    # ret_pos counted in arrivals (PEEKs are not arrivals): recompute precisely
    jin = []
    for (ci, oi, arr) in jwhere:
        n = k1.decode(cases[ci])[0][oi][1]
        lines = [o["line"] for o in arr]
        x = [n]
        for o in arr:
            if o["ret"] is None:
                x += [o["t"], -1, 0]
            else:
                x += [o["t"], sum(1 for l in lines if l < o["ret"]["line"]), o["ret"]["t"]]
        jin.append(x)
    verdicts = fw.run_model("c07", "run_c07_judge", jin) if jin else []
    dist = {"programs": len(cases), "barriers": len(where), "arrivals": 0, "releases": 0, "size0": 0, "deadlocked": 0,
            "split_programs": 0, "split_steps": 0, "split_grants": 0, "split_marked": 0, "split_blocks": 0}
    if scases:
        run_split(ctx, scases, dist)
    if mcases:
        ctx.simgrid(["simgrid", "simgrid-mc"])
        run_mc(ctx, mcases)
    nontriv = [False] * len(cases)
    blocked_forever = [False] * len(cases)
    # O: the judge on implementation observations
    for (ci, oi, arr), v in zip(jwhere, verdicts):
        for k, code in enumerate(v):
            if code != 0:
                ctx.fail("barrier-" + CODES.get(code, "bad-%d" % code),
                         "barrier %d of size %d: arrival #%d (pid %d, requested at %s) %s; observed return %s" % (
                             oi, k1.decode(cases[ci])[0][oi][1], k, arr[k]["pid"], arr[k]["t"], CODES.get(code, code), arr[k]["ret"]),
                         {"case": cases[ci]})
    # K: model vs implementation
    for (ci, oi, n, ops), mo in zip(where, mouts):
        log = logs[ci]
        if k1.bad_times(log):
            ctx.mismatch("dyadic-clock", "a date of the run is not on the 1/1024 grid", {"case": cases[ci]})
            continue
        if n == 0:
            dist["size0"] += 1
        pm = parse_model(mo, ops)
        expect = {}   # index of op -> (release index, flag)
        for j, (o, (code, pids)) in enumerate(zip(ops, pm)):
            if o["op"] == k1.PEEK:
                if o["ret"] is None or list(o["ret"]["val"]) != list(pids):
                    ctx.mismatch("K-barrier-queue", "barrier %d: kernel queue %s, model %s" % (oi, o["ret"] and o["ret"]["val"], pids),
                                 {"case": cases[ci]})
                continue
            dist["arrivals"] += 1
            if code == 0:
                ctx.mismatch("K-barrier-rejected", "the model rejects an arrival the implementation executed (pid %d)" % o["pid"], {"case": cases[ci]})
            elif code == 2:
                dist["releases"] += 1
                if len(pids) >= 1:
                    nontriv[ci] = True
                expect[j] = (j, 1, None)
                # woken pids: their pending arrival is the latest unreleased one of that pid
                order = []
                for q in pids:
                    cand = [i for i in range(j) if ops[i]["op"] == k1.BARWAIT and ops[i]["pid"] == q and i not in expect]
                    if not cand:
                        ctx.mismatch("K-barrier-woken", "model wakes pid %d which has no pending arrival" % q, {"case": cases[ci]})
                        continue
                    expect[cand[-1]] = (j, 0, None)
                    order.append(cand[-1])
                # wake order = queue order: the RET lines of the woken actors appear in that order
                rl = [ops[i]["ret"]["line"] for i in order if ops[i]["ret"] is not None]
                if rl != sorted(rl):
                    ctx.mismatch("K-barrier-wake-order", "barrier %d: woken actors resumed in an order other than the queue order %s" % (oi, pids),
                                 {"case": cases[ci]})
        for j, o in enumerate(ops):
            if o["op"] != k1.BARWAIT:
                continue
            if j in expect:
                rj, flag, _ = expect[j]
                r = o["ret"]
                if r is None:
                    ctx.mismatch("K-barrier-return", "barrier %d: pid %d should have been released by arrival #%d, it never returned" % (oi, o["pid"], rj), {"case": cases[ci]})
                elif r["t"] != ops[rj]["t"] or r["line"] < ops[rj]["line"] or r["val"] != flag:
                    ctx.mismatch("K-barrier-return", "barrier %d: pid %d returned (t=%d, value %d), model: released by the arrival at t=%d, value %d" % (
                        oi, o["pid"], r["t"], r["val"], ops[rj]["t"], flag), {"case": cases[ci]})
            else:
                blocked_forever[ci] = True
                nontriv[ci] = True
                if o["ret"] is not None:
                    ctx.mismatch("K-barrier-return", "barrier %d: pid %d returned at t=%d, the model keeps it blocked" % (oi, o["pid"], o["ret"]["t"]), {"case": cases[ci]})
    for ci, (c, log) in enumerate(zip(cases, logs)):
        want = 2 if blocked_forever[ci] else 0
        if log["status"] == 2:
            dist["deadlocked"] += 1
        if log["status"] not in (0, 2):
            ctx.fail("barrier-run-aborted", "the simulation aborted (status %d)" % log["status"], {"case": c})
        elif log["status"] != want:
            ctx.mismatch("K-barrier-end", "run ended with status %d, model expects %d" % (log["status"], want), {"case": c})
        ctx.case(c, nontriv[ci], {"program": c, "status": log["status"], "events": len(log["events"])} if nontriv[ci] else None)
    ctx.cov["input_distribution"] = dist
    ctx.assumptions += ["sequential contexts (contexts/nthreads:1): the order of the REQ lines is the order in which the kernel executes the calls",
                        "two-simcall protocol: driven in-process in replay mode (MC_record_path set, the harness handles the pending "
                        "simcalls as mc::RecordTrace::replay does); simgrid-mc itself only explores 4 tiny programs in the thorough "
                        "tier (a time-out there is inconclusive, not an alarm); the theorems cover every interleaving",
                        "actors killed while blocked in a barrier are outside the property (the harness leaves at the deadlock report)"]


META = {
    "level": "proof",
    "text": "Coq theorems over every history of wait() calls on a barrier of any size 1 <= n < 2^32 and any number of actors: a release happens "
            "exactly when the arrival count reaches a multiple of n and releases exactly arrivals m-n..m-1 in arrival order (C07_groups, "
            "C07_release_iff_complete); arrival i returns exactly when n*(i/n+1) arrivals happened, never earlier (C07_no_early_return); the "
            "blocked actors are always the arrivals after the last complete group (C07_state_closed_form, C07_rearm); size 0 wraps and never "
            "releases (C07_zero_never_releases). Two-simcall protocol of the model checker (BARRIER_ASYNC_LOCK / BARRIER_WAIT), every "
            "interleaving of locks and waits by any number of actors with any reuse: a wait returns only when the n arrivals (in lock "
            "order) of its group happened (C07_split_no_early_return), returns at once iff the group is complete and blocks iff not "
            "(C07_split_wait_iff_complete, C07_split_blocked_incomplete), the queue is exactly the ungranted live acquisitions = arrivals "
            "after the last complete group and a grant re-arms it (C07_split_state, C07_split_grant), and the split protocol refines the "
            "one-simcall one on the accepted locks, same groups (C07_split_refines, C07_split_arrival_counter). The step functions is tied to the rebuilt library by replaying the kernel-ordered call sequence "
            "of generated S4U programs (who blocks, who is woken when, returned bool, kernel queue) and, for the split protocol, by random "
            "interleavings of the real lock/wait simcalls in replay mode compared step by step (queue with granted flags, pending "
            "acquisitions granted/blocked, returned waits); the verified judge (C07_judge_sound) decides "
            "violations on the implementation's observations alone.",
    "note": "Modelled: BarrierImpl::acquire_async + wait_for on the one-simcall path and on the two-simcall path of the model checker / replay "
            "mode (the latter driven in-process; simgrid-mc itself runs 4 tiny programs in the thorough tier only). Not modelled: sthread, "
            "parallel contexts, kills of blocked actors (a kill of an actor blocked in a barrier segfaults in BarrierAcquisitionImpl::finish - "
            "reported, outside C07). Trusted: Coq kernel, extraction, harness/k1_sync.cpp, checks/k1_common.py (log projection).",
    "technique": "Coq proof (invariant over all op sequences, div/mod arithmetic) + replay correspondence on the real scheduler + verified trace judge",
    "claimed": True,
}
