"""C45 — random draws of the default (xbt) generator are in range, unbiased and portable.
K: (a) set_mersenne_seed + uniform_int/uniform_real of the rebuilt library vs. the extracted MT19937 + draw model, draw by draw
       (first 100 draws for random (seed, min, max), and mixed sequences);
   (b) XbtRandom on a FORCED generator state (state words chosen so that the next raw outputs sit on the rejection boundary:
       limit-1, limit, limit+1, 2^32-1, 0) vs. draw_int / draw_numerator on the same raw stream.
O: every draw must lie in [min, max]; a bias probe measures, for small ranges, which raw outputs of the top window the library
   accepts and counts them per residue (unequal counts = biased = violation)."""
import json
from fractions import Fraction
import fw

GMAX = 2 ** 32 - 1
INT_MIN, INT_MAX = -2 ** 31, 2 ** 31 - 1
EXHAUSTED = -7777777777


def temper(y):
    y ^= y >> 11
    y ^= (y << 7) & 0x9d2c5680
    y ^= (y << 15) & 0xefc60000
    y ^= y >> 18
    return y & 0xffffffff


def untemper(y):
    y ^= y >> 18
    y ^= (y << 15) & 0xefc60000
    # invert y ^= (y << 7) & 0x9d2c5680
    x = y
    for _ in range(5):
        x = y ^ ((x << 7) & 0x9d2c5680)
    y = x & 0xffffffff
    # invert y ^= y >> 11
    x = y
    for _ in range(3):
        x = y ^ (x >> 11)
    return x & 0xffffffff


def limit_of(r):
    return GMAX - GMAX % r


def gen_range(rng):
    """(min, max) with min <= max, aimed at the case splits of the proofs"""
    t = rng.random()
    if t < 0.30:
        r = rng.choice([1, 2, 3, 5, 6, 7, 10, 16, 17, 100, 255, 256, 257, 1000, 65535, 65536, 65537])
    elif t < 0.50:
        r = rng.choice([2 ** 31 - 1, 2 ** 31, 2 ** 31 + 1, 2 ** 32 - 1, 2 ** 32 - 2, 3 * 2 ** 30, 2 ** 30 + 1, (2 ** 32) // 3, (2 ** 32) // 3 + 1])
    elif t < 0.55:
        return INT_MIN, INT_MAX
    else:
        r = rng.randint(1, 2 ** rng.randint(1, 32) - 1)
    r = min(r, 2 ** 32 - 1)
    lo_max = INT_MAX - (r - 1)
    mn = rng.choice([INT_MIN, lo_max, 0, -1, 1, rng.randint(INT_MIN, lo_max)])
    mn = max(INT_MIN, min(mn, lo_max))
    return mn, mn + r - 1


def gen_real_bounds(rng):
    def dy():
        return rng.randint(-2 ** 20, 2 ** 20), rng.randint(-30, 30)
    t = rng.random()
    if t < 0.3:
        return (0, 0), (1, 0)
    a, b = dy(), dy()
    fa, fb = Fraction(a[0]) * Fraction(2) ** a[1], Fraction(b[0]) * Fraction(2) ** b[1]
    if fa > fb:
        a, b = b, a
    return a, b


def dy_frac(p):
    return Fraction(p[0]) * Fraction(2) ** p[1]


def seeded_case(rng, nops, mixed):
    seed = rng.choice([0, 1, 42, 5489, -1, INT_MIN, INT_MAX, rng.randint(INT_MIN, INT_MAX), rng.randint(0, 10 ** 6)])
    ops = []
    if not mixed:
        if rng.random() < 0.8:
            mn, mx = gen_range(rng)
            ops = [("i", mn, mx)] * nops
        else:
            a, b = gen_real_bounds(rng)
            ops = [("r", a, b)] * nops
    else:
        for _ in range(nops):
            if rng.random() < 0.7:
                ops.append(("i",) + gen_range(rng))
            else:
                ops.append(("r",) + gen_real_bounds(rng))
    return {"mode": "seeded", "seed": seed, "ops": ops}


def forced_case(rng, nops):
    vals, ops = [], []
    for _ in range(nops):
        if rng.random() < 0.8:
            mn, mx = gen_range(rng)
            r = mx - mn + 1
            ops.append(("i", mn, mx))
            if r == 2 ** 32:
                vals.append(rng.choice([0, 1, GMAX, 2 ** 31, 2 ** 31 - 1, rng.randint(0, GMAX)]))
                continue
            lim = limit_of(r)
            for _ in range(rng.randint(0, 3)):       # raw outputs on the rejected side of the boundary
                vals.append(min(GMAX, rng.choice([lim, lim + 1, GMAX, lim + (GMAX - lim) // 2])))
            vals.append(rng.choice([lim - 1, lim - 1, 0, r - 1, r % lim, lim - r, max(0, lim - r - 1), rng.randint(0, lim - 1)]))
        else:
            a, b = gen_real_bounds(rng)
            ops.append(("r", a, b))
            for _ in range(rng.randint(0, 2)):
                vals.append(GMAX)
            vals.append(rng.choice([0, 1, GMAX - 1, 2 ** 31, rng.randint(0, GMAX - 1)]))
    vals += [0, 0, 0, 0]
    return {"mode": "forced", "vals": vals, "ops": ops}


CORPUS = [
    {"mode": "seeded", "seed": 42, "ops": [("i", 1, 6)] * 100},
    {"mode": "seeded", "seed": 5489, "ops": [("i", INT_MIN, INT_MAX)] * 100},
    {"mode": "seeded", "seed": -1, "ops": [("i", INT_MIN, INT_MAX - 1)] * 100},
    {"mode": "seeded", "seed": 0, "ops": [("i", 0, 2 ** 30)] * 100},
    {"mode": "seeded", "seed": 7, "ops": [("r", (0, 0), (1, 0))] * 100},
    {"mode": "seeded", "seed": 7, "ops": [("i", 5, 5), ("r", (-3, 2), (5, 1)), ("i", -10, 10)] * 30},
    {"mode": "forced", "vals": [limit_of(6), GMAX, limit_of(6) - 1, 0], "ops": [("i", 1, 6)]},
    {"mode": "forced", "vals": [limit_of(2), limit_of(2) + 1, 5, 0], "ops": [("i", 0, 1)]},
    {"mode": "forced", "vals": [GMAX, 0], "ops": [("i", INT_MIN, INT_MAX)]},
    {"mode": "forced", "vals": [GMAX, GMAX - 1, 0], "ops": [("i", INT_MIN, INT_MAX - 1)]},
    {"mode": "forced", "vals": [GMAX, GMAX, GMAX - 1, 0], "ops": [("r", (0, 0), (1, 0))]},
    {"mode": "forced", "vals": [limit_of(2 ** 31 + 1), limit_of(2 ** 31 + 1) - 1, 0], "ops": [("i", -5, 2 ** 31 - 5)]},
]


def model_line(c, blocks=2):
    ops = []
    for o in c["ops"]:
        ops += [0, o[1], o[2]] if o[0] == "i" else [1, 0, 0]
    if c["mode"] == "seeded":
        return [c["seed"], blocks] + ops
    return [len(c["vals"])] + list(c["vals"]) + ops


def impl_line(c):
    ops = []
    for o in c["ops"]:
        ops += [0, o[1], o[2]] if o[0] == "i" else [1, o[1][0], o[1][1], o[2][0], o[2][1]]
    if c["mode"] == "seeded":
        return " ".join(map(str, [c["seed"]] + ops))
    return " ".join(map(str, [len(c["vals"])] + [untemper(v) for v in c["vals"]] + ops))


def parse_impl(c, line):
    toks = line.split()
    out, i = [], 0
    for o in c["ops"]:
        if o[0] == "i":
            out.append(int(toks[i]))
            i += 1
        else:
            out.append(None if toks[i] in ("inf", "nan") else Fraction(int(toks[i])) * Fraction(2) ** int(toks[i + 1]))
            i += 2
    return out


def bias_probe(ctx, drv, rs):
    """for each small range r: which raw outputs of the window [S, 2^32-1] (S a multiple of r) does the library accept?"""
    for r in rs:
        S = (GMAX - 3 * r) // r * r
        window = list(range(S, GMAX + 1)) + [ctx.rng.randint(0, S - 1) for _ in range(8)]
        lines, follow = [], []
        for v in window:
            f = 1 if v % r == 0 else 0          # a follow-up raw output whose residue differs from v's
            follow.append(f)
            lines.append(impl_line({"mode": "forced", "vals": [v, f, 0, 0], "ops": [("i", 0, r - 1)]}))
        rc, out, err = fw.run_lines(drv, ["forced"], lines, timeout=600)
        if rc != 0 or len(out) != len(lines):
            ctx.fail("driver-crash", "xbt1_random forced ended rc=%d on the bias probe r=%d: %s" % (rc, r, err[-200:]), {"mode": "probe", "r": r})
            return
        counts = [0] * r
        for v, f, l in zip(window, follow, out):
            x = int(l.split()[0])
            accepted = (x == v % r)
            if not accepted and x != f % r:
                ctx.fail("forced-draw-unexplained", "uniform_int(0,%d) on raw outputs [%d, %d]: %d is neither residue" % (r - 1, v, f, x),
                         {"mode": "forced", "vals": [v, f, 0, 0], "ops": [("i", 0, r - 1)]})
                continue
            if v >= S:
                counts[v % r] += accepted
            elif not accepted:
                counts[v % r] -= 1               # a rejected value below the window also unbalances
        ctx.case(("probe", r), True, {"bias_probe_range": r, "accepted_per_residue_in_top_window": counts[:8]})
        if len(set(counts)) != 1:
            k_hi, k_lo = counts.index(max(counts)), counts.index(min(counts))
            ctx.fail("biased", "uniform_int over %d values: among raw outputs >= %d the library accepts %d with residue %d but %d with residue %d "
                     "(all smaller outputs are accepted): values are not equally likely" % (r, S, counts[k_hi], k_hi, counts[k_lo], k_lo),
                     {"mode": "probe", "r": r})


def run(ctx):
    ctx.simgrid(["simgrid"])
    ctx.prove()
    drv = fw.build_harness("xbt1_random")
    ctx.cov["rule"] = ("seeded: random/boundary seeds x (min,max) aimed at range sizes 1, 2^k+-1, 2^31+-1, 2^32-2, 2^32-1, full int range, "
                       "100 draws each, plus mixed int/real sequences; forced: generator states whose next raw outputs are limit-1/limit/"
                       "limit+1/2^32-1/0 for the drawn range; bias probe: acceptance of every raw output of the top window for small ranges. "
                       "non-trivial = range size > 1 (int) or min < max (real); distinct = distinct case")
    if ctx.replay:
        rp = json.load(open(ctx.replay))["case"]
        if rp.get("mode") == "probe":
            bias_probe(ctx, drv, [rp["r"]])
            return
        rp["ops"] = [tuple(tuple(x) if isinstance(x, list) else x for x in o) for o in rp["ops"]]
        cases = [rp]
    else:
        cases = list(CORPUS)
        cases += [seeded_case(ctx.rng, 100, False) for _ in range(ctx.n(60, 1500))]
        cases += [seeded_case(ctx.rng, 40, True) for _ in range(ctx.n(40, 800))]
        cases += [forced_case(ctx.rng, ctx.rng.randint(1, 12)) for _ in range(ctx.n(400, 12000))]
    dist = {"seeded": 0, "forced": 0, "int_draws": 0, "real_draws": 0, "rejected_raw_in_forced": 0}
    for mode, fn in (("seeded", "run_c45_seeded"), ("forced", "run_c45_forced")):
        cs = [c for c in cases if c["mode"] == mode]
        if not cs:
            continue
        model = fw.run_model("c45", fn, [model_line(c) for c in cs])
        for j, (c, m) in enumerate(zip(cs, model)):           # raw stream too short for the rejections met: redo with more blocks
            if mode == "seeded" and EXHAUSTED in m:
                model[j] = fw.run_model("c45", fn, [model_line(c, 8)])[0]
        rc, out, err = fw.run_lines(drv, [mode], [impl_line(c) for c in cs], timeout=600)
        if rc != 0 or len(out) != len(cs):
            ctx.fail("driver-crash", "xbt1_random %s ended with rc=%d after %d/%d cases: %s" % (mode, rc, len(out), len(cs), err[-300:]),
                     cs[min(len(out), len(cs) - 1)])
            continue
        for c, m, l in zip(cs, model, out):
            dist[mode] += 1
            if l.strip() == "state-rejected" or EXHAUSTED in m:
                ctx.mismatch("forced-state", "case could not be evaluated (state rejected by operator>> or raw stream exhausted)", c)
                continue
            impl = parse_impl(c, l)
            nontriv = any((o[0] == "i" and o[2] > o[1]) or (o[0] == "r" and dy_frac(o[2]) > dy_frac(o[1])) for o in c["ops"])
            ctx.case(json.dumps(c, sort_keys=True), nontriv,
                     {"mode": mode, "seed": c.get("seed"), "first_ops": [list(o) for o in c["ops"][:3]], "first_draws": [str(x) for x in impl[:3]]})
            if mode == "forced":
                dist["rejected_raw_in_forced"] += len(c["vals"]) - 4 - len(c["ops"])
            for k, (o, x, y) in enumerate(zip(c["ops"], impl, m)):
                if o[0] == "i":
                    dist["int_draws"] += 1
                    if not (o[1] <= x <= o[2]):
                        ctx.fail("int-out-of-range", "draw %d of %s: uniform_int(%d, %d) returned %d" % (k, mode, o[1], o[2], x), c)
                        break
                    if x != y:
                        ctx.mismatch("correspondence draw_int ~ XbtRandom::uniform_int (%s)" % mode,
                                     "draw %d: uniform_int(%d, %d) = %d, the model's sequence has %d (both in range)" % (k, o[1], o[2], x, y), c)
                        break
                else:
                    dist["real_draws"] += 1
                    mn, mx = dy_frac(o[1]), dy_frac(o[2])
                    if x is None or not (mn <= x <= mx):
                        ctx.fail("real-out-of-range", "draw %d of %s: uniform_real(%s, %s) returned %s" % (k, mode, float(mn), float(mx), x if x is None else float(x)), c)
                        break
                    want = mn + (mx - mn) * Fraction(y, GMAX)
                    if abs(x - want) * 2 ** 48 > max(abs(mn), abs(mx)):
                        ctx.mismatch("correspondence draw_numerator ~ XbtRandom::uniform_real (%s)" % mode,
                                     "draw %d: uniform_real(%s, %s) = %r, the model's numerator %d gives %r" % (k, float(mn), float(mx), float(x), y, float(want)), c)
                        break
    if not ctx.replay:
        bias_probe(ctx, drv, [2, 3, 5, 6, 7, 10, 16, 17] + [ctx.rng.randint(2, 300) for _ in range(ctx.n(4, 40))])
    ctx.cov["input_distribution"] = dist
    ctx.assumptions += ["std::mt19937 is the generator the C++ standard specifies (result_type at least 32 bits; here unsigned long, 64 bits)",
                        "operator>> of std::mersenne_twister_engine reads 624 state words followed by the position (libstdc++ layout), used to force states",
                        "int is 32 bits, unsigned long 64 bits (the casts are modelled with these widths)",
                        "min <= max (the code aborts otherwise; not exercised)",
                        "binary64 evaluation of min + (max-min)*numerator/divisor is compared with the exact value within 2^-48 of the bounds' magnitude"]


META = {
    "level": "proof",
    "claimed": True,
    "text": "Coq theorems about a Gallina transcription of XbtRandom::uniform_int/uniform_real (casts as explicit mod 2^32 / 2^64): for ALL "
            "range sizes r in [1, 2^32-1] the rejection bound is a positive multiple of r below 2^32 and accepts more than half of the raw outputs "
            "(C45_limit_multiple); the raw outputs giving residue k are exactly k + j*r, 0 <= j < limit/r, the same count for every k "
            "(C45_unbiased); on any raw stream uniform_int returns min + the residue of the first accepted output, inside [min, max] "
            "(C45_draw_is_first_accepted, C45_in_range, C45_full_range_case); uniform_real's numerator is in [0, divisor-1] so the value is in "
            "[min, max) over Q (C45_real_in_range_partial). The sequence is defined by the model's own MT19937 (no C++ library); the rebuilt "
            "library is compared with it draw by draw for random (seed, min, max) and on forced generator states sitting on the rejection boundary.",
    "note": "Trusted: Coq kernel, extraction, the C++ driver, python generator/untemper. Not proved: properties of MT19937 itself (only "
            "transcribed and tied by correspondence); binary64 rounding of uniform_real (checked against the exact value with a tolerance, "
            "hence _partial); exponential/normal are not covered. The bias probe (python) measures the library's acceptance set for small ranges.",
    "technique": "Coq proof (lia/nia over Z.div/Z.mod, induction on the raw stream) + extracted-model differential correspondence incl. forced "
                 "generator states + acceptance-set bias probe",
}
