"""C47 — Paje traces are well formed.
O: the verified checker (Instr/Paje.v, paje_ok <-> WellFormed) runs on the trace files written by the rebuilt library for
generated S4U programs (execs with/without categories, sleeps, direct and mailbox comms, user variables/marks/states,
delayed actor creation, kills) x tracing options.  Each complaint of the checker is a code; code 5 (timestamp smaller than
the previous one) is the recorded finding, every other code is a violation of its own."""
import json, os, concurrent.futures
from decimal import Decimal
import re
import fw

HOSTS = ["Tremblay", "Jupiter", "Fafard", "Ginette", "Bourassa"]
CODES = {1: "undeclared-type", 2: "undeclared-value", 3: "unknown-container", 4: "use-after-destroy",
         5: "timestamps-decrease", 6: "pop-on-empty-stack", 7: "alias-reused"}
OPTS = ["tracing/categorized:yes", "tracing/uncategorized:yes", "tracing/actor:yes", "tracing/platform:yes",
        "tracing/platform/topology:no", "tracing/basic:yes", "tracing/smpi/display-sizes:yes", "tracing/disable-destroy:yes",
        "tracing/precision:9"]


def gen_case(rng):
    cfg = [o for o in OPTS[:4] if rng.random() < 0.6] + [o for o in OPTS[4:] if rng.random() < 0.15]
    na = rng.randint(1, 5)
    acts = []
    mb = 0
    for i in range(na):
        ops, depth = [], 0
        for _ in range(rng.randint(1, 7)):
            r = rng.random()
            cat = rng.choice(["-", "catA", "catB"])
            if r < 0.25:
                ops.append(["e", "%.3g" % (10 ** rng.uniform(6, 9)), cat])
            elif r < 0.4:
                ops.append(["s", "%.3g" % rng.uniform(0.01, 3)])
            elif r < 0.55:
                ops.append(["c", rng.choice(HOSTS), str(int(10 ** rng.uniform(2, 7))), cat])
            elif r < 0.65:
                ops.append(["v" if rng.random() < .5 else "a", rng.choice(["uv1", "uv2"]), "%.3g" % rng.uniform(0, 9)])
            elif r < 0.72:
                ops.append(["k", rng.choice(["m1", "m2"])])
            elif r < 0.82:
                ops.append(["u", rng.choice("xy")])
                depth += 1
            elif r < 0.9 and depth:
                ops.append(["o"])
                depth -= 1
            elif i + 1 < na:          # a put here, the matching get in the next actor
                ops.append(["p", "mb%d" % mb, str(int(10 ** rng.uniform(2, 6)))])
                acts_get = ["g", "mb%d" % mb]
                mb += 1
                acts.append(("pending_get", i + 1, acts_get))
        acts.append({"host": rng.choice(HOSTS), "start": 0 if rng.random() < .6 else round(rng.uniform(0.1, 4), 3),
                     "kill": -1 if rng.random() < .7 else round(rng.uniform(0.2, 6), 3), "ops": ops})
    real = [a for a in acts if isinstance(a, dict)]
    for a in reversed(acts):      # reversed: the gets end up in the order of the matching (blocking) puts, so the pair never deadlocks
        if isinstance(a, tuple):
            real[a[1]]["ops"].insert(0, a[2])
    # TRACE_host_push/pop_state need the host containers: only legal when some option makes the platform traced
    # (TRACE_needs_platform); without it the call aborts with "container not found", which is a usage error, not a trace
    for a in real:      # a kill date before the creation date is a harness artefact (killer acts on a not-yet-created actor)
        if a["kill"] >= 0 and a["kill"] <= a["start"]:
            a["kill"] = round(a["start"] + 0.5, 3)
    if not any(o in cfg for o in OPTS[:4]):
        for a in real:
            a["ops"] = [o for o in a["ops"] if o[0] not in ("u", "o")]
    return {"cfg": cfg, "actors": real}


def line_of(c, trace):
    t = [os.path.join(fw.REPO, "examples/platforms/small_platform.xml"), trace, len(c["cfg"])] + c["cfg"] + [len(c["actors"])]
    for a in c["actors"]:
        t += [a["host"], a["start"], a["kill"], len(a["ops"])] + [x for op in a["ops"] for x in op]
    return " ".join(str(x) for x in t)


def parse_trace(path):
    """flat integer list for run_c47_check + the raw event lines (for messages)"""
    ints, lines = [], []
    for l in open(path, errors="replace"):
        if not l.strip() or l[0] in "%#":
            continue
        t = l.split()
        k = int(t[0])
        ts = lambda x: int(Decimal(x).scaleb(9))
        if k <= 3:
            f = [k, int(t[1]), int(t[2])]
        elif k == 4:
            f = [4] + [int(x) for x in t[1:5]]
        elif k == 5:
            f = [5, int(t[1]), int(t[2])]
        elif k == 6:
            f = [6, ts(t[1]), int(t[2]), int(t[3]), int(t[4])]
        elif k in (7, 8, 9, 10, 13, 14):
            f = [k, ts(t[1]), int(t[2]), int(t[3])]
        elif k in (11, 12, 17):
            f = [k, ts(t[1]), int(t[2]), int(t[3]), int(t[4])]
        elif k in (15, 16):
            f = [k, ts(t[1]), int(t[2]), int(t[3]), int(t[5])]
        else:
            raise ValueError("unknown event " + l)
        ints += f
        lines.append(l.rstrip())
    return ints, lines


A = lambda host, ops, start=0, kill=-1: {"host": host, "start": start, "kill": kill, "ops": ops}
CORPUS = [
    {"cfg": OPTS[:4], "actors": [A("Tremblay", [["e", "1e8", "catA"], ["c", "Jupiter", "1000000", "catB"], ["u", "x"], ["o"]]),
                                 A("Jupiter", [["e", "5e8", "-"], ["s", "10"], ["k", "m1"]], 0.5, 3),
                                 A("Fafard", [["s", "1"], ["v", "uv1", "3"], ["e", "2e8", "catA"]])]},
    {"cfg": ["tracing/actor:yes"], "actors": [A("Tremblay", [["c", "Jupiter", "100000", "-"]])]},           # direct comm: host states
    {"cfg": ["tracing/actor:yes"], "actors": [A("Tremblay", [["p", "mb0", "100000"]]), A("Fafard", [["g", "mb0"]])]},
    {"cfg": ["tracing/uncategorized:yes"], "actors": [A("Tremblay", [["e", "1e9", "-"]]), A("Jupiter", [["s", "0.5"], ["e", "1e8", "-"]])]},
    {"cfg": [], "actors": [A("Tremblay", [["s", "1"]])]},
]


def run(ctx):
    ctx.simgrid(["simgrid"])
    ctx.prove()
    drv = fw.build_harness("res_c47")
    tdir = os.path.join(fw.B, "run", "c47")
    os.makedirs(tdir, exist_ok=True)
    if ctx.replay:
        cases = [json.load(open(ctx.replay))["case"]]
    else:
        cases = list(CORPUS) + [gen_case(ctx.rng) for _ in range(ctx.n(150, 3000))]
    traces = [os.path.join(tdir, "t%d_%d.trace" % (os.getpid(), i)) for i in range(len(cases))]
    lines = [line_of(c, t) for c, t in zip(cases, traces)]
    nw = max(1, min(fw.NCPU, len(lines) // 8))
    with concurrent.futures.ThreadPoolExecutor(nw) as ex:
        res = list(ex.map(lambda ch: fw.run_lines(drv, [], ch, timeout=1500), [lines[i::nw] for i in range(nw)]))
    outs = [None] * len(lines)
    for w, (rc, o, err) in enumerate(res):
        for j, idx in enumerate(range(w, len(lines), nw)):
            outs[idx] = o[j] if j < len(o) else "ERR driver rc=%d %s" % (rc, err[-200:])
    model_in, meta = [], []
    dist = {"events": 0, "actor_tracing": 0, "uncategorized": 0, "categorized": 0, "with_kill": 0, "complaints": {}}
    for c, tr, line, o in zip(cases, traces, lines, outs):
        if re.match(r"ERR status=\d+ ok( |$)", o) and os.path.exists(tr):
            # the simulation ended and the trace was closed ("ok"), then the process died while tearing down (e.g. an actor
            # killed with pending comms): not a property of the trace; the trace itself is still judged below
            dist["teardown_crash_after_trace"] = dist.get("teardown_crash_after_trace", 0) + 1
            ctx.notes.append("process crashed at teardown after writing its trace: %s" % line[:200])
            o = "ok"
        if o != "ok" or not os.path.exists(tr):
            ctx.fail("driver", "res_c47 '%s' answered '%s'" % (line[:300], o), c)
            continue
        try:
            ints, evl = parse_trace(tr)
        except (ValueError, IndexError) as ex:
            ctx.fail("unparsable-trace", "trace of '%s': %s" % (line[:300], ex), c)
            continue
        finally:
            os.remove(tr)
        model_in.append(ints)
        meta.append((c, line, evl))
    res = fw.run_model("c47", "run_c47_check", model_in) if model_in else []
    for (c, line, evl), m in zip(meta, res):
        dist["events"] += len(evl)
        for k, o in (("actor_tracing", "tracing/actor:yes"), ("uncategorized", "tracing/uncategorized:yes"), ("categorized", "tracing/categorized:yes")):
            dist[k] += o in c["cfg"]
        dist["with_kill"] += any(a["kill"] >= 0 for a in c["actors"])
        nontriv = len(evl) > 60 and any(o in c["cfg"] for o in OPTS[:3])
        ctx.case(line, nontriv, {"case": line[:300], "events": len(evl), "complaints": m[1:9]})
        if not m or m[0] != len(evl):
            ctx.mismatch("run_c47_check parser", "parsed %s events of %d (%s)" % (m[:1], len(evl), line[:200]), c)
            continue
        seen = set()
        for i in range(1, len(m) - 1, 2):
            idx, code = m[i], m[i + 1]
            sig = CODES.get(code, "code-%d" % code)
            dist["complaints"][sig] = dist["complaints"].get(sig, 0) + 1
            if sig in seen:
                continue
            seen.add(sig)
            prev = evl[idx - 1] if idx else ""
            ctx.fail(sig, "%s: event %d '%s' (previous '%s') of the trace of: %s" % (sig, idx, evl[idx], prev, line[:400]), c)
    ctx.cov["rule"] = ("1..5 actors on small_platform.xml, 1..7 ops each (exec with/without category, sleep, direct comm, mailbox put/get, "
                       "user variable set/add, mark, user host state push/pop), 40% created later, 30% killed at a random date; tracing options: "
                       "each of categorized/uncategorized/actor/platform with p=0.6, topology:no/basic/smpi/display-sizes/disable-destroy/precision:9 "
                       "with p=0.15. non-trivial = more than 60 events and one of categorized/uncategorized/actor")
    ctx.cov["input_distribution"] = dist
    ctx.assumptions += ["aliases in SimGrid's traces are integers; timestamps are scaled by 1e9 to integers (exact for precision <= 9)",
                        "SMPI traces (tracing/smpi) and the TI format are not explored in this version",
                        "the buffer model is tied only through the trace files (file order = dump order)"]


META = {
    "level": "proof",
    "text": "A Gallina checker for the Paje grammar SimGrid emits is proved sound and complete w.r.t. a relational specification (types, values "
            "and containers declared before use, no use of a container that is not alive, non-decreasing timestamps, no pop on an empty stack: "
            "C47_checker_sound_complete), with consequences C47_wellformed_timestamps_sorted and C47_wellformed_no_use_unless_alive; the "
            "mirrored buffer (insert_into_buffer / dump_buffer) is stable, sorted (C47_buffer_sorted, C47_buffer_stable) and writes a sorted "
            "file when nothing is inserted before an already written timestamp (C47_dump_monotone_partial), not otherwise "
            "(C47_dump_not_monotone_refuted). The extracted checker runs on every trace file of generated S4U programs x tracing options.",
    "note": "The producers in instr_platform.cpp are glue, judged by the oracle only. Known finding timestamps-decrease: container "
            "creations/destructions are written immediately (and force a dump) while utilisation events are created in the past. "
            "SMPI programs are not explored. Trusted: Coq kernel, extraction, harness/res_c47.cpp, the trace tokenizer in checks/C47.py.",
    "technique": "Coq proof (reflection of a relational spec, sorted-list reasoning) + verified checker as oracle on generated traces",
    "claimed": True,
}
