"""C42 — happens-before equals transitive dependency; racing events are exactly the races.

Proof  : coq/theories/Mc/Hb.v (line-by-line model of odpor::Execution::push_transition / happens_before /
         get_racing_events_of over abstract transitions) + Mc/HbProofs.v; statements in Props/Properties_C42.v.
K / O  : harness/mc1_drv.cpp (mode exec) pushes random executions of REAL transitions (comm, mutex, semaphore, condvar,
         barrier, actor, random; <= 40 events, <= 6 actors + boundary aids 0 and 30) into the real odpor::Execution of the rebuilt
         library and prints (a) the matrix Transition::dispatch_depends the execution itself evaluates, (b) happens_before
         for all pairs, (c) get_racing_events_of for every event.  The extracted model receives (a) and the actor ids and
         must reproduce (b) and (c) (racing events compared as sets).  Since the model is proved equal to the
         transitive-closure specification (C42_hb_iff, C42_racing_exact) its answer IS the specification's answer, so a
         difference is a violation of the property on that execution; an independent python closure cross-checks the model.
"""
import json
import fw

NF = 5  # fields per transition after (kind, aid)


def gen_transition(rng, actors, nres):
    a = rng.choice(actors)
    other = lambda: rng.choice(actors)
    res = lambda: rng.randrange(nres)
    fam = rng.choice(["comm", "comm", "mutex", "mutex", "sem", "cv", "bar", "actor", "random"])
    if fam == "comm":
        k = rng.choice([7, 8, 7, 8, 9, 10, 11, 11])
        comm = rng.randrange(1, 6)
        if k in (7, 8):
            f = [comm, res(), rng.choice([0, 0, 1])]
        elif k == 9:
            f = [rng.randrange(2), res(), rng.choice([0, 0, 1])]
        elif k == 10:
            f = [comm, rng.choice([a, other(), -1]), rng.choice([a, other(), -1]), res()]
        else:
            f = [1 if rng.random() < 0.15 else 0, comm, rng.choice([a, other(), -1]), rng.choice([a, other(), -1]), res()]
    elif fam == "mutex":
        k = rng.randrange(12, 17)
        f = [res(), rng.choice([a, other(), -1])]
    elif fam == "sem":
        k = rng.randrange(17, 20)
        f = [res(), rng.randrange(2), rng.randrange(0, 3)]
    elif fam == "cv":
        k = rng.randrange(20, 24)
        f = [res(), res(), rng.randrange(2), 1 if rng.random() < 0.2 else 0]
    elif fam == "bar":
        k = rng.choice([5, 6])
        f = [res()]
    elif fam == "actor":
        k = rng.choice([1, 2, 3, 4])
        f = [other(), rng.randrange(2)]
    else:
        k = 0
        f = [0, rng.randrange(1, 4)]
    f = (f + [0] * NF)[:NF]
    return [k, a] + f


def gen_case(rng, maxn):
    n = rng.choice([1, 2, 3]) if rng.random() < 0.05 else rng.randint(4, maxn)
    na = rng.randint(1, 6)
    pool = [1, 2, 3, 4, 5, 6]
    if rng.random() < 0.2:
        pool = [0, 30] + pool          # boundary actor ids: first slot and last valid slot of the clock vector
    actors = rng.sample(pool, min(na, len(pool)))
    nres = rng.choice([1, 2, 2, 3])
    churn = rng.choice([0, 0, 2, 3, 5])
    case = [churn, n]
    for _ in range(n):
        case += gen_transition(rng, actors, nres)
    return case


def closure(n, dep):
    """reference: transitive closure of {(a,b) | a<b, dep[a][b]} (Warshall on a DAG ordered by index)"""
    tc = [[False] * n for _ in range(n)]
    for b in range(n):
        for a in range(b):
            if dep[a][b]:
                tc[a][b] = True
                for x in range(a):
                    if tc[x][a]:
                        tc[x][b] = True
        # second pass: chains through intermediate k discovered later in the same column
        changed = True
        while changed:
            changed = False
            for a in range(b):
                if tc[a][b]:
                    for x in range(a):
                        if tc[x][a] and not tc[x][b]:
                            tc[x][b] = True
                            changed = True
    return tc


def races(n, aid, tc, t):
    return sorted(e for e in range(t) if aid[e] != aid[t] and tc[e][t]
                  and not any(tc[e][m] and tc[m][t] for m in range(e + 1, t)))


CORPUS = [
    # lock m0 by 1, lock m0 by 2, send by 3, wait m0 by 1
    [0, 4, 12, 1, 0, -1, 0, 0, 0, 12, 2, 0, -1, 0, 0, 0, 8, 3, 1, 2, 0, 0, 0, 16, 1, 0, 1, 0, 0, 0],
    # actor 0 and actor 30 (last valid slot), create/join chain
    [2, 5, 3, 0, 30, 0, 0, 0, 0, 2, 30, 0, 0, 0, 0, 0, 12, 30, 1, -1, 0, 0, 0, 15, 0, 1, 0, 0, 0, 0, 1, 0, 30, 0, 0, 0, 0],
    [0, 1, 0, 1, 0, 3, 0, 0, 0],
]


def parse_impl(line):
    v = [int(t) for t in line.split()]
    n = v[0]
    dep = [v[1 + a * n:1 + (a + 1) * n] for a in range(n)]
    off = 1 + n * n
    hb = [v[off + a * n:off + (a + 1) * n] for a in range(n)]
    off += n * n
    rac = []
    for _ in range(n):
        k = v[off]
        rac.append(v[off + 1:off + 1 + k])
        off += 1 + k
    return n, dep, hb, rac


def parse_model(m, n):
    hb = [m[a * n:(a + 1) * n] for a in range(n)]
    off = n * n
    rac = []
    for _ in range(n):
        k = m[off]
        rac.append(m[off + 1:off + 1 + k])
        off += 1 + k
    return hb, rac


def run(ctx):
    ctx.simgrid(["simgrid"])
    ctx.prove()
    drv = fw.build_harness("mc1_drv", extra=["-std=gnu++20"])
    maxn = 40
    cases = list(CORPUS) + [gen_case(ctx.rng, maxn) for _ in range(ctx.n(1500, 30000))]
    if ctx.replay:
        cases = [json.load(open(ctx.replay))["case"]["input"]]
    ctx.cov["rule"] = ("random executions of 1..40 real transitions (comm send/recv/iprobe/test/wait, mutex x5, semaphore x3, "
                       "condvar x4, barrier x2, actor create/join/exit/sleep, random) over 1..6 actors (20%: plus aids 0 and 30), "
                       "1..3 resources per kind, with push/remove_last_event churn in 60% of the cases; non-trivial = some pair is "
                       "ordered only transitively (hb without direct dependency) and some event has a race")
    rc, impl, err = fw.run_lines(drv, ["exec"], [" ".join(map(str, c)) for c in cases])
    if rc != 0 or len(impl) != len(cases):
        bad = cases[len(impl)] if len(impl) < len(cases) else None
        ctx.fail("driver-crash", "mc1_drv exec ended with rc=%d after %d/%d cases: %s" % (rc, len(impl), len(cases), err[-400:]),
                 {"input": bad})
        return
    parsed = [parse_impl(l) for l in impl]
    mcases = []
    for c, (n, dep, hb, rac) in zip(cases, parsed):
        aids = [c[2 + 7 * i + 1] for i in range(n)]
        mcases.append([n] + aids + [x for row in dep for x in row])
    model = fw.run_model("c42", "run_c42", mcases)
    dist = {"events": 0, "hb_pairs": 0, "transitive_only_pairs": 0, "races": 0, "churn_cases": 0, "hyp_failed": 0}
    for c, (n, dep, hb, rac), m in zip(cases, parsed, model):
        aids = [c[2 + 7 * i + 1] for i in range(n)]
        mhb, mrac = parse_model(m, n)
        tc = closure(n, dep)
        hyp = all(dep[a][b] for b in range(n) for a in range(b) if aids[a] == aids[b])
        ref_hb = [[1 if tc[a][b] else 0 for b in range(n)] for a in range(n)]
        ref_rac = [races(n, aids, tc, t) for t in range(n)]
        if hyp and (mhb != ref_hb or [sorted(r) for r in mrac] != ref_rac):
            ctx.mismatch("model-vs-closure", "extracted model and python transitive closure disagree on %s" % c, {"input": c})
        spec_hb, spec_rac = (mhb, [sorted(r) for r in mrac]) if hyp else (ref_hb, ref_rac)
        if not hyp:
            dist["hyp_failed"] += 1
        trans_only = sum(1 for a in range(n) for b in range(n) if spec_hb[a][b] and not dep[a][b])
        nr = sum(len(r) for r in spec_rac)
        dist["events"] += n
        dist["hb_pairs"] += sum(map(sum, spec_hb))
        dist["transitive_only_pairs"] += trans_only
        dist["races"] += nr
        dist["churn_cases"] += 1 if c[0] else 0
        nontriv = trans_only > 0 and nr > 0
        ctx.case(c, nontriv, {"input": c, "hb_pairs": sum(map(sum, hb)), "races": [sorted(r) for r in rac]} if nontriv else None)
        if hb != spec_hb:
            d = [(a, b) for a in range(n) for b in range(n) if hb[a][b] != spec_hb[a][b]][0]
            ctx.fail("hb-" + ("missing" if spec_hb[d[0]][d[1]] else "spurious"),
                     "happens_before(%d,%d)=%d but the transitive closure of 'occurs before and dependent' says %d; execution %s"
                     % (d[0], d[1], hb[d[0]][d[1]], spec_hb[d[0]][d[1]], c), {"input": c, "pair": d})
            continue
        for t in range(n):
            if sorted(rac[t]) != spec_rac[t] or len(set(rac[t])) != len(rac[t]):
                ctx.fail("racing-" + ("missing" if set(spec_rac[t]) - set(rac[t]) else "extra"),
                         "get_racing_events_of(%d)=%s but the races of that event are %s; execution %s" % (t, sorted(rac[t]), spec_rac[t], c),
                         {"input": c, "target": t})
                break
    ctx.cov["input_distribution"] = dist
    ctx.assumptions += ["Transition::dispatch_depends is taken as data (the matrix the execution itself evaluates); its own "
                        "correctness is C39's subject", "the memory-epoch/data-race part of push_transition is not modelled",
                        "remove_last_event is exercised by the driver (push/pop churn) but not modelled: the theorems are about "
                        "executions as sequences of pushed transitions"]


META = {
    "level": "proof",
    "text": "Coq theorems over arbitrary executions (any length, any number of actors, abstract dependency relation with the single "
            "hypothesis 'same actor => dependent'): the clock-vector test of Execution::happens_before holds exactly when e1<e2 and "
            "(e1,e2) is in the transitive closure of 'occurs before and dispatch_depends' (C42_hb_iff); get_racing_events_of(t) returns, "
            "without duplicates, exactly the events e of other actors with e-->t and no event in between (C42_racing_exact), equivalently "
            "the maximal predecessors among other actors' events not ordered before the actor's previous event "
            "(C42_racing_maximal_predecessors). The Gallina model mirrors push_transition (skip lists, most recent dependent event per "
            "actor, max_emplace_left, own component), happens_before and get_racing_events_of; it is tied to the rebuilt library by "
            "differential runs on random executions of real transitions, and since model = specification by theorem every "
            "difference is reported as a violation with the execution as replay.",
    "note": "Trusted: Coq kernel, extraction, mc1_drv.cpp, the generator. dispatch_depends is observed, not modelled (C39/C43). "
            "Not modelled: memory epochs / data-race detection in push_transition, remove_last_event (only exercised), the fixed "
            "max_threads=32 bound of ClockVector (the model is unbounded; aids 0 and 30 are exercised).",
    "technique": "Coq proof (induction on the execution, clos_trans) + extracted-model differential correspondence on real transitions",
    "claimed": True,
}
