"""C23 — energy accounting integrates the power model.
Driver harness/res_c23.cpp runs a generated workload (async execs incl. multi-thread, pstate changes, on/off, comms) on
hosts/links with random power profiles, samples (on, pstate, load) of every host and (load, bandwidth) of every link at
each Engine::on_time_advance, and reports sg_host_get_consumed_energy / sg_link_get_consumed_energy at query dates and
at the end.  The extracted Coq model (Res/Energy.v: HostEnergy::update folded over the sampled timeline, proved equal
to the integral by C23_integral) recomputes the energy; [energy_close] compares.  Monotonicity is checked on the
reported values directly."""
import json, concurrent.futures
from fractions import Fraction
import fw

LINK_KNOWN = "link-energy-stale-load"


def fq(x):
    f = Fraction(float(x))
    return [f.numerator, f.denominator]


def num(rng, lo, hi, dy):
    if dy:
        import math
        e = rng.randint(int(math.log2(lo)), int(math.log2(hi)))
        return repr(float(rng.randint(1, 7) * 2.0 ** e))
    return "%.3g" % (lo * (hi / lo) ** rng.random())


def gen_case(rng):
    dy = rng.random() < 0.4
    clean = rng.random() < 0.5          # links: zero latency and single-link routes (the plugin is exact there)
    nh = rng.randint(1, 3)
    hosts = []
    for _ in range(nh):
        npst = rng.randint(1, 3)
        pst = []
        for _ in range(npst):
            eps = rng.choice([0, rng.randint(0, 200)])
            mx = eps + rng.choice([0, rng.randint(1, 300)])
            idle = rng.choice([eps, rng.randint(0, 250)])
            pst.append((num(rng, 1e8, 1e10, dy), str(idle), str(eps), str(mx)))
        hosts.append({"cores": rng.choice([1, 1, 2, 4, 8]), "pst": pst, "off": str(rng.choice([0, 0, 5, rng.randint(0, 30)])),
                      "init": rng.randrange(npst)})
    pairs = [(i, j) for i in range(nh) for j in range(i + 1, nh)]
    links, routes = [], []
    if pairs:
        nl = len(pairs) if clean else rng.randint(1, 3)
        for _ in range(nl):
            idle = rng.randint(0, 20)
            links.append((num(rng, 1e6, 1e9, dy), "0" if clean else num(rng, 1e-4, 0.05, dy), str(idle), str(idle + rng.randint(0, 30))))
        for k, (i, j) in enumerate(pairs):
            routes.append((i, j, [k] if clean else rng.sample(range(nl), rng.randint(1, nl))))
    ops = []
    on = [True] * nh
    ps = [h["init"] for h in hosts]
    for _ in range(rng.randint(4, 24)):
        r = rng.random()
        h = rng.randrange(nh)
        if r < 0.25:
            ops.append(["sleep", num(rng, 0.05, 4, dy)])
        elif r < 0.55:
            speed = float(hosts[h]["pst"][ps[h]][0])
            ops.append(["exec", h, "%.6g" % (speed * float(num(rng, 0.1, 6, dy))), rng.choice([1, 1, 1, 2, 3, 8])])
        elif r < 0.67:
            ps[h] = rng.randrange(len(hosts[h]["pst"]))
            ops.append(["pstate", h, ps[h]])
        elif r < 0.75:
            ops.append(["off" if on[h] else "on", h])
            on[h] = not on[h]
        elif r < 0.87 and routes:
            i, j, ls = rng.choice(routes)
            bw = min(float(links[k][0]) for k in ls)
            if rng.random() < .5:
                i, j = j, i
            ops.append(["comm", i, j, int(bw * float(num(rng, 0.1, 4, dy)))])
        elif r < 0.95:
            ops.append(["query", h])
        elif links:
            ops.append(["lquery", rng.randrange(len(links))])
    return {"hosts": hosts, "links": links, "routes": routes, "ops": ops, "clean_links": clean}


def line_of(c):
    t = ["H", len(c["hosts"])]
    for h in c["hosts"]:
        t += [h["cores"], len(h["pst"])] + [x for p in h["pst"] for x in p] + [h["off"], h["init"]]
    t += ["L", len(c["links"])] + [x for l in c["links"] for x in l]
    t += ["R", len(c["routes"])]
    for i, j, ls in c["routes"]:
        t += [i, j, len(ls)] + list(ls)
    t += ["O", len(c["ops"])] + [x for op in c["ops"] for x in op]
    return " ".join(str(x) for x in t)


H2 = {"cores": 4, "pst": [("1e9", "100", "120", "200"), ("5e8", "90", "100", "150")], "off": "10", "init": 0}
H1 = {"cores": 1, "pst": [("1e9", "50", "60", "100")], "off": "5", "init": 0}
CORPUS = [
    {"hosts": [H2, H1], "links": [("1e8", "0.001", "10", "20"), ("1e7", "0.01", "1", "3")], "routes": [(0, 1, [0, 1])], "clean_links": False,
     "ops": [["exec", 0, "2e9", 1], ["sleep", "1"], ["exec", 0, "4e9", 2], ["pstate", 0, 1], ["query", 0], ["comm", 0, 1, 50000000],
             ["sleep", "2"], ["off", 1], ["sleep", "3"]]},
    {"hosts": [H2, H1], "links": [("1e8", "0", "10", "20")], "routes": [(0, 1, [0])], "clean_links": True,
     "ops": [["comm", 0, 1, 100000000], ["sleep", "0.5"], ["comm", 1, 0, 100000000], ["lquery", 0], ["sleep", "4"], ["lquery", 0]]},
    {"hosts": [H1], "links": [], "routes": [], "clean_links": True,
     "ops": [["sleep", "1"], ["off", 0], ["sleep", "2"], ["query", 0], ["on", 0], ["exec", 0, "3e9", 1], ["exec", 0, "1e9", 1], ["sleep", "1"], ["query", 0]]},
]


def run_driver(drv, lines):
    nw = max(1, min(fw.NCPU, len(lines) // 10))
    with concurrent.futures.ThreadPoolExecutor(nw) as ex:
        res = list(ex.map(lambda ch: fw.run_lines(drv, [], ch, timeout=1500), [lines[i::nw] for i in range(nw)]))
    out = [None] * len(lines)
    for w, (rc, o, err) in enumerate(res):
        for j, idx in enumerate(range(w, len(lines), nw)):
            out[idx] = o[j] if j < len(o) else "ERR driver rc=%d %s" % (rc, err[-200:])
    return out


def run(ctx):
    ctx.simgrid(["simgrid"])
    ctx.prove()
    drv = fw.build_harness("res_c23")
    if ctx.replay:
        cases = [json.load(open(ctx.replay))["case"]]
    else:
        cases = list(CORPUS) + [gen_case(ctx.rng) for _ in range(ctx.n(250, 5000))]
    lines = [line_of(c) for c in cases]
    outs = run_driver(drv, lines)
    hq, lq = [], []          # (case, what, ints) for the model
    dist = {"hosts": 0, "links": 0, "queries": 0, "clean_link_cases": 0, "time_advances": 0}
    for c, line, o in zip(cases, lines, outs):
        if o is None or o.startswith("ERR") or " ; G" not in o and not o.rstrip().endswith("G"):
            ctx.fail("driver", "res_c23 '%s' answered '%s'" % (line[:300], (o or "")[:200]), c)
            continue
        nh, nl = len(c["hosts"]), len(c["links"])
        hs = [[] for _ in range(nh)]
        ls = [[] for _ in range(nl)]
        hobs = [[] for _ in range(nh)]      # (clock, energy, number of samples so far)
        lobs = [[] for _ in range(nl)]
        for rec in o.split(" ; "):
            t = rec.split()
            if not t:
                continue
            if t[0] == "T":
                dist["time_advances"] += 1
                for i in range(nh):
                    hs[i].append((t[1], int(t[2 + 3 * i]), int(t[3 + 3 * i]), t[4 + 3 * i]))
                for k in range(nl):
                    ls[k].append((t[1], t[2 + 3 * nh + 2 * k], t[3 + 3 * nh + 2 * k]))
            elif t[0] == "Q":
                hobs[int(t[1])].append((t[2], t[3], len(hs[int(t[1])])))
            elif t[0] == "K":
                lobs[int(t[1])].append((t[2], t[3], len(ls[int(t[1])])))
            elif t[0] == "E":
                for i in range(nh):
                    hobs[i].append(("end", t[1 + i], len(hs[i])))
            elif t[0] == "G":
                for k in range(nl):
                    lobs[k].append(("end", t[1 + k], len(ls[k])))
        states = set()
        for i, h in enumerate(c["hosts"]):
            dist["hosts"] += 1
            prev = -1.0
            for clock, en, n in hobs[i]:
                dist["queries"] += 1
                if float(en) < prev:
                    ctx.fail("host-energy-decreases", "host %d: energy %s at %s after %.17g (%s)" % (i, en, clock, prev, line[:300]), c)
                prev = float(en)
                ints = fq(en) + fq(h["off"]) + [h["cores"], len(h["pst"])] + [x for p in h["pst"] for v in p for x in fq(v)] + \
                    [h["init"], n] + [x for dt, on, ps, load in hs[i][:n] for x in fq(dt) + [on, ps] + fq(load)]
                hq.append((c, "host %d at %s: reported %s J" % (i, clock, en), ints, line))
            states |= set((i, on, ps, float(load) > 0) for dt, on, ps, load in hs[i])
        for k, l in enumerate(c["links"]):
            dist["links"] += 1
            prev = -1.0
            for clock, en, n in lobs[k]:
                if float(en) < prev:
                    ctx.fail("link-energy-decreases", "link %d: energy %s at %s after %.17g (%s)" % (k, en, clock, prev, line[:300]), c)
                prev = float(en)
                ints = fq(en) + fq(l[2]) + fq(l[3]) + [n] + [x for dt, load, bw in ls[k][:n] for x in fq(dt) + fq(load) + fq(bw)]
                lq.append((c, "link %d at %s: reported %s J" % (k, clock, en), ints, line))
        dist["clean_link_cases"] += bool(c["clean_links"] and c["links"])
        ctx.case(line, len(states) >= 3, {"case": line[:400], "final": o.split(" ; ")[-2:]})
    mh = fw.run_model("c23", "run_c23_host", [x[2] for x in hq]) if hq else []
    ml = fw.run_model("c23", "run_c23_link", [x[2] for x in lq]) if lq else []
    for (c, what, _, line), m in zip(hq, mh):
        if len(m) != 5:
            ctx.mismatch("run_c23_host", "model rejected its input (%s)" % what, c)
        elif not m[0]:
            ctx.fail("host-energy-integral", "%s, integral of the sampled power %.17g J (%s)" % (what, m[1] / m[2], line[:400]), c)
        elif Fraction(m[1], m[2]) != Fraction(m[3], m[4]):
            ctx.mismatch("C23_integral instance", "update fold %s/%s differs from energy_spec %s/%s" % tuple(m[1:]), c)
    for (c, what, _, line), m in zip(lq, ml):
        if len(m) != 3:
            ctx.mismatch("run_c23_link", "model rejected its input (%s)" % what, c)
        elif not m[0]:
            ctx.fail("link-energy-integral" if c["clean_links"] else LINK_KNOWN,
                     "%s, integral of the sampled power %.17g J (%s)" % (what, m[1] / m[2], line[:400]), c)
    ctx.cov["rule"] = ("1..3 hosts (1..8 cores, 1..3 pstates, random idle/epsilon/max with epsilon <= max, random off power), controller "
                       "issuing 4..24 ops: async execs (1..8 threads), sleeps, pstate changes, off/on, host-to-host comms, energy queries; "
                       "half of the cases have zero-latency single-link routes. non-trivial = at least 3 distinct (host, on, pstate, busy) "
                       "states sampled; distinct = distinct driver lines")
    ctx.cov["input_distribution"] = dist
    ctx.assumptions += ["load/pstate/on-off sampled at Engine::on_time_advance are the values of the elapsed interval (no profile events)",
                        "energies compared with |impl - ref| <= 1e-8 * max(1, |ref|) (Coq function energy_close)",
                        "pstates of speed 0, VMs and ptasks are not generated; hosts without wattage_per_state are not generated"]


META = {
    "level": "proof",
    "text": "Coq theorems about the mirrored HostEnergy::update / get_current_watts_value: for every timeline of constant periods with update "
            "called at each change (seeing the new on/pstate and the old load) and any number of times in between, total_energy_ grows by "
            "exactly sum P(state_i, load_i)*duration_i (C23_integral); it never decreases for any call sequence (C23_monotone); P is the off "
            "power when off, idle when unloaded, epsilon + used-core-fraction*(max-epsilon) otherwise (C23_off/_idle/_busy); link updates "
            "integrate idle+(busy-idle)*load/bw (C23_link_integral). Tie/oracle on every run: generated workloads, energies reported by the "
            "plugins vs the extracted model folded over load/pstate/on-off sampled at every time advance; monotonicity checked on the reports.",
    "note": "That the plugins' signal subscriptions call update() at every change is wiring, judged by the oracle only. Known finding "
            + LINK_KNOWN + ": LinkEnergy::update charges the current load over the whole period since the last comm start/end on the link "
            "(latency phase, rate changes caused elsewhere). Trusted: Coq kernel, extraction, harness/res_c23.cpp, the generator.",
    "technique": "Coq proof (induction on the timeline, Q arithmetic) + extracted oracle on sampled implementation runs",
    "claimed": True,
}
