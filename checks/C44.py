"""C44 — unfolding set algebra (UDPOR EventSet / History / Configuration / UnfoldingEvent, xbt iter enumerators).

Proof  : coq/theories/Mc/Unfold.v models History::Iterator (worklist with an ARBITRARY pick function for the unordered_set
         order), get_all_events, get_all_maximal_events, in_history_of/related_to/conflicts_with, is_conflict_free,
         is_valid_configuration, is_maximal and variable_for_loop; Mc/UnfoldProofs.v proves them equal to their set-theoretic
         definitions on the causal order for every DAG of immediate causes and every pick function.
         subsets_iterator / powerset_iterator / maximal_subsets_iterator are judged by a verified oracle (enum_ok: the yielded
         sets are a permutation of a reference enumeration proved to be exactly the qualifying sets, without duplicates).
K / O  : harness/mc1_drv.cpp (mode unfold) builds random unfoldings (<= 15 events carrying real transitions) with the real
         classes and prints every answer; the extracted model gets the causes and the observed dependency matrix.
"""
import json
import fw
import C42 as T   # transition generator shared with C42


def gen_case(rng, maxn, maxm):
    n = rng.randint(1, maxn)
    actors = rng.sample([1, 2, 3, 4, 5], rng.randint(1, 4))
    nres = rng.choice([1, 2, 3])
    evs = []
    anc = []   # strict ancestors of each event
    for i in range(n):
        tr = T.gen_transition(rng, actors, nres)
        k = min(i, rng.choice([0, 1, 1, 1, 2, 2, 3]))
        pool = list(range(max(0, i - 6), i)) if rng.random() < 0.7 else list(range(i))
        causes = rng.sample(pool, min(k, len(pool)))
        # IMMEDIATE causes (UnfoldingEvent.hpp): drop a cause that is already an ancestor of another chosen cause
        causes = sorted(c for c in causes if not any(c in anc[d] for d in causes))
        a = set()
        for c in causes:
            a |= {c} | anc[c]
        anc.append(a)
        evs.append((tr, causes))
    # closure helper to aim at valid configurations
    def closure(s):
        s = set(s)
        todo = list(s)
        while todo:
            e = todo.pop()
            for c in evs[e][1]:
                if c not in s:
                    s.add(c)
                    todo.append(c)
        return s
    r = rng.random()
    if r < 0.4:
        S = closure(rng.sample(range(n), rng.randint(0, min(n, 3))))
    elif r < 0.5:
        S = set(range(n))
    else:
        S = set(rng.sample(range(n), rng.randint(0, n)))
    S = sorted(S)
    if len(S) > maxm:
        S = sorted(rng.sample(S, maxm))
    kmax = rng.choice([-1, -1, 0, 1, 2, 3])
    ksub = rng.randint(0, min(len(S) + 1, 5))
    nv = rng.randint(0, 4)
    sizes = [rng.choice([0, 1, 2, 3, 4]) if rng.random() < 0.15 else rng.randint(1, 4) for _ in range(nv)]
    return {"events": evs, "S": S, "kmax": kmax, "ksub": ksub, "sizes": sizes}


def to_line(c):
    v = [len(c["events"])]
    for tr, causes in c["events"]:
        v += list(tr) + [len(causes)] + list(causes)
    v += [len(c["S"])] + list(c["S"]) + [c["kmax"], c["ksub"], len(c["sizes"])] + list(c["sizes"])
    return v


class Rd:
    def __init__(self, v):
        self.v, self.i = v, 0

    def take(self, k):
        r = self.v[self.i:self.i + k]
        self.i += k
        return r

    def one(self):
        return self.take(1)[0]

    def lst(self):
        return self.take(self.one())


def parse_impl(line, c):
    n, m = len(c["events"]), len(c["S"])
    r = Rd([int(t) for t in line.split()])
    o = {}
    o["dep"] = r.take(n * n)
    o["conf"] = r.take(n * n)
    o["closure"] = r.lst()
    o["maximal"] = r.lst()
    o["seq"] = r.lst()
    o["valid"], o["cf"], o["ismax"], o["ctor"] = r.take(4)
    t = r.one()
    o["topo"] = None if t < 0 else r.take(t)
    o["maxsub"] = [sorted(r.lst()) for _ in range(r.one())]
    o["ksub"] = [sorted(r.take(c["ksub"])) for _ in range(r.one())]
    p = r.one()
    o["pow"] = None if p < 0 else [sorted(r.lst()) for _ in range(p)]
    o["vfl"] = [r.take(len(c["sizes"])) for _ in range(r.one())]
    assert r.i == len(r.v), "trailing output"
    return o


def model_sets_input(c, o, mode):
    n = len(c["events"])
    v = [n] + o["dep"]
    for _, causes in c["events"]:
        v += [len(causes)] + list(causes)
    return v + [mode, len(c["S"])] + list(c["S"])


def parse_model_sets(mv, n):
    r = Rd(mv)
    o = {"closure": sorted(r.lst()), "maximal": sorted(r.lst()), "seq": r.lst()}
    o["valid"], o["cf"], o["ismax"] = r.take(3)
    o["conf"] = r.take(n * n)
    return o


def flat_lists(ls):
    v = [len(ls)]
    for l in ls:
        v += [len(l)] + list(l)
    return v


CORPUS = [
    {"events": [([2, 1, 0, 0, 0, 0, 0], []), ([12, 1, 0, -1, 0, 0, 0], [0]), ([12, 2, 0, -1, 0, 0, 0], [0]),
                ([15, 1, 0, 1, 0, 0, 0], [1]), ([2, 3, 0, 0, 0, 0, 0], [])], "S": [0, 1, 3, 4], "kmax": 2, "ksub": 2, "sizes": [2, 3]},
    {"events": [([2, 1, 0, 0, 0, 0, 0], [])], "S": [], "kmax": -1, "ksub": 0, "sizes": []},
    {"events": [([8, 1, 1, 0, 0, 0, 0], []), ([8, 2, 2, 0, 0, 0, 0], []), ([7, 3, 3, 0, 0, 0, 0], [])], "S": [0, 1, 2], "kmax": -1,
     "ksub": 4, "sizes": [3, 0, 2]},
]


def run(ctx):
    ctx.simgrid(["simgrid"])
    ctx.prove()
    drv = fw.build_harness("mc1_drv", extra=["-std=gnu++20"])
    maxn, maxm = 15, ctx.n(11, 13)
    cases = list(CORPUS) + [gen_case(ctx.rng, maxn, maxm) for _ in range(ctx.n(400, 20000))]
    if ctx.replay:
        cases = [json.load(open(ctx.replay))["case"]["input"]]
    ctx.cov["rule"] = ("random unfoldings of 1..15 events carrying real transitions (same families as C42), 0..3 immediate causes each "
                       "among earlier events; S = closure of <=3 events (40%), all events (10%) or a random subset; max subset size "
                       "none/0..3; k-subsets with k in 0..5 (also k > |S|); 0..4 collections of size 0..4 for variable_for_loop. "
                       "non-trivial = the closure strictly contains S or S has a conflict or is not an antichain")
    lines = [" ".join(map(str, to_line(c))) for c in cases]
    rc, impl, err = fw.run_lines(drv, ["unfold"], lines)
    if rc != 0 or len(impl) != len(cases):
        bad = cases[len(impl)] if len(impl) < len(cases) else None
        ctx.fail("driver-crash", "mc1_drv unfold ended with rc=%d after %d/%d cases: %s" % (rc, len(impl), len(cases), err[-400:]),
                 {"input": bad})
        return
    obs = [parse_impl(l, c) for l, c in zip(impl, cases)]
    msets = [fw.run_model("c44", "run_c44_sets", [model_sets_input(c, o, mode) for c, o in zip(cases, obs)]) for mode in (0, 1, 2)]
    mvfl = fw.run_model("c44", "run_c44_vfl", [c["sizes"] for c in cases])
    ok_sub = fw.run_model("c44", "run_c44_enum_ok", [[0, c["ksub"], len(c["S"])] + flat_lists(o["ksub"]) for c, o in zip(cases, obs)])
    ok_pow = fw.run_model("c44", "run_c44_enum_ok", [[1, 0, len(c["S"])] + flat_lists(o["pow"] or []) for c, o in zip(cases, obs)])
    mx_in = []
    for c, o in zip(cases, obs):
        v = [len(c["events"])]
        for _, causes in c["events"]:
            v += [len(causes)] + list(causes)
        k = len(c["S"]) if c["kmax"] < 0 else c["kmax"]
        mx_in.append(v + [len(c["S"])] + list(c["S"]) + [k] + flat_lists(o["maxsub"]))
    ok_max = fw.run_model("c44", "run_c44_maxsub_ok", mx_in)
    dist = {"events": 0, "valid_configs": 0, "conflicting_sets": 0, "non_closed": 0, "maximal_sets_yielded": 0, "subsets_yielded": 0,
            "powersets_checked": 0, "tuples_yielded": 0}
    for ci, (c, o) in enumerate(zip(cases, obs)):
        n, S = len(c["events"]), c["S"]
        ms = [parse_model_sets(m[ci], n) for m in msets]
        for k in ("closure", "maximal", "valid", "cf", "ismax", "conf"):
            if ms[0][k] != ms[1][k] or ms[0][k] != ms[2][k]:
                ctx.mismatch("model-pick-dependence", "the model's %s depends on the pick function on %s" % (k, c), {"input": c})
        m0 = ms[0]
        nontriv = (set(m0["closure"]) != set(S)) or not m0["cf"] or not m0["ismax"]
        dist["events"] += n
        dist["valid_configs"] += m0["valid"]
        dist["conflicting_sets"] += 1 - m0["cf"]
        dist["non_closed"] += 1 if set(m0["closure"]) != set(S) else 0
        dist["maximal_sets_yielded"] += len(o["maxsub"])
        dist["subsets_yielded"] += len(o["ksub"])
        dist["tuples_yielded"] += len(o["vfl"])
        ctx.case(to_line(c), nontriv, {"S": S, "closure": o["closure"], "maximal": o["maximal"], "valid": o["valid"],
                                       "n_maximal_subsets": len(o["maxsub"])} if nontriv else None)
        case = {"input": c}

        def bad(sig, what):
            ctx.fail(sig, what + "; unfolding %s" % to_line(c), case)

        if sorted(o["closure"]) != m0["closure"]:
            bad("history-closure", "History(%s).get_all_events()=%s but the causal closure is %s" % (S, sorted(o["closure"]), m0["closure"]))
        if sorted(o["seq"]) != m0["closure"]:
            bad("history-iteration", "iterating History(%s) yields %s, expected each event of %s exactly once" % (S, o["seq"], m0["closure"]))
        if sorted(o["maximal"]) != m0["maximal"]:
            bad("maximal-events", "get_largest_maximal_subset(%s)=%s but the maximal events are %s" % (S, sorted(o["maximal"]), m0["maximal"]))
        if o["conf"] != m0["conf"]:
            d = [i for i in range(n * n) if o["conf"][i] != m0["conf"][i]][0]
            bad("conflict", "conflicts_with(%d,%d)=%d but the definition gives %d" % (d // n, d % n, o["conf"][d], m0["conf"][d]))
        if o["cf"] != m0["cf"]:
            bad("conflict-free", "is_conflict_free(%s)=%d, definition %d" % (S, o["cf"], m0["cf"]))
        if o["valid"] != m0["valid"] or o["ctor"] != m0["valid"]:
            bad("configuration", "is_valid_configuration(%s)=%d, Configuration ctor accepts=%d, but closed-and-conflict-free=%d"
                % (S, o["valid"], o["ctor"], m0["valid"]))
        if o["ismax"] != m0["ismax"]:
            bad("is-maximal", "is_maximal(%s)=%d, definition %d" % (S, o["ismax"], m0["ismax"]))
        # topological ordering: a permutation of S in which every event comes after its causes (oracle in python: the
        # property text does not constrain which of the valid orders is returned)
        if o["topo"] is None or sorted(o["topo"]) != sorted(S):
            bad("topological-order", "get_topological_ordering(%s)=%s is not a permutation of the set" % (S, o["topo"]))
        else:
            pos = {e: i for i, e in enumerate(o["topo"])}
            anc = {}
            for e in range(n):
                a = set()
                for cc in c["events"][e][1]:
                    a |= {cc} | anc[cc]
                anc[e] = a
            if any(x in pos and pos[x] > pos[e] for e in S for x in anc[e]):
                bad("topological-order", "get_topological_ordering(%s)=%s puts an event before one of its causes" % (S, o["topo"]))
        if c["ksub"] == 0:
            # convention of subsets_iterator::equal: a 0-subsets iterator equals its end iterator (the empty subset is produced
            # by powerset_iterator itself)
            if o["ksub"]:
                bad("subsets-iterator", "subsets_iterator(k=0) yields %d sets, its documented convention is none" % len(o["ksub"]))
        elif ok_sub[ci] != [1]:
            bad("subsets-iterator", "subsets_iterator(k=%d) over %d elements yields %s: not every k-subset exactly once"
                % (c["ksub"], len(S), o["ksub"][:20]))
        if o["pow"] is not None:
            dist["powersets_checked"] += 1
            if ok_pow[ci] != [1]:
                bad("powerset-iterator", "powerset_iterator over %d elements yields %d sets: not every subset exactly once" % (len(S), len(o["pow"])))
        if ok_max[ci] != [1]:
            bad("maximal-subsets-iterator", "maximal_subsets_iterator(%s, max size %s) yields %s: not every qualifying set exactly once"
                % (S, c["kmax"], o["maxsub"][:20]))
        mt = mvfl[ci]
        k = len(c["sizes"])
        mtuples = [mt[1 + i * k:1 + (i + 1) * k] for i in range(mt[0])]
        if sorted(o["vfl"]) != sorted(mtuples):
            bad("variable-for-loop", "variable_for_loop over sizes %s yields %d tuples %s, expected each of the %d tuples once"
                % (c["sizes"], len(o["vfl"]), o["vfl"][:10], len(mtuples)))
        elif o["vfl"] != mtuples:
            ctx.notes.append("variable_for_loop yields the tuples of %s in a non-lexicographic order (harmless)" % c["sizes"])
    ctx.cov["input_distribution"] = dist
    ctx.assumptions += ["is_dependent_with (Transition::dispatch_depends) is taken as data",
                        "events are created after their immediate causes (UnfoldingEvent's constructor takes existing events)",
                        "generated cause sets are IMMEDIATE causes as UnfoldingEvent.hpp defines them (no cause is an ancestor of another "
                        "cause of the same event); the Coq theorems do not need this, get_topological_ordering does",
                        "subsets_iterator with k=0 is an empty range by the explicit convention of its equal(); checked as such",
                        "Unfolding::insert's de-duplication, immediate conflicts, compute_alternative and the extension sets are not covered"]


META = {
    "level": "proof",
    "text": "Coq theorems for every DAG of immediate causes, every dependency relation and EVERY iteration order of the unordered_set "
            "(arbitrary pick function): History(S).get_all_events() is the causal closure of S and an iteration visits each of its events "
            "exactly once (C44_history_is_closure, C44_history_iteration_each_once); get_all_maximal_events/get_largest_maximal_subset/"
            "is_maximal are the non-dominated events / antichain test (C44_maximal_def, C44_is_maximal_iff_antichain); conflicts_with equals its "
            "definition on the causal order (C44_conflict_def); is_valid_configuration (what Configuration's constructor accepts) holds iff the set "
            "is causally closed and conflict-free (C44_config_iff_closed_conflict_free); variable_for_loop yields every tuple exactly once "
            "(C44_variable_for_loop_each_once). subsets_iterator, powerset_iterator and maximal_subsets_iterator are not modelled: each observed "
            "output is judged by a verified oracle whose acceptance implies 'every qualifying set exactly once' (C44_*_each_once_partial). "
            "Tie: random unfoldings (<= 15 events with real transitions) through the real classes vs. the extracted model under three different "
            "pick functions.",
    "note": "Trusted: Coq kernel, extraction (incl. the std-lib merge sort functor), mc1_drv.cpp, the generator and the python check of "
            "get_topological_ordering. Partial: the three subset iterators are oracle-checked per output, not proved as code. Not covered: "
            "Unfolding::insert, immediate conflicts, alternatives, extension sets, the configuration-relative History iterator.",
    "technique": "Coq proof (worklist invariant for an arbitrary pick function) + verified enumeration oracle + differential correspondence",
    "claimed": True,
}
